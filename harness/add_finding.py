"""Maintainer helper (never run by a check): append an OPEN finding to known_findings.json."""
import json, sys
from pathlib import Path
p = Path(__file__).resolve().parent.parent / "known_findings.json"
d = json.loads(p.read_text())
e = json.loads(sys.argv[1])
assert {"id", "property", "kind", "what"} <= set(e)
e.setdefault("fixed", False)
if not any(x.get("kind") == e["kind"] and x["property"] == e["property"] for x in d["findings"]):
    d["findings"].append(e)
    p.write_text(json.dumps(d, indent=1) + "\n")
    print("added", e["id"], e["property"], e["kind"])
