"""C05 -- composite curves and problem tables are faithful to the streams (DESIGN.md 8/C05)."""
from __future__ import annotations

from harness.lib import CaseFile, qlit
from harness.props import pinch_common as pc
from harness.props import c01

MODEL_TARGETS = c01.MODEL_TARGETS
ALLOWED_AXIOMS = []
HDR = c01.HDR
RULE = ("stage suite as C01 but judged on every column of the table (both scales): curves against exact stream heat contents at "
        "every row, interval widths, CP*dT = dH for the three column families, cumulative vs increment columns, net >= 0 and "
        "touching 0; end-to-end suite: the shifted and the real-temperature table of every zone after the whole pipeline (rows "
        "inserted by constant-enthalpy projection, pocket cutting and utility levels included; cells are rounded to 4 decimals by "
        "the pipeline so the slack is 1e-4*(1+total CP) absolute; get_process_heat_cascade is also called directly, unrounded, with 1e-9 slack) against the exact reference computed in Coq from the INPUT numbers, plus "
        "'real table reports the same Qh, Qc, Qr'; non-trivial = zone with both hot and cold streams and dt_cont > 0 somewhere "
        "(so the two scales differ), or a one-sided zone; distinct = distinct stream multiset")
ASSUMPTIONS = c01.ASSUMPTIONS + ["end-to-end tables are observed after the pipeline's own rounding to 4 decimals"]


def e2e_tables(ctx):
    n = ctx.budget(110, 1500)
    cf = CaseFile(ctx, "e2e_tables", HDR, shard=30)
    meta = []
    probs = [(dict(streams=[dict(zone="Z", name="h", t_supply=200.0, t_target=100.0, heat_flow=100.0, dt_cont=10.0, htc=1.0),
                            dict(zone="Z", name="c", t_supply=50.0, t_target=150.0, heat_flow=150.0, dt_cont=5.0, htc=1.0)],
                   utilities=[]), dict(zones=1, shapes=["D4"], regime="none"))]     # D4 witness shape: dt_cont > 0, overlapping
    # a zone with exactly 17 hot and 33 cold streams (block sizes, off-by-one in chunked sums)
    many = [dict(zone="Train", name=f"H{i}", t_supply=300.0 - 5.0 * i, t_target=120.0 - 5.0 * i, heat_flow=90.0 + 10.0 * i, dt_cont=5.0, htc=1.0) for i in range(17)]
    many += [dict(zone="Train", name=f"C{i}", t_supply=20.0 + 2.5 * i, t_target=150.0 + 2.5 * i, heat_flow=65.0 + 5.0 * i, dt_cont=5.0, htc=1.0) for i in range(33)]
    probs.append((dict(streams=many, utilities=[]), dict(zones=1, shapes=["17_hot_33_cold"], regime="none")))
    for _ in range(n):
        prob, m = pc.gen_problem(ctx.rng, nmax=6)
        if ctx.rng.random() < 0.3:
            # the tables must not depend on which optional analyses run after them (some of those work on views of the table columns)
            prob["options"] = {o: ctx.rng.random() < 0.6 for o in ("DO_VERTICAL_GCC", "DO_ASSITED_HT", "DO_BALANCED_CC", "DO_DIRECT_OPERATION_TARGETING")}
            m = dict(m, shapes=m["shapes"] + ["options"])
        probs.append((prob, m))
    for prob, m in probs:
        try:
            out, mz = pc.run_service(prob)
        except Exception as e:  # noqa: BLE001
            ctx.fail("service-raises", f"{type(e).__name__}: {e}", suite="e2e_tables", input=prob, predicate="service returns")
            continue
        for path, z in pc.walk_zones(mz):
            k = pc.di_key(z)
            if k is None:
                continue
            t = z.targets[k]
            xs = c01.zone_inputs(prob, z)
            try:
                cols, colsr = pc.table_cols(t.pt), pc.table_cols(t.pt_real)
            except Exception as e:  # noqa: BLE001
                ctx.fail("table-not-faithful", f"table column unreadable: {e}", suite="e2e_tables", input=prob, predicate="columns finite")
                continue
            cf.add(f"judge_c05_zone [{'; '.join(c01.coq_sin(s) for s in xs)}] (1 # 10000) {pc.coq_ptab(cols)} {pc.coq_ptab(colsr)}")
            meta.append((prob, k, xs, m, cols, colsr))
    res = cf.run()
    agree = bad = 0
    for (prob, k, xs, m, cols, colsr), v in zip(meta, res):
        ctx.evaluations += 1
        ctx.count(f"e2e_rows_{min(len(cols['T']) // 5 * 5, 40)}")
        ctx.nontrivial_case(("tab", k, tuple((s["t_supply"], s["t_target"], s["heat_flow"], s["dt_cont"]) for s in xs)))
        ctx.sample(dict(suite="e2e_tables", record=k, rows=len(cols["T"]), rows_real=len(colsr["T"])), limit=5)
        if v[0] == 0:
            agree += 1
        else:
            if bad < 3:
                which = "real" if v[-1] > 100 else "shifted"
                clause = {51: "curves vs stream heat contents / net>=0 / touches 0", 52: "rows strictly descending", 53: "interval widths",
                          54: "dH = CP*dT", 55: "real table reports the same Qh,Qc,Qr"}.get(v[-1] % 100, str(v))
                ctx.fail("table-not-faithful", f"record {k}, {which} table: {clause}", suite="e2e_tables",
                         input=dict(problem=prob, record=k, zone_streams=xs), impl_output=dict(pt=cols, pt_real=colsr),
                         predicate=f"judge_c05_zone verdict {v}")
            bad += 1
    ctx.suite("e2e_tables", cases=len(meta), agree=agree, property_false=bad, mismatch=0, fragile_skipped=0)


def full_cascade(streams, utilities):
    """get_process_heat_cascade exactly as compute_direct_integration_targets calls it (shifted, then real with the
    shifted heat recovery), on real Stream objects; tables are NOT display-rounded here."""
    from OpenPinch.classes import Stream, StreamCollection
    from OpenPinch.analysis.problem_table_analysis import get_process_heat_cascade, get_heat_recovery_target_from_pt
    hot, cold, allc = StreamCollection(), StreamCollection(), StreamCollection()
    for s in streams:
        o = Stream(s["name"], s["t_supply"], s["t_target"], dt_cont=s["dt_cont"], heat_flow=s["heat_flow"], htc=s["htc"])
        (hot if o.type == "Hot" else cold).add(o)
        allc.add(o)
    for u in utilities:
        allc.add(Stream(u["name"], u["t_supply"], u["t_target"], dt_cont=u["dt_cont"], heat_flow=0.0, htc=u["htc"], is_process_stream=False))
    pt = get_process_heat_cascade(hot_streams=hot, cold_streams=cold, all_streams=allc, is_shifted=True)
    ptr = get_process_heat_cascade(hot_streams=hot, cold_streams=cold, all_streams=allc, is_shifted=False,
                                   known_heat_recovery=get_heat_recovery_target_from_pt(pt))
    v = lambda sh: ([pc.view_of(o, sh) for o in hot], [pc.view_of(o, sh) for o in cold])  # noqa: E731
    return v(True), v(False), pt, ptr


def cascade_suite(ctx):
    n = ctx.budget(250, 4000)
    cases = [(ss, uts) for ss, uts in c01.CORPUS_STAGE]
    cases.append(([dict(zone="Z", name="h", t_supply=200.0, t_target=100.0, heat_flow=100.0, dt_cont=10.0, htc=1.0),
                   dict(zone="Z", name="c", t_supply=50.0, t_target=150.0, heat_flow=150.0, dt_cont=5.0, htc=1.0)], []))   # D4 witness
    for _ in range(n):
        ss, _ = pc.gen_streams(ctx.rng, nmax=8)
        uts, _ = pc.gen_utilities(ctx.rng)
        cases.append((ss, uts))
    cf = CaseFile(ctx, "cascade", HDR, shard=30)
    obs = []
    for ss, uts in cases:
        (hs, cs), (hr, cr), pt, ptr = full_cascade(ss, uts)
        cols, colsr = pc.table_cols(pt), pc.table_cols(ptr)
        obs.append((cols, colsr, hs, cs))
        cf.add(f"judge_c05_cascade {pc.coq_views(hs)} {pc.coq_views(cs)} {pc.coq_views(hr)} {pc.coq_views(cr)} {pc.coq_ptab(cols)} {pc.coq_ptab(colsr)}")
    agree = bad = 0
    for (ss, uts), (cols, colsr, hs, cs), v in zip(cases, obs, cf.run()):
        ctx.evaluations += 1
        ctx.count("cascade_projection_rows" if len(cols["T"]) > len({round(x, 6) for v_ in hs + cs for x in v_[:2]} | {0}) else "cascade_plain")
        if hs and cs and any(s["dt_cont"] > 0 for s in ss):
            ctx.nontrivial_case(("casc", tuple(sorted(hs)), tuple(sorted(cs))))
        if v[0] == 0:
            agree += 1
        else:
            if bad < 3:
                which = "real" if v[-1] > 100 else "shifted"
                ctx.fail("table-not-faithful", f"get_process_heat_cascade, {which} table, clause {v[-1] % 100}", suite="cascade",
                         input=dict(streams=ss, utilities=uts), impl_output=dict(pt=cols, pt_real=colsr), predicate=f"judge_c05_cascade {v}")
            bad += 1
    ctx.suite("cascade", cases=len(cases), agree=agree, property_false=bad, mismatch=0, fragile_skipped=0)


def run(ctx):
    c01.stage_suite(ctx, judge="judge_stage")
    cascade_suite(ctx)
    e2e_tables(ctx)


def replay(ctx, data):
    import json
    inp = data["input"]
    if data.get("suite") == "stage":
        st = pc.build_stage(inp["streams"], inp["utilities"], inp["shifted"])
        cf = CaseFile(ctx, "replay", HDR)
        cf.add(f"judge_stage {pc.coq_views(st['hot'])} {pc.coq_views(st['cold'])} {pc.coq_views(st['extra'])} {pc.coq_ptab(pc.table_cols(st['pt']))}")
        print(json.dumps(dict(verdict=cf.run()[0], impl_table=pc.table_cols(st["pt"])), indent=1))
    else:
        out, mz = pc.run_service(inp["problem"])
        for path, z in pc.walk_zones(mz):
            k = pc.di_key(z)
            if k == inp["record"]:
                print(json.dumps(dict(pt=pc.table_cols(z.targets[k].pt), pt_real=pc.table_cols(z.targets[k].pt_real)), indent=1))
