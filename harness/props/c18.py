"""C18 -- solved heat-pump cycles obey the first and second laws (DESIGN.md section 8, C18).

Suites
  cycle   SimpleHeatPumpCycle.solve + metrics + build_stream_collection on (fluid, Te, Tc, superheat, subcooling,
          efficiency, duty, request sequence).  For every case the harness asks CoolProp ITSELF (fresh AbstractState per
          query) for the library answers at the query points of `solve`/the profiles and hands them to Coq as a table;
          coqc (model/HeatPump.v judge_cycle) evaluates the property predicate on the implementation's outputs, the
          instances of the library hypotheses of the second-law theorems, and then runs the model on the table and
          compares every state point, metric and emitted stream.
  carnot  the first-law bookkeeping of _get_optimal_min_evap_T_for_multi_temperature_carnot_hp.
"""
from __future__ import annotations

import math
import os

from harness.lib import CaseFile, F, coq_bool, qlit, qlist

MODEL_TARGETS = ["model/HeatPump.vo"]
ALLOWED_AXIOMS = []
RULE = ("cycle suite: fluid x (Te on a 1/8 K grid inside [max(Ttriple,Tmin)+1, Tcrit-1] degC, half of the points in the practical "
        "band -40..150 degC; lift from {0.5,1,2,3,4.5,5,6,10,20,40,70} K cut to the range) x superheat {0,0,2.5,5,10} x "
        "subcooling {0,0,2.5,5} x efficiency {0.5,0.625,0.75,0.875,1} x duty {1,2.5,100,1000}, no internal exchanger, and a "
        "request sequence of 2..6 build_stream_collection calls (none/cond/evap/both, random order, both sides present); "
        "quick: 13 fluids x 20 points, thorough: every CoolProp fluid with a two-phase range x 100 points; a case is "
        "non-trivial when the cycle is solved, both sides are requested and the sequence has >= 2 requests; "
        "distinct = distinct (fluid, operating point, request sequence). carnot suite: random descending cascades, 1-3 levels "
        "per side, both limiting branches")
ASSUMPTIONS = [
    "the property library (CoolProp 8) is not modelled: the second-law, throttle-entropy and saturation-pressure theorems hold "
    "for every library satisfying LibHyps (proofs/HeatPumpLaws.v): answers depend on the value of the arguments; read-back "
    "of supplied p/h; PS flash at a PT state's own (p,s) returns its h; HP flash of a PS result returns s; HP flash at a PT "
    "state's own (p,h) returns its s; s(p,h) non-decreasing in h; h(p,s) non-decreasing in p (strict for positive work, with "
    "strictly increasing psat(T)); s(p,h) non-increasing in p. Instances of these (and: a PT flash more than 1 mK off the saturation line returns the right phase) are checked to 1e-7 relative on every sampled state; a case where a clause is false AND an instance that clause rests on is false is skipped and counted as a library inconsistency (about 1 % of the thorough tier, exotic fluids at p < 1 Pa and pseudo-pure blends)",
    "the library table given to the model is obtained from a fresh AbstractState per query (PT flash with the code's PQ fallback); "
    "that this equals what the implementation's reused AbstractState returns is checked (state points agree to 1e-9), not proved",
    "saturation pressure of the requested temperature = CoolProp PropsSI('P','T',T,'Q',1) (dew pressure for pseudo-pure blends)",
    "IEEE rounding of the implementation versus exact rationals is not proved: model and implementation are compared to 1e-9 relative; "
    "the predicate uses 1e-9 for pure float arithmetic (balance, COP relation, request order) and 1e-6 relative (eps_lib) for clauses that "
    "pass through CoolProp's iterative flashes (entropy inequalities, isenthalpic throttle, saturation pressures, stream duties, monotone supplies)",
    "cycles on which CoolProp raises inside solve are outside the quantifier ('every cycle the library solves'); they are counted",
    "trans-critical condenser profiles (p_cond >= p_crit, piecewise linearisation) are outside the quantifier (Tc inside the two-phase range)",
]
TRUSTED = ["CoolProp 8 as an oracle for state properties (LibHyps instances checked numerically per case)",
           "translator/gen_heatpump.py (273.15, 1000, IHX floor/margin, phase-change window and nudge read from simple_heat_pump.py)"]
HDR = ("From OP Require Import gen.Consts gen.HeatPumpConsts model.Base model.HeatPump.\n"
       "Require Import Coq.QArith.QArith.\nLocal Open Scope Q_scope.")

QUICK_FLUIDS = ["Water", "Ammonia", "R134a", "R1234yf", "n-Propane", "IsoButane", "CarbonDioxide", "R32", "R245fa",
                "n-Pentane", "Ethanol", "R22", "R1233zd(E)"]
LIFTS = [0.5, 1.0, 2.0, 3.0, 4.5, 5.0, 6.0, 10.0, 20.0, 40.0, 70.0]
REQS = ["none", "cond", "evap", "both"]
RCOQ = {"none": "RNone", "cond": "RCond", "evap": "REvap", "both": "RBoth"}
CLAUSE = {1: "first-law", 2: "work-positive", 3: "cop-relation", 4: "compression-entropy", 5: "throttle-entropy",
          6: "throttle-enthalpy", 7: "evaporator-pressure", 8: "condenser-pressure", 9: "condenser-stream-duty",
          10: "evaporator-stream-duty", 11: "hot-streams-monotone", 12: "cold-streams-monotone", 13: "request-order",
          14: "duty-is-massflow-times-dh"}
HYP = {21: "ps_own", 22: "h_incr_p", 23: "ph_of_ps", 24: "s_incr_h", 25: "ph_own", 26: "s_decr_p", 27: "readback_p_evap", 28: "readback_p_cond",
       29: "readback_h_s", 30: "pt_phase_off_saturation", -1: "not-evaluable"}
KIND_LIQ = "saturated-outlet-liquid-root"
KIND_VAP = "saturated-outlet-vapour-root"
KIND_NOREFR = "evaporator-inlet-not-two-phase"


# ------------------------------------------------------------------ fluids and operating points
_RANGE = {}


def fluid_range(fl):
    """(lo, hi) in degC of usable saturation temperatures, or None."""
    if fl in _RANGE:
        return _RANGE[fl]
    import CoolProp.CoolProp as CP
    r = None
    try:
        tt, tc, tm = CP.PropsSI("Ttriple", fl), CP.PropsSI("Tcrit", fl), CP.PropsSI("Tmin", fl)
        lo, hi = max(tt, tm) - 273.15 + 1.0, tc - 273.15 - 1.0
        if hi - lo > 5.0 and math.isfinite(CP.PropsSI("P", "T", 0.5 * (lo + hi) + 273.15, "Q", 1, fl)):
            r = (lo, hi)
    except Exception:  # noqa: BLE001
        r = None
    _RANGE[fl] = r
    return r


def grid8(x, up=False):
    return (math.ceil(x * 8) if up else math.floor(x * 8)) / 8.0


def gen_case(rng, fl, with_history=True):
    lo, hi = fluid_range(fl)
    for _ in range(50):
        if rng.random() < 0.5 and min(hi - 40, 150) - max(lo, -40) > 10:
            te = rng.uniform(max(lo, -40.0), min(hi - 40.0, 150.0))
        else:
            te = rng.uniform(lo, hi - 1.0)
        te = grid8(te, up=True)
        tc = te + rng.choice(LIFTS)
        if tc > hi:
            tc = grid8(hi)
        if tc - te < 0.25:
            continue
        seq = [rng.choice(REQS) for _ in range(rng.randint(1, 4))]
        if not any(r in ("cond", "both") for r in seq):
            seq.insert(rng.randint(0, len(seq)), "cond")
        if not any(r in ("evap", "both") for r in seq):
            seq.insert(rng.randint(0, len(seq)), "evap")
        c = dict(fluid=fl, Te=te, Tc=tc, sh=rng.choice([0.0, 0.0, 2.5, 5.0, 10.0]), sc=rng.choice([0.0, 0.0, 2.5, 5.0]),
                 eta=rng.choice([0.5, 0.625, 0.75, 0.875, 1.0]), Q=rng.choice([1.0, 2.5, 100.0, 1000.0]), reqs=seq)
        if with_history and rng.random() < 0.35:
            # the object has a history: it was solved for another operating point of the same fluid and asked for its streams before;
            # the answer for THIS operating point must not depend on that (keep: re-solved with refrigerant=None = keep the loaded fluid)
            pre = gen_case(rng, fl, with_history=False)
            if pre is not None:
                c["pre"] = dict(Te=pre["Te"], Tc=pre["Tc"], sh=pre["sh"], sc=pre["sc"], eta=pre["eta"], Q=pre["Q"], keep=rng.random() < 0.7)
        return c
    return None


CORPUS = [
    # D12 (fixed 8aa2013): the evaporator-only request must carry Q_evap, not 1000 x; any order gives the same streams
    dict(fluid="R134a", Te=10.0, Tc=60.0, sh=5.0, sc=2.5, eta=0.75, Q=100.0, reqs=["evap"]),
    dict(fluid="R134a", Te=10.0, Tc=60.0, sh=5.0, sc=2.5, eta=0.75, Q=100.0, reqs=["cond", "evap"]),
    dict(fluid="R134a", Te=10.0, Tc=60.0, sh=0.0, sc=0.0, eta=0.75, Q=100.0, reqs=["evap", "cond", "evap", "both", "none", "cond"]),
    dict(fluid="Ammonia", Te=-5.0, Tc=35.0, sh=2.5, sc=0.0, eta=1.0, Q=1.0, reqs=["evap", "both", "evap"]),
    dict(fluid="R134a", Te=10.0, Tc=60.0, sh=5.0, sc=2.5, eta=0.75, Q=250.0, reqs=["cond", "evap"],
         pre=dict(Te=0.0, Tc=35.0, sh=0.0, sc=0.0, eta=0.625, Q=100.0, keep=True)),          # object re-used for a second operating point
    # a zeotropic pseudo-pure blend with subcooling smaller than its glide, condensing at 80 degC (the PT flash at the condenser outlet fails
    # and the saturated-LIQUID fallback is used)
    dict(fluid="R407C", Te=40.0, Tc=80.0, sh=5.0, sc=2.0, eta=0.75, Q=1000.0, reqs=["both", "cond"]),
    # D27 (fixed fb8f317): lift under 5 K with no internal exchanger requested: COP_h = COP_r + 1
    dict(fluid="R134a", Te=10.0, Tc=13.0, sh=0.0, sc=0.0, eta=0.75, Q=1.0, reqs=["both"]),
    dict(fluid="R134a", Te=10.0, Tc=13.0, sh=2.5, sc=0.0, eta=0.5, Q=2.5, reqs=["cond", "evap"]),
    dict(fluid="n-Propane", Te=0.0, Tc=4.5, sh=5.0, sc=2.5, eta=0.625, Q=100.0, reqs=["evap", "cond"]),
    dict(fluid="Water", Te=60.0, Tc=62.0, sh=5.0, sc=0.0, eta=0.875, Q=1.0, reqs=["both", "evap"]),
    dict(fluid="CarbonDioxide", Te=-10.0, Tc=-9.5, sh=2.5, sc=0.0, eta=1.0, Q=1.0, reqs=["cond", "both"]),
    # deterministic witnesses of the open findings (so that their KNOWN-FINDING lines appear on every run)
    dict(fluid="Water", Te=6.5, Tc=46.5, sh=0.0, sc=5.0, eta=1.0, Q=1.0, reqs=["both"]),                  # D35  saturated-outlet-liquid-root
    dict(fluid="Propyne", Te=1.25, Tc=7.25, sh=5.0, sc=0.0, eta=0.75, Q=1.0, reqs=["both"]),              # D35b saturated-outlet-vapour-root
    dict(fluid="n-Hexane", Te=173.625, Tc=233.625, sh=5.0, sc=0.0, eta=0.75, Q=1.0, reqs=["both"]),       # D50  evaporator-inlet-not-two-phase
]


# ------------------------------------------------------------------ implementation
def run_impl(c):
    """Observed outputs of the real class, or dict(raised=...)."""
    from OpenPinch.classes import SimpleHeatPumpCycle
    hp = SimpleHeatPumpCycle()
    fluid = c["fluid"]
    if c.get("pre"):
        pre = c["pre"]
        try:
            hp.solve(pre["Te"], pre["Tc"], dT_sh=pre["sh"], dT_sc=pre["sc"], eta_comp=pre["eta"], refrigerant=c["fluid"],
                     ihx_gas_dt=0.0, Q_h_total=pre["Q"])
            hp.build_stream_collection(include_cond=True, include_evap=True)
            if pre.get("keep"):
                fluid = None
        except Exception:  # noqa: BLE001   (the earlier operating point is only history; its own failures are judged when it is a case)
            hp = SimpleHeatPumpCycle()
    try:
        hp.solve(c["Te"], c["Tc"], dT_sh=c["sh"], dT_sc=c["sc"], eta_comp=c["eta"], refrigerant=fluid,
                 ihx_gas_dt=0.0, Q_h_total=c["Q"])
    except Exception as e:  # noqa: BLE001
        return dict(raised=f"solve: {type(e).__name__}: {str(e)[:80]}")
    try:
        o = dict(H=[float(x) for x in hp.Hs], S=[float(x) for x in hp.Ss], P=[float(x) for x in hp.Ps], T=[float(x) for x in hp.Ts],
                 Qc=float(hp.Q_cond), Qe=float(hp.Q_evap), W=float(hp.work), w=float(hp.w_net), qe=float(hp.q_evap),
                 coph=float(hp.COP_h), copr=float(hp.COP_r))
    except ZeroDivisionError as e:
        return dict(raised=f"metrics: ZeroDivisionError: {e}")
    em = []
    for r in c["reqs"]:
        try:
            coll = hp.build_stream_collection(include_cond=r in ("cond", "both"), include_evap=r in ("evap", "both"))
        except Exception as e:  # noqa: BLE001
            return dict(raised=f"build_stream_collection({r}): {type(e).__name__}: {str(e)[:80]}", partial=o)
        cs, es = {}, {}
        for s in coll:
            side, idx = s.name.rsplit("_", 1)
            (cs if side == "Condenser" else es)[int(idx)] = (float(s.t_supply), float(s.t_target), float(s.heat_flow))
        em.append(([cs[k] for k in sorted(cs)], [es[k] for k in sorted(es)]))
    o["em"] = em
    flat = o["H"] + o["S"] + o["P"] + o["T"] + [o[k] for k in ("Qc", "Qe", "W", "w", "qe", "coph", "copr")] + \
        [x for cs, es in em for g in cs + es for x in g]
    if not all(math.isfinite(x) for x in flat):
        return dict(raised="non-finite output", partial=o)
    return o


# ------------------------------------------------------------------ library oracle (independent CoolProp queries)
class Oracle:
    def __init__(self, fl):
        self.fl = fl
        self.log = []     # (kind, a, b, c, (h, s, p, T))

    def _st(self):
        import CoolProp
        return CoolProp.AbstractState("HEOS", self.fl)

    @staticmethod
    def _read(s):
        return (float(s.hmass()), float(s.smass()), float(s.p()), float(s.T()))

    def psat(self, T):
        import CoolProp
        s = self._st()
        s.update(CoolProp.QT_INPUTS, 1.0, T)
        p = float(s.p())
        self.log.append((0, T, 0.0, 0.0, (0.0, 0.0, p, 0.0)))
        return p

    def pT(self, q, p, T):
        import CoolProp
        s = self._st()
        if q < 0:
            s.update(CoolProp.PT_INPUTS, p, T)
        else:
            try:
                s.update(CoolProp.PT_INPUTS, p, T)
            except Exception:  # noqa: BLE001   (the code's bare except)
                s.update(CoolProp.PQ_INPUTS, p, q)
        r = self._read(s)
        self.log.append((1, q, p, T, r))
        return r

    def ps(self, p, sm):
        import CoolProp
        s = self._st()
        s.update(CoolProp.PSmass_INPUTS, p, sm)
        r = self._read(s)
        self.log.append((2, p, sm, 0.0, r))
        return r

    def ph(self, p, h):
        import CoolProp
        s = self._st()
        s.update(CoolProp.HmassP_INPUTS, h, p)
        r = self._read(s)
        self.log.append((3, p, h, 0.0, r))
        return r

    def pq(self, p, q):
        import CoolProp
        s = self._st()
        s.update(CoolProp.PQ_INPUTS, p, q)
        r = self._read(s)
        self.log.append((4, p, q, 0.0, r))
        return r


def oracle_log(c, o):
    """Library answers at the query points of solve / profiles (harness mirror of the call sequence; the model does its
    own lookups, a wrong mirror makes lookups miss = reported mismatch) and at the points of the hypothesis instances."""
    orc = Oracle(c["fluid"])
    K = 273.15
    teK, tcK = c["Te"] + K, c["Tc"] + K
    p0, p2 = orc.psat(teK), orc.psat(tcK)
    T0, T2 = teK + c["sh"], tcK - c["sc"]
    st0 = orc.pT(1.0, p0, T0)
    sis = orc.ps(p2, st0[1])
    h1 = st0[0] + (sis[0] - st0[0]) / c["eta"]
    st1 = orc.ph(p2, h1)
    st2 = orc.pT(0.0, p2, T2)
    if st2[0] > st0[0]:
        sx = orc.ph(p2, st0[0])
        st2 = orc.pT(-1.0, p2, sx[3] - c["sc"])
    orc.ph(p0, st2[0] - 0.0)
    for p in {st1[2], o["P"][1]}:
        orc.pq(p, 1.0)
        orc.pq(p, 0.0)
    for p in {st0[2], o["P"][0]}:
        orc.pq(p, 1.0)
        orc.pq(p, 0.0)
    hyps = True
    try:   # query points of the LibHyps instances (hyp_clauses), at the oracle's own states
        orc.ps(p0, st0[1])
        orc.ph(p2, sis[0])
        orc.ph(p2, st2[0])
    except Exception:  # noqa: BLE001
        hyps = False
    return orc.log, hyps


def pcrit_of(fl):
    import CoolProp.CoolProp as CP
    return float(CP.PropsSI("Pcrit", fl))


def psat_indep(fl, T):
    import CoolProp.CoolProp as CP
    return float(CP.PropsSI("P", "T", T, "Q", 1, fl))


# ------------------------------------------------------------------ Coq terms
def coq_fstate(r):
    return "(mkF " + " ".join(qlit(x) for x in r) + ")"


def coq_seglist(gs):
    return "[" + "; ".join("(mkSeg " + " ".join(qlit(x) for x in g) + ")" for g in gs) + "]"


def cycle_expr(c, o, log, hyps, pe, pc):
    ents = "[" + "; ".join(f"(mkE {k}%Z {qlit(a)} {qlit(b)} {qlit(cc)} {coq_fstate(r)})" for k, a, b, cc, r in log) + "]"
    obs = ("(mkObs " + " ".join(qlist(o[k]) for k in ("H", "S", "P", "T")) + " "
           + " ".join(qlit(o[k]) for k in ("Qc", "Qe", "W", "w", "qe", "coph", "copr")) + ")")
    reqs = "[" + "; ".join(RCOQ[r] for r in c["reqs"]) + "]"
    ems = "[" + "; ".join(f"({coq_seglist(cs)}, {coq_seglist(es)})" for cs, es in o["em"]) + "]"
    nums = " ".join(qlit(c[k]) for k in ("Te", "Tc", "sh", "sc", "eta", "Q"))
    return f"judge_cycle {qlit(o['pcrit'])} {ents} {coq_bool(hyps)} {nums} {qlit(pe)} {qlit(pc)} {obs} {reqs} {ems}"


def judge_cycles(ctx, cases, suite):
    """Returns for each case (verdict | None, observation, note)."""
    cf = CaseFile(ctx, suite, HDR, shard=(40 if ctx.thorough else 18))
    out, idx = [], []
    for c in cases:
        o = run_impl(c)
        if "raised" in o:
            out.append([None, o, o["raised"]])
            continue
        try:
            log, hyps = oracle_log(c, o)
            pe, pc = psat_indep(c["fluid"], c["Te"] + 273.15), psat_indep(c["fluid"], c["Tc"] + 273.15)
        except Exception as e:  # noqa: BLE001
            out.append([None, o, f"oracle: {type(e).__name__}: {str(e)[:80]}"])
            continue
        o["hyps_checked"] = hyps
        o["pcrit"] = pcrit_of(c["fluid"])
        o["psat"] = (pe, pc)
        out.append([None, o, None])
        idx.append(len(out) - 1)
        cf.add(cycle_expr(c, o, log, hyps, pe, pc))
    for i, v in zip(idx, cf.run()):
        out[i][0] = v
    return out


def kind_of(v):
    if v[0] == 2:
        return "hp-model-mismatch"
    k, flags = v[1], (v[2] if len(v) > 2 else 0)
    if flags & 1:
        return KIND_LIQ
    if flags & 2:
        return KIND_VAP
    if flags & 4:
        return KIND_NOREFR
    return "hp-" + CLAUSE.get(k, f"clause-{k}")


def describe(v):
    if v[0] == 2:
        return f"model and implementation differ at position {v[1]} (1-16 state points H,S,P,T; 17-21 Q_cond,Q_evap,work,w_net,q_evap; 22-23 COPs; 30+k emission k; 90 model error)"
    k = v[1]
    allk = v[3:] if len(v) > 3 else [k]
    return "property clause(s) " + ", ".join(f"{j} ({CLAUSE.get(j, '?')})" for j in allk) + " false on the implementation's output"


def shrink_case(ctx, c, v):
    """Fewer requests, unit duty, no subcooling / ideal compressor -- as long as the same clause (and trigger) fails."""
    sig = tuple(v)       # same verdict: same first failing clause, same trigger flags, same set of failing clauses

    def fails(cands):
        rr = judge_cycles(ctx, cands, "cycle_shrink")
        return [(vv is not None and tuple(vv) == sig) for vv, _, _ in rr]
    changed = True
    rounds = 0
    while changed and rounds < 6:
        changed = False
        rounds += 1
        cands = [dict(c, reqs=c["reqs"][:i] + c["reqs"][i + 1:]) for i in range(len(c["reqs"])) if len(c["reqs"]) > 1]
        for key, val in (("Q", 1.0), ("eta", 1.0), ("sc", 0.0)):
            if c[key] != val:
                cands.append(dict(c, **{key: val}))
        if not cands:
            break
        for cand, bad in zip(cands, fails(cands)):
            if bad:
                c, changed = cand, True
                break
    return c


def public(o):
    return {k: o[k] for k in ("H", "S", "P", "T", "Qc", "Qe", "W", "w", "qe", "coph", "copr", "em", "psat") if k in o}


def cycle_suite(ctx):
    import CoolProp.CoolProp as CP
    if ctx.thorough:
        fluids = [f for f in sorted(CP.FluidsList()) if fluid_range(f)]
    else:
        fluids = [f for f in QUICK_FLUIDS if fluid_range(f)]
    if os.environ.get("VERIF_C18_FLUIDS"):      # development aid: restrict the fluid list
        fluids = [f for f in os.environ["VERIF_C18_FLUIDS"].split(",") if fluid_range(f)]
    per = ctx.budget(20, 100)
    cases = [dict(c) for c in CORPUS]
    for fl in fluids:
        for _ in range(per):
            c = gen_case(ctx.rng, fl)
            if c:
                cases.append(c)
    ctx.extra["cycle_fluids"] = len(fluids)
    res = judge_cycles(ctx, cases, "cycle")
    agree = mism = bad = frag = raised = 0
    seen_kind = {}
    for c, (v, o, note) in zip(cases, res):
        ctx.evaluations += 1
        lift = c["Tc"] - c["Te"]
        ctx.count("lift_lt_5" if lift < 5 else "lift_ge_5")
        ctx.count("object_with_history" if c.get("pre") else "fresh_object")
        ctx.count(f"sh0={c['sh'] == 0},sc0={c['sc'] == 0}")
        if v is None:
            raised += 1
            ctx.count("unsolved:" + note.split(":")[0] + (":" + note.split(":")[1].strip() if note.count(":") else ""))
            continue
        if len(c["reqs"]) >= 2:
            ctx.nontrivial_case((c["fluid"], c["Te"], c["Tc"], c["sh"], c["sc"], c["eta"], c["Q"], tuple(c["reqs"])))
        ctx.sample(dict(suite="cycle", case=c, Q_evap=o["Qe"], work=o["W"], COP_h=o["coph"], COP_r=o["copr"], Hs=o["H"], Ss=o["S"],
                        Ps=o["P"], psat=o["psat"], first_emission=o["em"][0]))
        if v[0] == 0:
            agree += 1
            kh = v[1] if len(v) > 1 else 0
            ctx.count("libhyps_all_instances_hold" if kh == 0 else ("libhyps_not_evaluable" if kh < 0 else f"libhyps_instance_false:{HYP.get(kh, kh)}"))
            continue
        if v[0] == 1:
            frag += 1
            if len(v) > 2:
                ctx.count(f"skipped_library_inconsistent:{HYP.get(v[1], 'not-evaluable')}:clause-{CLAUSE.get(v[2], v[2])}")
            else:
                ctx.count("fragile_phase_change_window")
            continue
        kind = kind_of(v)
        ctx.count("fail:" + kind)
        if v[0] == 2:
            mism += 1
        else:
            bad += 1
        n = seen_kind.get(kind, 0)
        seen_kind[kind] = n + 1
        if n >= 1:          # shrink and fully report the first case of each kind; count the rest
            continue
        c2 = shrink_case(ctx, c, v)
        (v2, o2, note2), = judge_cycles(ctx, [c2], "cycle_final")
        if v2 is None or v2[0] not in (2, 3):
            c2, v2, o2 = c, v, o
        ctx.fail(kind_of(v2), describe(v2) + f" [{c2['fluid']} Te={c2['Te']} Tc={c2['Tc']} dT_sh={c2['sh']} dT_sc={c2['sc']} eta={c2['eta']}]",
                 input=c2, impl_output=public(o2), suite="cycle", verdict=v2,
                 predicate="P_clauses (model/HeatPump.v): first law, work>0, COP_h=COP_r+1, compression/throttle entropy, isenthalpic throttle, "
                           "saturation pressures, stream duties, monotone, request order, duties = m*dh; then LibHyps instances; then model = implementation")
    ctx.suite("cycle", cases=len(cases), agree=agree, mismatch=mism, property_false=bad, fragile_skipped=frag, unsolved_by_library=raised)


# ------------------------------------------------------------------ Carnot bookkeeping
def gen_carnot(rng):
    n_h, n_c = rng.randint(3, 6), rng.randint(3, 6)
    th = sorted({rng.randrange(10, 90) + rng.choice([0.0, 0.5]) for _ in range(n_h)}, reverse=True)
    tcold = sorted({rng.randrange(95, 180) + rng.choice([0.0, 0.5]) for _ in range(n_c)}, reverse=True)
    hh, acc = [0.0], 0.0
    for _ in th[1:]:
        acc -= rng.choice([25.0, 50.0, 100.0, 150.0])
        hh.append(acc)
    hc, acc = [0.0], 0.0
    for _ in tcold[1:]:
        acc += rng.choice([25.0, 50.0, 100.0, 200.0])
        hc.append(acc)
    hc = hc[::-1]
    ncond, nevap = rng.randint(1, 3), rng.randint(1, 3)
    x_cond = [rng.choice([0.0, 0.0625, 0.125, 0.25]) for _ in range(ncond)]
    x_evap = [rng.choice([0.0625, 0.125, 0.25]) for _ in range(nevap - 1)] + [0.0]
    t_lo = rng.choice([th[-1], th[-1] + 2.5, th[-1] + 5.0, 0.5 * (th[0] + th[-1])])
    return dict(T_hot=th, H_hot=hh, T_cold=tcold, H_cold=hc, x_cond=x_cond, x_evap=x_evap, T_lo=t_lo,
                dt_range_max=float(tcold[0] - th[-1]), Q_hp_target=float(hc[0]), price_ratio=2.0)


def run_carnot(c):
    import numpy as np
    from types import SimpleNamespace
    from OpenPinch.analysis import heat_pump_targeting as hpt
    a = SimpleNamespace(T_hot=np.array(c["T_hot"]), H_hot=np.array(c["H_hot"]), T_cold=np.array(c["T_cold"]), H_cold=np.array(c["H_cold"]),
                        dt_range_max=c["dt_range_max"], Q_hp_target=c["Q_hp_target"], price_ratio=c["price_ratio"], Q_amb_max=0.0)
    t_cond = hpt._map_x_to_T_cond(np.array(c["x_cond"]), a.T_cold[0], a.dt_range_max)
    qc0 = hpt._get_Q_vals_from_T_hp_vals(t_cond, a.T_cold, a.H_cold, True)
    with np.errstate(all="ignore"):
        res = hpt._get_optimal_min_evap_T_for_multi_temperature_carnot_hp(c["T_lo"], [a, t_cond, qc0, np.array(c["x_evap"]), None])
    qe0 = hpt._get_Q_vals_from_T_hp_vals(res["T_evap"], a.T_hot, a.H_hot, False)
    vals = [float(res["cop"]), float(res["work_hp"])] + [float(x) for x in list(qc0) + list(qe0) + list(res["Q_cond"]) + list(res["Q_evap"])]
    if not all(math.isfinite(x) for x in vals):
        return None
    return dict(cop=float(res["cop"]), W=float(res["work_hp"]), Qc0=[float(x) for x in qc0], Qe0=[float(x) for x in qe0],
                Qc=[float(x) for x in res["Q_cond"]], Qe=[float(x) for x in res["Q_evap"]])


def judge_carnots(ctx, cases, suite):
    cf = CaseFile(ctx, suite, HDR)
    out, idx = [], []
    for c in cases:
        o = run_carnot(c)
        out.append([None, o])
        if o is not None:
            idx.append(len(out) - 1)
            cf.add(f"judge_carnot {qlit(o['cop'])} {qlist(o['Qc0'])} {qlist(o['Qe0'])} {qlist(o['Qc'])} {qlist(o['Qe'])} {qlit(o['W'])}")
    for i, v in zip(idx, cf.run()):
        out[i][0] = v
    return out


def carnot_suite(ctx):
    n = ctx.budget(120, 1500)
    cases = [gen_carnot(ctx.rng) for _ in range(n)]
    res = judge_carnots(ctx, cases, "carnot")
    agree = mism = bad = frag = skipped = 0
    for c, (v, o) in zip(cases, res):
        ctx.evaluations += 1
        if v is None:
            skipped += 1
            ctx.count("carnot_degenerate_nan")
            continue
        cond_limited = abs(sum(o["Qc"]) - sum(o["Qc0"])) <= 1e-9 * max(1.0, sum(o["Qc0"]))
        ctx.count("carnot_condenser_limited" if cond_limited else "carnot_evaporator_limited")
        ctx.nontrivial_case(("carnot", repr(c)))
        if v[0] == 0:
            agree += 1
        elif v[0] == 1:
            frag += 1
        else:
            if v[0] == 3:
                bad += 1
                kind, what = "carnot-first-law", "sum(Q_cond) != sum(Q_evap) + work_hp in the Carnot placement"
            else:
                mism += 1
                kind, what = "carnot-model-mismatch", f"Carnot bookkeeping: model and implementation differ at {v[1:]}"
            if bad + mism <= 2:
                ctx.fail(kind, what, input=c, impl_output=o, suite="carnot", verdict=v, predicate="carnot_P_b / carnot_book")
    ctx.suite("carnot", cases=len(cases), agree=agree, mismatch=mism, property_false=bad, fragile_skipped=frag, degenerate_skipped=skipped)


def run(ctx):
    cycle_suite(ctx)
    carnot_suite(ctx)


def replay(ctx, data):
    import json
    inp = data["input"]
    if data.get("suite") == "carnot":
        (v, o), = judge_carnots(ctx, [inp], "replay")
        print(json.dumps(dict(verdict=v, impl_output=o), indent=1, default=str))
    else:
        (v, o, note), = judge_cycles(ctx, [inp], "replay")
        if v and v[0] in (2, 3):
            meaning = describe(v)
        elif v and v[0] == 1:
            meaning = ("skipped: clause %s is false at a state where the library violates hypothesis instance %s" % (CLAUSE.get(v[2], v[2]), HYP.get(v[1], v[1]))
                       if len(v) > 2 else "fragile: a profile step within 1e-9 of the phase-change window")
        else:
            meaning = note or "agree"
        print(json.dumps(dict(verdict=v, meaning=meaning,
                              kind=(kind_of(v) if v and v[0] in (2, 3) else None), impl_output=public(o) if isinstance(o, dict) else o),
                         indent=1, default=str))
