"""C19 -- Stream and StreamCollection consistency (DESIGN.md section 8, C19)."""
from __future__ import annotations

import itertools

from harness.lib import CaseFile, F, coq_bool, coq_string, qlit

MODEL_TARGETS = ["model/Stream.vo", "model/Collection.vo"]
PROOF_FILES = ["proofs/BaseFacts.v", "proofs/StreamInv.v", "proofs/CollectionRefine.v"]
ALLOWED_AXIOMS = []
RULE = ("stream suite: random constructor arguments + 0..8 setter calls (t_supply, t_target, dt_cont, heat_flow, htc, "
        "set_heat_flow) on a coarse temperature lattice so that kind-crossing and isothermal re-assignments are frequent; "
        "collection suite: random op sequences (add/add_many/remove/replace/set_sort_key/concat (c + other and c += other)/iter/len/index/contains) over "
        "8 member objects with names from a 3-name alphabet; the implementation is observed after every op; a case is "
        "non-trivial when it has >= 2 ops and (stream) crosses kind or passes through supply == target, or (collection) "
        "renames at least one clashing key; distinct = distinct (constructor, op list)")
ASSUMPTIONS = ["IEEE rounding of the implementation versus exact rationals is not proved: states are compared to 1e-9 relative",
               "Python dict insertion order and sorted() stability as documented",
               "constructor arguments are numbers (None temperatures leave a stream uninitialised and are outside the statement)"]
HDR = "From OP Require Import gen.Consts model.Base model.Stream model.Collection.\nRequire Import Coq.QArith.QArith Coq.Strings.String.\nLocal Open Scope Q_scope."

TEMPS = [20.0, 50.0, 50.0, 80.0, 120.0, 50.5, 35.25, 50.000375, 49.999875, 80.0005, 0.0, 0.0, -15.0]      # 0.0 is a temperature like any other
SETTERS = ["t_supply", "t_target", "dt_cont", "heat_flow", "htc", "set_heat_flow"]
SOP = {"t_supply": "SetTs", "t_target": "SetTt", "dt_cont": "SetDt", "heat_flow": "SetQ", "htc": "SetHtc", "set_heat_flow": "SetHeatFlow"}


# ------------------------------------------------------------------ stream suite
def obs_stream(s):
    return dict(ts=s.t_supply, tt=s.t_target, dt=s.dt_cont, q=s.heat_flow, htc=s.htc, htr=s.htr, price=s.price,
                cold=(s.type == "Cold"), type=s.type, tmin=s.t_min, tmax=s.t_max, tmins=s.t_min_star, tmaxs=s.t_max_star,
                cp=s.CP, rcp=s.rCP, utcost=s.ut_cost)


def coq_state(o):
    return ("(mkS " + " ".join(qlit(o[k]) for k in ("ts", "tt", "dt", "q", "htc", "htr", "price")) + " " + coq_bool(o["cold"]) + " "
            + " ".join(qlit(o[k]) for k in ("tmin", "tmax", "tmins", "tmaxs", "cp", "rcp", "utcost")) + ")")


def run_stream_case(init, ops):
    """Returns (states, error) observed on the real Stream."""
    from OpenPinch.classes import Stream
    states = []
    try:
        s = Stream("s", init[0], init[1], dt_cont=init[2], heat_flow=init[3], htc=init[4], price=init[5])
        states.append(obs_stream(s))
    except Exception as e:  # noqa: BLE001
        return states, f"constructor raised {type(e).__name__}: {e}"
    for name, val in ops:
        try:
            if name == "set_heat_flow":
                s.set_heat_flow(val)
            else:
                setattr(s, name, val)
            states.append(obs_stream(s))
        except Exception as e:  # noqa: BLE001
            return states, f"{name}={val} raised {type(e).__name__}: {e}"
    return states, None


def gen_stream_case(rng):
    init = (rng.choice(TEMPS), rng.choice(TEMPS), rng.choice([0.0, 2.5, 5.0, 10.0]), rng.choice([0.0, 10.0, 30.0, -15.0, 7.5, -40.0]),
            rng.choice([1.0, 2.0, 0.5, 0.0]), rng.choice([0.0, 40.0]))
    ops = []
    for _ in range(rng.randint(0, 8)):
        nm = rng.choice(SETTERS)
        val = {"t_supply": rng.choice(TEMPS), "t_target": rng.choice(TEMPS), "dt_cont": rng.choice([0.0, 5.0, 10.0, 2.5]),
               "heat_flow": rng.choice([0.0, 10.0, 40.0, -20.0]), "htc": rng.choice([0.5, 1.0, 4.0, 0.25, 0.0]),
               "set_heat_flow": rng.choice([0.0, 10.0, 40.0])}[nm]
        ops.append((nm, val))
    return init, ops


def stream_case_expr(init, ops, states):
    o = "[" + "; ".join(f"{SOP[n]} {qlit(v)}" for n, v in ops) + "]"
    st = "[" + "; ".join(coq_state(x) for x in states) + "]"
    return f"judge_stream {' '.join(qlit(x) for x in init)} {o} {st}"


def stream_nontrivial(init, ops, states):
    kinds = {s["cold"] for s in states}
    iso = init[0] == init[1] or any(True for (n, v), s in zip(ops, states[1:]) if n in ("t_supply", "t_target") and abs(s["ts"] - s["tt"]) < 0.011)
    return len(ops) >= 2 and (len(kinds) == 2 or iso)


def judge_stream_cases(ctx, cases, suite):
    """cases: list of (init, ops). Returns list of (verdict, states, err)."""
    cf = CaseFile(ctx, suite, HDR)
    out = []
    idx = []
    for init, ops in cases:
        states, err = run_stream_case(init, ops)
        out.append([None, states, err])
        if err is None:
            idx.append(len(out) - 1)
            cf.add(stream_case_expr(init, ops, states))
    for i, v in zip(idx, cf.run()):
        out[i][0] = v
    return out


def shrink_ops(case, still_fails):
    init, ops = case
    changed = True
    while changed and ops:
        changed = False
        cands = [(init, ops[:i] + ops[i + 1:]) for i in range(len(ops))]
        res = still_fails(cands)
        for c, bad in zip(cands, res):
            if bad:
                init, ops = c
                changed = True
                break
    return init, ops


def stream_suite(ctx):
    n = ctx.budget(600, 20000)
    corpus = [((50.0, 50.0, 5.0, 0.0, 1.0, 0.0), []),                                   # D13: zero-duty isothermal
              ((100.0, 40.0, 5.0, 120.0, 2.0, 30.0), [("t_supply", 20.0)]),               # D19: kind crossing
              ((20.0, 80.0, 10.0, 60.0, 1.0, 0.0), [("t_target", 20.0), ("heat_flow", -5.0), ("set_heat_flow", 12.0)]),
              ((80.0, 20.0, 0.0, 10.0, 0.0, 40.0), [("htc", 4.0), ("dt_cont", 5.0), ("t_target", 120.0)]),
              ((120.0, 120.0, 5.0, -300.0, 1.0, 0.0), [("dt_cont", 10.0)]),            # D54: isothermal hot stream, negative duty
              ((0.0, 60.0, 5.0, 30.0, 1.0, 0.0), [("t_target", 0.0), ("t_supply", -15.0), ("htc", 0.0), ("t_target", 40.0)]),   # 0 degC ends, zero film coefficient
              ((40.0, 0.0, 2.5, 10.0, 2.0, 0.0), [("dt_cont", 5.0), ("t_supply", 0.0)])]
    cases = corpus + [gen_stream_case(ctx.rng) for _ in range(n)]
    if ctx.thorough:   # exhaustive: all op sequences of length <= 3 over a reduced alphabet from two initial streams
        red = [("t_supply", 20.0), ("t_supply", 80.0), ("t_target", 20.0), ("t_target", 80.0), ("heat_flow", 0.0), ("heat_flow", 10.0),
               ("dt_cont", 5.0), ("htc", 2.0), ("set_heat_flow", 30.0)]
        for init in [(80.0, 20.0, 5.0, 60.0, 1.0, 0.0), (20.0, 20.0, 0.0, 0.0, 1.0, 0.0)]:
            for L in range(0, 4):
                for seq in itertools.product(red, repeat=L):
                    cases.append((init, list(seq)))
        ctx.extra["stream_exhaustive"] = "all setter sequences of length <= 3 over 9 setter/value pairs from 2 initial streams"
    res = judge_stream_cases(ctx, cases, "stream")
    agree = mism = bad = 0
    for (init, ops), (v, states, err) in zip(cases, res):
        ctx.evaluations += 1
        ctx.count(f"stream_ops_{min(len(ops), 8)}")
        if stream_nontrivial(init, ops, states):
            ctx.nontrivial_case(("s", init, tuple(ops)))
        ctx.sample(dict(suite="stream", init=init, ops=ops, final_state=states[-1] if states else None))
        if err is not None or (v and v[0] != 0):
            if bad + mism >= 3:          # shrink and report only the first few failures; count the rest
                bad += 1
                continue

            def still(cands):
                rr = judge_stream_cases(ctx, cands, "stream_shrink")
                return [(e is not None) or (vv and vv[0] != 0) for vv, _, e in rr]
            init2, ops2 = shrink_ops((init, ops), still)
            v2, st2, err2 = judge_stream_cases(ctx, [(init2, ops2)], "stream_final")[0]
            if err2 is not None:
                ctx.fail("stream-op-raises", err2, input=dict(init=init2, ops=ops2), impl_output=st2, suite="stream",
                         predicate="no setter sequence raises", shrunk_from=len(ops))
                bad += 1
            elif v2[0] == 3:
                ctx.fail("stream-invariant", f"stream invariant false on the implementation after op #{v2[1]}",
                         input=dict(init=init2, ops=ops2), impl_output=st2, suite="stream",
                         predicate="inv_b eps9 (CP*span=duty, t_min<=t_max, shifted bounds by kind, htr*htc=1)", shrunk_from=len(ops))
                bad += 1
            else:
                ctx.fail("stream-model-mismatch", f"model and implementation differ after op #{v2[1]} although the invariant holds",
                         input=dict(init=init2, ops=ops2), impl_output=st2, suite="stream", predicate="agree_stream eps9",
                         shrunk_from=len(ops))
                mism += 1
        else:
            agree += 1
    ctx.suite("stream", cases=len(cases), agree=agree, mismatch=mism, property_false=bad, fragile_skipped=0)


# ------------------------------------------------------------------ collection suite
NAMES = ["H", "H_1", "C"]
KEYSPECS = [("t_supply", [0]), ("t_target", [1]), (["t_target", "t_supply"], [1, 0]), ("callable_heat_flow", [2]),
            (["heat_flow", "t_target"], [2, 1])]


def gen_coll_case(rng):
    nm = 8
    members = []
    for i in range(nm):
        members.append(dict(id=i, name=rng.choice(NAMES), attrs=[rng.choice([20.0, 50.0, 80.0, 120.0]), rng.choice([30.0, 60.0, 90.0, 150.0]),
                                                                  rng.choice([10.0, 20.0, 30.0])]))
        if rng.random() < 0.15:
            members[-1]["inactive"] = True
    ops = []
    for _ in range(rng.randint(1, 14)):
        k = rng.random()
        if k < 0.30:
            ops.append(("add", rng.randrange(nm), rng.choice([None, None, "H", "X"]), rng.random() < 0.85))
        elif k < 0.38:
            xs = [rng.randrange(nm) for _ in range(rng.randint(0, 3))]
            keys = None if rng.random() < 0.6 else [rng.choice(NAMES) for _ in range(len(xs) if rng.random() < 0.8 else len(xs) + 1)]
            ops.append(("add_many", xs, keys, rng.random() < 0.85))
        elif k < 0.50:
            ops.append(("remove", rng.choice(NAMES + ["H_2", "C_1", "nope"])))
        elif k < 0.56:
            ops.append(("replace", [rng.randrange(nm) for _ in range(rng.randint(0, 4))]))
        elif k < 0.66:
            ops.append(("set_key", rng.randrange(len(KEYSPECS)), rng.random() < 0.5))
        elif k < 0.72:
            # c = c + other, or the augmented form c += other (same meaning: the class defines no in-place variant)
            ops.append(("concat", [rng.randrange(nm) for _ in range(rng.randint(0, 3))], rng.random() < 0.5))
        elif k < 0.82:
            ops.append(("iter",))
        elif k < 0.88:
            ops.append(("len",))
        elif k < 0.95:
            ops.append(("index", rng.randrange(nm)))
        else:
            ops.append(("contains", rng.choice(NAMES + ["H_2"])))
    return members, ops


ERR = {"ZeroDivisionError": 1, "IndexError": 2, "KeyError": 3, "AttributeError": 4, "ValueError": 5, "TypeError": 7}


def run_coll_case(members, ops):
    from OpenPinch.classes import Stream, StreamCollection
    objs = [Stream(m["name"], m["attrs"][0], m["attrs"][1], heat_flow=m["attrs"][2]) for m in members]
    for o, m in zip(objs, members):   # sort attributes must be what the model is told (t_target may be nudged when isothermal)
        m["attrs"] = [o.t_supply, o.t_target, o.heat_flow]
    ident = {id(o): i for i, o in enumerate(objs)}
    for o, m in zip(objs, members):
        if m.get("inactive"):
            o.active = False          # a switched-off stream is still a member: it is held, counted and iterated like any other
    c = StreamCollection()
    obs = []
    for op in ops:
        err, out = 0, ("none",)
        try:
            if op[0] == "add":
                c.add(objs[op[1]], op[2], op[3]) if op[2] is not None else c.add(objs[op[1]], prevent_overwrite=op[3])
            elif op[0] == "add_many":
                c.add_many([objs[i] for i in op[1]], op[2], op[3])
            elif op[0] == "remove":
                c.remove(op[1])
            elif op[0] == "replace":
                c.replace({f"k{j}": objs[i] for j, i in enumerate(op[1])})
            elif op[0] == "set_key":
                spec = KEYSPECS[op[1]][0]
                c.set_sort_key((lambda s: s.heat_flow) if spec == "callable_heat_flow" else spec, reverse=op[2])
            elif op[0] == "concat":
                other = StreamCollection()
                for i in op[1]:
                    other.add(objs[i])
                if len(op) > 2 and op[2]:
                    c += other
                else:
                    c = c + other
            elif op[0] == "iter":
                out = ("ids", [ident[id(s)] for s in c])
            elif op[0] == "len":
                out = ("nat", len(c))
            elif op[0] == "index":
                out = ("nat", c.get_index(objs[op[1]]))
            elif op[0] == "contains":
                out = ("bool", op[1] in c)
        except Exception as e:  # noqa: BLE001
            err = ERR.get(type(e).__name__, 9)
            out = ("none",)
        obs.append(dict(err=err, keys=list(c._streams.keys()), iter=[ident[id(s)] for s in c], len=len(c), out=out))
    return obs


def coq_member(m):
    return f"(mkM {m['id']}%nat {coq_string(m['name'])} [{'; '.join(qlit(a) for a in m['attrs'])}])"


def coq_cop(members, op):
    M = lambda i: coq_member(members[i])  # noqa: E731
    if op[0] == "add":
        key = "None" if op[2] is None else f"(Some {coq_string(op[2])})"
        return f"CAdd {M(op[1])} {key} {coq_bool(op[3])}"
    if op[0] == "add_many":
        keys = "None" if op[2] is None else "(Some [" + "; ".join(coq_string(k) for k in op[2]) + "])"
        return f"CAddMany [{'; '.join(M(i) for i in op[1])}] {keys} {coq_bool(op[3])}"
    if op[0] == "remove":
        return f"CRemove {coq_string(op[1])}"
    if op[0] == "replace":
        return f"CReplace [{'; '.join(M(i) for i in op[1])}]"
    if op[0] == "set_key":
        return f"CSetKey [{'; '.join(str(i) + '%nat' for i in KEYSPECS[op[1]][1])}] {coq_bool(op[2])}"
    if op[0] == "concat":
        # the other operand is built by adding the listed members to a fresh collection (its keys are recomputed by the model)
        return "CConcat (match add_all [] [" + "; ".join(M(i) for i in op[1]) + "] None true with Ok it => it | Err _ => [] end)"
    if op[0] == "iter":
        return "CIter"
    if op[0] == "len":
        return "CLen"
    if op[0] == "index":
        return f"CIndex {op[1]}%nat"
    if op[0] == "contains":
        return f"CContains {coq_string(op[1])}"
    raise ValueError(op)


def coq_obs(o):
    out = o["out"]
    if out[0] == "none":
        co = "ONone"
    elif out[0] == "ids":
        co = "(OIds [" + "; ".join(f"{i}%nat" for i in out[1]) + "])"
    elif out[0] == "nat":
        co = f"(ONat {out[1]}%nat)"
    else:
        co = f"(OBool {coq_bool(out[1])})"
    return (f"(mkO {o['err']}%Z [{'; '.join(coq_string(k) for k in o['keys'])}] [{'; '.join(str(i) + '%nat' for i in o['iter'])}] "
            f"{o['len']}%nat {co})")


def judge_coll_cases(ctx, cases, suite):
    cf = CaseFile(ctx, suite, HDR, shard=120)
    allobs = []
    for members, ops in cases:
        ops = [list(o) for o in ops]
        obs = run_coll_case(members, ops)
        allobs.append(obs)
        uni = "[" + "; ".join(coq_member(m) for m in members) + "]"
        cf.add(f"judge_coll {uni} [{'; '.join(coq_cop(members, o) for o in ops)}] [{'; '.join(coq_obs(o) for o in obs)}]")
    return list(zip(cf.run(), allobs))


def coll_suite(ctx):
    n = ctx.budget(500, 12000)
    m0 = [dict(id=i, name="n", attrs=[float(50 + 10 * i), 10.0, 5.0]) for i in range(8)]
    m1 = [dict(m, inactive=(m["id"] in (1, 3))) for m in m0]
    corpus = [(m1, [("add", 0, None, True), ("add", 1, None, True), ("add", 2, None, True), ("add", 3, None, True), ("iter",), ("index", 1), ("len",),
                    ("concat", [3, 4], False), ("iter",)]),                   # switched-off members are members
              (m0, [("replace", [0, 1])]),                                      # D20: equal names must both survive replace
              (m0, [("add", 0, None, True), ("add", 1, None, True), ("add", 2, None, True), ("remove", "n_1"), ("add", 3, None, True), ("iter",)])]
    cases = corpus + [gen_coll_case(ctx.rng) for _ in range(n)]
    res = judge_coll_cases(ctx, [(m, o) for m, o in cases], "coll")
    agree = mism = bad = 0
    for (members, ops), (v, obs) in zip(cases, res):
        ctx.evaluations += 1
        ctx.count(f"coll_ops_{min(len(ops), 14)}")
        renamed = any(k not in NAMES + ["X", "n"] and not k.startswith("k") for o in obs for k in o["keys"])
        if len(ops) >= 2 and renamed:
            ctx.nontrivial_case(("c", tuple((m["name"], tuple(m["attrs"])) for m in members), repr(ops)))
        ctx.sample(dict(suite="collection", members=[(m["name"], m["attrs"]) for m in members[:3]], ops=ops[:6],
                        final_keys=obs[-1]["keys"], final_iter=obs[-1]["iter"]), limit=6)
        if v[0] == 0:
            agree += 1
            continue
        if bad + mism >= 3:
            bad += 1
            continue

        def still(cands):
            return [vv[0] != 0 for vv, _ in judge_coll_cases(ctx, [(members, o) for _, o in cands], "coll_shrink")]
        _, ops2 = shrink_ops((None, [tuple(o) for o in ops]), still)
        (v2, obs2), = judge_coll_cases(ctx, [(members, ops2)], "coll_final")
        data = dict(input=dict(members=members, ops=ops2), impl_output=obs2, suite="collection", shrunk_from=len(ops))
        if v2[0] == 3:
            ctx.fail("collection-step", f"collection property false on the implementation at op #{v2[1]}",
                     predicate="step_ok (len = members held, nobody lost/replaced on add, iteration = members in key order)", **data)
            bad += 1
        else:
            ctx.fail("collection-model-mismatch", f"model and implementation observations differ at op #{v2[1]}",
                     predicate="obs_eqb", **data)
            mism += 1
    ctx.suite("collection", cases=len(cases), agree=agree, mismatch=mism, property_false=bad, fragile_skipped=0)


def run_mutation_case(members, idx, new_ts):
    """Members added one by one, iterate, assign a new supply temperature to member idx THROUGH ITS OWN SETTER, iterate again."""
    from OpenPinch.classes import Stream, StreamCollection
    objs = [Stream(m["name"], m["attrs"][0], m["attrs"][1], heat_flow=m["attrs"][2]) for m in members]
    ident = {id(o): i for i, o in enumerate(objs)}
    c = StreamCollection()
    for o in objs:
        c.add(o)
    first = [ident[id(x)] for x in c]
    objs[idx].t_supply = new_ts
    second = [ident[id(x)] for x in c]
    before = [[o.t_supply, o.t_target, o.heat_flow] for o in objs]
    return first, second, before


def mutation_suite(ctx):
    """A member's sort attribute assigned while it sits in a collection (interleaving of the two kinds of calls the property quantifies over)."""
    n = ctx.budget(60, 1500)
    cases = [([dict(id=0, name="A", attrs=[200.0, 100.0, 10.0]), dict(id=1, name="B", attrs=[150.0, 100.0, 10.0])], 1, 300.0)]   # D60 witness
    for _ in range(n):
        k = ctx.rng.randint(2, 5)
        ts = ctx.rng.sample([20.0, 50.0, 80.0, 120.0, 150.0, 200.0, 260.0], k)
        ms = [dict(id=i, name=ctx.rng.choice(NAMES), attrs=[ts[i], 10.0, float(ctx.rng.choice([5, 10, 40]))]) for i in range(k)]
        cases.append((ms, ctx.rng.randrange(k), ctx.rng.choice([15.0, 65.0, 130.0, 180.0, 300.0])))
    cf = CaseFile(ctx, "member_mutation", HDR, shard=120)
    runs = []
    for ms, idx, v in cases:
        first, second, attrs_after = run_mutation_case(ms, idx, v)
        ms2 = [dict(m, attrs=a) for m, a in zip(ms, attrs_after)]       # attributes as the objects hold them before/after (t_target untouched)
        runs.append((first, second))
        orig = "[" + "; ".join(coq_member(dict(m, attrs=[m["attrs"][0], attrs_after[i][1], attrs_after[i][2]])) for i, m in enumerate(ms)) + "]"
        cf.add(f"judge_mutation {orig} {idx}%nat [{'; '.join(qlit(x) for x in attrs_after[idx])}] [{'; '.join(str(i) + '%nat' for i in second)}]")
    agree = bad = mism = 0
    for (ms, idx, v), (first, second), verdict in zip(cases, runs, cf.run()):
        ctx.evaluations += 1
        ctx.count("member_mutation")
        if first != second or verdict[0] != 0:
            ctx.nontrivial_case(("mut", tuple(tuple(m["attrs"]) for m in ms), idx, v))
        if verdict[0] == 0:
            agree += 1
        elif verdict[0] == 3:
            bad += 1
            if bad == 1:
                ctx.fail("stale-order-after-member-assignment", "iteration is not in sort-key order after a member's own t_supply was assigned "
                         "(the cached order of the collection is not invalidated)", suite="member_mutation",
                         input=dict(members=ms, assign=dict(member=idx, t_supply=v)), impl_output=dict(before=first, after=second),
                         predicate="judge_mutation: sorted_b (keeps_front [0] true)")
        else:
            mism += 1
            if mism == 1:
                ctx.fail("collection-model-mismatch", "iteration after a member assignment differs from the model (cached order kept)",
                         suite="member_mutation", input=dict(members=ms, assign=dict(member=idx, t_supply=v)),
                         impl_output=dict(before=first, after=second), predicate="judge_mutation")
    ctx.suite("member_mutation", cases=len(cases), agree=agree, mismatch=mism, property_false=bad, fragile_skipped=0)


def run(ctx):
    stream_suite(ctx)
    coll_suite(ctx)
    mutation_suite(ctx)


def replay(ctx, data):
    import json
    inp = data["input"]
    if data.get("suite") == "stream":
        init, ops = tuple(inp["init"]), [tuple(o) for o in inp["ops"]]
        v, st, err = judge_stream_cases(ctx, [(init, ops)], "replay")[0]
        print(json.dumps(dict(verdict=v, error=err, impl_states=st), indent=1, default=str))
    else:
        (v, obs), = judge_coll_cases(ctx, [(inp["members"], [tuple(o) for o in inp["ops"]])], "replay")
        print(json.dumps(dict(verdict=v, impl_observations=obs), indent=1, default=str))
