"""C10 -- zone-tree construction conserves the streams (DESIGN.md section 8, C10)."""
from __future__ import annotations

import itertools
import json

from harness.lib import CaseFile, coq_bool, coq_string, qlit

MODEL_TARGETS = ["gen/ZoneTreeConsts.vo", "model/ZoneTree.vo"]
ALLOWED_AXIOMS = []
RULE = ("synth suite: 1..6 streams whose zone labels are '/'-paths of depth <= 4 over the components A, B, O1, 'A B', O2 and the "
        "project name, decorated with blanks around components, leading/trailing/double separators; stream names from a 4-name "
        "alphabet (duplicates within and across zones), hot/cold and supply temperature random, project name from "
        "{Project, Site, A, P/Q}; 0..2 user utilities; user-tree suite: random ZoneTreeSchema of depth <= 3 (sibling names distinct) and "
        "labels chosen as full path, path without root, bare node name, root name, unknown name, decorated variants; every case runs "
        "prepare_problem (a quarter of the synthesised ones the whole pinch_analysis_service) and the returned Zone tree is walked. "
        "A case is non-trivial when two labels are in suffix/prefix relation, a component equals a generated name O<k>, "
        "two streams share a name, or (user tree) a label is not a full path; distinct = distinct (project, tree, labels, names, kinds)")
ASSUMPTIONS = ["zone labels, stream names and tree node names are ASCII; Python str.strip()/split()/sorted() on ASCII as documented",
               "sibling names of a user-supplied zone tree are distinct and contain no '/' (Zone.add_zone skips a second equal-named empty sibling)",
               "stream identity is carried through Stream construction by the htc attribute (sid+1); kind by supply/target order",
               "which utilities exist (defaults, activation) is outside C10: the check takes the root zone's utility list as given and "
               "verifies that every zone holds its own objects with the same names"]
HDR = ("From OP Require Import gen.Consts model.Base model.Collection model.ZoneTree.\n"
       "Require Import Coq.QArith.QArith Coq.Strings.String.\nLocal Open Scope Q_scope.")

COMPS = ["A", "B", "O1", "A B", "O2"]
SNAMES = ["S", "T", "S_1", "H"]
ROOTS = ["Project", "Site", "A", "P/Q"]
CLAUSE = {1: ("stream-placement", "a labelled stream is not in exactly one leaf / once in each ancestor / nowhere else"),
          2: ("zone-entry-kind-or-duty", "a zone entry is an unknown stream, sits in the wrong (hot/cold) collection or carries another duty"),
          3: ("zone-conservation", "count or hot/cold duty of a zone differs from the streams labelled into it"),
          4: ("siblings-share-stream", "two sibling zones hold the same stream"),
          5: ("utility-shared-or-missing", "zones share a utility object or a zone lacks a utility of the root"),
          9: ("zone-list-malformed", "two zones with the same path")}


# ------------------------------------------------------------------ running the implementation
def stream_dict(s):
    hot = s["hot"]
    return dict(zone=s["label"], name=s["name"], t_supply=float(s["ts"]), t_target=100.0 if hot else 150.0,
                heat_flow=float(s["duty"]), dt_cont=5.0, htc=float(s["sid"] + 1))


def tree_dict(t, depth=0):
    if t is None:
        return None
    # the generic type "Zone" (and a blank one) is legal for every node below the root; which spelling a node gets is fixed by its name and depth
    typ = t.get("type") or ("Site" if depth == 0 else ["Process Zone", "Zone", "Process Zone", ""][(len(t["name"]) + depth) % 4])
    return dict(name=t["name"], type=typ, children=[tree_dict(c, depth + 1) for c in t["children"]] if t["children"] is not None else None)


def util_dict(u):
    return dict(name=u["name"], type=u["type"], t_supply=float(u["ts"]), t_target=float(u["tt"]), heat_flow=0.0, dt_cont=5.0,
                htc=1.0, price=10.0)


def walk(z, path=()):
    yield z, path
    for s in z.subzones.values():
        yield from walk(s, path + (s.name,))


def run_impl(case):
    """Returns (obs, err). obs = list of zones in DFS order."""
    from OpenPinch.lib import TargetInput
    from OpenPinch.analysis.data_preparation import prepare_problem
    data = dict(streams=[stream_dict(s) for s in case["streams"]], utilities=[util_dict(u) for u in case["utils"]],
                zone_tree=tree_dict(case["tree"]))
    try:
        if case.get("service"):
            from OpenPinch import pinch_analysis_service
            try:
                _, mz = pinch_analysis_service(data, project_name=case["root"], is_return_full_results=True)
            except Exception:  # noqa: BLE001  targeting is not C10's subject: observe the prepared tree instead
                case["service"] = "raised"
                ti = TargetInput.model_validate(data)
                mz = prepare_problem(project_name=case["root"], streams=ti.streams, utilities=ti.utilities, options=ti.options,
                                     zone_tree=ti.zone_tree)
        else:
            ti = TargetInput.model_validate(data)
            mz = prepare_problem(project_name=case["root"], streams=ti.streams, utilities=ti.utilities, options=ti.options,
                                 zone_tree=ti.zone_tree)
    except Exception as e:  # noqa: BLE001
        return None, f"{type(e).__name__}: {e}"
    ids = {}
    obs = []
    for z, p in walk(mz):
        def ent(coll):
            return [dict(sid=int(round(o.htc)) - 1 if abs(o.htc - round(o.htc)) < 1e-12 else 9999, key=k, hot=(o.type == "Hot"),
                         duty=o.heat_flow) for k, o in coll._streams.items()]

        def ut(coll):
            return [dict(loc=ids.setdefault(id(o), len(ids)), name=o.name) for o in coll._streams.values()]
        obs.append(dict(path=list(p), hot=ent(z.hot_streams), cold=ent(z.cold_streams), hu=ut(z.hot_utilities), cu=ut(z.cold_utilities)))
    return obs, None


# ------------------------------------------------------------------ Coq terms
def coq_strs(xs):
    return "[" + "; ".join(coq_string(x) for x in xs) + "]"


def coq_stream(s):
    return f"(mkIS {s['sid']}%nat {coq_string(s['label'])} {coq_string(s['name'])} {coq_bool(s['hot'])} {qlit(s['ts'])} {qlit(s['duty'])})"


def coq_tree(t):
    return f"(UT {coq_string(t['name'])} [{'; '.join(coq_tree(c) for c in (t['children'] or []))}])"


def coq_zobs(z):
    e = lambda l: "[" + "; ".join(f"({x['sid']}%nat, {coq_string(x['key'])})" for x in l) + "]"  # noqa: E731
    return f"(mkZO {coq_strs(z['path'])} {e(z['hot'])} {e(z['cold'])})"


def coq_zextra(z):
    e = lambda l: "[" + "; ".join(f"({coq_bool(x['hot'])}, {qlit(x['duty'])})" for x in l) + "]"  # noqa: E731
    u = lambda l: "[" + "; ".join(f"({x['loc']}%nat, {coq_string(x['name'])})" for x in l) + "]"  # noqa: E731
    return f"(mkZX {e(z['hot'])} {e(z['cold'])} {u(z['hu'])} {u(z['cu'])})"


def case_expr(case, obs):
    tree = "None" if case["tree"] is None else f"(Some {coq_tree(case['tree'])})"
    hu = [u["name"] for u in case["utils"] if u["type"] in ("Hot", "Both")]
    cu = [u["name"] for u in case["utils"] if u["type"] in ("Cold", "Both")]
    return (f"judge_c10 {coq_string(case['root'])} {tree} [{'; '.join(coq_stream(s) for s in case['streams'])}] {coq_strs(hu)} {coq_strs(cu)} "
            f"[{'; '.join(coq_zobs(z) for z in obs)}] [{'; '.join(coq_zextra(z) for z in obs)}]")


def judge_cases(ctx, cases, suite):
    """-> list of (verdict or None, obs, err)"""
    cf = CaseFile(ctx, suite, HDR, shard=150)
    out, idx = [], []
    for c in cases:
        obs, err = run_impl(c)
        out.append([None, obs, err])
        if err is None:
            idx.append(len(out) - 1)
            cf.add(case_expr(c, obs))
    for i, v in zip(idx, cf.run()):
        out[i][0] = v
    return out


# ------------------------------------------------------------------ generators
def deco(rng, comp):
    r = rng.random()
    if r < 0.75:
        return comp
    return rng.choice([" " + comp, comp + " ", " " + comp + " ", "  " + comp])


def gen_label(rng, root, maxdepth=4):
    d = rng.choice([1, 1, 2, 2, 3, 3, 4][:3 + maxdepth])
    comps = [rng.choice(COMPS + ([root] if "/" not in root and rng.random() < 0.1 else [])) for _ in range(d)]
    lab = "/".join(deco(rng, c) for c in comps)
    r = rng.random()
    if r < 0.05:
        lab = lab + "/"
    elif r < 0.09:
        lab = "/" + lab
    elif r < 0.12:
        lab = lab.replace("/", "//", 1)
    elif r < 0.14:
        lab = rng.choice(["/", " ", " / ", ""])
    return lab


def mk_streams(rng, labels):
    out = []
    for i, lab in enumerate(labels):
        hot = rng.random() < 0.5
        out.append(dict(sid=i, label=lab, name=rng.choice(SNAMES), hot=hot,
                        ts=rng.choice([200.0, 180.0, 220.5]) if hot else rng.choice([50.0, 70.0, 20.25]),
                        duty=rng.choice([8.0, 16.0, 24.5, 40.0, 100.0, 0.5 * (i + 1)])))
    return out


def gen_utils(rng):
    us = []
    for _ in range(rng.choice([0, 0, 1, 2])):
        t = rng.choice(["Hot", "Cold", "Both"])
        ts = rng.choice([250.0, 300.0]) if t == "Hot" else rng.choice([10.0, 15.0]) if t == "Cold" else rng.choice([250.0, 10.0])
        us.append(dict(name=rng.choice(["Steam", "CW", "HU", "Steam"]), type=t, ts=ts, tt=ts - 1.0 if t == "Hot" else ts + 1.0))
    return us


def gen_synth_case(rng):
    root = rng.choice(ROOTS)
    n = rng.choice([1, 2, 2, 3, 3, 4, 4, 5, 6])
    labels = []
    for _ in range(n):
        if labels and rng.random() < 0.35:       # derive from an earlier label: suffix, prefix, extension, equal
            base = [c for c in rng.choice(labels).split("/") if c.strip()] or ["A"]
            k = rng.random()
            if k < 0.3:
                comps = base[rng.randrange(len(base)):]
            elif k < 0.6:
                comps = base[:rng.randrange(len(base)) + 1]
            elif k < 0.85:
                comps = base + [rng.choice(["O1", "O1", "O2", "A"])]
            else:
                comps = base
            labels.append("/".join(comps[:4]))
        else:
            labels.append(gen_label(rng, root))
    if all(not l for l in labels):
        labels[0] = "A"
    return dict(root=root, tree=None, streams=mk_streams(rng, labels), utils=gen_utils(rng), service=rng.random() < 0.25)


def gen_tree(rng, depth, maxdepth, names):
    kids = []
    if depth < maxdepth:
        for nm in rng.sample(names, rng.choice([0, 1, 2, 2, 3] if depth else [1, 2, 2, 3])):
            kids.append(gen_tree_node(rng, nm, depth + 1, maxdepth, names))
    return kids


def gen_tree_node(rng, name, depth, maxdepth, names):
    return dict(name=name, children=gen_tree(rng, depth, maxdepth, names))


def tree_paths(t, pre=()):
    p = pre + (t["name"],)
    yield p, t
    for c in t["children"] or []:
        yield from tree_paths(c, p)


def gen_user_case(rng, resolvable_only=False):
    names = ["A", "B", "O1", "A B", "U"]
    rootname = rng.choice(["Root", "Site", "A"])
    tree = dict(name=rootname, children=gen_tree(rng, 0, rng.choice([1, 2, 2, 3]), names))
    paths = list(tree_paths(tree))
    leaves = [p for p, t in paths if not t["children"] and len(p) > 1]
    labels = []
    for _ in range(rng.choice([1, 2, 3, 3, 4, 5])):
        r = rng.random()
        if resolvable_only or r < 0.55:
            p = rng.choice(leaves) if leaves else (rootname,)
            k = rng.random()
            lab = "/".join(p) if k < 0.5 or len(p) == 1 else "/".join(p[1:])
            if not resolvable_only and rng.random() < 0.3:
                lab = "/".join(p[rng.randrange(len(p)):])          # arbitrary suffix: may be ambiguous
            if rng.random() < 0.2:
                lab = " / ".join(lab.split("/")) + rng.choice(["", " ", "/"])
        elif r < 0.67:
            lab = rootname
        elif r < 0.8:
            lab = "/".join(rng.choice(paths)[0][rng.choice([0, 1]):]) or rootname     # any node, maybe internal
        elif r < 0.9:
            lab = rng.choice(["Nowhere", "X/A", "X/" + rootname, "A/Nowhere", "S", "T"])
        else:
            lab = gen_label(rng, rootname, 3)
        labels.append(lab)
    return dict(root=rng.choice(["Project", "A"]), tree=tree, streams=mk_streams(rng, labels), utils=gen_utils(rng), service=False)


def nontrivial(case):
    labs = [[c.strip() for c in s["label"].split("/") if c.strip()] for s in case["streams"] if s["label"]]
    names = [s["name"] for s in case["streams"]]
    coll = any(a != b and (a[-len(b):] == b or a[:len(b)] == b) for a in labs for b in labs if b)
    gen = any(c in ("O1", "O2") for l in labs for c in l)
    dup = len(set(names)) < len(names) or len({tuple(l) for l in labs}) < len(labs)
    if case["tree"] is not None:
        full = {"/".join(p) for p, _ in tree_paths(case["tree"])}
        return any("/".join(l) not in full for l in labs) or dup
    return len(labs) >= 2 and (coll or gen or dup)


def shape(case, obs):
    k = "user" if case["tree"] is not None else "synth"
    return f"{k}_streams_{len(case['streams'])}_zones_{min(len(obs or []), 12)}"


# ------------------------------------------------------------------ classification, shrinking
def failed(v, err):
    return err is not None or (v is not None and v[0] != 0)


def classify(v, err):
    if err is not None:
        return "prepare-raises", "prepare_problem raised " + err
    if v[0] == 2:
        what = {-1: "different number of zones", -2: "the model returned an error", -3: "utility objects are not numbered as fresh copies per zone"}
        return "zone-tree-model-mismatch", "model and implementation differ: " + what.get(v[1], f"zone #{v[1]} of the implementation's tree")
    code, trig, m = v[1], v[2], v[3]
    if m in (-100, -3) and code in (1, 3) and trig == 1:      # (-3: only the utility numbering differs; reported by clause 5 elsewhere)
        return "user-tree-unresolved-label", "a stream whose label the user zone tree does not resolve is dropped or placed by suffix (model agrees)"
    if m in (-100, -3) and code in (1, 3) and trig == 2:
        return "user-tree-internal-zone-label", "a stream labelled into a zone that has subzones is dropped by the bottom-up import (model agrees)"
    k, w = CLAUSE.get(code, ("zone-tree-predicate", "predicate false"))
    return k, w + ("" if m == -100 else f" (model also differs: {m})")


def shrink(ctx, case, kind):
    def still(cands):
        res = judge_cases(ctx, cands, "shrink")
        return [failed(v, e) and classify(v, e)[0] == kind for v, _, e in res]
    cur = dict(case)
    changed = True
    while changed:
        changed = False
        cands = []
        for i in range(len(cur["streams"])):
            if len(cur["streams"]) > 1:
                cands.append(dict(cur, streams=cur["streams"][:i] + cur["streams"][i + 1:]))
        for i in range(len(cur["utils"])):
            cands.append(dict(cur, utils=cur["utils"][:i] + cur["utils"][i + 1:]))
        if cur["tree"] is not None:
            def prune(t):
                for i in range(len(t["children"])):
                    yield dict(t, children=t["children"][:i] + t["children"][i + 1:])
                    for sub in prune(t["children"][i]):
                        yield dict(t, children=t["children"][:i] + [sub] + t["children"][i + 1:])
            cands += [dict(cur, tree=t2) for t2 in prune(cur["tree"])]
        if cur.get("service"):
            cands.append(dict(cur, service=False))
        if not cands:
            break
        for c, bad in zip(cands, still(cands)):
            if bad:
                cur, changed = c, True
                break
    return cur


def run_suite(ctx, name, cases):
    res = judge_cases(ctx, cases, name)
    agree = mism = bad = 0
    per_kind = {}
    for case, (v, obs, err) in zip(cases, res):
        ctx.evaluations += 1
        ctx.count(shape(case, obs))
        if case.get("service") == "raised":
            ctx.count("service_raised_prepare_used")
        if nontrivial(case):
            ctx.nontrivial_case((case["root"], json.dumps(case["tree"], sort_keys=True),
                                 tuple((s["label"], s["name"], s["hot"]) for s in case["streams"])))
        ctx.sample(dict(suite=name, root=case["root"], tree=case["tree"], labels=[s["label"] for s in case["streams"]],
                        names=[s["name"] for s in case["streams"]], zones=[z["path"] for z in (obs or [])][:12]), limit=6)
        if not failed(v, err):
            agree += 1
            continue
        kind, what = classify(v, err)
        if v is not None and v[0] == 2:
            mism += 1
        else:
            bad += 1
        per_kind[kind] = per_kind.get(kind, 0) + 1
        ctx.count("fail_" + kind)
        if per_kind[kind] > (1 if kind.startswith("user-tree-") else 2):
            continue                       # shrink and fully report only the first few per kind; the rest are counted
        small = shrink(ctx, case, kind)
        (v2, obs2, err2), = judge_cases(ctx, [small], "final")
        kind2, what2 = classify(v2, err2) if failed(v2, err2) else (kind, what)
        ctx.fail(kind2, what2, input=small, impl_output=obs2, suite=name, verdict=v2,
                 predicate="P_code (ZoneTree.v): 1 placement, 2 entry kind/duty, 3 per-zone conservation, 4 siblings, 5 utilities; compare_model",
                 shrunk_from=len(case["streams"]))
    ctx.suite(name, cases=len(cases), agree=agree, mismatch=mism, property_false=bad, fragile_skipped=0, failures_by_kind=per_kind)


def S(sid, label, name="S", hot=True, ts=None, duty=None):
    return dict(sid=sid, label=label, name=name, hot=hot, ts=ts if ts is not None else (200.0 if hot else 50.0),
                duty=duty if duty is not None else 8.0 * (sid + 1))


def corpus():
    T = lambda name, *kids: dict(name=name, children=list(kids))  # noqa: E731
    cs = [
        dict(root="Project", tree=None, utils=[], streams=[S(0, "A/B"), S(1, "B", hot=False)]),                      # D10
        dict(root="Project", tree=None, utils=[], streams=[S(0, "A"), S(1, "A/O1/A")]),                               # D29
        dict(root="Project", tree=None, utils=[], streams=[S(0, "A/O1/A"), S(1, "A"), S(2, "A")], service=True),      # D29, other order
        dict(root="Project", tree=None, utils=[], streams=[S(0, "A/B/A/B"), S(1, "B/A/B"), S(2, "A/B", hot=False), S(3, "B", hot=False)]),
        dict(root="A", tree=None, utils=[dict(name="Steam", type="Hot", ts=300.0, tt=299.0)],
             streams=[S(0, "A"), S(1, "A/A"), S(2, " A", hot=False), S(3, "A /", "S"), S(4, "/", "S"), S(5, "", "S")], service=True),
        dict(root="Site", tree=None, utils=[], streams=[S(0, "O1"), S(1, "O1"), S(2, "O1/O2"), S(3, "O1/O1", hot=False)]),
        dict(root="Project", tree=T("Root", T("P1", T("U1")), T("P2")), utils=[],
             streams=[S(0, "U1", "b"), S(1, "Root/P2", "c"), S(2, "Root", "e"), S(3, "P1/U1", "b"), S(4, "P2", "c", hot=False), S(5, "P2", "c", hot=False)]),
        dict(root="Project", tree=T("Root", T("P1", T("U1")), T("P2")), utils=[], streams=[S(0, "Root", "e"), S(1, "e", "e"), S(2, "Root", "e")]),
        # open findings, one deterministic witness each (so the KNOWN-FINDING lines appear on every run)
        dict(root="Project", tree=T("Root", T("P1", T("U1"))), utils=[], streams=[S(0, "Nowhere")]),                   # D22
        dict(root="Project", tree=T("Root", T("P1", T("U1"))), utils=[], streams=[S(0, "P1")]),                        # D38
    ]
    for c in cs:
        c.setdefault("service", False)
    return cs


def exhaustive(names, depth, size):
    labels = ["/".join(p) for d in range(1, depth + 1) for p in itertools.product(names, repeat=d)]
    for n in range(1, size + 1):
        for combo in itertools.combinations_with_replacement(labels, n):
            yield dict(root="Project", tree=None, utils=[], service=False,
                       streams=[S(i, l, "S", hot=(i % 2 == 0)) for i, l in enumerate(combo)])


def run(ctx):
    rng = ctx.rng
    run_suite(ctx, "corpus", corpus())
    run_suite(ctx, "synth", [gen_synth_case(rng) for _ in range(ctx.budget(700, 12000))])
    run_suite(ctx, "user_tree_resolvable", [gen_user_case(rng, True) for _ in range(ctx.budget(200, 3000))])
    run_suite(ctx, "user_tree", [gen_user_case(rng) for _ in range(ctx.budget(300, 5000))])
    if ctx.thorough:
        ex = list(exhaustive(["A", "B", "O1", "A B"], 2, 4)) + list(exhaustive(["A", "B", "O1"], 3, 3)) \
            + list(exhaustive(["A", "O1"], 3, 4))
        ctx.extra["exhaustive"] = ("all label multisets: size<=4 over {A,B,O1,'A B'} depth<=2; size<=3 over {A,B,O1} depth<=3; "
                                   f"size<=4 over {{A,O1}} depth<=3 ({len(ex)} cases)")
        for i in range(0, len(ex), 6000):
            run_suite(ctx, f"exhaustive_{i // 6000}", ex[i:i + 6000])


def replay(ctx, data):
    case = data["input"]
    (v, obs, err), = judge_cases(ctx, [case], "replay")
    print(json.dumps(dict(verdict=v, classified=classify(v, err) if failed(v, err) else "agree", error=err, impl_zones=obs), indent=1, default=str))
