"""C01 -- direct-integration targets equal the exact minimum (DESIGN.md 8/C01)."""
from __future__ import annotations

from harness.lib import CaseFile, qlit
from harness.props import pinch_common as pc

MODEL_TARGETS = ["model/Cascade.vo", "model/CascadeE2E.vo"]
ALLOWED_AXIOMS = []
RULE = ("stage suite: random stream sets (1-9 streams, 5 K and 0.5 K lattices, contributions {0,2.5,5,10}, latent streams, "
        "steered shapes: only-hot, only-cold, threshold either side, nested, coincident, single) with 0-6 utility levels as extra "
        "grid rows, on both temperature scales, through create_problem_table_with_t_int + problem_table_algorithm; "
        "end-to-end suite: 1-4 zones (flat and nested labels) through pinch_analysis_service, every '<zone>/Direct Integration' "
        "record at every level against the exact rational reference computed in Coq from the INPUT numbers; "
        "non-trivial = at least one hot and one cold stream whose shifted ranges overlap, or a threshold/only-one-kind shape; "
        "distinct = distinct stream multiset")
ASSUMPTIONS = ["float rounding of the implementation is not proved: targets compared to 1e-6 of max(1,total duty), tables to 1e-9 relative",
               "zone membership of streams is taken from the implementation's zone tree (C10 decides that separately)",
               "theorems assume end points on the 6-decimal lattice and grid gaps wider than the tol*10 window (Robust); "
               "near-tolerance inputs are exercised by the correspondence only (fragile verdict)"]
HDR = ("From OP Require Import gen.Consts model.Base model.Stream model.Cascade model.CascadeE2E.\nRequire Import Coq.QArith.QArith.\n"
       "Local Open Scope Q_scope.")


def coq_sin(s):
    return f"({qlit(s['t_supply'])}, {qlit(s['t_target'])}, {qlit(s['dt_cont'])}, {qlit(s['heat_flow'])})"


def overlap(st):
    return any(h[0] < c[1] and c[0] < h[1] for h in st["hot"] for c in st["cold"])


CORPUS_STAGE = [
    # classic four-stream problem (shifted views arise from dt_cont 5)
    ([dict(zone="Z", name="H1", t_supply=250.0, t_target=40.0, heat_flow=31.5, dt_cont=5.0, htc=1.0),
      dict(zone="Z", name="H2", t_supply=200.0, t_target=80.0, heat_flow=30.0, dt_cont=5.0, htc=1.0),
      dict(zone="Z", name="C1", t_supply=20.0, t_target=180.0, heat_flow=32.0, dt_cont=5.0, htc=1.0),
      dict(zone="Z", name="C2", t_supply=140.0, t_target=230.0, heat_flow=27.0, dt_cont=5.0, htc=1.0)], []),
    ([dict(zone="Z", name="H", t_supply=200.0, t_target=100.0, heat_flow=100.0, dt_cont=10.0, htc=1.0)], []),          # only hot
    ([dict(zone="Z", name="C", t_supply=50.0, t_target=50.0, heat_flow=10.0, dt_cont=0.0, htc=1.0)], []),              # single latent
    ([dict(zone="Z", name="H", t_supply=100.0, t_target=50.0, heat_flow=50.0, dt_cont=0.0, htc=1.0),
      dict(zone="Z", name="C", t_supply=50.0, t_target=100.0, heat_flow=50.0, dt_cont=0.0, htc=1.0)], []),            # balanced Qh=Qc=0
]


def stage_suite(ctx, judge="judge_stage_c01"):
    n = ctx.budget(360, 12000)
    cases = [(ss, uts, True) for ss, uts in CORPUS_STAGE] + [(ss, uts, False) for ss, uts in CORPUS_STAGE]
    for _ in range(n):
        ss, shape = pc.gen_streams(ctx.rng, nmax=9)
        uts, _ = pc.gen_utilities(ctx.rng)
        cases.append((ss, uts, ctx.rng.random() < 0.7))
    if ctx.thorough:
        # exhaustive small scope: every problem of <= 2 streams over a 5-point lattice x CP {1,2} x dt {0,10}, and every
        # problem of exactly 3 streams over the same lattice with CP 1, dt 0 (ties at coincident break points everywhere)
        import itertools
        L = [20.0, 40.0, 60.0, 80.0, 100.0]
        types = [(a, b, cp, dt) for a in L for b in L if a != b for cp in (1.0, 2.0) for dt in (0.0, 10.0)]
        small = [t for t in types if t[2] == 1.0 and t[3] == 0.0]
        mk = lambda i, t: dict(zone="Z", name=f"E{i}", t_supply=t[0], t_target=t[1], heat_flow=t[2] * abs(t[0] - t[1]), dt_cont=t[3], htc=1.0)  # noqa: E731
        for k in (1, 2):
            for comb in itertools.combinations_with_replacement(types, k):
                cases.append(([mk(i, t) for i, t in enumerate(comb)], [], True))
        for comb in itertools.combinations_with_replacement(small, 3):
            cases.append(([mk(i, t) for i, t in enumerate(comb)], [], True))
        ctx.extra["stage_exhaustive"] = "all <=2-stream problems over {20..100 step 20} x CP{1,2} x dt{0,10}; all 3-stream problems with CP 1, dt 0"
    cf = CaseFile(ctx, "stage", HDR, shard=40)
    sts = []
    for ss, uts, shifted in cases:
        st = pc.build_stage(ss, uts, shifted)
        sts.append(st)
        cf.add(f"{judge} {pc.coq_views(st['hot'])} {pc.coq_views(st['cold'])} {pc.coq_views(st['extra'])} {pc.coq_ptab(pc.table_cols(st['pt']))}")
    res = cf.run()
    agree = frag = mism = bad = 0
    for (ss, uts, shifted), st, v in zip(cases, sts, res):
        ctx.evaluations += 1
        shape = "only_hot" if not st["cold"] else "only_cold" if not st["hot"] else "mixed"
        ctx.count(f"stage_{shape}_{'shifted' if shifted else 'real'}")
        if overlap(st) or shape != "mixed":
            ctx.nontrivial_case(("st", tuple(sorted(st["hot"])), tuple(sorted(st["cold"]))))
        ctx.sample(dict(suite="stage", shifted=shifted, streams=ss[:4], utilities=[u["t_supply"] for u in uts]), limit=3)
        if v[0] == 0:
            agree += 1
        elif v[0] == 1:
            frag += 1
        else:
            if bad + mism < 3:
                ss2 = shrink_streams(ctx, ss, uts, shifted, judge)
                st2 = pc.build_stage(ss2, uts, shifted)
                cols = pc.table_cols(st2["pt"])
                kind = "cascade-model-mismatch" if v[0] == 2 else "di-targets-not-exact" if v[1] == 1 else "table-not-faithful"
                ctx.fail(kind, f"stage verdict {v} on {'shifted' if shifted else 'real'} scale", suite="stage",
                         input=dict(streams=ss2, utilities=uts, shifted=shifted), impl_output=cols,
                         predicate=judge, shrunk_from=len(ss))
            if v[0] == 2:
                mism += 1
            else:
                bad += 1
    ctx.suite("stage", cases=len(cases), agree=agree, fragile_skipped=frag, mismatch=mism, property_false=bad)


def shrink_streams(ctx, ss, uts, shifted, judge):
    cur = list(ss)
    changed = True
    while changed and len(cur) > 1:
        changed = False
        cands = [cur[:i] + cur[i + 1:] for i in range(len(cur))]
        cf = CaseFile(ctx, f"shrink{ctx.next_id()}", HDR, shard=40)
        for c in cands:
            st = pc.build_stage(c, uts, shifted)
            cf.add(f"{judge} {pc.coq_views(st['hot'])} {pc.coq_views(st['cold'])} {pc.coq_views(st['extra'])} {pc.coq_ptab(pc.table_cols(st['pt']))}")
        for c, v in zip(cands, cf.run()):
            if v[0] >= 2:
                cur, changed = c, True
                break
    return cur


def zone_inputs(problem, zone):
    names = {s.name for s in zone.hot_streams} | {s.name for s in zone.cold_streams}
    return [s for s in problem["streams"] if s["name"] in names]


def e2e_suite(ctx):
    n = ctx.budget(120, 4000)
    cf = CaseFile(ctx, "e2e", HDR, shard=60)
    meta = []
    probs = []
    # corpus: nested labels, only-hot zone next to only-cold zone
    probs.append((dict(streams=[dict(zone="A", name="h", t_supply=200.0, t_target=100.0, heat_flow=100.0, dt_cont=10.0, htc=1.0),
                                dict(zone="B/C", name="c", t_supply=50.0, t_target=150.0, heat_flow=200.0, dt_cont=5.0, htc=1.0)],
                       utilities=[]), dict(zones=2, shapes=["only_hot", "only_cold"], regime="none")))
    # D44 witness: a 10 kW cold stream only 4e-6 K wide is inactive in every interval (window tol*10) and loses its whole duty
    probs.append((dict(streams=[dict(zone="Z", name="c", t_supply=100.0, t_target=100.000004, heat_flow=10.0, dt_cont=0.0, htc=1.0),
                                dict(zone="Z", name="h", t_supply=200.0, t_target=150.0, heat_flow=50.0, dt_cont=0.0, htc=1.0)],
                       utilities=[]), dict(zones=1, shapes=["narrow"], regime="none")))
    for _ in range(n):
        p, m = pc.gen_problem(ctx.rng)
        if ctx.rng.random() < 0.25 and len(p["streams"]) > 2:
            p["streams"][0]["zone"] += "/Sub"        # nested label
        probs.append((p, m))
    for prob, m in probs:
        try:
            out, mz = pc.run_service(prob)
        except Exception as e:  # noqa: BLE001
            ctx.fail("service-raises", f"{type(e).__name__}: {e}", suite="e2e", input=prob, predicate="service returns")
            continue
        recs = {t.name: t for t in out.targets}
        for path, z in pc.walk_zones(mz):
            k = pc.di_key(z)
            if k is None or k not in recs:
                continue
            xs = zone_inputs(prob, z)
            t = recs[k]
            cf.add(f"judge_c01_record [{'; '.join(coq_sin(s) for s in xs)}] {qlit(t.Qh)} {qlit(t.Qc)} {qlit(t.Qr)}")
            meta.append((prob, k, xs, (t.Qh, t.Qc, t.Qr), m))
    res = cf.run()
    agree = bad = 0
    for (prob, k, xs, tg, m), v in zip(meta, res):
        ctx.evaluations += 1
        ctx.count(f"e2e_zones_{m['zones']}_{m['regime']}")
        kinds = {("c" if (s["t_supply"] < s["t_target"] or (s["t_supply"] == s["t_target"])) else "h") for s in xs}
        if len(xs) >= 1:
            ctx.nontrivial_case(("e2e", k, tuple((s["t_supply"], s["t_target"], s["heat_flow"], s["dt_cont"]) for s in xs)))
        ctx.sample(dict(suite="e2e", record=k, streams=len(xs), reported=tg), limit=6)
        if v[0] == 0:
            agree += 1
        elif v[1] == 144:
            ctx.fail("activity-window-swallows-narrow-stream", f"record {k}: reported {tg} differs from the exact cascade; a stream is narrower "
                     "than twice the activity window", suite="e2e", input=dict(problem=prob, record=k), impl_output=tg, predicate="c01_b eps6")
        else:
            if bad < 3:
                ctx.fail("di-targets-not-exact", f"record {k}: reported (Qh,Qc,Qr)={tg} differs from the exact cascade of its streams",
                         suite="e2e", input=dict(problem=prob, record=k, zone_streams=xs), impl_output=tg,
                         predicate="c01_b eps6 (Qh*,Qc*,Qr*)")
            bad += 1
    ctx.suite("e2e", cases=len(meta), agree=agree, property_false=bad, mismatch=0, fragile_skipped=0)


def run(ctx):
    stage_suite(ctx)
    e2e_suite(ctx)


def replay(ctx, data):
    import json
    inp = data["input"]
    if data.get("suite") == "stage":
        st = pc.build_stage(inp["streams"], inp["utilities"], inp["shifted"])
        cf = CaseFile(ctx, "replay", HDR)
        cf.add(f"judge_stage_c01 {pc.coq_views(st['hot'])} {pc.coq_views(st['cold'])} {pc.coq_views(st['extra'])} {pc.coq_ptab(pc.table_cols(st['pt']))}")
        print(json.dumps(dict(verdict=cf.run()[0], impl_table=pc.table_cols(st["pt"])), indent=1))
    else:
        out, mz = pc.run_service(inp["problem"])
        print(json.dumps([dict(name=t.name, Qh=t.Qh, Qc=t.Qc, Qr=t.Qr) for t in out.targets], indent=1))
