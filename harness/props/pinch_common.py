"""Generators and drivers shared by the cascade / target properties (C01, C02, C05, C06, C09, C12)."""
from __future__ import annotations

import copy

from harness.lib import qlit

HDR = ("From OP Require Import gen.Consts model.Base model.Cascade.\nRequire Import Coq.QArith.QArith.\n"
       "Local Open Scope Q_scope.")

TEMPS = [x * 5.0 for x in range(4, 61)]          # 20 .. 300 step 5
FINE = [x * 0.5 for x in range(40, 601)]          # 20 .. 300 step 0.5
CPS = [0.25, 0.5, 0.75, 1.0, 1.25, 1.5, 2.0, 3.0]
DTS = [0.0, 2.5, 5.0, 10.0]


# --------------------------------------------------------------------------- generators
def gen_stream(rng, name, zone, temps=TEMPS, kind=None, latent_p=0.12):
    a, b = rng.sample(temps, 2)
    if kind == "hot" and a < b or kind == "cold" and a > b:
        a, b = b, a
    cp = rng.choice(CPS)
    dt = rng.choice(DTS)
    if rng.random() < 0.07:
        # narrow-glide stream (a condenser entered as 100.0004 -> 100.0): still hot/cold by its temperatures, not "isothermal"
        d = rng.choice([0.000375, 0.000125, 0.0005, 0.00075])
        q = float(rng.choice([5, 10, 40]))
        b = a - d if (kind == "hot" or (kind is None and rng.random() < 0.5)) else a + d
        return dict(zone=zone, name=name, t_supply=a, t_target=b, heat_flow=q, dt_cont=dt, htc=1.0)
    if rng.random() < latent_p:
        q = float(rng.choice([5, 10, 40, 80]))
        if kind == "hot" or (kind is None and rng.random() < 0.4):
            # a hot latent stream is entered with a negative duty at supply == target (the sign only marks the direction)
            return dict(zone=zone, name=name, t_supply=a, t_target=a, heat_flow=-q, dt_cont=dt, htc=1.0)
        return dict(zone=zone, name=name, t_supply=a, t_target=a, heat_flow=q, dt_cont=dt, htc=1.0)
    return dict(zone=zone, name=name, t_supply=a, t_target=b, heat_flow=cp * abs(a - b), dt_cont=dt, htc=rng.choice([1.0, 0.5, 2.0]))


def gen_streams(rng, zone="Z", nmax=8, shape=None):
    """shape in {None, only_hot, only_cold, threshold_hot, threshold_cold, nested, coincident, single}"""
    shape = shape or rng.choice([None, None, None, "only_hot", "only_cold", "threshold_hot", "threshold_cold", "nested",
                                 "coincident", "single", "fine"])
    n = 1 if shape == "single" else rng.randint(2, nmax)
    temps = FINE if shape == "fine" else TEMPS
    out = []
    for i in range(n):
        kind = {"only_hot": "hot", "only_cold": "cold"}.get(shape)
        s = gen_stream(rng, f"S{i}", zone, temps, kind)
        out.append(s)
    if shape == "threshold_hot":      # a large cold stream above everything: no cooling needed
        out.append(dict(zone=zone, name="BIGC", t_supply=10.0, t_target=320.0, heat_flow=40.0 * 310.0, dt_cont=5.0, htc=1.0))
    if shape == "threshold_cold":
        out.append(dict(zone=zone, name="BIGH", t_supply=330.0, t_target=15.0, heat_flow=40.0 * 315.0, dt_cont=5.0, htc=1.0))
    if shape == "nested" and len(out) >= 2:
        a = out[0]
        lo, hi = sorted((a["t_supply"], a["t_target"]))
        if hi - lo >= 20:
            out[1] = dict(zone=zone, name="N1", t_supply=lo + 5.0, t_target=hi - 5.0, heat_flow=2.0 * (hi - lo - 10.0), dt_cont=a["dt_cont"], htc=1.0)
    if shape == "coincident" and len(out) >= 2:
        a = out[0]
        out[1] = dict(zone=zone, name="C1", t_supply=a["t_target"], t_target=a["t_supply"], heat_flow=a["heat_flow"] * 0.5 or 5.0,
                      dt_cont=rng.choice(DTS), htc=1.0)
    return out, shape


def gen_utilities(rng, regime=None):
    """regime: none | iso | glide | multi"""
    regime = regime or rng.choice(["none", "none", "iso", "multi"])
    if regime == "none":
        return [], regime
    uts = []
    nh = rng.randint(1, 3 if regime == "multi" else 1)
    nc = rng.randint(1, 3 if regime == "multi" else 1)
    hot_levels = rng.sample([120.0, 160.0, 200.0, 250.0, 320.0, 400.0], nh)
    cold_levels = rng.sample([-20.0, 0.0, 10.0, 25.0, 60.0, 90.0], nc)
    for i, T in enumerate(hot_levels):
        g = 1.0 if regime == "glide" else 0.0
        uts.append(dict(name=f"HU{i}", type="Hot", t_supply=T, t_target=T - g, heat_flow=0.0, dt_cont=rng.choice([0.0, 5.0, 10.0]), htc=1.0, price=10.0 + i))
    for i, T in enumerate(cold_levels):
        g = 1.0 if regime == "glide" else 0.0
        uts.append(dict(name=f"CU{i}", type="Cold", t_supply=T, t_target=T + g, heat_flow=0.0, dt_cont=rng.choice([0.0, 5.0, 10.0]), htc=1.0, price=5.0 + i))
    return uts, regime


def gen_utilities_steered(rng, streams):
    """Ladder whose extreme levels sit at / just inside / just outside the process temperature extremes (+- the contributions),
    with Hot, Cold and Both types: exercises the decision whether default utilities are still needed."""
    def star(s):
        lo, hi = sorted((s["t_supply"], s["t_target"]))
        cold = s["t_supply"] <= s["t_target"]
        d = s["dt_cont"] if cold else -s["dt_cont"]
        return lo + d, hi + d, cold
    views = [star(s) for s in streams]
    # the default-utility decision compares with the hottest shifted COLD-stream end and the coldest shifted HOT-stream end
    top = max([v[1] for v in views if v[2]] or [v[1] for v in views])
    bot = min([v[0] for v in views if not v[2]] or [v[0] for v in views])
    uts = []
    du = rng.choice([0.0, 2.5, 5.0, 10.0])
    g = rng.choice([0.0, 0.0, 1.0])
    # levels around the reach limit: with a glide g the utility's target end sits exactly on the limit for top + du + g
    lvl = top + rng.choice([-du, 0.0, du, du + g, du + g, du / 2 if du else 1.0, 2.5, -2.5, 50.0, -10.0])
    uts.append(dict(name="TopU", type=rng.choice(["Hot", "Both", "Both"]), t_supply=lvl, t_target=lvl - g, heat_flow=0.0, dt_cont=du, htc=1.0, price=30.0))
    if rng.random() < 0.5:
        uts.append(dict(name="MidU", type=rng.choice(["Hot", "Both"]), t_supply=(top + bot) / 2, t_target=(top + bot) / 2 - g, heat_flow=0.0,
                        dt_cont=du, htc=1.0, price=20.0))
    dc = rng.choice([0.0, 2.5, 5.0, 10.0])
    lvl = bot + rng.choice([dc, 0.0, -dc, -dc - g, -dc - g, -(dc / 2) if dc else -1.0, -2.5, 2.5, -50.0, 10.0])
    uts.append(dict(name="BotU", type=rng.choice(["Cold", "Both", "Cold"]), t_supply=lvl, t_target=lvl + g, heat_flow=0.0, dt_cont=dc, htc=1.0, price=2.0))
    return uts, "steered"


def gen_utilities_limit(rng, streams):
    """Utilities whose deciding end sits EXACTLY on the reach limit of the default-utility decision: a hot utility whose target end
    (shifted) equals the hottest shifted cold-stream temperature, a cold utility whose supply end equals the coldest shifted
    hot-stream temperature.  Both are 'just sufficient': no default utility may be added."""
    def star(s):
        lo, hi = sorted((s["t_supply"], s["t_target"]))
        cold = s["t_supply"] <= s["t_target"]
        d = s["dt_cont"] if cold else -s["dt_cont"]
        return lo + d, hi + d, cold
    views = [star(s) for s in streams]
    top = max([v[1] for v in views if v[2]] or [v[1] for v in views])
    bot = min([v[0] for v in views if not v[2]] or [v[0] for v in views])
    du, dc = rng.choice([0.0, 2.5, 5.0]), rng.choice([0.0, 2.5, 5.0])
    g = rng.choice([0.5, 1.0, 2.0])
    uts = [dict(name="HPS", type="Hot", t_supply=top + du + g, t_target=top + du, heat_flow=0.0, dt_cont=du, htc=1.0, price=30.0)]
    if rng.random() < 0.5:
        uts.append(dict(name="LPS", type="Hot", t_supply=(top + bot) / 2 + g, t_target=(top + bot) / 2, heat_flow=0.0, dt_cont=du, htc=1.0, price=20.0))
    uts.append(dict(name="CW", type="Cold", t_supply=bot - dc - (0.0 if rng.random() < 0.5 else 10.0), t_target=bot - dc + g, heat_flow=0.0,
                    dt_cont=dc, htc=1.0, price=2.0))
    return uts, "limit"


def gen_problem(rng, nzones=None, regime=None, nmax=7):
    nz = nzones or rng.choice([1, 1, 2, 3, 4])
    streams, shapes = [], []
    # one problem in twelve is LARGE (up to 14 streams in a zone), one in twelve has all duties scaled by a power of two (x1024 or
    # x1/128: magnitudes of 1e5 and 1e-2 kW without leaving the exactly representable numbers)
    big = rng.random() < 0.085
    scale = rng.choice([1024.0, 1.0 / 128.0]) if rng.random() < 0.085 else 1.0
    for z in range(nz):
        ss, sh = gen_streams(rng, zone=f"P{z}", nmax=14 if (big and z == 0) else nmax)
        for s in ss:
            s["heat_flow"] *= scale
        for s in ss:
            s["name"] = f"{s['name']}_{z}"
        streams += ss
        shapes.append(sh)
    if regime == "limit":
        uts, reg = gen_utilities_limit(rng, streams)
    elif regime == "steered":
        uts, reg = gen_utilities_steered(rng, streams)
    else:
        uts, reg = gen_utilities(rng, regime)
    if big:
        shapes = shapes + ["many_streams"]
    if scale != 1.0:
        shapes = shapes + [f"duties_x{scale:g}"]
    return dict(streams=streams, utilities=uts), dict(zones=nz, shapes=shapes, regime=reg)


def gen_header_problem(rng):
    """Two or three zones around a utility header: a Hot utility (use) and a separate Cold utility (generation) whose end
    temperatures lie within ~1 K of each other (the level-matching rule of total-site targeting), one zone able to raise the
    cold utility, another needing the hot one.  Offsets are random so that the raised heat is sometimes usable, sometimes not."""
    L = rng.choice([90.0, 110.0, 125.0, 140.0, 175.0])
    off = rng.choice([0.0, 0.0, 0.25, 0.5, 0.75, -0.25, -0.5, 1.5])
    du = rng.choice([0.0, 0.0, 0.0, 5.0])
    uts = [dict(name="HPS", type="Hot", t_supply=L + 175.0, t_target=L + 174.0, heat_flow=0.0, dt_cont=du, htc=1.0, price=30.0),
           dict(name="LPS", type="Hot", t_supply=L + 0.5, t_target=L - 0.5, heat_flow=0.0, dt_cont=du, htc=1.0, price=20.0),
           dict(name="LPraise", type="Cold", t_supply=L - 0.5 - off, t_target=L + 0.5 - off, heat_flow=0.0, dt_cont=du, htc=1.0, price=1.0),
           dict(name="CW", type="Cold", t_supply=L - 105.0, t_target=L - 95.0, heat_flow=0.0, dt_cont=du, htc=1.0, price=2.0)]
    dt = rng.choice([0.0, 2.5, 5.0])
    q1, q2 = float(rng.choice([400, 1000, 1500])), float(rng.choice([300, 1000, 1200]))
    a = rng.choice([1.0, 1.0, 5.0, 20.0])
    s1, s2 = rng.choice([0.0, 0.0, 0.5, 1.0, -0.5]), rng.choice([0.0, 0.0, 0.5, -0.5, -1.0])
    if rng.random() < 0.5:      # tight configuration: 1 K streams exactly at the header, only partially overlapping
        a, s1, s2 = 1.0, rng.choice([0.0, 0.25]), rng.choice([0.0, -0.25])
    # hot stream whose SHIFTED range is [L-1+s1+du, L-1+s1+du+a]; cold stream whose SHIFTED range is [L+0.5+s2-du-a, L+0.5+s2-du]:
    # with s1 = s2 = 0 the raised heat (L-1..L) only half overlaps what the users need (L-0.5..L+0.5)
    streams = [dict(zone="A", name="H1", t_supply=L - 1.0 + s1 + du + a + dt, t_target=L - 1.0 + s1 + du + dt, heat_flow=q1, dt_cont=dt, htc=1.0),
               dict(zone="A", name="H2", t_supply=L - 40.0, t_target=L - 80.0, heat_flow=300.0, dt_cont=dt, htc=1.0),
               dict(zone="B", name="C1", t_supply=L + 0.5 + s2 - du - a - dt, t_target=L + 0.5 + s2 - du - dt, heat_flow=q2, dt_cont=dt, htc=1.0),
               dict(zone="B", name="C2", t_supply=L + 80.0, t_target=L + 120.0, heat_flow=400.0, dt_cont=dt, htc=1.0)]
    if rng.random() < 0.5:
        extra, _ = gen_streams(rng, zone="C", nmax=4)
        for s in extra:
            s["name"] += "_c"
        streams += extra
    return dict(streams=streams, utilities=uts), dict(zones=len({s["zone"] for s in streams}), shapes=["header"], regime="header")


# --------------------------------------------------------------------------- drivers
def view_of(s, shifted=True):
    return (s.t_min_star, s.t_max_star, s.CP) if shifted else (s.t_min, s.t_max, s.CP)


def coq_view(v):
    return f"(mkV {qlit(v[0])} {qlit(v[1])} {qlit(v[2])})"


def coq_views(vs):
    return "[" + "; ".join(coq_view(v) for v in vs) + "]"


def run_service(problem, project="Project", options=None):
    from OpenPinch import pinch_analysis_service
    data = copy.deepcopy(problem)
    # the input heat_flow of a utility is only a placeholder (targeting decides the duties): results must not depend on it
    for i, u in enumerate(data.get("utilities") or []):
        if u.get("heat_flow") in (0.0, None):
            u["heat_flow"] = [0.0, 25.0, None, 7.5][(i + len(data["streams"])) % 4]
    if options:
        data["options"] = options
    return pinch_analysis_service(data, project_name=project, is_return_full_results=True)


def walk_zones(zone, path=None):
    path = (path + "/" + zone.name) if path else zone.name
    yield path, zone
    for sub in zone.subzones.values():
        yield from walk_zones(sub, path)


def di_key(zone):
    for k in zone.targets:
        if k.endswith("/Direct Integration") or k == "Direct Integration":
            return k
    return None


PT_COLS = ["T", "DELTA_T", "CP_HOT", "DELTA_H_HOT", "H_HOT", "CP_COLD", "DELTA_H_COLD", "H_COLD", "CP_NET", "DELTA_H_NET", "H_NET"]


def table_cols(pt, names=PT_COLS):
    from OpenPinch.lib import PT
    return {n: [float(x) for x in pt.col[getattr(PT, n).value]] for n in names}


def coq_ptab(cols):
    from harness.lib import qlist
    return "(mkPT " + " ".join(qlist(cols[n]) for n in PT_COLS) + ")"


def build_stage(streams, utilities=(), shifted=True):
    """Real Stream objects -> (hot, cold, all) collections and the stage table (before any later insertion)."""
    from OpenPinch.classes import Stream, StreamCollection
    from OpenPinch.analysis.problem_table_analysis import create_problem_table_with_t_int, problem_table_algorithm
    hot, cold, allc = StreamCollection(), StreamCollection(), StreamCollection()
    objs = []
    for s in streams:
        o = Stream(s["name"], s["t_supply"], s["t_target"], dt_cont=s["dt_cont"], heat_flow=s["heat_flow"], htc=s["htc"])
        objs.append(o)
        (hot if o.type == "Hot" else cold).add(o)
        allc.add(o)
    extra = []
    for u in utilities:
        o = Stream(u["name"], u["t_supply"], u["t_target"], dt_cont=u["dt_cont"], heat_flow=u.get("heat_flow") or 0.0, htc=u["htc"],
                   is_process_stream=False)
        extra.append(o)
        allc.add(o)
    pt = create_problem_table_with_t_int(allc, is_shifted=shifted)
    problem_table_algorithm(pt, hot, cold, shifted)
    return dict(hot=[view_of(o, shifted) for o in hot], cold=[view_of(o, shifted) for o in cold],
                extra=[view_of(o, shifted) for o in extra], pt=pt)
