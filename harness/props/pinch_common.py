"""Generators and drivers shared by the cascade / target properties (C01, C02, C05, C06, C09, C12)."""
from __future__ import annotations

import copy

from harness.lib import qlit

HDR = ("From OP Require Import gen.Consts model.Base model.Cascade.\nRequire Import Coq.QArith.QArith.\n"
       "Local Open Scope Q_scope.")

TEMPS = [x * 5.0 for x in range(4, 61)]          # 20 .. 300 step 5
FINE = [x * 0.5 for x in range(40, 601)]          # 20 .. 300 step 0.5
CPS = [0.25, 0.5, 0.75, 1.0, 1.25, 1.5, 2.0, 3.0]
DTS = [0.0, 2.5, 5.0, 10.0]


# --------------------------------------------------------------------------- generators
def gen_stream(rng, name, zone, temps=TEMPS, kind=None, latent_p=0.12):
    a, b = rng.sample(temps, 2)
    if kind == "hot" and a < b or kind == "cold" and a > b:
        a, b = b, a
    cp = rng.choice(CPS)
    dt = rng.choice(DTS)
    if rng.random() < latent_p:
        q = float(rng.choice([5, 10, 40, 80]))
        if kind == "hot":
            # a hot latent stream needs a negative duty at supply == target; the schema route gives cold for q >= 0
            return dict(zone=zone, name=name, t_supply=a, t_target=a - 0.5, heat_flow=q, dt_cont=dt, htc=1.0)
        return dict(zone=zone, name=name, t_supply=a, t_target=a, heat_flow=q, dt_cont=dt, htc=1.0)
    return dict(zone=zone, name=name, t_supply=a, t_target=b, heat_flow=cp * abs(a - b), dt_cont=dt, htc=rng.choice([1.0, 0.5, 2.0]))


def gen_streams(rng, zone="Z", nmax=8, shape=None):
    """shape in {None, only_hot, only_cold, threshold_hot, threshold_cold, nested, coincident, single}"""
    shape = shape or rng.choice([None, None, None, "only_hot", "only_cold", "threshold_hot", "threshold_cold", "nested",
                                 "coincident", "single", "fine"])
    n = 1 if shape == "single" else rng.randint(2, nmax)
    temps = FINE if shape == "fine" else TEMPS
    out = []
    for i in range(n):
        kind = {"only_hot": "hot", "only_cold": "cold"}.get(shape)
        s = gen_stream(rng, f"S{i}", zone, temps, kind)
        out.append(s)
    if shape == "threshold_hot":      # a large cold stream above everything: no cooling needed
        out.append(dict(zone=zone, name="BIGC", t_supply=10.0, t_target=320.0, heat_flow=40.0 * 310.0, dt_cont=5.0, htc=1.0))
    if shape == "threshold_cold":
        out.append(dict(zone=zone, name="BIGH", t_supply=330.0, t_target=15.0, heat_flow=40.0 * 315.0, dt_cont=5.0, htc=1.0))
    if shape == "nested" and len(out) >= 2:
        a = out[0]
        lo, hi = sorted((a["t_supply"], a["t_target"]))
        if hi - lo >= 20:
            out[1] = dict(zone=zone, name="N1", t_supply=lo + 5.0, t_target=hi - 5.0, heat_flow=2.0 * (hi - lo - 10.0), dt_cont=a["dt_cont"], htc=1.0)
    if shape == "coincident" and len(out) >= 2:
        a = out[0]
        out[1] = dict(zone=zone, name="C1", t_supply=a["t_target"], t_target=a["t_supply"], heat_flow=a["heat_flow"] * 0.5 or 5.0,
                      dt_cont=rng.choice(DTS), htc=1.0)
    return out, shape


def gen_utilities(rng, regime=None):
    """regime: none | iso | glide | multi"""
    regime = regime or rng.choice(["none", "none", "iso", "multi"])
    if regime == "none":
        return [], regime
    uts = []
    nh = rng.randint(1, 3 if regime == "multi" else 1)
    nc = rng.randint(1, 3 if regime == "multi" else 1)
    hot_levels = rng.sample([120.0, 160.0, 200.0, 250.0, 320.0, 400.0], nh)
    cold_levels = rng.sample([-20.0, 0.0, 10.0, 25.0, 60.0, 90.0], nc)
    for i, T in enumerate(hot_levels):
        g = 1.0 if regime == "glide" else 0.0
        uts.append(dict(name=f"HU{i}", type="Hot", t_supply=T, t_target=T - g, heat_flow=0.0, dt_cont=rng.choice([0.0, 5.0, 10.0]), htc=1.0, price=10.0 + i))
    for i, T in enumerate(cold_levels):
        g = 1.0 if regime == "glide" else 0.0
        uts.append(dict(name=f"CU{i}", type="Cold", t_supply=T, t_target=T + g, heat_flow=0.0, dt_cont=rng.choice([0.0, 5.0, 10.0]), htc=1.0, price=5.0 + i))
    return uts, regime


def gen_problem(rng, nzones=None, regime=None, nmax=7):
    nz = nzones or rng.choice([1, 1, 2, 3, 4])
    streams, shapes = [], []
    for z in range(nz):
        ss, sh = gen_streams(rng, zone=f"P{z}", nmax=nmax)
        for s in ss:
            s["name"] = f"{s['name']}_{z}"
        streams += ss
        shapes.append(sh)
    uts, reg = gen_utilities(rng, regime)
    return dict(streams=streams, utilities=uts), dict(zones=nz, shapes=shapes, regime=reg)


# --------------------------------------------------------------------------- drivers
def view_of(s, shifted=True):
    return (s.t_min_star, s.t_max_star, s.CP) if shifted else (s.t_min, s.t_max, s.CP)


def coq_view(v):
    return f"(mkV {qlit(v[0])} {qlit(v[1])} {qlit(v[2])})"


def coq_views(vs):
    return "[" + "; ".join(coq_view(v) for v in vs) + "]"


def run_service(problem, project="Project", options=None):
    from OpenPinch import pinch_analysis_service
    data = copy.deepcopy(problem)
    if options:
        data["options"] = options
    return pinch_analysis_service(data, project_name=project, is_return_full_results=True)


def walk_zones(zone, path=None):
    path = (path + "/" + zone.name) if path else zone.name
    yield path, zone
    for sub in zone.subzones.values():
        yield from walk_zones(sub, path)


def di_key(zone):
    for k in zone.targets:
        if k.endswith("/Direct Integration") or k == "Direct Integration":
            return k
    return None


PT_COLS = ["T", "DELTA_T", "CP_HOT", "DELTA_H_HOT", "H_HOT", "CP_COLD", "DELTA_H_COLD", "H_COLD", "CP_NET", "DELTA_H_NET", "H_NET"]


def table_cols(pt, names=PT_COLS):
    from OpenPinch.lib import PT
    return {n: [float(x) for x in pt.col[getattr(PT, n).value]] for n in names}


def coq_ptab(cols):
    from harness.lib import qlist
    return "(mkPT " + " ".join(qlist(cols[n]) for n in PT_COLS) + ")"


def build_stage(streams, utilities=(), shifted=True):
    """Real Stream objects -> (hot, cold, all) collections and the stage table (before any later insertion)."""
    from OpenPinch.classes import Stream, StreamCollection
    from OpenPinch.analysis.problem_table_analysis import create_problem_table_with_t_int, problem_table_algorithm
    hot, cold, allc = StreamCollection(), StreamCollection(), StreamCollection()
    objs = []
    for s in streams:
        o = Stream(s["name"], s["t_supply"], s["t_target"], dt_cont=s["dt_cont"], heat_flow=s["heat_flow"], htc=s["htc"])
        objs.append(o)
        (hot if o.type == "Hot" else cold).add(o)
        allc.add(o)
    extra = []
    for u in utilities:
        o = Stream(u["name"], u["t_supply"], u["t_target"], dt_cont=u["dt_cont"], heat_flow=u.get("heat_flow") or 0.0, htc=u["htc"],
                   is_process_stream=False)
        extra.append(o)
        allc.add(o)
    pt = create_problem_table_with_t_int(allc, is_shifted=shifted)
    problem_table_algorithm(pt, hot, cold, shifted)
    return dict(hot=[view_of(o, shifted) for o in hot], cold=[view_of(o, shifted) for o in cold],
                extra=[view_of(o, shifted) for o in extra], pt=pt)
