"""C20 -- effectiveness-NTU and LMTD relations (DESIGN.md section 8, C20).

Tie of the generated real-valued model (gen/Scalar.v, gen/HxDispatch.v) to /repo, on every run:
  (a) dispatch: the branch each of the 16 label forms takes in the RUNNING HX_Eff / HX_NTU is observed by line tracing and
      compared, inside coqc, with the generated dispatch table and with the arrangement's own branch;
  (b) translator validation: every generated function is evaluated by the real Python function at >= 20 sample points and a
      generated Coq file proves |f(x) - <python value>| <= 1e-9 with `interval` (a mistranslation breaks a proof);
  (c) P_b sweep on the implementation (numeric exploration supporting the search for a failing input; the clause verdicts
      on the float results, taken as exact rationals, are computed by coqc): arrangement x label form x 40 NTU x 21 c x 4 passes;
  (d) LMTD clauses on dyadic positive pairs incl. equal / nearly equal, refusal on non-positive ones (verdicts by coqc in Q).
"""
from __future__ import annotations

import json
import math
import sys
from concurrent.futures import ThreadPoolExecutor
from fractions import Fraction
from pathlib import Path

from harness import lib
from harness.lib import CaseFile, F, coq_bool, qlit, qlist

MODEL_TARGETS = ["gen/HxDispatch.vo", "gen/Scalar.vo", "model/HX.vo"]
USES_REALS = True
COQCHK = False   # props/C20.v depends on Interval (two refutation witnesses): coqchk would re-check Interval + Flocq + Coquelicot, > 30 min
# axioms beyond the four real-number/classical ones: the primitive 63-bit integers (declared by Coq's standard library, used by the
# Interval tactic's big-number arithmetic in the two refutation witnesses) -- exactly what Print Assumptions reports
_P63 = ["tail0", "subcarryc", "subc", "sub", "mulc", "mul", "mod", "lxor", "ltb", "lsr", "lsl", "lor", "leb", "land", "int", "head0", "eqb",
        "diveucl_21", "diveucl", "div", "compare", "addmuldiv", "addcarryc", "addc", "add"]
_U63 = ["tail0_spec", "subcarryc_def_spec", "subc_def_spec", "sub_spec", "of_to_Z", "mulc_spec", "mul_spec", "mod_spec", "lxor_spec", "ltb_spec",
        "lsr_spec", "lsl_spec", "lor_spec", "leb_spec", "land_spec", "head0_spec", "eqb_refl", "eqb_correct", "diveucl_def_spec", "diveucl_21_spec",
        "div_spec", "compare_def_spec", "addmuldiv_def_spec", "addcarryc_def_spec", "addc_def_spec", "add_spec"]
ALLOWED_AXIOMS = ["PrimInt63." + x for x in _P63] + ["Uint63." + x for x in _U63]
RULE = ("dispatch: all 8 arrangements x {member, text}; samples: dyadic arguments covering every guard of every generated function "
        "(c = 0, c = 1, NTU <= 0, eff outside (0,1), passes 1..4, equal / nearly equal / refused LMTD pairs); sweep: full grid "
        "arrangement x label form x NTU = k/4 (k = 1..40) x c = k/20 (k = 0..20) x passes 1..4 plus small-NTU corpus rows; "
        "a row is non-trivial when 0 < c < 1; distinct = distinct (arrangement, form, c, passes); LMTD: dyadic pairs k/8 in (0, 200], "
        "15 % equal, 15 % within 2e-6..2e-3 relative, 10 % with a non-positive member")
ASSUMPTIONS = ["floats are modelled as exact reals: IEEE rounding of the implementation is not proved, the sweep allows 1e-12 absolute on "
               "effectiveness clauses, 1e-6 relative on the NTU round trip, 1e-9 relative on LMTD clauses",
               "`a ** b` with a non-integer-literal exponent is Rpower (equal to Python's pow for a > 0; the theorems establish a > 0)",
               "Coq's total division stands for Python's `/`; the theorems prove every denominator non-zero from their hypotheses",
               "Rows / Cmin_Phase of HX_Eff are modelled at their default None (finite-row correlations of CrossflowUnmixedEff2 are outside "
               "the property's quantifier)",
               "HX_NTU_Numerical is rendered as a fuel-indexed Fixpoint after its AST was matched against the expected secant-loop shape; "
               "its run is not sample-validated (only its postcondition is checked on the implementation)",
               "HeatExchangerTypes is a plain Enum (checked by the translator): a member never equals its text"]
TRUSTED = ["Coq Interval tactic (samples, refutation witnesses), Coquelicot (mean-value theorem for the LMTD upper bound and for parallel <= counter flow)",
           "coqchk is not run for C20 (thorough tier): re-checking the Interval/Flocq/Coquelicot libraries it depends on exceeds the 30-minute budget (measured: > 1800 s); the theorems are checked by coqc only",
           "sys.settrace line tracing to observe the branch taken by the running implementation"]
HDR = ("From OP Require Import gen.Consts gen.HxDispatch model.Base model.HX.\nRequire Import Coq.QArith.QArith Coq.Strings.String.\n"
       "Local Open Scope Q_scope.")

NTUS = [k / 4 for k in range(1, 41)]
CS = [k / 20 for k in range(0, 21)]
NEAR_ONE_CS = [0.999, 0.9993, 0.9996, 0.99985]
SMALL_NTUS = [0.01, 0.02, 0.05, 0.1, 0.15, 0.2]          # corpus rows: D33 showed up at N = 0.01, c = 0.05
EPS = Fraction(1, 10 ** 12)
D34_MIN_NTU_PER_PASS = 2.9      # the both-mixed correlation has its maximum at NTU/pass >= 2.98 for every c


def impl():
    from OpenPinch.lib import HeatExchangerTypes as HX
    from OpenPinch.utils import heat_exchanger as hx
    return HX, hx


def translator():
    sys.path.insert(0, str(lib.VERIF / "translator"))
    import gen_scalar
    return gen_scalar


# ------------------------------------------------------------------ (a) dispatch observed by tracing
def observe_branch(func, code_name, arms, args):
    """Run func(*args) and return the name of the chain arm whose body executed in the OUTERMOST frame of `code_name`."""
    hit, depth = set(), [0]

    def tracer(frame, event, arg):
        if event == "call" and frame.f_code.co_name == code_name and frame.f_code.co_filename.endswith("heat_exchanger.py"):
            depth[0] += 1
            if depth[0] == 1:
                def local(fr, ev, a):
                    if ev == "line":
                        hit.add(fr.f_lineno)
                    elif ev == "return":
                        depth[0] -= 1
                    return local
                return local

            def inner(fr, ev, a):
                if ev == "return":
                    depth[0] -= 1
                return inner
            return inner
        return None

    old = sys.gettrace()
    sys.settrace(tracer)
    try:
        try:
            func(*args)
            err = None
        except Exception as e:  # noqa: BLE001
            err = f"{type(e).__name__}: {e}"
    finally:
        sys.settrace(old)
    taken = [m for m, lo, hi in arms if any(lo <= ln <= hi for ln in hit)]
    return taken, err


def dispatch_suite(ctx):
    HX, hx = impl()
    info = translator().chain_info(lib.REPO)
    members = [m.name for m in HX]
    cf = CaseFile(ctx, "dispatch", HDR)
    cases = []
    for m in HX:
        for form, lab in (("FMember", m), ("FText", m.value)):
            te, err_e = observe_branch(hx.HX_Eff, "HX_Eff", info["HX_Eff"]["arms"], (lab, 1.3, 0.6))
            tn, err_n = observe_branch(hx.HX_NTU, "HX_NTU", info["HX_NTU"]["arms"], (lab, 0.4, 0.6))
            idx = lambda t: members.index(t[0]) if len(t) == 1 and t[0] in members else len(members)  # noqa: E731
            cases.append((m.name, form, te, tn, err_e, err_n))
            cf.add(f"judge_dispatch hx_{m.name} {form} {idx(te)}%nat {idx(tn)}%nat")
    agree = mism = bad = 0
    for (name, form, te, tn, err_e, err_n), v in zip(cases, cf.run()):
        ctx.evaluations += 1
        ctx.count("dispatch_label")
        ctx.nontrivial_case(("dispatch", name, form))
        if v[0] == 0:
            agree += 1
            continue
        data = dict(input=dict(arrangement=name, label_form=form, probe="HX_Eff(label, 1.3, 0.6), HX_NTU(label, 0.4, 0.6)"),
                    impl_output=dict(eff_branch_taken=te, ntu_branch_taken=tn, eff_error=err_e, ntu_error=err_n), suite="dispatch")
        if v[0] == 2:
            mism += 1
            ctx.fail("hx-dispatch-model-mismatch", f"generated dispatch table and traced implementation differ for {name}/{form} "
                     f"({'HX_Eff' if v[1] == 1 else 'HX_NTU'})", predicate="eff_dispatch/ntu_dispatch = traced branch", **data)
        else:
            bad += 1
            ctx.fail("hx-label-form-dispatch", f"{'HX_Eff' if v[1] == 1 else 'HX_NTU'} does not take the {name} branch when the arrangement "
                     f"is passed as {'the enum member' if form == 'FMember' else 'its text'}", predicate="branch taken = own branch", **data)
    ctx.suite("dispatch", cases=len(cases), agree=agree, mismatch=mism, property_false=bad, fragile_skipped=0)


# ------------------------------------------------------------------ (b) translator validation by interval
def rl(x) -> str:
    f = F(x)
    n, d = f.numerator, f.denominator
    s = f"({abs(n)} / {d})" if d != 1 else f"{abs(n)}"
    return s if n >= 0 else f"(- {s})"


def tolq(v):
    return Fraction(1, 10 ** 9) * max(1, abs(F(v)))


def goal_total(call, v):
    t = tolq(v)
    return f"Rabs ({call} - {rl(v)}) <= {t.numerator} / {t.denominator}"


def goal_opt(call, v):
    if v is None:
        return f"match {call} with Some _ => False | None => True end"
    t = tolq(v)
    return f"match {call} with Some v_ => Rabs (v_ - {rl(v)}) <= {t.numerator} / {t.denominator} | None => False end"


def build_samples():
    """[(function name, description, goal text)] -- the Python value is obtained by CALLING the implementation."""
    HX, hx = impl()
    S = []

    def call(fn, *a):
        try:
            r = fn(*a)
            r = float(r)
            if r != r or r in (float("inf"), float("-inf")):
                return "skip"
            return r
        except ValueError as e:
            return None if ("Invalid temperature" in str(e) or "must" in str(e)) else "skip"
        except (ZeroDivisionError, OverflowError):
            return "skip"

    lab = lambda m, form: f"(LMember hx_{m.name})" if form == "m" else f"(LText (hx_value hx_{m.name}))"  # noqa: E731
    pyl = lambda m, form: m if form == "m" else m.value  # noqa: E731
    # --- HX_Eff: every label, every guard region
    for m in HX:
        series = m.name == "CrFUU"
        for form in ("m", "t"):
            pts = [(N, c, P) for N in ((0.3125, 1.75, 6.0) if not series else (1.75,)) for c in (0.0, 0.375, 1.0) for P in ((1, 3) if not series else (1,))]
            pts += [(-1.0, 0.375, 1), (2.0, 0.625, 2), (0.0, 0.5, 1)] if not series else [(-1.0, 0.375, 1), (3.0, 0.25, 2)]
            for N, c, P in pts:
                v = call(hx.HX_Eff, pyl(m, form), N, c, P)
                if v == "skip" or v is None:
                    continue
                S.append((f"HX_Eff[{m.name}]", f"HX_Eff({m.name}/{form}, {N}, {c}, {P}) = {v!r}", goal_total(f"HX_Eff_R {lab(m, form)} {rl(N)} {rl(c)} {rl(P)}", v)))
    # --- HX_NTU: closed-form labels + sentinel regions
    for m in HX:
        if m.name in ("CrFUU", "CrFMM"):
            continue
        for form in ("m", "t"):
            for e in (0.1875, 0.4375, 0.625, 0.0, 1.25):
                for c in (0.0, 0.375, 1.0):
                    for P in (1, 2):
                        if (e in (0.0, 1.25)) and not (c == 0.375 and P == 1):
                            continue
                        v = call(hx.HX_NTU, pyl(m, form), e, c, P)
                        if v == "skip" or v is None:
                            continue
                        S.append((f"HX_NTU[{m.name}]", f"HX_NTU({m.name}/{form}, {e}, {c}, {P}) = {v!r}",
                                  goal_opt(f"HX_NTU_R {lab(m, form)} {rl(e)} {rl(c)} {rl(P)}", v)))
    # --- helpers
    for k in range(1, 21):
        x = k / 8
        S.append(("Coth", f"Coth({x})", goal_total(f"Coth_R {rl(x)}", call(hx.Coth, x))))
    for e in (0.125, 0.5, 0.875):
        for c in (0.0, 0.5, 1.0):
            for P in (2, 3, 4):
                S.append(("MultiPassEff", f"MultiPassEff({e},{c},{P})", goal_total(f"MultiPassEff_R {rl(e)} {rl(c)} {rl(P)}", call(hx.MultiPassEff, e, c, P))))
                S.append(("MultiPassNTU", f"MultiPassNTU({e},{c},{P})", goal_total(f"MultiPassNTU_R {rl(e)} {rl(c)} {rl(P)}", call(hx.MultiPassNTU, e, c, P))))
    for N in (0.25, 1.0, 2.0, 3.5, 6.0):
        for c in (0.125, 0.5, 0.75, 1.0):
            S.append(("CrossflowUnmixedEff1", f"CrossflowUnmixedEff1({N},{c})", goal_total(f"CrossflowUnmixedEff1_R {rl(N)} {rl(c)}", call(hx.CrossflowUnmixedEff1, N, c))))
    # --- LMTD
    import numpy as np
    pairs = [(70.0, 20.0), (20.0, 70.0), (40.0, 40.0), (0.5, 0.5), (10.0, 10.0 + 2 ** -20), (10.0 + 2 ** -20, 10.0), (100.0, 100.0 + 2 ** -10),
             (100.0 + 2 ** -10, 100.0), (100.0, 100.0 + 2 ** -9), (1.0, 1.0 + 2 ** -16), (1.0, 1.0 + 2 ** -15), (3.0, 0.125), (0.125, 3.0), (250.0, 1.5),
             (5.0, 0.0), (0.0, 5.0), (-1.0, 5.0), (5.0, -0.25), (0.0, 0.0), (2 ** -30, 4.0), (4.0, 2 ** -30), (1e-5, 2e-5)]
    for a, b in pairs:
        with __import__("warnings").catch_warnings():
            __import__("warnings").simplefilter("ignore")
            v = call(lambda x, y: float(hx.compute_LMTD_from_dts(x, y)), a, b)
        if v == "skip":
            continue
        S.append(("compute_LMTD_from_dts", f"compute_LMTD_from_dts({a!r},{b!r}) = {v!r}", goal_opt(f"compute_LMTD_from_dts_R {rl(a)} {rl(b)}", v)))
    ts = [(150, 50, 30, 80), (100, 80, 40, 60), (150, 50, 30, 30), (100, 80, 90, 70), (90, 100, 40, 80), (150, 100, 80, 60), (200, 120, 100, 150),
          (80.5, 60.25, 20, 40), (300, 100, 90, 250), (60, 60, 20, 30), (60, 50, 40, 60), (60, 50, 45, 50), (120, 70, 70, 90), (120, 70, 60, 120),
          (10, 5, 1, 2), (500, 20, 10, 400), (75, 74, 20, 21), (75, 74, 73, 74.5), (40, 30, 35, 45), (33, 22, 11, 22.5)]
    for t in ts:
        t = tuple(float(x) for x in t)
        v = call(lambda *x: float(hx.compute_LMTD_from_ts(*x)), *t)
        if v == "skip":
            continue
        S.append(("compute_LMTD_from_ts", f"compute_LMTD_from_ts{t} = {v!r}", goal_opt("compute_LMTD_from_ts_R " + " ".join(rl(x) for x in t), v)))
    # (the three costing functions are sample-validated by the C15 check)
    return [s for s in S if "skip" not in s[2]]


def samples_suite(ctx):
    ok, log, dt = lib.coq_make(["proofs/HXSampleTac.vo"], timeout=600)
    ctx.extra["build_sampletac_s"] = round(dt, 1)
    if not ok:
        f, ln, msg = lib.parse_coq_error(log)
        ctx.break_(f"translator-validation:tactic-file:{f}:{ln}", msg)
        return
    S = build_samples()
    per_fn = {}
    for fn, _, _ in S:
        per_fn[fn] = per_fn.get(fn, 0) + 1
    ctx.extra["samples_per_function"] = per_fn
    pooled = {}
    for k, v in per_fn.items():
        pooled[k.split("[")[0]] = pooled.get(k.split("[")[0], 0) + v
    few = {k: v for k, v in pooled.items() if v < 20}
    few.update({k: v for k, v in per_fn.items() if v < 10})
    if few:
        ctx.break_("translator-validation:too-few-samples", json.dumps(few))
    wd = ctx.workdir / "samples"
    wd.mkdir(parents=True, exist_ok=True)
    # heavy goals (series) spread evenly: round-robin over shards
    nshard = 16
    shards = [[] for _ in range(nshard)]
    heavy = [s for s in S if "CrFUU" in s[0] or "Crossflow" in s[0]]
    light = [s for s in S if s not in heavy]
    for i, s in enumerate(heavy + light):
        shards[i % nshard].append(s)
    files = []
    for si, sc in enumerate(shards):
        lines = ["From Coq Require Import Reals String.", "From OP Require Import gen.Consts gen.HxDispatch gen.Scalar proofs.HXSampleTac.",
                 "Local Open Scope R_scope."]
        index = {}
        for (fn, desc, goal) in sc:
            index[len(lines) + 1] = (fn, desc)
            lines.append(f"Goal {goal}. Proof. sample. Qed.")
        p = wd / f"samples{si}.v"
        p.write_text("\n".join(lines) + "\n")
        files.append((p, index))

    def one(pi):
        p, _ = pi
        return lib.sh(f"coqc -Q {lib.COQ} OP -w -notation-overridden,-ambiguous-paths {p.name}", 900, cwd=wd)

    with ThreadPoolExecutor(max_workers=lib.JOBS) as ex:
        results = list(ex.map(one, files))
    bad = 0
    for (p, index), (rc, out, _) in zip(files, results):
        if rc != 0:
            bad += 1
            import re
            m = re.search(r'line (\d+), characters', out)
            fn, desc = index.get(int(m.group(1)), ("?", "?")) if m else ("?", "?")
            ctx.break_(f"translator-validation:{fn}", f"generated Coq function and the Python function differ (or the guard could not be decided) at {desc}\n"
                       + out[-600:])
    for fn, n in per_fn.items():
        ctx.count(f"samples_{fn}", n)
    ctx.evaluations += len(S)
    ctx.suite("translator-validation", cases=len(S), agree=len(S) if not bad else 0, mismatch=bad, property_false=0, fragile_skipped=0,
              note="each case is a Coq proof (interval) that the generated real function is within 1e-9 of the value the Python function returned")
    ctx.sample(dict(suite="translator-validation", example=S[0][1], goal=S[0][2][:200]))


# ------------------------------------------------------------------ (c) sweep on the implementation
def qfast(x) -> str:
    """exact rational of a float; dyadic denominators as 2^k and hexadecimal numerators (number literals are the dominant cost of a shard)"""
    f = F(x)
    n, d = f.numerator, f.denominator
    if d & (d - 1) == 0:
        k = d.bit_length() - 1
        num = hex(n) if n >= 0 else f"(- {hex(-n)})"
        return f"(Qmake {num} (2 ^ {k}))" if k else f"(Qmake {num} 1)"
    return qlit(x)


def qfl(xs):
    return "[" + "; ".join(qfast(x) for x in xs) + "]"


def qfo(xs):
    return "[" + "; ".join("None" if x is None else f"(Some {qfast(x)})" for x in xs) + "]"


def row_values(arr, lab, c, P, ntus):
    """Evaluate one row on the implementation. Lists aligned with `ns` (points where HX_Eff returned a finite value)."""
    HX, hx = impl()
    ns, es, ecf, c0, nb, eb, errs = [], [], [], [], [], [], []
    closed = arr.name not in ("CrFUU", "CrFMM")
    for N in ntus:
        try:
            e = float(hx.HX_Eff(lab, N, c, P))
        except Exception as ex:  # noqa: BLE001
            errs.append(("eff", N, f"{type(ex).__name__}: {ex}"))
            continue
        if e != e or abs(e) == float("inf"):
            errs.append(("eff", N, f"non-finite effectiveness {e!r}"))
            continue
        ns.append(N)
        es.append(e)
        ecf.append(float(hx.HX_Eff(HX.CF.value, N, 0.0 if arr.name == "CondEvap" else c, 1)))
        if c == 0:
            c0.append(1 - math.exp(-N))
        nb.append(None)
        eb.append(None)
        if not (0 < e < 1):
            continue
        try:
            n = float(hx.HX_NTU(lab, e, c, P))
            e2 = float(hx.HX_Eff(lab, n, c, P))
        except Exception as ex:  # noqa: BLE001
            errs.append(("ntu", N, f"{type(ex).__name__}: {ex}"))
            continue
        if n != n or e2 != e2 or abs(n) == float("inf"):
            errs.append(("ntu", N, f"non-finite NTU {n!r} / effectiveness {e2!r}"))
            continue
        if closed:
            nb[-1] = n
        eb[-1] = e2
    return dict(ns=ns, es=es, ecf=ecf, c0=c0, nb=nb, eb=eb, errs=errs)


def row_expr(arr, P, r):
    closed = arr.name not in ("CrFUU", "CrFMM")
    te = Fraction(1, 10 ** 9) if closed else Fraction(101, 100) * P * Fraction(1, 10 ** 5)
    return (f"judge_eff_row {qlit(EPS)} {qlit(Fraction(1, 10 ** 6))} {qlit(te)} {qfl(r['ns'])} {qfl(r['es'])} {qfl(r['ecf'])} {qfl(r['c0'])} "
            f"{qfo(r['nb'])} {qfo(r['eb'])}")


CLAUSE = {0: ("hx-eff-out-of-range", "effectiveness outside [0,1]"),
          1: ("hx-eff-not-monotone", "effectiveness decreases with NTU"),
          2: ("hx-eff-exceeds-counterflow", "effectiveness exceeds the counter-flow value"),
          3: ("hx-eff-c0-value", "effectiveness at c = 0 is not 1 - exp(-NTU)"),
          4: ("hx-ntu-roundtrip", "HX_NTU(HX_Eff(NTU)) does not return NTU"),
          5: ("hx-eff-roundtrip", "HX_Eff(HX_NTU(eff)) does not return eff")}


def classify_row(ctx, arr, form, c, P, r, v, seen):
    """Record failures of one row; returns number of failing clauses."""
    nbad = 0
    base = dict(arrangement=arr.name, label_form=form, c=c, passes=P)
    for what, N, msg in r["errs"]:
        kind = "hx-eff-raises" if what == "eff" else "hx-ntu-raises"
        nbad += 1
        if seen.get(kind, 0) < 3:
            ctx.fail(kind, f"{'HX_Eff' if what == 'eff' else 'HX_NTU(HX_Eff(...))'} raised {msg}", input=dict(base, NTU=N), impl_output=msg, suite="sweep",
                     predicate="no exception for NTU in (0,10], c in [0,1], passes 1..4")
        seen[kind] = seen.get(kind, 0) + 1
    for k, idx in enumerate(v):
        if idx < 0:
            continue
        nbad += 1
        kind, what = CLAUSE[k]
        es = list(zip(r["ns"], r["es"]))
        if k == 1:
            (N1, e1), (N2, e2) = es[idx], es[idx + 1]
            inp, outp = dict(base, NTU_low=N1, NTU_high=N2), dict(eff_low=e1, eff_high=e2)
            if arr.name == "CrFMM" and N2 / P >= D34_MIN_NTU_PER_PASS:
                kind = "crossflow-mixed-nonmonotone-large-ntu"
        elif k == 2:
            N, e = es[idx]
            inp, outp = dict(base, NTU=N), dict(eff=e, counter_flow=r["ecf"][idx])
            if arr.name == "CrFUU":
                kind = "crossflow-unmixed-series-exceeds-counterflow"
        elif k == 4:
            N = r["ns"][idx]
            inp, outp = dict(base, NTU=N), dict(ntu_back=r["nb"][idx])
        elif k == 5:
            N, e = es[idx]
            inp, outp = dict(base, NTU=N), dict(eff=e, eff_back=r["eb"][idx])
        else:
            N, e = es[idx]
            inp, outp = dict(base, NTU=N), dict(eff=e, expected=(r["c0"][idx] if k == 3 else "[0,1]"))
        if seen.get(kind, 0) < 3:
            ctx.fail(kind, f"{what}: {arr.name} passed as {form}", input=inp, impl_output=outp, suite="sweep", predicate=what + " (clause %d of judge_eff_row)" % (k + 1))
        seen[kind] = seen.get(kind, 0) + 1
    return nbad


def sweep_suite(ctx):
    HX, hx = impl()
    rows = []
    passes = [1, 2, 3, 4]
    cs = CS if (ctx.thorough or True) else CS
    for arr in HX:
        for form, lab in (("member", arr), ("text", arr.value)):
            for P in passes:
                for c in cs:
                    rows.append((arr, form, lab, c, P, NTUS))
            # corpus: small NTU (D33), equal ratio, zero ratio (D14)
            for c in (0.0, 0.05, 0.5, 1.0):
                rows.append((arr, form, lab, c, 1, SMALL_NTUS))
            # capacity ratios just below 1: the balanced-stream formulas take over at exactly c = 1 and nowhere else
            if form == "text":
                for P in passes:
                    for c in NEAR_ONE_CS:
                        rows.append((arr, form, lab, c, P, NTUS[1::4]))
    if ctx.thorough:
        fine = [k / 16 for k in range(1, 161)]
        for arr in HX:
            for c in [k / 40 for k in range(0, 41)]:
                for P in (1, 2, 3, 4):
                    rows.append((arr, "text", arr.value, c, P, fine))
    vals, exprs, uniq = [], [], {}
    t_py = __import__("time").time()
    for arr, form, lab, c, P, ntus in rows:
        r = row_values(arr, lab, c, P, ntus)
        vals.append(r)
        ex = row_expr(arr, P, r)
        exprs.append(ex)
        uniq.setdefault(ex, len(uniq))     # rows with bit-identical implementation outputs (member / text form) are judged once
    ctx.extra["sweep_python_s"] = round(__import__("time").time() - t_py, 1)
    ctx.extra["sweep_rows_judged_in_coq"] = len(uniq)
    cf = CaseFile(ctx, "sweep", HDR, shard=max(20, len(uniq) // 32 + 1))
    for ex in uniq:
        cf.add(ex)
    uv = cf.run(timeout=1500)
    verdicts = [uv[uniq[ex]] for ex in exprs]
    agree = bad = 0
    seen = {}
    for (arr, form, lab, c, P, ntus), r, v in zip(rows, vals, verdicts):
        ctx.evaluations += len(ntus)
        ctx.count(f"sweep_{arr.name}_{form}", len(ntus))
        if 0 < c < 1:
            ctx.nontrivial_case(("row", arr.name, form, c, P, len(ntus)))
        n = classify_row(ctx, arr, form, c, P, r, v, seen)
        if n:
            bad += 1
        else:
            agree += 1
    ctx.extra["sweep_failure_counts"] = dict(seen)
    ctx.sample(dict(suite="sweep", row=dict(arrangement=rows[0][0].name, form=rows[0][1], c=rows[0][3], passes=rows[0][4]), ntu=vals[0]["ns"][:4], eff=vals[0]["es"][:4]))
    ctx.suite("sweep", cases=len(rows), agree=agree, mismatch=0, property_false=bad, fragile_skipped=0,
              note="numeric exploration on the implementation (floats); clause verdicts on the exact rationals of the floats computed by coqc (judge_eff_row)")


# ------------------------------------------------------------------ (d) LMTD
def lmtd_call(a, b):
    """(value or None, error text or None); a non-finite result is reported as (None, 'non-finite ...') with value None
    but is NOT a refusal -- callers test `err.startswith('non-finite')`"""
    _, hx = impl()
    try:
        with __import__("warnings").catch_warnings():
            __import__("warnings").simplefilter("ignore")
            m = float(hx.compute_LMTD_from_dts(a, b))
    except ValueError as e:
        return None, str(e)[:60]
    if m != m or abs(m) == float("inf"):
        return None, f"non-finite result {m!r}"
    return m, None


def gen_lmtd_pair(rng):
    a = rng.randint(1, 1600) / 8
    k = rng.random()
    if k < 0.15:
        return a, a
    if k < 0.30:
        return a, a * (1 + rng.choice([1, -1]) * 2.0 ** -rng.randint(9, 46))     # nearly equal, down to a few ulps
    if k < 0.40:
        b = rng.choice([0.0, -0.125, -3.0, 2.0 ** -24, -2.0 ** -24])
        return (a, b) if rng.random() < 0.5 else (b, a)
    return a, rng.randint(1, 1600) / 8


def lmtd_suite(ctx):
    n = ctx.budget(600, 20000)
    corpus = [(70.0, 20.0), (40.0, 40.0), (100.0, 100.001001005), (100.001001005, 100.0), (5.0, 0.0), (0.0, 0.0), (1e-6, 5.0), (3e-7, 5.0), (0.125, 1000.0)]
    pairs = corpus + [gen_lmtd_pair(ctx.rng) for _ in range(n)]
    cf = CaseFile(ctx, "lmtd", HDR)
    obs = []
    for a, b in pairs:
        m, err = lmtd_call(a, b)
        m2, err2 = lmtd_call(b, a)
        obs.append((m, err, m2, err2))
        nonfin = [e for e in (err, err2) if e and e.startswith("non-finite")]
        if nonfin:
            # returned NaN/inf instead of raising or a number: judged as "not refused"; if the pair should not have been refused either, code 6
            cf.add(f"(match lmtd_refusal_b {qlit(a)} {qlit(b)} false with [0%Z] => [V_PROP_FALSE; 6%Z] | v => v end)")
        elif m is None or m2 is None:
            cf.add(f"(if Bool.eqb {coq_bool(m is None)} {coq_bool(m2 is None)} then lmtd_refusal_b {qlit(a)} {qlit(b)} {coq_bool(m is None)} else [V_PROP_FALSE; 5%Z])")
        else:
            cf.add(f"(match lmtd_refusal_b {qlit(a)} {qlit(b)} false with [0%Z] => lmtd_ok_b eps9 {qlit(a)} {qlit(b)} {qlit(m)} {qlit(m2)} | v => v end)")
    agree = bad = frag = 0
    names = {1: "lmtd-below-min", 2: "lmtd-above-mean", 3: "lmtd-not-symmetric", 4: "lmtd-refusal", 5: "lmtd-refusal-asymmetric", 6: "lmtd-non-finite"}
    seen = {}
    for (a, b), (m, err, m2, err2), v in zip(pairs, obs, cf.run()):
        ctx.evaluations += 1
        shape = "refused" if (m is None or m2 is None) else ("equal" if a == b else ("near" if abs(a - b) <= 2e-3 * abs(b) else "distinct"))
        ctx.count("lmtd_" + shape)
        if shape in ("near", "distinct"):
            ctx.nontrivial_case(("lmtd", a, b))
        if v[0] == 0:
            agree += 1
        elif v[0] == 1:
            frag += 1
        else:
            bad += 1
            kind = names.get(v[1], "lmtd-clause")
            if seen.get(kind, 0) < 3:
                ctx.fail(kind, f"LMTD clause {v[1]} false for ({a!r}, {b!r})", input=dict(delta_T1=a, delta_T2=b),
                         impl_output=dict(lmtd=m, lmtd_swapped=m2, error=err, error_swapped=err2), suite="lmtd",
                         predicate="min <= lmtd <= mean, lmtd(a,b) ~ lmtd(b,a) (1e-9), refused iff min(round6) <= 0")
            seen[kind] = seen.get(kind, 0) + 1
    ctx.sample(dict(suite="lmtd", pair=pairs[0], lmtd=obs[0][0]))
    ctx.suite("lmtd", cases=len(pairs), agree=agree, mismatch=0, property_false=bad, fragile_skipped=frag)


def lmtd_ts_suite(ctx):
    """The four-temperature entry point on counter-current end temperatures with positive end differences -- including an isothermal
    (condensing / evaporating) side on either stream: it must not refuse and must return compute_LMTD_from_dts of the two end differences
    (judged by the same lmtd_ok_b clauses)."""
    _, hx = impl()
    n = ctx.budget(120, 3000)
    cases = [(150.0, 150.0, 30.0, 80.0), (150.0, 100.0, 60.0, 60.0), (120.0, 120.0, 80.0, 80.0), (200.0, 120.0, 100.0, 150.0), (75.0, 74.0, 20.0, 21.0)]
    for _ in range(n):
        tci = float(ctx.rng.randrange(10, 200, 5))
        tco = tci + ctx.rng.choice([0.0, 0.0, 5.0, 20.0, 40.0])
        d1, d2 = ctx.rng.choice([2.5, 10.0, 35.0, 120.0]), ctx.rng.choice([2.5, 10.0, 35.0, 120.0])     # hot-in minus cold-out, hot-out minus cold-in
        thi, tho = tco + d1, tci + d2
        if thi < tho:
            continue
        cases.append((thi, tho, tci, tco))
    cf = CaseFile(ctx, "lmtd_ts", HDR)
    obs = []
    for thi, tho, tci, tco in cases:
        a, b = thi - tco, tho - tci
        try:
            m, err = float(hx.compute_LMTD_from_ts(thi, tho, tci, tco)), None
        except Exception as e:  # noqa: BLE001
            m, err = None, f"{type(e).__name__}: {e}"
        m2, _ = lmtd_call(a, b)
        obs.append((m, err, m2))
        if m is None or m2 is None or m != m:
            cf.add("[V_PROP_FALSE; 7%Z]")
        else:
            cf.add(f"lmtd_ok_b eps9 {qlit(a)} {qlit(b)} {qlit(m)} {qlit(m2)}")
    agree = bad = 0
    for c, (m, err, m2), v in zip(cases, obs, cf.run()):
        ctx.evaluations += 1
        ctx.count("lmtd_ts_isothermal_side" if (c[0] == c[1] or c[2] == c[3]) else "lmtd_ts_gliding")
        ctx.nontrivial_case(("lmtd_ts",) + c)
        if v[0] == 0:
            agree += 1
            continue
        bad += 1
        if bad <= 2:
            ctx.fail("lmtd-from-temperatures", f"compute_LMTD_from_ts{c}: " + ("refused or not finite although both end differences are positive"
                     if v[1] == 7 else f"clause {v[1]} false (not the log-mean of the two end differences)"),
                     input=dict(T_hot_in=c[0], T_hot_out=c[1], T_cold_in=c[2], T_cold_out=c[3]), impl_output=dict(lmtd=m, error=err, from_dts=m2),
                     suite="lmtd_ts", predicate="returns compute_LMTD_from_dts(T_hot_in - T_cold_out, T_hot_out - T_cold_in)")
    ctx.suite("lmtd_ts", cases=len(cases), agree=agree, mismatch=0, property_false=bad, fragile_skipped=0)


def lmtd_batch_suite(ctx):
    """compute_LMTD_from_dts on lists / arrays of end differences: element k of the answer must be what the scalar call gives for pair k
    (batches that mix equal, nearly equal and clearly different pairs)."""
    import numpy as np
    _, hx = impl()
    n = ctx.budget(40, 600)
    pool = [(20.0, 20.0), (20.0, 20.0000001), (30.0, 10.0), (80.0, 5.0), (5.0, 80.0), (12.5, 12.5), (100.0, 100.001001005), (0.125, 1000.0), (7.0, 7.0)]
    batches = [[(30.0, 10.0), (20.0, 20.0), (80.0, 5.0)], [(20.0, 20.0), (20.0, 20.0)], [(30.0, 10.0), (80.0, 5.0)]]
    for _ in range(n):
        batches.append([ctx.rng.choice(pool) if ctx.rng.random() < 0.6 else gen_lmtd_pair(ctx.rng) for _ in range(ctx.rng.randint(2, 5))])
    agree = bad = 0
    for b in batches:
        ok_pairs = [(x, y) for x, y in b if lmtd_call(x, y)[0] is not None]
        if len(ok_pairs) < 2:
            continue
        ctx.evaluations += 1
        ctx.count("lmtd_batch_list" if len(ok_pairs) % 2 else "lmtd_batch_array")
        ctx.nontrivial_case(("lmtd_batch", tuple(ok_pairs)))
        xs, ys = [p[0] for p in ok_pairs], [p[1] for p in ok_pairs]
        want = [lmtd_call(x, y)[0] for x, y in ok_pairs]
        try:
            got = hx.compute_LMTD_from_dts(xs, ys) if len(ok_pairs) % 2 else hx.compute_LMTD_from_dts(np.array(xs), np.array(ys))
            got = [float(g) for g in np.atleast_1d(got)]
            err = None
        except Exception as e:  # noqa: BLE001
            got, err = None, f"{type(e).__name__}: {e}"
        if got is not None and len(got) == len(want) and all(g == w for g, w in zip(got, want)):
            agree += 1
            continue
        bad += 1
        if bad <= 2:
            ctx.fail("lmtd-batch-differs", "compute_LMTD_from_dts on a batch does not return, element by element, what it returns for each pair alone",
                     input=dict(delta_T1=xs, delta_T2=ys), impl_output=dict(batch=got, error=err, pair_by_pair=want), suite="lmtd_batch",
                     predicate="batch[k] == scalar(pair k) (bit-identical)")
    ctx.suite("lmtd_batch", cases=agree + bad, agree=agree, mismatch=0, property_false=bad, fragile_skipped=0)


def run(ctx):
    import time
    for name, fn in (("dispatch", dispatch_suite), ("samples", samples_suite), ("sweep", sweep_suite), ("lmtd", lmtd_suite), ("lmtd_ts", lmtd_ts_suite), ("lmtd_batch", lmtd_batch_suite)):
        t0 = time.time()
        try:
            fn(ctx)
        except Exception as e:  # noqa: BLE001
            # a suite that needs the regenerated definitions cannot run when the translator refuses the source: that is a
            # broken tie (already recorded by the build step); the remaining suites still search for a failing input
            if type(e).__name__ != "Untranslatable":
                raise
            ctx.break_(f"translator:{name}-suite", str(e))
        ctx.extra[f"suite_{name}_s"] = round(time.time() - t0, 1)


def replay(ctx, data):
    HX, hx = impl()
    inp = data["input"]
    out = dict(input=inp)
    if data.get("suite") == "lmtd":
        out["lmtd"] = lmtd_call(inp["delta_T1"], inp["delta_T2"])
        out["lmtd_swapped"] = lmtd_call(inp["delta_T2"], inp["delta_T1"])
    elif data.get("suite") == "dispatch":
        info = translator().chain_info(lib.REPO)
        m = HX[inp["arrangement"]]
        lab = m if inp["label_form"] == "FMember" else m.value
        out["eff_branch"] = observe_branch(hx.HX_Eff, "HX_Eff", info["HX_Eff"]["arms"], (lab, 1.3, 0.6))
        out["ntu_branch"] = observe_branch(hx.HX_NTU, "HX_NTU", info["HX_NTU"]["arms"], (lab, 0.4, 0.6))
    else:
        m = HX[inp["arrangement"]]
        lab = m if inp["label_form"] == "member" else m.value
        ntus = [inp[k] for k in ("NTU", "NTU_low", "NTU_high") if k in inp]
        r = row_values(m, lab, inp["c"], inp["passes"], ntus)
        cf = CaseFile(ctx, "replay", HDR)
        cf.add(row_expr(m, inp["passes"], r))
        out["row"] = {k: v for k, v in r.items()}
        out["clause_verdicts (range, monotone, <=counterflow, c0, ntu roundtrip, eff roundtrip; -1 = holds)"] = cf.run()[0]
    print(json.dumps(lib.jsonable(out), indent=1, default=str))
