"""C15 -- area, exchanger-count and capital-cost targets (DESIGN.md section 8, C15).

Suites
  balanced   get_balanced_CC called directly on random dyadic vectors, compared with model/Area.v (judge_balanced, in coqc);
  e2e        pinch_analysis_service with DO_AREA_TARGETING on random problems with strictly positive contributions and default /
             isothermal utilities; the arguments and the result of get_area_targets are captured by wrapping it (no source
             change), get_temperature_driving_forces / _map_interval_resistances_to_tdf / compute_LMTD_from_dts are then called
             stage-level on exactly those arguments; coqc (judge_e2e_tdf) decides: the interval data returned by
             get_temperature_driving_forces equal what the model (model/TDF.v) computes from the captured balanced curves, balanced
             spans equal, area positive, area = sum over the code's own intervals, area = INDEPENDENT interval sum recomputed in Q
             from the streams and utility duties (LMTD values are floats of the implementation's compute_LMTD_from_dts, each checked
             in Q against the proved bounds);
  tdf        get_temperature_driving_forces called directly on (a) the balanced composite curve pairs captured from every end-to-end
             case and (b) synthetic curve pairs (plateaus / vertical jumps / repeated points on either curve, coinciding break
             points, top-down and bottom-up orientation, offset cascades, equal / unequal spans, empty arrays, length mismatch,
             single points, min_dT); every returned array is compared element by element with model/TDF.v inside coqc (judge_tdf);
  cost       the three costing functions: (i) translator validation of the generated real functions by `interval`,
             (ii) P_b on the implementation: |compute_capital_cost(..) - N(a + b(A/N)^c)| and |crf * sum of discounted
             annuities - 1| bounded by `interval` proofs generated from the values the implementation returned,
             (iii) the costs reported by the service equal the functions applied to the reported area and unit count.
"""
from __future__ import annotations

import copy
import json
import math
import re
from concurrent.futures import ThreadPoolExecutor
from fractions import Fraction as Fr

from harness import lib
from harness.lib import CaseFile, F, qlit, qlist
from harness.props.c20 import goal_total, qfl, rl, tolq

MODEL_TARGETS = ["gen/HxDispatch.vo", "gen/Scalar.vo", "model/Area.vo", "model/TDF.vo"]
USES_REALS = True
ALLOWED_AXIOMS = []
RULE = ("e2e: 2..6 streams, temperatures multiples of 10 in [20, 300), CP in {0.5,..,2}, contributions in {2.5, 5, 10} (strictly positive), "
        "film coefficients in {0.5, 1, 2, 4}; utilities: none (defaults) or 0..3 hot and 0..3 cold isothermal levels; a case is non-trivial when "
        "it has >= 2 hot and >= 2 cold segments (streams + utilities with duty) and >= 4 enthalpy intervals; distinct = distinct input; "
        "balanced: vectors of length 2..9 on dyadic grids with utility columns zero on a random subset of rows; cost: dyadic parameters, "
        "integer and half-integer service lives; tdf: curves from 0 to a span in {1, 10, 25.5, 56.2, 105} with 0..4 interior break points drawn from a "
        "pool shared by both curves, each break point repeated 2..4 times with probability 0.2/0.45 (temperature jump 0, 5, 12.5 or 40), 8 % unequal "
        "spans, 4 % empty, 5 % length mismatch, 5 % single points, 30 % offsets (incl. below / at tol); non-trivial = a plateau and >= 3 intervals")
ASSUMPTIONS = ["LMTD values entering the rational area sums are floats produced by the implementation's compute_LMTD_from_dts (the function "
               "verified by C20); inside coqc each is only checked to lie within [min, mean] of its interval's exact end differences",
               "get_temperature_driving_forces is modelled (model/TDF.v) as the exact-arithmetic semantics of the float code; cases where a float "
               "comparison can go either way are classified fragile inside coqc and not compared: a 6-dp rounding tie in an input, a tolerance "
               "comparison within 0.1 % of tol, make_monotonic output not strictly increasing (outside np.interp's contract), and an enthalpy sliver "
               "<= 1e-9 created by float noise in `h - offset` (np.union1d keeps both values)",
               "np.interp is modelled for increasing abscissae only (linear scan = numpy's binary search there)",
               "enthalpy slivers below 1e-9 (float noise in utility duties) are skipped by the specification",
               "floats are exact reals in the cost laws; `**` with a real exponent is Rpower (bases are positive in the theorems)",
               "the exchanger-count target is not part of the property statement's clauses and is only used as the N of the cost law"]
TRUSTED = ["Coq Interval tactic (cost samples and cost predicate)", "wrapping get_area_targets in the running process to capture its arguments"]
HDR = ("From OP Require Import gen.Consts model.Base model.Area model.TDF.\nRequire Import Coq.QArith.QArith.\nLocal Open Scope Q_scope.")
QMIN = Fr(1, 10 ** 9)


# ------------------------------------------------------------------ balanced stage
def balanced_suite(ctx):
    import numpy as np
    from OpenPinch.analysis.capital_cost_and_area_targeting import get_balanced_CC
    from OpenPinch.lib import PT
    n = ctx.budget(300, 3000)
    rng = ctx.rng
    cf = CaseFile(ctx, "balanced", HDR)
    cases = []
    for _ in range(n):
        m = rng.randint(2, 9)
        dT = [0.0] + [rng.choice([2.5, 5.0, 10.0, 20.0, 0.1]) for _ in range(m - 1)]

        def col(zero_prob):
            cps = [0.0 if rng.random() < zero_prob else rng.randint(1, 8) / 4 for _ in range(m)]
            h = [0.0] * m
            for i in range(m - 2, -1, -1):
                h[i] = h[i + 1] + cps[i + 1] * dT[i + 1]
            rcp = [0.0] + [cps[i] * rng.choice([0.5, 1.0, 2.0, 0.25]) for i in range(1, m)]
            return h, rcp
        Hh, Rh = col(0.2)
        Hc, Rc = col(0.2)
        Hhu, Rhu = col(0.7)
        Hcu, Rcu = col(0.7)
        if rng.random() < 0.2:     # tiny enthalpy step just around tol: R must be 0 there
            Hh = [x + (2.0 ** -21 if i == 0 else 0.0) for i, x in enumerate(Hh)]
        args = [np.array(x, dtype=float) for x in (Hh, Hc, Hhu, Hcu, dT, Rh, Rc, Rhu, Rcu)]
        try:
            res = get_balanced_CC(*[a.copy() for a in args])
            out = [res[k.value] for k in (PT.H_HOT_BAL, PT.H_COLD_BAL, PT.RCP_HOT_BAL, PT.RCP_COLD_BAL, PT.R_HOT_BAL, PT.R_COLD_BAL)]
            err = None
        except Exception as e:  # noqa: BLE001
            out, err = None, f"{type(e).__name__}: {e}"
        cases.append((args, out, err))
        if err is None:
            cf.add("judge_balanced " + " ".join(qlist(list(a)) for a in args) + " " + " ".join(qlist(list(o)) for o in out))
    vs = iter(cf.run())
    agree = mism = 0
    for args, out, err in cases:
        ctx.evaluations += 1
        ctx.count(f"balanced_len_{len(args[0])}")
        v = next(vs) if err is None else None
        if err is None and v[0] == 0:
            agree += 1
            continue
        mism += 1
        if mism <= 3:
            ctx.fail("balanced-cc-model-mismatch", err or f"get_balanced_CC output differs from the model (column group {v[1]})",
                     input=dict(zip(("H_hot", "H_cold", "H_hot_ut", "H_cold_ut", "dT", "RCP_hot", "RCP_cold", "RCP_hot_ut", "RCP_cold_ut"), [list(a) for a in args])),
                     impl_output=[list(o) for o in out] if out else None, suite="balanced", predicate="judge_balanced (1e-9 relative)")
    ctx.suite("balanced", cases=len(cases), agree=agree, mismatch=mism, property_false=0, fragile_skipped=0)


# ------------------------------------------------------------------ independent specification in exact fractions (mirrors model/Area.v)
def comp(segs):
    Ts = sorted({t for lo, hi, _, _ in segs for t in (lo, hi)})
    H = [Fr(0)]
    for a, b in zip(Ts[:-1], Ts[1:]):
        H.append(H[-1] + sum((cp for lo, hi, cp, _ in segs if lo <= a and hi >= b), Fr(0)) * (b - a))
    return Ts, H


def t_hi(Ts, H, h):
    i = 0
    while i + 1 < len(Ts) and H[i + 1] <= h:
        i += 1
    if i + 1 >= len(Ts) or H[i] > h or H[i] == h:
        return Ts[i]
    return Ts[i] + (h - H[i]) / (H[i + 1] - H[i]) * (Ts[i + 1] - Ts[i])


def t_lo(Ts, H, h):
    if h <= H[0]:
        return Ts[0]
    for k in range(1, len(Ts)):
        if h <= H[k]:
            return Ts[k] if H[k] == h else Ts[k - 1] + (h - H[k - 1]) / (H[k] - H[k - 1]) * (Ts[k] - Ts[k - 1])
    return Ts[-1]


def res_between(segs, a, b):
    act = [(cp, r) for lo, hi, cp, r in segs if lo <= a and hi >= b and cp > 0]
    w = sum((cp for cp, _ in act), Fr(0))
    return sum((cp * r for cp, r in act), Fr(0)) / w if w > 0 else Fr(0)


def spec_intervals(hot, cold):
    Th, Hh = comp(hot)
    Tc, Hc = comp(cold)
    hs = sorted(set(Hh) | set(Hc))
    out = []
    for h1, h2 in zip(hs[:-1], hs[1:]):
        q = h2 - h1
        if q <= QMIN:
            continue
        th1, th2, tc1, tc2 = t_hi(Th, Hh, h1), t_lo(Th, Hh, h2), t_hi(Tc, Hc, h1), t_lo(Tc, Hc, h2)
        out.append((q, res_between(hot, th1, th2) + res_between(cold, tc1, tc2), th1 - tc1, th2 - tc2))
    return out


# ------------------------------------------------------------------ e2e
_CAP = {}


def install_capture():
    import numpy as np
    import OpenPinch.analysis.direct_integration_entry as die
    if getattr(die.get_area_targets, "_verif_wrapped", False):
        return
    orig = die.get_area_targets

    def wrapped(T, Hh, Hc, Rh, Rc):
        _CAP["args"] = tuple(np.array(x, dtype=float).copy() for x in (T, Hh, Hc, Rh, Rc))
        r = orig(T, Hh, Hc, Rh, Rc)
        _CAP["area"] = float(r)
        return r
    wrapped._verif_wrapped = True
    die.get_area_targets = wrapped


def gen_problem(rng):
    streams = []
    # film coefficients are usually of order 1 (kW/m2/K); one problem in six states them on a W/m2/K-like scale (hundreds to thousands)
    hs = [0.5, 1.0, 2.0, 4.0] if rng.random() < 0.84 else [500.0, 2000.0, 4000.0, 10000.0]
    for i in range(rng.randint(2, 6)):
        a, b = rng.sample(range(20, 300, 10), 2)
        cp = rng.choice([1, 2, 3, 4]) / 2
        streams.append(dict(zone="Z", name=f"S{i}", t_supply=float(a), t_target=float(b), heat_flow=cp * abs(a - b),
                            dt_cont=rng.choice([2.5, 5.0, 10.0]), htc=rng.choice(hs)))
    utils = []
    if rng.random() < 0.5:
        for j, t in enumerate(rng.sample(range(30, 420, 10), rng.randint(0, 3))):
            utils.append(dict(name=f"HU{j}", type="Hot", t_supply=float(t), t_target=float(t), heat_flow=0.0, dt_cont=rng.choice([2.5, 5.0]),
                              htc=rng.choice([1.0, 2.0, 0.5] if hs[0] < 100 else [3000.0, 8000.0]), price=10.0))
        for j, t in enumerate(rng.sample(range(-20, 250, 10), rng.randint(0, 3))):
            utils.append(dict(name=f"CU{j}", type="Cold", t_supply=float(t), t_target=float(t), heat_flow=0.0, dt_cont=rng.choice([2.5, 5.0]),
                              htc=rng.choice([1.0, 2.0, 0.5] if hs[0] < 100 else [3000.0, 8000.0]), price=10.0))
    return dict(streams=streams, utilities=utils, options={"DO_AREA_TARGETING": True})


CORPUS = [
    # D36 witness of DESIGN.md section 7 (12.73 vs 12.57)
    dict(streams=[dict(zone="Z", name="S0", t_supply=200.0, t_target=290.0, heat_flow=45.0, dt_cont=5.0, htc=0.5),
                  dict(zone="Z", name="S1", t_supply=170.0, t_target=260.0, heat_flow=180.0, dt_cont=5.0, htc=4.0),
                  dict(zone="Z", name="S2", t_supply=270.0, t_target=80.0, heat_flow=95.0, dt_cont=5.0, htc=0.5)], utilities=[], options={"DO_AREA_TARGETING": True}),
    # float noise in a utility duty creates an enthalpy sliver opposite a temperature gap (must be skipped, not a negative driving force)
    dict(streams=[dict(zone="Z", name="S0", t_supply=280.0, t_target=290.0, heat_flow=15.0, dt_cont=5.0, htc=0.5),
                  dict(zone="Z", name="S1", t_supply=240.0, t_target=180.0, heat_flow=90.0, dt_cont=2.5, htc=1.0),
                  dict(zone="Z", name="S2", t_supply=60.0, t_target=190.0, heat_flow=65.0, dt_cont=5.0, htc=1.0)], utilities=[], options={"DO_AREA_TARGETING": True}),
    # classic four-stream problem
    dict(streams=[dict(zone="Z", name="H1", t_supply=250.0, t_target=40.0, heat_flow=31.5, dt_cont=5.0, htc=1.0),
                  dict(zone="Z", name="H2", t_supply=200.0, t_target=80.0, heat_flow=30.0, dt_cont=5.0, htc=2.0),
                  dict(zone="Z", name="C1", t_supply=20.0, t_target=180.0, heat_flow=32.0, dt_cont=5.0, htc=1.0),
                  dict(zone="Z", name="C2", t_supply=140.0, t_target=230.0, heat_flow=27.0, dt_cont=5.0, htc=0.5)], utilities=[], options={"DO_AREA_TARGETING": True}),
]


def run_problem(inp):
    """Returns dict(obs...) or dict(error=...)."""
    import numpy as np
    from OpenPinch import pinch_analysis_service
    from OpenPinch.lib.config import tol
    from OpenPinch.utils import clean_composite_curve_ends
    from OpenPinch.utils.heat_exchanger import compute_LMTD_from_dts
    from OpenPinch.analysis.temperature_driving_force import get_temperature_driving_forces
    from OpenPinch.analysis.capital_cost_and_area_targeting import _map_interval_resistances_to_tdf
    from OpenPinch.utils import costing
    install_capture()
    _CAP.clear()
    try:
        out, mz = pinch_analysis_service(copy.deepcopy(inp), is_return_full_results=True)
    except Exception as e:  # noqa: BLE001
        return dict(error=f"{type(e).__name__}: {e}")
    if "args" not in _CAP:
        return dict(error="get_area_targets was not called although DO_AREA_TARGETING is set")
    z = mz.subzones["Z"]
    t = z.targets["Z/Direct Integration"]
    area = _CAP["area"]
    rep = {k: getattr(t, k, None) for k in ("Area target", "Units target", "Capital cost target", "Annualised capital cost target")}
    hot = [(F(s.t_min), F(s.t_max), F(s.CP), 1 / F(s.htc)) for s in z.hot_streams]
    cold = [(F(s.t_min), F(s.t_max), F(s.CP), 1 / F(s.htc)) for s in z.cold_streams]
    for u in t.hot_utilities:
        if u.heat_flow > tol:
            hot.append((F(u.t_min), F(u.t_max), F(u.heat_flow) / (F(u.t_max) - F(u.t_min)), 1 / F(u.htc)))
    for u in t.cold_utilities:
        if u.heat_flow > tol:
            cold.append((F(u.t_min), F(u.t_max), F(u.heat_flow) / (F(u.t_max) - F(u.t_min)), 1 / F(u.htc)))
    iv = spec_intervals(hot, cold)

    def lm(a, b):
        try:
            return float(compute_LMTD_from_dts(float(a), float(b)))
        except ValueError:
            return 1.0      # non-positive driving force: coqc reports [3;5] before looking at this value
    lm_spec = [lm(d1, d2) for _, _, d1, d2 in iv]
    # stage-level calls on exactly the captured arguments
    T, Hh, Hc, Rh, Rc = [x.copy() for x in _CAP["args"]]
    Hh0, Hc0 = Hh.copy(), Hc.copy()
    if abs(Hh[0]) > tol:
        Hh = Hh - Hh[-1]
    if abs(Hc[0]) > tol:
        Hc = Hc - Hc[-1]
    Th, Hh2 = clean_composite_curve_ends(T, Hh)
    Tc, Hc2 = clean_composite_curve_ends(T, Hc)
    tdf = get_temperature_driving_forces(Th, Hh2, Tc, Hc2)
    R = _map_interval_resistances_to_tdf(T, Rh, Rc, tdf["t_h1"], tdf["t_h2"], tdf["t_c1"], tdf["t_c2"])
    raw2 = tdf["t_h2"] - tdf["t_c2"]
    lm_own = [float(x) for x in compute_LMTD_from_dts(tdf["delta_T1"], tdf["delta_T2"])]
    try:
        lm_raw = [float(x) for x in compute_LMTD_from_dts(tdf["delta_T1"], raw2)]
    except ValueError:
        lm_raw = lm_own
    cfg = z.config
    cost_ok = None
    if rep["Capital cost target"] is not None:
        cc = costing.compute_capital_cost(area, rep["Units target"], cfg.FIXED_COST, cfg.VARIABLE_COST, cfg.COST_EXP)
        ac = costing.compute_annual_capital_cost(cc, cfg.DISCOUNT_RATE, cfg.SERV_LIFE)
        cost_ok = (rep["Area target"] == area and abs(rep["Capital cost target"] - cc) <= 1e-9 * max(1, abs(cc))
                   and abs(rep["Annualised capital cost target"] - ac) <= 1e-9 * max(1, abs(ac)))
    return dict(hot=hot, cold=cold, iv=iv, lm_spec=lm_spec, Hhb=list(Hh0), Hcb=list(Hc0), T=list(T), Rh=list(Rh), Rc=list(Rc),
                dh=list(tdf["dh_vals"]), R=list(R), d1=list(tdf["delta_T1"]), d2=list(tdf["delta_T2"]), raw2=list(raw2),
                th1=list(tdf["t_h1"]), th2=list(tdf["t_h2"]), tc1=list(tdf["t_c1"]), tc2=list(tdf["t_c2"]),
                lm_own=lm_own, lm_raw=lm_raw, area=area, reported=rep, cost_ok=cost_ok,
                tdf_in=[list(map(float, x)) for x in (Th, Hh2, Tc, Hc2)], hv=list(tdf["h_vals"]))


def seg_list(segs):
    return "[" + "; ".join(f"mkSeg {qlit(lo)} {qlit(hi)} {qlit(cp)} {qlit(r)}" for lo, hi, cp, r in segs) + "]"


def area_expr(o):
    return (f"judge_area {seg_list(o['hot'])} {seg_list(o['cold'])} {qfl(o['lm_spec'])} {qfl(o['Hhb'])} {qfl(o['Hcb'])} {qfl(o['dh'])} {qfl(o['R'])} "
            f"{qfl(o['d1'])} {qfl(o['d2'])} {qfl(o['raw2'])} {qfl(o['lm_own'])} {qfl(o['lm_raw'])} {qlit(o['area'])}")


def mapR_expr(o):
    return (f"judge_map_R {qfl(o['T'])} {qfl(o['Rh'])} {qfl(o['Rc'])} {qfl(o['th1'])} {qfl(o['th2'])} {qfl(o['tc1'])} {qfl(o['tc2'])} {qfl(o['R'])}")


def e2e_expr(o):
    """judge_e2e_tdf: the TDF model recomputes the interval data from the captured curves (first two numbers of the verdict),
    then judge_e2e on the implementation's interval data"""
    ti = o["tdf_in"]
    return (f"judge_e2e_tdf {qfl(ti[0])} {qfl(ti[1])} {qfl(ti[2])} {qfl(ti[3])} "
            f"{qfl(o['hv'])} {qfl(o['dh'])} {qfl(o['th1'])} {qfl(o['th2'])} {qfl(o['tc1'])} {qfl(o['tc2'])} {qfl(o['d1'])} {qfl(o['d2'])} "
            f"{qfl(o['T'])} {qfl(o['Rh'])} {qfl(o['Rc'])} {qfl(o['R'])} "
            f"{seg_list(o['hot'])} {seg_list(o['cold'])} {qfl(o['lm_spec'])} {qfl(o['Hhb'])} {qfl(o['Hcb'])} "
            f"{qfl(o['raw2'])} {qfl(o['lm_own'])} {qfl(o['lm_raw'])} {qlit(o['area'])}")


KINDS = {(3, 1): ("balanced-spans-differ", "balanced hot and cold composite curves have different enthalpy spans"),
         (3, 2): ("area-not-positive", "area target is not positive"),
         (3, 3): ("tdf-discontinuity-block", "area target differs from the independent interval sum; the discontinuity block of "
                                             "get_temperature_driving_forces changed an end difference and without it the sums agree"),
         (3, 4): ("area-differs-from-interval-sum", "area target differs from the independent interval sum"),
         (3, 5): ("area-spec-nonpositive-driving-force", "the balanced curves built from the streams and utility duties cross (driving force <= 0)"),
         (2, 1): ("area-sum-model-mismatch", "get_area_targets is not the sum over its own intervals of duty x resistance / LMTD"),
         (2, 2): ("area-harness-lmtd-list", "specification LMTD list malformed (harness / model disagreement on the intervals)"),
         (2, 3): ("area-harness-lmtd-bounds", "an LMTD value lies outside [min, mean] of its interval's end differences"),
         (2, 4): ("area-resistance-map-model-mismatch", "_map_interval_resistances_to_tdf differs from the model"),
         (2, 5): ("tdf-model-mismatch", "get_temperature_driving_forces on the captured balanced curves differs from the model (model/TDF.v)")}
TDF_ARRAYS = {1: "h_vals", 2: "dh_vals", 3: "t_h1", 4: "t_h2", 5: "t_c1", 6: "t_c2", 7: "delta_T1", 8: "delta_T2", 9: "error / no error", 10: "different error"}
_TDF_E2E = []     # (curve pair, observation) of every end-to-end case of this run, re-used by the tdf suite


def judge_problems(ctx, probs, suite):
    """-> list of (verdict or None, obs)"""
    cf = CaseFile(ctx, suite, HDR, shard=8)
    obs, idx = [], []
    for p in probs:
        o = run_problem(p)
        obs.append(o)
        if "error" not in o:
            idx.append(len(obs) - 1)
            cf.add(e2e_expr(o))
    out = [[None, o] for o in obs]
    for i, v in zip(idx, cf.run()):
        # v = [t0; t1] ++ e2e verdict; a model mismatch of the driving-force stage outranks the area verdict
        obs[i]["tdf_verdict"] = v[:2]
        out[i][0] = [2, 5, v[1]] if v[0] == 2 else v[2:]
    return out


def shrink_problem(ctx, prob, code):
    """drop streams / utilities one at a time while the same verdict persists"""
    cur = prob
    changed = True
    rounds = 0
    while changed and rounds < 4:
        changed = False
        rounds += 1
        cands = []
        for key in ("streams", "utilities"):
            for i in range(len(cur[key])):
                c = copy.deepcopy(cur)
                del c[key][i]
                if len(c["streams"]) >= 1:
                    cands.append(c)
        if not cands:
            break
        res = judge_problems(ctx, cands, "e2e_shrink")
        for c, (v, o) in zip(cands, res):
            same = (code == "error" and "error" in o) or (v is not None and tuple(v[:2]) == code)
            if same:
                cur, changed = c, True
                break
    return cur


def e2e_suite(ctx):
    n = ctx.budget(250, 3000)
    probs = CORPUS + [gen_problem(ctx.rng) for _ in range(n)]
    res = judge_problems(ctx, probs, "e2e")
    agree = mism = bad = 0
    seen = {}
    for p, (v, o) in zip(probs, res):
        ctx.evaluations += 1
        if "error" in o:
            code, kind, what = "error", "area-targeting-raises", "pinch_analysis_service raised with DO_AREA_TARGETING: " + o["error"]
        else:
            ctx.count(f"e2e_intervals_{min(len(o['iv']), 12)}")
            ctx.count("e2e_tdf_model_" + {0: "agrees", 1: "not_compared", 2: "differs"}.get(o["tdf_verdict"][0], "unknown"))
            _TDF_E2E.append((o["tdf_in"], dict(h=o["hv"], dh=o["dh"], th1=o["th1"], th2=o["th2"], tc1=o["tc1"], tc2=o["tc2"], d1=o["d1"], d2=o["d2"])))
            if len(o["hot"]) >= 2 and len(o["cold"]) >= 2 and len(o["iv"]) >= 4:
                ctx.nontrivial_case(json.dumps(p, sort_keys=True))
            ctx.sample(dict(suite="e2e", streams=len(p["streams"]), utilities=len(p["utilities"]), area=o["area"], spec_intervals=len(o["iv"]),
                            own_intervals=len(o["dh"]), reported=o["reported"]), limit=3)
            if o["cost_ok"] is False:
                bad += 1
                if seen.get("reported-cost", 0) < 3:
                    ctx.fail("reported-cost-differs", "costs reported by the service differ from compute_capital_cost / compute_annual_capital_cost of the reported area",
                             input=p, impl_output=o["reported"], suite="e2e", predicate="reported = compute_*(area, units, config)")
                seen["reported-cost"] = seen.get("reported-cost", 0) + 1
            if v[0] == 0:
                agree += 1
                continue
            code = tuple(v[:2])
            kind, what = KINDS.get(code, ("area-verdict-" + "-".join(map(str, v)), "unexpected verdict"))
        if code != "error" and code[0] == 2:
            mism += 1
        else:
            bad += 1
        seen[kind] = seen.get(kind, 0) + 1
        if seen[kind] > 1:
            continue
        small = shrink_problem(ctx, p, code)
        (v2, o2), = judge_problems(ctx, [small], "e2e_final")
        outp = dict(error=o2["error"]) if "error" in o2 else dict(
            area=o2["area"], verdict=v2, tdf_model_verdict=o2.get("tdf_verdict"), tdf_curves=o2["tdf_in"], spec_intervals=[[float(x) for x in i] for i in o2["iv"]], spec_lmtd=o2["lm_spec"],
            own_intervals=dict(dh=o2["dh"], R=o2["R"], delta_T1=o2["d1"], delta_T2=o2["d2"], raw_delta_T2=o2["raw2"], lmtd=o2["lm_own"]),
            area_spec=sum(float(q) * float(R) / l for (q, R, _, _), l in zip(o2["iv"], o2["lm_spec"])),
            area_without_block=sum(q * (r if r > 1e-6 else 1.0) / l for q, r, l in zip(o2["dh"], o2["R"], o2["lm_raw"])))
        ctx.fail(kind, what, input=small, impl_output=outp, suite="e2e", predicate="judge_area (spans, positive, own sum, independent sum 1e-6 relative)",
                 shrunk_from=len(p["streams"]) + len(p["utilities"]))
    ctx.extra["e2e_kind_counts"] = seen
    ctx.suite("e2e", cases=len(probs), agree=agree, mismatch=mism, property_false=bad, fragile_skipped=0)


# ------------------------------------------------------------------ get_temperature_driving_forces, stage level
def call_tdf(Th, Hh, Tc, Hc, min_dT):
    """observation of the real function: dict of arrays or dict(err=code, msg=...)"""
    import numpy as np
    from OpenPinch.analysis.temperature_driving_force import get_temperature_driving_forces
    try:
        r = get_temperature_driving_forces(np.array(Th, dtype=float), np.array(Hh, dtype=float), np.array(Tc, dtype=float),
                                           np.array(Hc, dtype=float), min_dT)
    except ValueError as e:
        m = str(e)
        code = 1 if "same length" in m else 2 if "cannot be empty" in m else 3 if "balanced" in m else 9
        return dict(err=code, msg=m[:80])
    except Exception as e:  # noqa: BLE001
        return dict(err=9, msg=f"{type(e).__name__}: {e}"[:80])
    out = dict(h=list(map(float, r["h_vals"])), dh=list(map(float, r["dh_vals"])), th1=list(map(float, r["t_h1"])), th2=list(map(float, r["t_h2"])),
               tc1=list(map(float, r["t_c1"])), tc2=list(map(float, r["t_c2"])), d1=list(map(float, r["delta_T1"])), d2=list(map(float, r["delta_T2"])))
    if any(x != x or abs(x) == float("inf") for a in out.values() for x in a):
        return dict(err=9, msg="non-finite value returned")
    return out


def tdf_expr(case, o):
    Th, Hh, Tc, Hc, m = case
    obs = (f"(ObsErr {o['err']}%Z)" if "err" in o else
           "(ObsOk " + " ".join(qfl(o[k]) for k in ("h", "dh", "th1", "th2", "tc1", "tc2", "d1", "d2")) + ")")
    return f"judge_tdf {qlit(m)} {qfl(Th)} {qfl(Hh)} {qfl(Tc)} {qfl(Hc)} {obs}"


def gen_curve(rng, pool, span, style):
    """ascending (H, T) curve from 0 to span; plateaus = repeated H with a temperature jump (or a repeated point)"""
    inner = sorted(rng.sample(pool, min(len(pool), rng.randint(0, 4))))
    hs = [0.0] + [h for h in inner if 0 < h < span] + [span]
    H, T = [], []
    t = rng.choice([20.0, 35.25, 60.0, 172.4])
    for k, h in enumerate(hs):
        reps = 1
        if style != "plain" and rng.random() < (0.45 if style == "jumps" else 0.2):
            reps = rng.choice([2, 2, 2, 3, 4])
        for j in range(reps):
            H.append(h)
            T.append(t)
            if j + 1 < reps:
                t += rng.choice([0.0, 5.0, 12.5, 40.0])           # vertical jump (0.0: repeated point)
        t += rng.choice([0.0, 2.5, 10.0, 10.0, 30.0, 7.75])       # 0.0: isothermal segment
    return H, T


def gen_tdf_case(rng):
    span = rng.choice([10.0, 25.5, 56.2, 105.0, 1.0])
    pool = [span * k / 8 for k in range(1, 8)] + [2.5, 5.0, 7.5, 12.25]
    style = rng.choice(["plain", "plateaus", "jumps", "jumps"])
    Hh, Th = gen_curve(rng, pool, span, style)
    Hc, Tc = gen_curve(rng, pool, span, rng.choice(["plain", "plateaus", "jumps"]))
    Th = [t + rng.choice([10.0, 20.0, 40.0]) for t in Th]
    k = rng.random()
    if k < 0.08:                       # unequal spans (guard) / spans equal within tol
        d = rng.choice([1.0, 0.5, 2.0 ** -21, 3e-6, -1.0])
        Hc = [h if i + 1 < len(Hc) else h + d for i, h in enumerate(Hc)]
    elif k < 0.12:                     # empty (guard)
        if rng.random() < 0.5:
            Hh, Th = [], []
        else:
            Hc, Tc = [], []
    elif k < 0.17:                     # length mismatch (guard)
        if rng.random() < 0.5:
            Th = Th[:-1]
        else:
            Hc = Hc + [Hc[-1] if Hc else 0.0]
    elif k < 0.22:                     # single-point curves
        Hh, Th = [0.0], [100.0]
        if rng.random() < 0.5:
            Hc, Tc = [0.0], [20.0]
    if rng.random() < 0.3:             # offset (cascade not starting at zero), incl. offsets below / at tol
        off = rng.choice([100.0, -37.5, 2.0 ** -22, 3e-7, 1e-6, 0.015625])
        Hh = [h + off for h in Hh]
    if rng.random() < 0.25:
        off = rng.choice([50.0, -12.5, 2.0 ** -22])
        Hc = [h + off for h in Hc]
    if rng.random() < 0.7:             # real usage passes both curves top-down
        Hh, Th = Hh[::-1], Th[::-1]
    if rng.random() < 0.7:
        Hc, Tc = Hc[::-1], Tc[::-1]
    return (Th, Hh, Tc, Hc, rng.choice([0.0, 0.0, 0.0, 2.5, 5.0]))


TDF_CORPUS = [
    # hot jump at the top end, cold repeated point inside: the interior hot value is interpolated towards the shifted plateau
    ([100.0, 110.0, 150.0], [0.0, 10.0, 10.0], [20.0, 60.0, 60.0, 90.0], [0.0, 5.0, 5.0, 10.0], 0.0),
    # vertical jumps on both curves at the same enthalpy
    ([100.0, 110.0, 150.0, 160.0], [0.0, 10.0, 10.0, 20.0], [20.0, 55.0, 75.0, 90.0], [0.0, 10.0, 10.0, 20.0], 0.0),
    # plateau of four points (three empty temperature rows), top-down orientation, offset cascade
    ([300.1, 300.0, 280.0, 260.0, 240.0, 180.0], [205.0, 190.0, 190.0, 190.0, 190.0, 100.0], [290.0, 280.0, 190.0, 60.0], [105.0, 90.0, 90.0, 0.0], 0.0),
    ([100.0], [0.0], [20.0], [0.0], 0.0),
    ([], [], [20.0, 30.0], [0.0, 5.0], 0.0),
    ([100.0, 120.0], [0.0, 5.0, 5.0], [20.0, 30.0], [0.0, 5.0], 0.0),
    ([100.0, 120.0], [0.0, 6.0], [20.0, 30.0], [0.0, 5.0], 0.0),
]


def judge_tdf_cases(ctx, cases, suite, observed=None):
    cf = CaseFile(ctx, suite, HDR, shard=25)
    obs = []
    for i, c in enumerate(cases):
        o = observed[i] if observed is not None else call_tdf(*c)
        obs.append(o)
        cf.add(tdf_expr(c, o))
    return list(zip(cf.run(), obs))


def shrink_curves(ctx, case, code):
    """drop one point of either curve at a time while the same verdict persists"""
    cur = case
    for _ in range(8):
        Th, Hh, Tc, Hc, m = cur
        cands = []
        for i in range(min(len(Th), len(Hh))):
            cands.append((Th[:i] + Th[i + 1:], Hh[:i] + Hh[i + 1:], Tc, Hc, m))
        for i in range(min(len(Tc), len(Hc))):
            cands.append((Th, Hh, Tc[:i] + Tc[i + 1:], Hc[:i] + Hc[i + 1:], m))
        if m != 0.0:
            cands.append((Th, Hh, Tc, Hc, 0.0))
        if not cands:
            break
        res = judge_tdf_cases(ctx, cands, "tdf_shrink")
        nxt = next((c for c, (v, _) in zip(cands, res) if tuple(v[:2]) == code), None)
        if nxt is None:
            break
        cur = nxt
    return cur


def tdf_suite(ctx):
    n = ctx.budget(400, 8000)
    synth = TDF_CORPUS + [gen_tdf_case(ctx.rng) for _ in range(n)]
    e2e = [(ti[0], ti[1], ti[2], ti[3], 0.0) for ti, _ in _TDF_E2E]
    res = judge_tdf_cases(ctx, synth, "tdf") + judge_tdf_cases(ctx, e2e, "tdf_e2e", observed=[o for _, o in _TDF_E2E])
    agree = mism = frag = 0
    for k, (c, (v, o)) in enumerate(zip(synth + e2e, res)):
        ctx.evaluations += 1
        src = "synthetic" if k < len(synth) else "captured"
        shape = ("guard_%d" % o["err"]) if "err" in o else ("plateau" if any(a == b for H in (c[1], c[3]) for a, b in zip(H, H[1:])) else "plain")
        ctx.count(f"tdf_{src}_{shape}")
        if "err" not in o and shape == "plateau" and len(o["h"]) >= 4:
            ctx.nontrivial_case(("tdf", tuple(map(tuple, c[:4])), c[4]))
        if v[0] == 0:
            agree += 1
        elif v[0] == 1:
            frag += 1
            ctx.count("tdf_fragile_reason_%d" % v[1])
        else:
            mism += 1
            if mism <= 2:
                small = shrink_curves(ctx, c, tuple(v[:2]))
                (v2, o2), = judge_tdf_cases(ctx, [small], "tdf_final")
                ctx.fail("tdf-model-mismatch", f"get_temperature_driving_forces differs from the model at {TDF_ARRAYS.get(v2[1], v2[1])} ({src} curves)",
                         input=dict(T_hot=small[0], H_hot=small[1], T_cold=small[2], H_cold=small[3], min_dT=small[4]), impl_output=o2, suite="tdf",
                         predicate="judge_tdf: every returned array equals the model's element by element (1e-9), or the same ValueError guard",
                         shrunk_from=len(c[0]) + len(c[2]))
    ctx.sample(dict(suite="tdf", curves=dict(T_hot=synth[2][0], H_hot=synth[2][1], T_cold=synth[2][2], H_cold=synth[2][3]), impl=res[2][1]), limit=5)
    ctx.suite("tdf", cases=len(res), agree=agree, mismatch=mism, property_false=0, fragile_skipped=frag,
              note=f"{len(synth)} synthetic curve pairs + {len(e2e)} balanced composite curve pairs captured from the end-to-end cases")


# ------------------------------------------------------------------ cost
def cost_suite(ctx):
    from OpenPinch.utils import costing
    ok, log, dt = lib.coq_make(["proofs/HXSampleTac.vo"], timeout=600)
    if not ok:
        f, ln, msg = lib.parse_coq_error(log)
        ctx.break_(f"translator-validation:tactic-file:{f}:{ln}", msg)
        return
    rng = ctx.rng
    G = []   # (kind, description, input, goal, unfold)
    # (i) translator validation: generated function vs python value
    for i in (0.03125, 0.0625, 0.125, 0.25, 0.07):
        for n in (1, 5, 20, 7.5):
            v = costing.compute_capital_recovery_factor(i, n)
            G.append(("tv", f"compute_capital_recovery_factor({i},{n})", None, goal_total(f"compute_capital_recovery_factor_R {rl(i)} {rl(n)}", v)))
            v = costing.compute_annual_capital_cost(12345.5, i, n)
            G.append(("tv", f"compute_annual_capital_cost(12345.5,{i},{n})", None, goal_total(f"compute_annual_capital_cost_R {rl(12345.5)} {rl(i)} {rl(n)}", v)))
    k = 0
    for A in (10.0, 250.0, 1234.5, 0.75):
        for N in (1, 3, 7):
            for (a, b, c) in ((0.0, 10000.0, 0.6), (4000.0, 500.0, 0.8125)):
                if k < 24:
                    k += 1
                    v = costing.compute_capital_cost(A, N, a, b, c)
                    G.append(("tv", f"compute_capital_cost({A},{N},{a},{b},{c})", None, goal_total(f"compute_capital_cost_R {rl(A)} {rl(N)} {rl(a)} {rl(b)} {rl(c)}", v)))
    # (ii) property predicate on the implementation's outputs, spec written independently of the generated text
    m = ctx.budget(40, 400)
    for _ in range(m):
        A = rng.randint(1, 40000) / 16
        N = rng.randint(1, 12)
        a = rng.choice([0.0, 4000.0, 1250.5])
        b = rng.randint(1, 4000) / 4
        c = rng.randint(1, 16) / 16
        try:
            v = float(costing.compute_capital_cost(A, N, a, b, c))
            t = tolq(v)
            goal = f"Rabs ({rl(N)} * ({rl(a)} + {rl(b)} * Rpower ({rl(A)} / {rl(N)}) {rl(c)}) - {rl(v)}) <= {t.numerator} / {t.denominator}"
        except Exception as e:  # noqa: BLE001
            goal, v = "False", f"{type(e).__name__}: {e}"
        G.append(("capital-cost-formula", "capital cost = N (a + b (A/N)^c)", dict(area=A, num_units=N, fixed=a, variable=b, exponent=c, returned=v), goal))
        i = rng.randint(1, 64) / 256 if rng.random() < 0.75 else rng.choice([1 / 2048, 1 / 4096, 3 / 4096, 1 / 16384])   # also rates below 0.1 % a year
        n = rng.randint(1, 30)
        try:
            v = float(costing.compute_capital_recovery_factor(i, n))
            ann = " + ".join(f"/ (1 + {rl(i)}) ^ {kk}" for kk in range(1, n + 1))
            goal = f"Rabs ({rl(v)} * ({ann}) - 1) <= 1 / 1000000000"
        except Exception as e:  # noqa: BLE001
            goal, v = "False", f"{type(e).__name__}: {e}"
        G.append(("crf-annuity", "crf * sum_{k=1..n} (1+i)^-k = 1", dict(rate=i, years=n, returned=v), goal))
        K = rng.randint(1, 10 ** 6) / 8
        try:
            v = float(costing.compute_annual_capital_cost(K, i, n))
            t = tolq(v)
            goal = f"Rabs ({rl(K)} * ({rl(i)} / (1 - / (1 + {rl(i)}) ^ {n})) - {rl(v)}) <= {t.numerator} / {t.denominator}"
        except Exception as e:  # noqa: BLE001
            goal, v = "False", f"{type(e).__name__}: {e}"
        G.append(("annual-cost-formula", "annual cost = K i / (1 - (1+i)^-n)", dict(capital_cost=K, rate=i, years=n, returned=v), goal))
        # a service life need not be a whole number of years: the same closed form with a real exponent
        nf = rng.randint(1, 29) + rng.choice([0.25, 0.5, 0.75])
        try:
            v = float(costing.compute_annual_capital_cost(K, i, nf))
            t = tolq(v)
            goal = f"Rabs ({rl(K)} * ({rl(i)} / (1 - Rpower (1 + {rl(i)}) (- {rl(nf)}))) - {rl(v)}) <= {t.numerator} / {t.denominator}"
        except Exception as e:  # noqa: BLE001
            goal, v = "False", f"{type(e).__name__}: {e}"
        G.append(("annual-cost-formula", "annual cost = K i / (1 - (1+i)^-n), fractional life", dict(capital_cost=K, rate=i, years=nf, returned=v), goal))
    wd = ctx.workdir / "cost"
    wd.mkdir(parents=True, exist_ok=True)
    nshard = 8
    files = []
    for si in range(nshard):
        sc = G[si::nshard]
        lines = ["From Coq Require Import Reals String.", "From Interval Require Import Tactic.",
                 "From OP Require Import gen.Consts gen.HxDispatch gen.Scalar proofs.HXSampleTac.", "Local Open Scope R_scope."]
        index = {}
        for g in sc:
            index[len(lines) + 1] = g
            tac = "sample" if g[0] == "tv" else "interval with (i_prec 80)"
            lines.append(f"Goal {g[3]}. Proof. {tac}. Qed.")
        p = wd / f"cost{si}.v"
        files.append((p, index, lines))

    def compile_all(files):
        for p, _, lines in files:
            p.write_text("\n".join(lines) + "\n")
        with ThreadPoolExecutor(max_workers=lib.JOBS) as ex:
            return list(ex.map(lambda f: lib.sh(f"coqc -Q {lib.COQ} OP -w -notation-overridden,-ambiguous-paths {f[0].name}", 900, cwd=wd), files))

    agree, bad, mism = len(G), 0, 0
    # a failing goal stops its file: comment it out and recompile until every file passes (each failure is recorded)
    for _ in range(12):
        results = compile_all(files)
        again = False
        for (p, index, lines), (rc, out, _) in zip(files, results):
            if rc == 0:
                continue
            mm = re.search(r"line (\d+), characters", out)
            ln = int(mm.group(1)) if mm else None
            g = index.get(ln)
            if g is None:
                ctx.break_("cost-suite:coqc", out[-800:])
                continue
            again = True
            lines[ln - 1] = "(* failed *)"
            agree -= 1
            if g[0] == "tv":
                mism += 1
                ctx.break_("translator-validation:" + g[1].split("(")[0], f"generated Coq function and the Python function differ at {g[1]}\n" + out[-400:])
            else:
                bad += 1
                if bad <= 6:
                    ctx.fail(g[0], g[1] + " is false of the value the implementation returned", input=g[2], impl_output=g[2].get("returned"), suite="cost",
                             predicate=g[3][:300])
        if not again:
            break
    ctx.evaluations += len(G)
    ctx.count("cost_translator_samples", len([g for g in G if g[0] == "tv"]))
    ctx.count("cost_predicate_points", len([g for g in G if g[0] != "tv"]))
    ctx.suite("cost", cases=len(G), agree=agree, mismatch=mism, property_false=bad, fragile_skipped=0,
              note="every case is an `interval` proof in coqc about the value the implementation returned")


def run(ctx):
    import time
    for name, fn in (("balanced", balanced_suite), ("e2e", e2e_suite), ("tdf", tdf_suite), ("cost", cost_suite)):
        t0 = time.time()
        try:
            fn(ctx)
        except Exception as e:  # noqa: BLE001
            # a suite that needs the regenerated definitions cannot run when the translator refuses the source: that is a
            # broken tie (already recorded by the build step); the remaining suites still search for a failing input
            if type(e).__name__ != "Untranslatable":
                raise
            ctx.break_(f"translator:{name}-suite", str(e))
        ctx.extra[f"suite_{name}_s"] = round(time.time() - t0, 1)


def replay(ctx, data):
    inp = data["input"]
    if data.get("suite") == "e2e":
        (v, o), = judge_problems(ctx, [inp], "replay")
        o = {k: val for k, val in o.items() if k not in ("hot", "cold", "iv")} if "error" not in o else o
        print(json.dumps(lib.jsonable(dict(verdict=v, meaning=KINDS.get(tuple(v[:2]), ("agree", ""))[0] if v else None, observed=o)), indent=1, default=str))
    elif data.get("suite") == "tdf":
        c = (inp["T_hot"], inp["H_hot"], inp["T_cold"], inp["H_cold"], inp.get("min_dT", 0.0))
        (v, o), = judge_tdf_cases(ctx, [c], "replay")
        model = lib.coq_eval(ctx, HDR, f"tdf tol {qlit(c[4])} {qfl(c[0])} {qfl(c[1])} {qfl(c[2])} {qfl(c[3])}")
        print(json.dumps(lib.jsonable(dict(verdict=v, differs_at=TDF_ARRAYS.get(v[1]) if v[0] == 2 else None, implementation=o)), indent=1, default=str))
        print("model (exact rationals):\n" + model)
    else:
        print(json.dumps(data, indent=1))
