"""C07 -- pocket-free GCC is the running minimum of the GCC (DESIGN.md section 8, C07)."""
from __future__ import annotations

import itertools
import json

from harness.lib import CaseFile, qlist

MODEL_TARGETS = ["model/Pockets.vo"]
ALLOWED_AXIOMS = []
RULE = ("a case is a grand composite curve (T strictly descending, H_net >= 0) on a dyadic lattice; shape suite: random "
        "walks over 2-14 rows with 0-5 pockets per side (nested, closing on a row, next to the pinch), threshold curves "
        "(zero on the first/last row), several zero rows; derived suite: the same through get_additional_GCCs with "
        "composite-curve columns (pockets, vertical, actual GCC, load profiles); near-tolerance suite: one level or one "
        "crossing moved to tol*k of another (k around 1: must be classified fragile; k = 1/2, 2, 3: model must still agree); "
        "thorough tier: EVERY curve of <= 7 rows over levels {0..4}; a case is non-trivial when at least one row is "
        "inserted or flattened; distinct = distinct (T, H_net)")
ASSUMPTIONS = ["IEEE rounding of the implementation versus exact rationals is not proved: columns are compared to 1e-9 relative",
               "theorems hold for Robust inputs with a pinch (robust_b, has_pinch in coq/model/Pockets.v: T falling by > tol, every "
               "H_net level 0 or > tol, no two levels within tol unless equal, no crossing of a row level within tol of an interval "
               "end); Robust cases are judged by the property predicate and by model agreement, non-Robust ones by model agreement "
               "only; a case is skipped as fragile when the model evaluated at tol(1-1e-3), tol, tol(1+1e-3) is not identical",
               "numpy views returned by ProblemTable.col alias the table (the sweep writes H_net_np through them)",
               "ProblemTable.insert_temperature_interval is modelled for ONE temperature and the columns T, H_net, H_net_np "
               "(what the sweep uses); its general behaviour is property C08"]
TRUSTED = ["hand-written model coq/model/Pockets.v (index model gcc_np, profiles) validated by the correspondence suites only",
           "the zipper form gcc_np_z is NOT trusted: theorem C07_code_sweep_is_zipper_sweep proves gcc_np = gcc_np_z on Robust inputs"]
HDR = ("From OP Require Import gen.Consts model.Base model.Pockets.\nRequire Import Coq.QArith.QArith.\n"
       "Local Open Scope Q_scope.")
TOL = 1e-6
CLAUSE = {1: "output temperatures not strictly descending / ends moved / column lengths differ",
          2: "output rows are not the input rows plus exactly the temperatures where a pocket closes inside an interval",
          3: "H_net no longer lies on the input curve",
          4: "H_net_np at an output row is not the running minimum of the input curve",
          5: "H_net_np half-way between two output rows is not the running minimum of the input curve",
          6: "the ends of H_net_np do not keep Qh / Qc",
          7: "a load profile is not monotone", 8: "a load profile does not start at zero at the pinch side",
          9: "a load profile does not end at Qh / Qc",
          14: "(input not Robust) H_net_np at an output row is further than 4 tol from the running minimum of the input curve"}


# ------------------------------------------------------------------------------------------ implementation
def run_impl(T, H, hcold=None, hhot=None):
    """Real code on a ProblemTable holding T and H_net (and the composite-curve columns for the derived suite)."""
    import numpy as np
    from OpenPinch.classes import ProblemTable
    from OpenPinch.lib import PT
    from OpenPinch.analysis.gcc_manipulation import (get_GCC_without_pockets, get_additional_GCCs,
                                                     get_seperated_gcc_heat_load_profiles)
    d = {PT.T.value: np.array(T, float), PT.H_NET.value: np.array(H, float)}
    if hcold is not None:
        d[PT.H_COLD.value] = np.array(hcold, float)
        d[PT.H_HOT.value] = np.array(hhot, float)
    pt = ProblemTable(d)
    try:
        if hcold is None:
            get_GCC_without_pockets(pt)
            prof = get_seperated_gcc_heat_load_profiles(pt.col[PT.H_NET_NP.value])
            hot, cold = prof[PT.H_NET_HOT.value], prof[PT.H_NET_COLD.value]
            der = None
        else:
            get_additional_GCCs(pt, True, True)
            hot, cold = pt.col[PT.H_NET_HOT.value], pt.col[PT.H_NET_COLD.value]
            der = [pt.col[PT.H_NET_PK.value].tolist(), pt.col[PT.H_NET_V.value].tolist(), pt.col[PT.H_NET_A.value].tolist()]
    except Exception as e:  # noqa: BLE001
        return None, f"{type(e).__name__}: {e}"
    out = dict(T=pt.col[PT.T.value].tolist(), H=pt.col[PT.H_NET.value].tolist(), NP=pt.col[PT.H_NET_NP.value].tolist(),
               hot=[float(x) for x in hot], cold=[float(x) for x in cold], derived=der)
    for k in ("T", "H", "NP", "hot", "cold"):
        if any(x != x for x in out[k]):
            return out, f"NaN in output column {k}"
    return out, None


def case_expr(case, out):
    T, H = case["T"], case["H"]
    if case.get("hcold") is None:
        d = "None"
    else:
        pk, v, a = out["derived"]
        d = f"(Some ({qlist(case['hcold'])}, {qlist(case['hhot'])}, ({qlist(pk)}, {qlist(v)}, {qlist(a)})))"
    return (f"judge_np {qlist(T)} {qlist(H)} {qlist(out['T'])} {qlist(out['H'])} {qlist(out['NP'])} "
            f"{qlist(out['hot'])} {qlist(out['cold'])} {d}")


def judge_cases(ctx, cases, suite):
    """-> list of (verdict, impl output, error)"""
    cf = CaseFile(ctx, suite, HDR, shard=200)
    res, idx = [], []
    for c in cases:
        out, err = run_impl(c["T"], c["H"], c.get("hcold"), c.get("hhot"))
        res.append([None, out, err])
        if err is None:
            idx.append(len(res) - 1)
            cf.add(case_expr(c, out))
    for i, v in zip(idx, cf.run()):
        res[i][0] = v
    return res


# ------------------------------------------------------------------------------------------------ generators
STEPS = [10.0, 20.0, 5.0, 2.5, 40.0, 12.5]


def temps(rng, n):
    t, out = float(rng.choice([400, 250, 180, 96])), []
    uniform = rng.random() < 0.4
    st = rng.choice(STEPS)
    for _ in range(n):
        out.append(t)
        t -= st if uniform else rng.choice(STEPS)
    return out


def walk(rng, m, top, scale):
    """m rows of one side in sweep order (far end first), levels 1..top, random up/down moves so that pockets of
    every depth, nesting and closing-on-a-row (a level met again) occur."""
    lv = rng.randint(1, top)
    out = []
    for _ in range(m):
        out.append(lv * scale)
        r = rng.random()
        if r < 0.45:
            lv = rng.randint(1, top)
        elif r < 0.7:
            lv = min(top, lv + rng.randint(1, 3))
        elif r < 0.95:
            lv = max(1, lv - rng.randint(1, 3))
    return out


def stair(rng, scale):
    """one side in sweep order (far end first): a backbone descending towards the pinch with k = 0..5 pockets hung on it;
    a pocket may be nested (dip and second rise inside it), may close exactly on a row (its entry level met again) or
    inside the next interval; the last one is adjacent to the pinch"""
    k = rng.randint(0, 5)
    lv = sorted(rng.sample(range(1, 40), k + 1), reverse=True)
    out = []
    for j, b in enumerate(lv):
        out.append(b)
        if j < k or rng.random() < 0.5:
            h = b + rng.randint(1, 10)
            out.append(h)
            if rng.random() < 0.35 and h - b >= 2:
                out.append(rng.randint(b + 1, h - 1))
                out.append(h + rng.randint(-1, 5))
                if rng.random() < 0.3:
                    out.append(out[-2])
            if rng.random() < 0.3:
                out.append(b)
    return [x * scale for x in out]


def gen_shape(rng):
    scale = rng.choice([1.0, 8.0, 12.5, 100.0, 0.25])
    top = rng.choice([4, 6, 9])
    kind = rng.random()

    def side():
        return stair(rng, scale) if rng.random() < 0.55 else walk(rng, rng.randint(1, 8), top, scale)
    above = side()
    below = side()[::-1]
    if kind < 0.07:            # threshold: no hot utility (zero on the first row)
        above = []
    elif kind < 0.14:          # threshold: no cold utility
        below = []
    mid = [0.0]
    if rng.random() < 0.3:     # several pinches, possibly with a bump between them
        for _ in range(rng.randint(1, 3)):
            if rng.random() < 0.6:
                mid.append(rng.randint(1, top) * scale)
            mid.append(0.0)
    if rng.random() < 0.08:    # run of zeros at an end
        if rng.random() < 0.5:
            above = [0.0] * rng.randint(1, 2) + ([] if rng.random() < 0.5 else above)
        else:
            below = ([] if rng.random() < 0.5 else below) + [0.0] * rng.randint(1, 2)
    H = above + mid + below
    if rng.random() < 0.03:    # no pinch at all (curve must stay as it is)
        H = [h if h > 0 else scale for h in H]
    return dict(T=temps(rng, len(H)), H=H)


def gen_derived(rng):
    c = gen_shape(rng)
    n = len(c["H"])
    # composite-curve columns: non-increasing downwards, common dyadic offsets so that no interpolated value can tie
    # with hcc_max / cu_tar in the vertical-GCC comparisons
    hh, hc, a, b = [], [], 0.0, 0.0
    for _ in range(n):
        hh.append(a)
        hc.append(b)
        a += rng.choice([0.0, 10.0, 30.0, 5.0])
        b += rng.choice([0.0, 10.0, 20.0, 15.0])
    c["hhot"] = [x + 1.0 / 1024 for x in hh[::-1]]
    c["hcold"] = [x + 3.0 / 2048 for x in hc[::-1]]
    return c


def gen_near_tol(rng):
    """A shape with one level moved to tol*k of another level / of zero, or one crossing moved to tol*k of a row."""
    for _ in range(50):
        c = gen_shape(rng)
        if len(c["H"]) >= 3:
            break
    k = rng.choice([1.0, 0.9995, 1.0005, 0.9992, 1.0008, 0.5, 2.0, 3.0, -1.0, -0.9995, -1.0005, -0.5, -2.0])
    H = list(c["H"])
    i, j = rng.sample(range(len(H)), 2)
    mode = rng.random()
    if mode < 0.6:
        H[i] = H[j] + TOL * k                      # level next to another level (or next to zero)
    elif mode < 0.8:
        H[i] = abs(TOL * k)                        # almost-zero row
    else:
        H[i] = H[i] + TOL * k                      # a crossing that lands tol*k from a row when the slope is 1
        c["T"] = [400.0 - 10.0 * q for q in range(len(H))]
    c["H"] = [max(h, 0.0) for h in H]
    c["k"] = k
    return c


CORPUS = [
    # D2 (repaired by 8b8d0cb): three insertions above the pinch; the unrepaired loop left a pocket at T = 100
    dict(T=[200.0, 180.0, 160.0, 140.0, 120.0, 100.0, 80.0, 60.0], H=[50.0, 70.0, 40.0, 60.0, 20.0, 30.0, 0.0, 10.0]),
    # mirror image: three insertions below the pinch
    dict(T=[200.0, 180.0, 160.0, 140.0, 120.0, 100.0, 80.0, 60.0], H=[10.0, 0.0, 30.0, 20.0, 60.0, 40.0, 70.0, 50.0]),
    # both sides, nested pockets, pocket closing exactly on a row (level 40 met again), pocket next to the pinch
    dict(T=[300.0, 280.0, 260.0, 240.0, 220.0, 200.0, 180.0, 160.0, 140.0, 120.0, 100.0],
         H=[40.0, 80.0, 60.0, 90.0, 40.0, 70.0, 0.0, 50.0, 20.0, 60.0, 20.0]),
    # cases of tests/test_analysis/test_gcc_manipulation.py
    dict(T=[300.0, 250.0, 200.0, 150.0, 100.0], H=[500.0, 600.0, 550.0, 0.0, 100.0]),
    dict(T=[300.0, 250.0, 200.0, 150.0, 100.0], H=[100.0, 200.0, 300.0, 400.0, 500.0]),
    dict(T=[300.0, 250.0, 200.0, 150.0, 100.0], H=[0.0, 0.0, 0.0, 0.0, 0.0]),
    # threshold curves with pockets
    dict(T=[100.0, 90.0, 80.0, 70.0, 60.0], H=[0.0, 30.0, 10.0, 40.0, 20.0]),
    dict(T=[100.0, 90.0, 80.0, 70.0, 60.0], H=[20.0, 40.0, 10.0, 30.0, 0.0]),
    # two pinches with a bump between them and pockets on both sides
    dict(T=[100.0, 90.0, 80.0, 70.0, 60.0, 50.0, 40.0, 30.0, 20.0], H=[10.0, 20.0, 5.0, 0.0, 15.0, 0.0, 5.0, 20.0, 10.0]),
    # five pockets on one side
    dict(T=[float(400 - 10 * i) for i in range(13)], H=[90.0, 95.0, 70.0, 75.0, 50.0, 55.0, 30.0, 35.0, 10.0, 15.0, 5.0, 8.0, 0.0]),
    dict(T=[10.0], H=[0.0]), dict(T=[10.0, 0.0], H=[5.0, 0.0]), dict(T=[10.0, 0.0], H=[0.0, 5.0]),
    # D56 (repaired by 90f934d): below the pinch the pocket entered at level 20 (T = 165) closes 6e-9 K from the row at
    # T = 174.99975, so no breakpoint is inserted; the exit row at T = 174.9995 (H = 39.999) must be flattened all the same.
    # Not Robust (a crossing within tol of a row) and not fragile: judged by model = implementation, by the row clause with
    # 4 tol slack, and by the pinned column below (the unrepaired code left H_net_np = 39.999 there).
    dict(T=[285.0, 275.0, 175.0, 174.99975, 174.9995, 165.0, 130.0, 105.0], H=[200.0, 200.0, 0.0, 19.9995, 39.999, 20.0, 20.0, 26.25],
         expect_np=[200.0, 200.0, 0.0, 19.9995, 20.0, 20.0, 20.0, 26.25], must_be_judged=True),
    # its mirror image above the pinch (never defective; pins the symmetric behaviour)
    dict(T=[105.0, 80.0, 45.0, 35.0005, 35.00025, 35.0, -65.0, -75.0], H=[26.25, 20.0, 20.0, 39.999, 19.9995, 0.0, 200.0, 200.0],
         expect_np=[26.25, 20.0, 20.0, 20.0, 19.9995, 0.0, 200.0, 200.0], must_be_judged=True),
]


# ------------------------------------------------------------------------------------------------- shrinking
def shrink_case(case, still_fails):
    """drop rows one at a time, then lower levels to small integers, while the case keeps failing"""
    cur = dict(case)
    changed = True
    while changed and len(cur["T"]) > 1:
        changed = False
        cands = []
        for i in range(len(cur["T"])):
            c = dict(cur)
            c.pop("expect_np", None)
            for k in ("T", "H", "hcold", "hhot"):
                if c.get(k) is not None:
                    c[k] = cur[k][:i] + cur[k][i + 1:]
            cands.append(c)
        for c, bad in zip(cands, still_fails(cands)):
            if bad:
                cur, changed = c, True
                break
    levels = sorted(set(cur["H"]))
    c = dict(cur)
    c["H"] = [float(levels.index(h)) * 10.0 if levels[0] == 0.0 else float(levels.index(h) + 1) * 10.0 for h in cur["H"]]
    c["T"] = [float(10 * (len(cur["T"]) - i)) for i in range(len(cur["T"]))]
    if c.get("hcold") is None and (c["H"] != cur["H"] or c["T"] != cur["T"]) and still_fails([c])[0]:
        cur = c
    return cur


def shape_stats(case, out):
    T, H = case["T"], case["H"]
    ins = [t for t in out["T"] if t not in T]
    zs = [t for t, h in zip(T, H) if abs(h) < TOL]
    flat = sum(1 for a, b in zip(out["H"], out["NP"]) if abs(a - b) > TOL)
    st = dict(ins_above=0, ins_below=0, flat=flat, zeros=len(zs))
    if zs:
        st["ins_above"] = sum(1 for t in ins if t > zs[0])
        st["ins_below"] = sum(1 for t in ins if t < zs[-1])
    return st


def run_suite(ctx, name, cases, expect_robust=True):
    res = judge_cases(ctx, cases, name)
    agree = mism = bad = frag = nonrobust = 0
    for c, (v, out, err) in zip(cases, res):
        ctx.evaluations += 1
        key = (tuple(c["T"]), tuple(c["H"]), tuple(c.get("hcold") or ()))
        if err is None:
            st = shape_stats(c, out)
            ctx.count(f"{name}:inserted_above_{min(st['ins_above'], 5)}")
            ctx.count(f"{name}:inserted_below_{min(st['ins_below'], 5)}")
            ctx.count(f"{name}:zero_rows_{min(st['zeros'], 3)}")
            if st["zeros"] and (abs(c["H"][0]) < TOL or abs(c["H"][-1]) < TOL):
                ctx.count(f"{name}:threshold")
            if st["ins_above"] + st["ins_below"] + st["flat"] > 0:
                ctx.nontrivial_case(key)
            ctx.sample(dict(suite=name, T=c["T"], H=c["H"], out_T=out["T"], out_H_np=out["NP"]), limit=5)
        if err is None and c.get("expect_np") is not None:
            got = out["NP"]
            if len(got) != len(c["expect_np"]) or any(abs(a - b) > 1e-9 for a, b in zip(got, c["expect_np"])) \
                    or (c.get("must_be_judged") and v[0] == 1):
                ctx.fail("np-pinned-corpus", "pinned corpus case: H_net_np differs from the pinned column (or the case was skipped as fragile)",
                         input={k: c[k] for k in ("T", "H")}, impl_output=out, predicate=f"H_net_np == {c['expect_np']}", suite=name)
                bad += 1
                continue
        if err is None and v[0] == 1:
            frag += 1
            continue
        if err is None and v[0] == 0:
            agree += 1
            if len(v) > 1 and v[1] == 0:
                nonrobust += 1
            continue
        if bad + mism >= 3:
            bad += 1
            continue

        def still(cands):
            return [(e is not None) or (vv is not None and vv[0] in (2, 3)) for vv, _, e in judge_cases(ctx, cands, name + "_shrink")]
        c2 = shrink_case(c, still)
        v2, out2, err2 = judge_cases(ctx, [c2], name + "_final")[0]
        data = dict(input=c2, impl_output=out2, suite=name, shrunk_from=len(c["T"]))
        if err2 is not None:
            ctx.fail("np-raises", f"get_GCC_without_pockets / load profiles: {err2}", predicate="no exception, no NaN", **data)
            bad += 1
        elif v2[0] == 3:
            ctx.fail("np-property", "pocket-free GCC property false on the implementation's output: " + CLAUSE.get(v2[1], str(v2[1])),
                     predicate=f"P_np / P_prof clause {v2[1]}", model_output=model_dump(ctx, c2), **data)
            bad += 1
        else:
            ctx.fail("np-model-mismatch", f"model and implementation differ at position code {v2[1] if len(v2) > 1 else '?'}",
                     predicate="rows_close eps9 / profiles / derived columns", model_output=model_dump(ctx, c2), **data)
            mism += 1
    ctx.suite(name, cases=len(cases), agree=agree, mismatch=mism, property_false=bad, fragile_skipped=frag,
              agree_but_not_robust=nonrobust)
    if expect_robust and cases and (frag + nonrobust) * 10 > len(cases):
        ctx.break_(f"correspondence:{name}", f"{frag} fragile + {nonrobust} non-Robust of {len(cases)} cases: generator no longer produces Robust inputs")
    return frag, nonrobust


def model_dump(ctx, c):
    from harness.lib import coq_eval
    return coq_eval(ctx, HDR, f"gcc_np tol {qlist(c['T'])} {qlist(c['H'])}")[-1500:]


def run(ctx):
    rng = ctx.rng
    n = ctx.budget(900, 12000)
    run_suite(ctx, "shape", CORPUS + [gen_shape(rng) for _ in range(n)])
    run_suite(ctx, "derived", [gen_derived(rng) for _ in range(ctx.budget(160, 2000))])
    nt = [gen_near_tol(rng) for _ in range(ctx.budget(260, 3000))]
    frag, _ = run_suite(ctx, "near_tol", nt, expect_robust=False)
    if frag == 0:
        ctx.break_("correspondence:near_tol", "no near-tolerance case was classified fragile: the fragile verdict is dead")
    if ctx.thorough:
        ex = []
        for m in range(1, 8):
            T = [float(10 * (m - i)) for i in range(m)]
            for hs in itertools.product([0.0, 10.0, 20.0, 30.0, 40.0], repeat=m):
                ex.append(dict(T=T, H=list(hs)))
        run_suite(ctx, "exhaustive", ex)
        ctx.extra["exhaustive"] = f"all {len(ex)} curves of 1..7 rows over levels {{0,10,20,30,40}} on T = 10*(m-i)"


def replay(ctx, data):
    c = data["input"]
    v, out, err = judge_cases(ctx, [c], "replay")[0]
    print(json.dumps(dict(verdict=v, error=err, impl_output=out, model=model_dump(ctx, c)), indent=1, default=str))
