"""C09 -- total-site targets are additive over zones and bracketed by bounds (DESIGN.md 8/C09)."""
from __future__ import annotations

from harness.lib import CaseFile, qlist, qlit
from harness.props import pinch_common as pc
from harness.props import c01, c02

MODEL_TARGETS = c02.MODEL_TARGETS
ALLOWED_AXIOMS = []
HDR = c02.HDR
RULE = ("end-to-end: sites of 1-4 process zones (flat labels, nested labels) x utility regimes {none, isothermal, several levels "
        "(intermediate levels that allow inter-zone recovery), gliding}; judged in coqc: total-process = sum of zonal DI records value by "
        "value and utility by utility; Qh_TS <= sum Qh_z, Qc_TS <= sum Qc_z; Qh_TS >= Qh_DI(site), Qc_TS >= Qc_DI(site) with the site DI "
        "record itself checked against the exact reference; Qr_TS = sum Qr_z + (sum Qh_z - Qh_TS); non-trivial = Qh_TS strictly below "
        "the sum (inter-zone recovery) or >= 2 zones; distinct = distinct problem")
ASSUMPTIONS = c01.ASSUMPTIONS


def rec_coq(t):
    hu, cu = c02.utility_lists(t)
    return f"(mkRec {qlit(t.Qh)} {qlit(t.Qc)} {qlit(t.Qr)} {qlist(hu)} {qlist(cu)})"


def site_problems(ctx, n):
    probs = []
    # two zones that can exchange heat only through an intermediate utility level
    probs.append((dict(streams=[dict(zone="A", name="h", t_supply=200.0, t_target=150.0, heat_flow=100.0, dt_cont=5.0, htc=1.0),
                                dict(zone="B", name="c", t_supply=50.0, t_target=120.0, heat_flow=140.0, dt_cont=5.0, htc=1.0)],
                       utilities=[dict(name="MP", type="Both", t_supply=135.0, t_target=134.0, heat_flow=0.0, dt_cont=0.0, htc=1.0, price=1.0)]),
                  dict(zones=2, shapes=["recovery"], regime="both")))
    S = lambda z, nm, a, b, q, dt: dict(zone=z, name=nm, t_supply=a, t_target=b, heat_flow=q, dt_cont=dt, htc=1.0)          # noqa: E731
    U = lambda nm, ty, t, dt: dict(name=nm, type=ty, t_supply=t, t_target=t, heat_flow=0.0, dt_cont=dt, htc=1.0, price=1.0)   # noqa: E731
    # deterministic witnesses of the open findings (their KNOWN-FINDING lines appear on every run)
    probs.append((dict(streams=[S("P0", "S0_0", 100.0, 99.99925, 10.0, 0.0), S("P0", "S1_0", 140.0, 130.0, 10.0, 0.0),
                                S("P0", "S2_0", 110.0, 155.0, 56.25, 10.0), S("P0", "S3_0", 125.0, 210.0, 106.25, 5.0)],
                       utilities=[U("TopU", "Both", 225.0, 10.0), U("BotU", "Cold", 99.99925, 0.0)]),
                  dict(zones=1, shapes=["D24"], regime="witness")))
    probs.append((dict(streams=[S("P0", "S0_0", 255.0, 145.0, 110.0, 0.0), S("P0", "C1_0", 145.0, 255.0, 55.0, 2.5),
                                S("P0", "S2_0", 60.0, 59.999875, 40.0, 0.0), S("P0", "S3_0", 145.0, 100.0, 67.5, 10.0)],
                       utilities=[U("TopU", "Hot", 247.5, 2.5), U("MidU", "Both", 158.7499375, 2.5), U("BotU", "Both", 57.499875, 10.0)]),
                  dict(zones=1, shapes=["D44"], regime="witness")))
    # regression of a corrected false alarm (DESIGN 12.3 item 11): a utility level on a half-microkelvin tie of the 6-decimal site grid
    probs.append((dict(streams=[S("P0", "S0_0", 220.0, 220.000375, 5.0, 2.5),
                                S("P0", "C1_0", 220.000375, 220.0, 2.5, 2.5),
                                S("P0", "S2_0", 210.0, 200.0, 30.0, 2.5),
                                S("P0", "S3_0", 65.0, 25.0, 30.0, 0.0),
                                S("P0", "S4_0", 290.0, 170.0, 240.0, 2.5),
                                S("P1", "S0_1", 65.0, 30.0, 26.25, 2.5),
                                S("P1", "N1_1", 35.0, 60.0, 50.0, 2.5),
                                S("P1", "S2_1", 100.0, 75.0, 18.75, 5.0),
                                S("P1", "S3_1", 230.0, 229.999625, 40.0, 0.0),
                                S("P1", "S4_1", 290.0, 195.0, 190.0, 5.0)],
                       utilities=[U("TopU", "Both", 227.500375, 10.0), U("MidU", "Both", 123.7501875, 10.0), U("BotU", "Cold", 22.5, 5.0)]),
                  dict(zones=2, shapes=["grid-tie"], regime="witness")))
    # a user tree with a Site inside a Site: both levels carry the three site records and both must satisfy the statement
    probs.append((dict(streams=[S("A", "A.H1", 300.0, 120.0, 3600.0, 10.0), S("A", "A.C1", 100.0, 200.0, 1500.0, 10.0), S("B", "B.H1", 180.0, 60.0, 1200.0, 10.0),
                                S("B", "B.C1", 90.0, 260.0, 5100.0, 10.0), S("Offices", "O.C1", 20.0, 80.0, 1200.0, 10.0), S("Offices", "O.H1", 90.0, 40.0, 250.0, 10.0)],
                       utilities=[dict(name="HP steam", type="Hot", t_supply=300.0, t_target=299.0, heat_flow=0.0, dt_cont=5.0, htc=1.0, price=40.0),
                                  dict(name="LP steam", type="Both", t_supply=140.0, t_target=139.0, heat_flow=0.0, dt_cont=5.0, htc=1.0, price=20.0),
                                  dict(name="CW", type="Cold", t_supply=15.0, t_target=25.0, heat_flow=0.0, dt_cont=5.0, htc=1.0, price=2.0)],
                       zone_tree=dict(name="Campus", type="Site", children=[
                           dict(name="Plant", type="Site", children=[dict(name="A", type="Process Zone"), dict(name="B", type="Process Zone")]),
                           dict(name="Offices", type="Process Zone")])),
                  dict(zones=3, shapes=["nested-site"], regime="witness")))
    for i in range(n):
        if i % 4 == 0:
            probs.append(pc.gen_header_problem(ctx.rng))      # generation/use at nearly the same utility level
            continue
        regime = ctx.rng.choice(["none", "iso", "multi", "steered", "glide", "limit"])
        prob, m = pc.gen_problem(ctx.rng, nzones=ctx.rng.choice([1, 2, 2, 3, 4]), regime=regime, nmax=5)
        if m["zones"] >= 3 and ctx.rng.random() < 0.5:
            # a user tree that groups the first two zones into a site of their own
            zs = [f"P{k}" for k in range(m["zones"])]
            prob["zone_tree"] = dict(name="Project", type="Site", children=[
                dict(name="Sub", type="Site", children=[dict(name=z, type="Process Zone") for z in zs[:2]])]
                + [dict(name=z, type="Process Zone") for z in zs[2:]])
            m = dict(m, shapes=m["shapes"] + ["nested-site"])
        if ctx.rng.random() < 0.15:
            # switched-off utility rows that would reach everything: they take no duty and must not suppress the default utilities
            lo = min(min(x["t_supply"], x["t_target"]) for x in prob["streams"])
            hi = max(max(x["t_supply"], x["t_target"]) for x in prob["streams"])
            prob["utilities"] = prob["utilities"] + [
                dict(name="OffCW", type="Cold", t_supply=lo - 40.0, t_target=lo - 40.0, heat_flow=0.0, dt_cont=5.0, htc=1.0, price=1.0, active=False),
                dict(name="OffST", type="Hot", t_supply=hi + 40.0, t_target=hi + 40.0, heat_flow=0.0, dt_cont=5.0, htc=1.0, price=50.0, active=False)]
            m = dict(m, shapes=m["shapes"] + ["inactive_utilities"])
        probs.append((prob, m))
    return probs


def window_shortfall(prob, di, tz, ts):
    """Trigger of finding D44 at site level: the total-site target is below the site's direct-integration target by no more than
    (2 x activity window 1e-5 K) x (heat-capacity flow rate of the utilities in the site cascade): grid rows of the site table
    closer than the window make a utility inactive in that sliver."""
    short = max(di.Qh - ts.Qh, di.Qc - ts.Qc)
    spans = [max(abs(u["t_supply"] - u["t_target"]), 0.1) for u in prob["utilities"]] + [0.1]
    cp_ut = (sum(c02.utility_lists(tz)[0]) + sum(c02.utility_lists(tz)[1])) / min(spans)
    return 0 < short <= 2e-5 * cp_ut


def run(ctx):
    n = ctx.budget(140, 5000)
    cf = CaseFile(ctx, "site", HDR, shard=40)
    meta = []
    for prob, m in site_problems(ctx, n):
        try:
            out, mz = pc.run_service(prob)
        except Exception as e:  # noqa: BLE001
            ctx.fail("service-raises", f"{type(e).__name__}: {e}", suite="site", input=prob, predicate="service returns")
            continue
        recs = {t.name: t for t in out.targets}
        # the top zone and every nested zone that carries the three site records (a Site inside a Site in a user tree)
        sites = [mz] + [z for _, z in pc.walk_zones(mz) if z is not mz and f"{z.name}/Total Site Target" in recs and z.subzones]
        for sz in sites:
            site = sz.name
            need = [f"{site}/Direct Integration", f"{site}/Total Process Target", f"{site}/Total Site Target"]
            if any(k not in recs for k in need):
                ctx.fail("site-record-missing", f"missing one of {need}", suite="site", input=prob, impl_output=list(recs), predicate="three site records")
                continue
            zones = [z for z in sz.subzones.values()]
            zrecs = []
            ok = True
            for z in zones:
                k = pc.di_key(z)
                if k is None or k not in recs:
                    ok = False
                    break
                zrecs.append(recs[k])
            if not ok:
                ctx.fail("site-record-missing", "a process zone has no direct-integration record", suite="site", input=prob, predicate="one DI record per zone")
                continue
            xs = prob["streams"] if sz is mz else c01.zone_inputs(prob, sz)
            cf.add(f"c09_b eps6 {qlit(c02.site_grid_slack(prob, recs[need[1]]))} [{'; '.join(c01.coq_sin(s) for s in xs)}] [{'; '.join(rec_coq(t) for t in zrecs)}] "
                   f"{rec_coq(recs[need[0]])} {rec_coq(recs[need[1]])} {rec_coq(recs[need[2]])}")
            meta.append((prob, m, [recs[k] for k in need], zrecs))
    agree = bad = 0
    for (prob, m, (di, tz, ts), zrecs), v in zip(meta, cf.run()):
        ctx.evaluations += 1
        strict = ts.Qh < tz.Qh - 1e-6
        ctx.count(f"z{m['zones']}_{m['regime']}_{'recovery' if strict else 'norecovery'}")
        if strict or m["zones"] >= 2:
            ctx.nontrivial_case(("site", repr(prob)))
        ctx.sample(dict(zones=m["zones"], regime=m["regime"], DI=(di.Qh, di.Qc), TZ=(tz.Qh, tz.Qc), TS=(ts.Qh, ts.Qc, ts.Qr)), limit=6)
        if v[0] == 0:
            agree += 1
            continue
        clause = {91: "total-process targets != sum of zonal targets", 92: "total-process utilities != sum of zonal utilities",
                  93: "total-site target larger than the sum of zonal targets", 94: "total-site target smaller than the site's direct-integration target",
                  95: "site direct-integration record is not the exact optimum", 96: "Qr_TS != sum Qr_z + (sum Qh_z - Qh_TS)"}.get(v[1], str(v))
        glide_short = c02.has_gliding_user_cold_utility(prob) and any(sum(c02.utility_lists(t)[1]) < t.Qc - 1e-6 for t in zrecs)
        if v[1] == 94 and glide_short:
            ctx.fail("glide-utility-undersupplied", f"{clause} (a zone's gliding cold utility is undersupplied)", suite="site",
                     input=dict(problem=prob), impl_output=dict(DI=(di.Qh, di.Qc, di.Qr), TZ=(tz.Qh, tz.Qc, tz.Qr), TS=(ts.Qh, ts.Qc, ts.Qr)), predicate="c09_b")
            continue
        if v[1] == 94 and window_shortfall(prob, di, tz, ts):
            ctx.fail("activity-window-swallows-narrow-interval", f"{clause} by less than window x utility CP (grid rows of the site table closer "
                     "than the tol*10 activity window)", suite="site", input=dict(problem=prob),
                     impl_output=dict(DI=(di.Qh, di.Qc, di.Qr), TZ=(tz.Qh, tz.Qc, tz.Qr), TS=(ts.Qh, ts.Qc, ts.Qr)), predicate="c09_b")
            continue
        if bad < 3:
            ctx.fail("site-bounds", clause, suite="site", input=dict(problem=prob),
                     impl_output=dict(DI=(di.Qh, di.Qc, di.Qr), TZ=(tz.Qh, tz.Qc, tz.Qr), TS=(ts.Qh, ts.Qc, ts.Qr),
                                      zones=[(t.name, t.Qh, t.Qc, t.Qr) for t in zrecs]), predicate=f"c09_b {v}")
        bad += 1
    ctx.suite("site", cases=len(meta), agree=agree, property_false=bad, mismatch=0, fragile_skipped=0)


def replay(ctx, data):
    import json
    out, mz = pc.run_service(data["input"]["problem"])
    print(json.dumps([dict(name=t.name, Qh=t.Qh, Qc=t.Qc, Qr=t.Qr) for t in out.targets], indent=1))
