"""C17 -- curve simplification stays within its tolerance (DESIGN.md section 8, C17).

Suites (every verdict is computed by coqc from exact rationals, see coq/model/RDP.v and coq/model/Curves.v):
  rdp     _rdp(curve, eps)                       model = implementation (kept points), P_b: ends, order, deviation
  pw      get_piecewise_data_points(curve, hot)  <= 10 kept points: equals the RDP model + one-sided tenth bound (D17);
                                                 > 10: SLSQP oracle, the property is explored on the implementation
  clean   clean_composite_curve(_ends)           model = implementation, P_b: subsequence, flat trims, 1e-6 deviation
  corpus  fixed cases pinning D7 (no interior point may raise), D16, D17 and the relative-tolerance trimming witness
"""
from __future__ import annotations

import math
import time

from harness.lib import CaseFile, coq_bool, qlit

MODEL_TARGETS = ["gen/CurvesConsts.vo", "model/RDP.vo", "model/Curves.vo"]
ALLOWED_AXIOMS = []
RULE = ("polylines of 1..500 points on the dyadic lattice k/8 (so that the float pipeline is exact): monotone in both coordinates, "
        "with plateaus (repeated y), vertical steps (repeated x), repeated points, exactly collinear runs, convex/concave/S-shaped "
        "profiles, x-monotone noisy curves (line-distance clause only), closed loops (zero-length chord), near-collinear curves "
        "(second differences below tol, D16), large-magnitude abscissas (relative-tolerance trimming) and tiny spreads (variance "
        "early return); both traversal directions, hot and cold, eps in {1/128 .. 8} and {0.01,0.1,0.5,2.0}. A case is non-trivial "
        "when it has an interior point and the simplifier removes at least one point and keeps at least one interior point "
        "(rdp/pw) or trims/removes at least one point (clean); distinct = distinct (points, eps, orientation).")
ASSUMPTIONS = ["IEEE rounding of the implementation versus exact rationals is not proved: inputs are dyadic so that cross products are exact; "
               "cases whose kept set changes when eps (rdp) or tol (clean) moves by 1e-9 / 1e-3 relative are classified fragile and skipped",
               "the SLSQP refinement (scipy.optimize.minimize) is an oracle: only 'end points are re-attached' is proved; order, deviation and "
               "one-sidedness after refinement are observed on the implementation, not derived",
               "numpy's isclose default rtol is read from the installed numpy at generation time (gen/CurvesConsts.v)",
               "the model of _rdp is claimed for eps >= 0 (for eps < 0 the Python loop does not terminate)"]
TRUSTED = ["translator/gen_curves.py (loop bounds, thresholds, comparison operators of _rdp/_get_piecewise_breakpoints/clean_*, numpy rtol)"]
HDR = ("From OP Require Import gen.Consts gen.CurvesConsts model.Base model.RDP model.Curves.\n"
       "Require Import Coq.QArith.QArith.\nLocal Open Scope Q_scope.")

ERR = {"ZeroDivisionError": 1, "IndexError": 2, "KeyError": 3, "AttributeError": 4, "ValueError": 5, "TypeError": 7}
EPS_CHOICES = [1 / 128, 1 / 16, 1 / 4, 1.0, 2.0, 8.0, 0.01, 0.1, 0.5, 2.0]


def cpts(pts) -> str:
    return "[" + "; ".join(f"({qlit(x)}, {qlit(y)})" for x, y in pts) + "]"


# ------------------------------------------------------------------ generators
def _cum(steps, start=0.0):
    out, v = [], start
    for s in steps:
        v += s
        out.append(v)
    return out


def gen_curve(rng, kinds=None, nmax=500):
    """Returns (kind, points) with points = [(x, y)] floats on the lattice k/8 (x = enthalpy, y = temperature)."""
    kind = rng.choice(kinds or ["mono", "mono", "plateau", "steps", "repeat", "collinear", "convex", "concave", "scurve",
                                "noisy", "loop", "degenerate"])
    r = rng.random()
    n = rng.randint(2, 6) if r < 0.25 else rng.randint(7, 40) if r < 0.75 else rng.randint(41, 160) if r < 0.93 else rng.randint(161, max(161, nmax))
    n = min(n, nmax)
    if kind == "mono":
        xs = _cum([rng.randint(1, 24) / 8 for _ in range(n)])
        ys = _cum([rng.randint(0, 40) / 8 for _ in range(n)])
    elif kind == "plateau":
        xs = _cum([rng.randint(1, 16) / 8 for _ in range(n)])
        ys = _cum([rng.choice([0, 0, 0, 1, 4, 12]) / 8 for _ in range(n)])
    elif kind == "steps":
        xs = _cum([rng.choice([0, 0, 1, 2, 5, 16]) / 8 for _ in range(n)])
        ys = _cum([rng.randint(1, 24) / 8 for _ in range(n)])
    elif kind == "repeat":
        xs = _cum([rng.randint(1, 24) / 8 for _ in range(n)])
        ys = _cum([rng.randint(0, 40) / 8 for _ in range(n)])
        for _ in range(max(1, n // 6)):
            i = rng.randrange(1, n)
            xs[i], ys[i] = xs[i - 1], ys[i - 1]
        xs, ys = sorted(xs), sorted(ys)
    elif kind == "collinear":
        xs, ys, x, y = [], [], 0.0, 0.0
        sx, sy = rng.randint(1, 8) / 8, rng.randint(0, 16) / 8
        for i in range(n):
            if rng.random() < 0.15:
                sx, sy = rng.randint(1, 8) / 8, rng.randint(0, 16) / 8
            k = rng.randint(1, 4)
            x, y = x + k * sx, y + k * sy
            xs.append(x)
            ys.append(y)
    elif kind in ("convex", "concave"):
        h = rng.choice([1, 2, 8]) / 8
        c = rng.choice([1, 2, 4, 16]) / 64
        xs = [i * h for i in range(n)]
        ys = [c * i * i for i in range(n)] if kind == "convex" else [c * (2 * (n - 1) * i - i * i) for i in range(n)]
    elif kind == "scurve":
        xs = [i / 2 for i in range(n)]
        m = (n - 1) / 2
        ys = _cum([max(0, round(8 * math.exp(-((i - m) / max(1.0, n / 6)) ** 2) * 8)) / 8 for i in range(n)])
    elif kind == "noisy":
        xs = _cum([rng.randint(1, 16) / 8 for _ in range(n)])
        ys = [rng.randint(-40, 40) / 8 for _ in range(n)]
    elif kind == "loop":
        xs = _cum([rng.randint(1, 16) / 8 for _ in range(n)])
        ys = _cum([rng.randint(0, 24) / 8 for _ in range(n)])
        xs[-1], ys[-1] = xs[0], ys[0]
    else:  # degenerate
        d = rng.choice(["same", "two_equal", "single", "flat_y", "flat_x"])
        if d == "same":
            xs, ys = [2.5] * n, [7.0] * n
        elif d == "two_equal":
            xs, ys = [1.0, 1.0], [3.0, 3.0]
        elif d == "single":
            xs, ys = [1.5], [4.0]
        elif d == "flat_y":
            xs, ys = _cum([rng.randint(1, 8) / 8 for _ in range(n)]), [5.0] * n
        else:
            xs, ys = [5.0] * n, _cum([rng.randint(1, 8) / 8 for _ in range(n)])
    pts = list(zip(xs, ys))
    if rng.random() < 0.5:
        pts.reverse()
    return kind, pts


def gen_clean_curve(rng):
    """Curves for the cleaning functions: the above plus the tolerance-sensitive families."""
    k = rng.random()
    if k < 0.62:
        kind, pts = gen_curve(rng, ["mono", "plateau", "steps", "steps", "repeat", "collinear", "collinear", "convex", "scurve",
                                    "degenerate"], nmax=200)
        if rng.random() < 0.5:                       # flat ends in x (what the trimming is for)
            a, b = rng.randint(0, 3), rng.randint(0, 3)
            pts = [(pts[0][0], pts[0][1] - (a - i)) for i in range(a)] + pts + [(pts[-1][0], pts[-1][1] + 1 + i) for i in range(b)]
        return kind, pts
    if k < 0.72:                                     # GCC-like: y strictly descending, x arbitrary >= 0
        n = rng.randint(3, 30)
        ys = _cum([-rng.randint(1, 40) / 8 for _ in range(n)], 300.0)
        xs = [rng.choice([0, 0, 5, 10, 20, 40, 12.5]) + 0.0 for _ in range(n)]
        return "gcc", list(zip(xs, ys))
    if k < 0.77:                                     # one slightly bent vertex at ordinary temperatures: the bend is far above tol
        n = rng.randint(3, 9)                        # (so the vertex must be kept) but small relative to |y|
        xs = [float(10 * i) for i in range(n)]
        y0, slope = rng.choice([100.0, 250.0, 400.0]), rng.choice([0.5, 1.0, 2.0])
        ys = [y0 + slope * x for x in xs]
        j = rng.randint(1, n - 2)
        ys[j] += rng.choice([1, -1]) * rng.choice([2.0 ** -17, 2.0 ** -13, 2.0 ** -10])
        return "slightlybent", list(zip(xs, ys))
    if k < 0.82:                                     # near-collinear: second differences below tol (D16 drift)
        n = rng.randint(3, 120)
        c = rng.choice([1, 2, 3]) * 2.0 ** -22
        xs = [float(i) for i in range(n)]
        ys = [c * i * i for i in range(n)]
        return "nearcollinear", list(zip(xs, ys))
    if k < 0.92:                                     # large magnitude: numpy's relative tolerance exceeds tol
        n = rng.randint(3, 12)
        base = rng.choice([1024.0, 65536.0, 1048576.0])
        xs = _cum([rng.choice([0, 1 / 64, 1 / 8, 1, 64]) for _ in range(n)], base)
        ys = _cum([1.0] * n)
        pts = list(zip(xs, ys))
        if rng.random() < 0.5:
            pts = [(x, y) for (x, _), (_, y) in zip(reversed(pts), pts)]
        return "largemag", pts
    n = rng.randint(2, 40)                           # tiny spread: variance early return
    s = rng.choice([2.0 ** -12, 2.0 ** -10, 2.0 ** -9, 2.0 ** -8])
    xs = _cum([rng.choice([0, 0, 0, 1]) * s for _ in range(n)])
    ys = _cum([1.0] * n)
    return "tinyspread", list(zip(xs, ys))


# ------------------------------------------------------------------ running the implementation
def run_rdp(pts, eps):
    import numpy as np
    from OpenPinch.utils.stream_linearisation import _rdp
    try:
        out = _rdp(np.array(pts, dtype=float), eps)
        return [(float(a), float(b)) for a, b in out], None
    except Exception as e:  # noqa: BLE001
        return None, type(e).__name__


def as_given(pts):
    """A profile whose coordinates are all whole numbers is handed over as Python ints (a list of int pairs is a legal way to write it)."""
    if all(float(x).is_integer() and float(y).is_integer() for x, y in pts):
        return [[int(x), int(y)] for x, y in pts]
    return [list(p) for p in pts]


def run_pw(args):
    pts, hot, eps = args
    import warnings
    warnings.filterwarnings("ignore")
    from OpenPinch.utils.stream_linearisation import get_piecewise_data_points
    t0 = time.time()
    try:
        out = get_piecewise_data_points(as_given(pts), hot, eps)
        return [(float(a), float(b)) for a, b in out], None, time.time() - t0
    except Exception as e:  # noqa: BLE001
        return None, f"{type(e).__name__}: {e}", time.time() - t0


def run_clean(pts):
    from OpenPinch.utils.miscellaneous import clean_composite_curve, clean_composite_curve_ends
    ys, xs = [p[1] for p in pts], [p[0] for p in pts]
    try:
        ye, xe = clean_composite_curve_ends(list(ys), list(xs))
        yc, xc = clean_composite_curve(list(ys), list(xs))
        return [(float(a), float(b)) for a, b in zip(xe, ye)], [(float(a), float(b)) for a, b in zip(xc, yc)], None
    except Exception as e:  # noqa: BLE001
        return None, None, type(e).__name__


# ------------------------------------------------------------------ judging
def judge_rdp_cases(ctx, cases, suite):
    """cases: [(pts, eps)] -> [(verdict, out, err)]"""
    cf = CaseFile(ctx, suite, HDR, shard=40)
    res = []
    for pts, eps in cases:
        out, err = run_rdp(pts, eps)
        res.append([None, out, err])
        if err is None:
            cf.add(f"judge_rdp {qlit(eps)} {cpts(pts)} {cpts(out)}")
        else:
            cf.add(f"judge_rdp_err {qlit(eps)} {cpts(pts)} {ERR.get(err, 9)}%Z")
    for r, v in zip(res, cf.run()):
        r[0] = v
    return res


def run_pw_many(cases, deadline_s, workers=8):
    """Run get_piecewise_data_points on every case in worker processes; a case that has not returned when the overall
    deadline expires is reported as (None, "TIMEOUT", seconds) and its worker is terminated (SLSQP calls of the refined
    path take from 0.1 s to several minutes)."""
    import multiprocessing as mp
    if not cases:
        return []
    t0 = time.time()
    pool = mp.Pool(min(workers, len(cases)))
    try:
        asyncs = [pool.apply_async(run_pw, (c,)) for c in cases]
        out = []
        for a in asyncs:
            left = max(0.05, deadline_s - (time.time() - t0))
            try:
                out.append(a.get(timeout=left))
            except mp.TimeoutError:
                out.append((None, "TIMEOUT", time.time() - t0))
        return out
    finally:
        pool.terminate()
        pool.join()


def judge_pw_cases(ctx, cases, suite, deadline_s=None):
    """cases: [(pts, hot, eps)] -> [(verdict, out, err, seconds)]"""
    runs = run_pw_many(cases, deadline_s) if deadline_s is not None else [run_pw(c) for c in cases]
    cf = CaseFile(ctx, suite, HDR, shard=40)
    res, idx = [], []
    for (pts, hot, eps), (out, err, dt) in zip(cases, runs):
        res.append([None, out, err, dt])
        if err is None:
            idx.append(len(res) - 1)
            cf.add(f"judge_pw {qlit(eps)} {coq_bool(hot)} {cpts(pts)} {cpts(out)}")
    for i, v in zip(idx, cf.run()):
        res[i][0] = v
    return res


def judge_clean_cases(ctx, cases, suite):
    """cases: [pts] -> [(verdict, out_ends, out_clean, err)]"""
    cf = CaseFile(ctx, suite, HDR, shard=60)
    res = []
    for pts in cases:
        oe, oc, err = run_clean(pts)
        res.append([None, oe, oc, err])
        if err is None:
            cf.add(f"judge_clean {cpts(pts)} {cpts(oe)} {cpts(oc)}")
        else:
            cf.add(f"judge_clean_err {cpts(pts)} {ERR.get(err, 9)}%Z")
    for r, v in zip(res, cf.run()):
        r[0] = v
    return res


def failing(v):
    return v is None or (len(v) > 0 and v[0] in (2, 3))


def same_failure(v, ref):
    """Same verdict class and (for property failures) the same predicate code."""
    if v is None or ref is None:
        return v is None and ref is None
    if not failing(v) or v[0] != ref[0]:
        return False
    return v[0] == 2 or v[1:2] == ref[1:2]


def shrink_points(pts, still_fails, min_len=1, max_rounds=30, max_cands=16, time_budget=40.0):
    """ddmin on a point list; still_fails(list of candidate point lists) -> list of bool (one coqc batch per round).
    At most max_cands candidates per round and time_budget seconds in total, so that shrinking a 500-point case costs
    a bounded number of coqc calls; the result is a (not necessarily minimal) failing sub-list."""
    g, rounds, t0 = 2, 0, time.time()
    while len(pts) > min_len and rounds < max_rounds and time.time() - t0 < time_budget:
        rounds += 1
        size = max(1, len(pts) // g)
        starts = list(range(0, len(pts), size))
        if len(starts) > max_cands:
            step = len(starts) / max_cands
            starts = [starts[int(i * step)] for i in range(max_cands)]
        cands = []
        for st in starts:
            c = pts[:st] + pts[st + size:]
            if len(c) >= min_len:
                cands.append(c)
        if not cands:
            break
        res = still_fails(cands)
        hit = next((c for c, bad in zip(cands, res) if bad), None)
        if hit is not None:
            pts = hit
            g = max(2, g - 1)
        elif size == 1:
            break
        else:
            g = min(len(pts), g * 2)
    return pts


# ------------------------------------------------------------------ suites
RDP_KIND = {1: ("rdp-ends-or-order", "kept points are not an in-order subsequence with both end points"),
            3: ("rdp-deviation-exceeds-eps", "an original point lies further than eps from the simplified polyline")}
CORPUS_RDP = [
    # D7: every curve with an interior point used to raise (np.cross on 2-vectors, numpy 2)
    ([(0.0, 0.0), (1.0, 3.0), (2.0, 0.0)], 0.5),
    ([(0.0, 0.0), (1.0, 0.0), (2.0, 0.0)], 0.5),
    ([(0.0, 0.0), (1.0, 0.25), (2.0, 3.0), (3.0, 0.0), (5.0, 0.25), (8.0, 2.0), (9.0, 0.0), (10.0, 0.0)], 0.5),
    ([(0.0, 0.0), (5.0, 5.0), (0.0, 0.0)], 1.0),                          # closed loop: zero-length chord keeps everything
    ([(0.0, 0.0), (1.0, 1.0), (1.0, 1.0), (2.0, 0.0)], 0.125),           # repeated maximum: the FIRST is the split point
    ([(0.0, 0.0), (1.0, 2.0), (2.0, 0.0), (3.0, 2.0), (4.0, 0.0)], 1.0),  # equal maxima: strict > keeps the first
    ([(3.0, 1.0)], 1.0), ([(3.0, 1.0), (3.0, 1.0)], 1.0), ([(0.0, 0.0), (4.0, 4.0)], 0.0),
    ([(0.0, 0.0), (1.0, 1.0), (2.0, 2.0), (3.0, 3.5)], 0.0),
]


def rdp_suite(ctx):
    n = ctx.budget(260, 6000)
    cases = list(CORPUS_RDP)
    meta = ["corpus"] * len(cases)
    while len(cases) < n + len(CORPUS_RDP):
        kind, pts = gen_curve(ctx.rng)
        cases.append((pts, ctx.rng.choice(EPS_CHOICES)))
        meta.append(kind)
    res = judge_rdp_cases(ctx, cases, "rdp")
    agree = mism = bad = frag = 0
    for (pts, eps), kind, (v, out, err) in zip(cases, meta, res):
        ctx.evaluations += 1
        ctx.count(f"rdp_{kind}")
        ctx.count(f"rdp_n_{'le6' if len(pts) <= 6 else 'le40' if len(pts) <= 40 else 'le160' if len(pts) <= 160 else 'le500'}")
        if out is not None and 2 < len(out) < len(pts):
            ctx.nontrivial_case(("rdp", tuple(pts), eps))
        ctx.sample(dict(suite="rdp", kind=kind, n=len(pts), eps=eps, kept=None if out is None else len(out)), limit=3)
        if v == [0]:
            agree += 1
            continue
        if v == [1]:
            frag += 1
            continue
        if bad + mism >= 3:
            bad += 1
            continue

        def still(cands, ref=v, eps=eps):
            return [same_failure(r[0], ref) for r in judge_rdp_cases(ctx, [(c, eps) for c in cands], "rdp_shrink")]
        small = shrink_points(pts, still)
        v2, out2, err2 = judge_rdp_cases(ctx, [(small, eps)], "rdp_final")[0]
        data = dict(input=dict(curve=small, eps=eps), impl_output=out2 if err2 is None else err2, suite="rdp", shrunk_from=len(pts), verdict=v2)
        if err2 is not None:
            ctx.fail("rdp-raises", f"_rdp raised {err2} on a curve of {len(small)} points (D7 regression?)",
                     predicate="no curve with an interior point raises", **data)
            bad += 1
        elif v2[0] == 3:
            k, what = RDP_KIND.get(v2[1], ("rdp-property", "property predicate false"))
            ctx.fail(k, what, predicate="P_rdp_code (ends kept, in-order subsequence, every original point within eps)", **data)
            bad += 1
        else:
            ctx.fail("rdp-model-mismatch", f"_rdp keeps other points than the model (first difference at index {v2[1]})",
                     model_output="rdp_model eps curve", predicate="pts_eqb", **data)
            mism += 1
    ctx.suite("rdp", cases=len(cases), agree=agree, mismatch=mism, property_false=bad, fragile_skipped=frag)


D17_CURVE = [(i / 8, 100.0 * (i / 8) ** 2) for i in range(9)]            # T = 100 h^2 on 8 steps, hot, eps = 2 -> 2 points kept, 25 K above
CORPUS_PW = [
    (D17_CURVE[::-1], True, 2.0),                                        # D17 witness (open finding)
    ([(0.0, 0.0), (1.0, 3.0), (2.0, 0.0)], True, 0.5),                   # D7 pin through the public entry point
    ([(0.0, 0.0), (1.0, 1.0), (2.0, 2.0), (3.0, 3.0)], False, 0.5),
    ([(4.0, 8.0), (3.0, 4.5), (2.0, 2.0), (1.0, 0.5), (0.0, 0.0)], False, 0.125),   # concave for a cold stream: chord below
    # whole-number profiles (handed over as Python ints) with a tolerance below 1: a vertex 0.8 from the chord must be kept
    ([(0.0, 100.0), (10.0, 104.0), (20.0, 109.0), (30.0, 112.0), (40.0, 116.0)], False, 0.5),
    ([(40.0, 116.0), (30.0, 113.0), (20.0, 108.0), (10.0, 105.0), (0.0, 100.0)], True, 0.25),
]
# RDP keeps 12 of these 13 points, so the SLSQP refinement runs: it returns break points at enthalpy -1.9e7 (open finding)
CORPUS_PW_REFINED = [
    ([(2.875, 18.375), (2.75, 18.125), (2.75, 15.875), (2.125, 14.75), (1.5, 12.5), (1.375, 11.0), (1.375, 10.125), (1.25, 8.125),
      (1.25, 7.75), (1.25, 6.75), (1.0, 5.375), (0.75, 4.25), (0.625, 2.625)], False, 0.0078125),
]
# the same profile listed with ascending enthalpy (as the repository's own test data files are): the refinement flips the
# curve and calls np.interp with descending abscissas, its constraint is meaningless (open finding)
CORPUS_PW_REFINED.append((CORPUS_PW_REFINED[0][0][::-1], True, 0.0078125))
# refined cases on which the unchanged code meets every clause: a failure here is a regression, whatever the listed findings say
# about the refinement in general (hot quadratic profile, 101 points: worst deviation 0.033 for eps 0.05)
PINNED_REFINED_OK = [([(1000.0 - 10.0 * i, 100.0 + 200.0 * ((1000.0 - 10.0 * i) / 1000.0) ** 2) for i in range(101)], True, 0.05)]
CORPUS_PW_REFINED += PINNED_REFINED_OK
PW_KIND = {11: "refine-ends-moved", 12: "slsqp-refinement-unchecked", 13: "slsqp-refinement-unchecked", 14: "slsqp-refinement-unchecked"}
PW_WHAT = {11: "refined profile does not keep both end points",
           12: "after the SLSQP refinement (RDP keeps > 10 points) the break points are not in the original order of enthalpy "
               "(the optimiser's result is used without a success check)",
           13: "after the SLSQP refinement (RDP keeps > 10 points) an original point lies further than eps (+1 %) from the returned polyline",
           14: "after the SLSQP refinement (RDP keeps > 10 points) the returned profile violates the one-sided eps/10 (+1 %) bound"}


def pw_suite(ctx):
    n_small = ctx.budget(160, 4000)
    n_ref = ctx.budget(12, 240)
    small, refined = list(CORPUS_PW), list(CORPUS_PW_REFINED)
    n_ref += len(CORPUS_PW_REFINED)
    tries = 0
    while (len(small) < n_small + len(CORPUS_PW) or len(refined) < n_ref) and tries < 40 * (n_small + n_ref):
        tries += 1
        want_ref = len(refined) < n_ref and (len(small) >= n_small + len(CORPUS_PW) or ctx.rng.random() < 0.3)
        kind, pts = gen_curve(ctx.rng, ["mono", "plateau", "steps", "repeat", "collinear", "convex", "concave", "scurve"],
                              nmax=60 if want_ref else 500)
        eps = ctx.rng.choice([1 / 128, 1 / 16, 1 / 4, 0.01, 0.1] if want_ref else EPS_CHOICES)
        hot = ctx.rng.random() < 0.5
        out, err = run_rdp(pts, eps)
        if err is not None:
            continue
        if len(out) > 10:
            if len(refined) < n_ref and len(pts) <= 60:
                refined.append((pts, hot, eps))
        elif len(small) < n_small + len(CORPUS_PW):
            small.append((pts, hot, eps))
    cases = small + refined
    t0 = time.time()
    res = judge_pw_cases(ctx, cases, "pw", deadline_s=ctx.budget(45, 1200))
    ctx.extra["pw_impl_s"] = round(time.time() - t0, 1)
    agree = mism = bad = frag = timeouts = 0
    seen_kinds = {}
    for (pts, hot, eps), (v, out, err, dt) in zip(cases, res):
        ctx.evaluations += 1
        is_ref = (pts, hot, eps) in refined
        ctx.count("pw_refined" if is_ref else "pw_rdp_only")
        ctx.count("pw_hot" if hot else "pw_cold")
        ctx.count("pw_x_desc" if pts[0][0] > pts[-1][0] else "pw_x_asc")
        if out is not None and 2 < len(out) and len(pts) > len(out):
            ctx.nontrivial_case(("pw", tuple(pts), hot, eps))
        ctx.sample(dict(suite="pw", n=len(pts), eps=eps, hot=hot, kept=None if out is None else len(out), refined=is_ref), limit=5)
        if err == "TIMEOUT":
            timeouts += 1
            continue
        if err is not None:
            ctx.fail("pw-raises", f"get_piecewise_data_points raised {err}", input=dict(curve=pts, hot=hot, eps=eps), suite="pw",
                     predicate="no curve raises (D7)")
            bad += 1
            continue
        if v == [0]:
            agree += 1
            continue
        if v == [1]:
            frag += 1
            continue
        code = v[1] if v[0] == 3 else None
        if v[0] == 3 and code == 4:
            kind = "rdp-one-sided-bound-small"
            what = ("one-sided eps/10 bound not enforced when RDP keeps <= 10 points: the simplified %s profile lies %s the original by more "
                    "than eps/10" % ("hot" if hot else "cold", "above" if hot else "below"))
        elif v[0] == 3 and code in PW_KIND:
            asc = pts[0][0] < pts[-1][0]
            kind = "refine-ascending-enthalpy-input" if (asc and code != 11) else PW_KIND[code]
            what = PW_WHAT[code] + (" (curve given with ascending enthalpy: np.interp is called with descending abscissas)" if asc else "")
        elif v[0] == 3:
            kind, what = RDP_KIND.get(code, ("rdp-property", "property predicate false"))
        else:
            kind, what = "pw-model-mismatch", f"get_piecewise_data_points differs from the RDP model at index {v[1]} although RDP keeps <= 10 points"
        if (pts, hot, eps) in PINNED_REFINED_OK:
            kind, what = "refined-pinned-regression", "a refined profile that met every clause on the unchanged code no longer does: " + what
        seen_kinds[kind] = seen_kinds.get(kind, 0) + 1
        if v[0] == 2:
            mism += 1
        else:
            bad += 1
        if seen_kinds[kind] > 1:          # shrink and report the first case of every kind; count the rest
            continue
        small_pts = pts
        if not is_ref:                    # refined cases cost seconds per run: reported unshrunk

            def still(cands, ref=v, hot=hot, eps=eps):
                return [same_failure(r[0], ref) for r in judge_pw_cases(ctx, [(c, hot, eps) for c in cands], "pw_shrink")]
            small_pts = shrink_points(pts, still, min_len=2)
        v2, out2 = (v, out) if is_ref else judge_pw_cases(ctx, [(small_pts, hot, eps)], "pw_final")[0][:2]
        ctx.fail(kind, what, input=dict(curve=small_pts, hot=hot, eps=eps), impl_output=out2, suite="pw", shrunk_from=len(pts), verdict=v2,
                 predicate="judge_pw (RDP model equality when <= 10 points kept, P_rdp_code, one-sided tenth bound; refined: P_refined_code)")
    ctx.extra["pw_kinds"] = seen_kinds
    ctx.suite("pw", cases=len(cases), agree=agree, mismatch=mism, property_false=bad, fragile_skipped=frag,
              refined_cases=len(refined), refined_not_finished_before_deadline=timeouts,
              slowest_call_s=round(max((r[3] for r in res), default=0), 2))


def pw_history_suite(ctx):
    """The same profile linearised three times in ONE process -- loose tolerance, tight tolerance, loose again: every answer must be the
    one a fresh process gives for that tolerance (no state kept between calls), and is judged by the model like any other."""
    n = ctx.budget(24, 300)
    triples, tries = [], 0
    while len(triples) < n and tries < 60 * n:
        tries += 1
        kind, pts = gen_curve(ctx.rng, ["mono", "plateau", "steps", "convex", "concave", "scurve"], nmax=120)
        tight = ctx.rng.choice([1 / 16, 1 / 4, 0.1, 0.5, 1.0])
        loose = tight * ctx.rng.choice([8, 32])
        hot = ctx.rng.random() < 0.5
        (ot, et), (ol, el) = run_rdp(pts, tight), run_rdp(pts, loose)
        if et is not None or el is not None or len(ot) > 10 or len(ot) == len(ol):
            continue                      # fast path only, and the two tolerances must keep different point sets
        triples.append((pts, hot, loose, tight))
    seq = []
    for pts, hot, loose, tight in triples:
        seq += [(pts, hot, loose), (pts, hot, tight), (pts, hot, loose)]
    # the reference answers first: worker processes are forked, so they must be forked before this process has any history
    fresh = run_pw_many([(pts, hot, tight) for pts, hot, loose, tight in triples], 300, workers=4)   # each profile once per process
    runs = [run_pw(c) for c in seq]                                   # this process, in this order
    judged = judge_pw_cases_given(ctx, [seq[3 * i + 1] for i in range(len(triples))], [runs[3 * i + 1] for i in range(len(triples))], "pw_history")
    agree = bad = 0
    for i, (pts, hot, loose, tight) in enumerate(triples):
        ctx.evaluations += 1
        ctx.count("pw_history")
        ctx.nontrivial_case(("pw_history", tuple(pts), hot, loose, tight))
        (o1, e1, _), (o2, e2, _), (o3, e3, _) = runs[3 * i:3 * i + 3]
        of, ef, _ = fresh[i]
        if ef == "TIMEOUT":
            continue
        if (o2, e2) == (of, ef) and (o1, e1) == (o3, e3):
            agree += 1
            continue
        bad += 1
        if bad == 1:
            ctx.fail("pw-call-history", "get_piecewise_data_points answers differently after an earlier call on the same profile with another "
                     f"tolerance (loose {loose} first, then {tight}): the answer of a fresh process is not reproduced",
                     input=dict(curve=pts, hot=hot, eps=tight, earlier_eps=loose), impl_output=dict(after_history=o2, fresh=of, first=o1, third=o3),
                     suite="pw_history", verdict=judged[i][0], predicate="same answer as a fresh process; judge_pw on the answer")
    ctx.suite("pw_history", cases=len(triples), agree=agree, mismatch=0, property_false=bad, fragile_skipped=0)


def judge_pw_cases_given(ctx, cases, runs, suite):
    cf = CaseFile(ctx, suite, HDR, shard=40)
    res, idx = [], []
    for (pts, hot, eps), (out, err, dt) in zip(cases, runs):
        res.append([None, out, err, dt])
        if err is None:
            idx.append(len(res) - 1)
            cf.add(f"judge_pw {qlit(eps)} {coq_bool(hot)} {cpts(pts)} {cpts(out)}")
    for i, v in zip(idx, cf.run()):
        res[i][0] = v
    return res


def run_pw_streams(args):
    """The stream-level entry point for ONE stream holding this profile (orientation taken from the stream's temperatures)."""
    pts, hot, eps = args
    import warnings
    warnings.filterwarnings("ignore")
    from OpenPinch.lib.schema import NonLinearStream
    from OpenPinch.utils.stream_linearisation import get_piecewise_linearisation_for_streams
    t0 = time.time()
    ts = [p[1] for p in pts]
    hi, lo = max(ts), min(ts)
    st = NonLinearStream(t_supply=hi if hot else lo, t_target=lo if hot else hi, p_supply=101.0, p_target=101.0,
                         h_supply=pts[0][0], h_target=pts[-1][0], composition=[("water", 1.0)])
    try:
        out = get_piecewise_linearisation_for_streams([st], [[list(p) for p in pts]], dt_diff_max=eps)["t_h_points"]
        return [(float(a), float(b)) for a, b in out], None, time.time() - t0
    except Exception as e:  # noqa: BLE001
        return None, f"{type(e).__name__}: {e}", time.time() - t0


def pw_streams_suite(ctx):
    """get_piecewise_linearisation_for_streams on one stream must give what get_piecewise_data_points gives for that profile, orientation
    and tolerance (tolerances on both sides of the default 0.1), and is judged by the model like any other answer."""
    n = ctx.budget(30, 400)
    cases, tries = [], 0
    while len(cases) < n and tries < 60 * n:
        tries += 1
        kind, pts = gen_curve(ctx.rng, ["mono", "plateau", "steps", "convex", "concave", "scurve"], nmax=120)
        if max(p[1] for p in pts) == min(p[1] for p in pts):
            continue                      # orientation of a flat profile is not defined by its temperatures
        eps = ctx.rng.choice([1 / 128, 0.01, 0.02, 0.05, 0.1, 0.25, 0.5, 1.0, 2.0])
        hot = ctx.rng.random() < 0.5
        o, e = run_rdp(pts, eps)
        if e is not None or len(o) > 10:
            continue                      # fast path only
        cases.append((pts, hot, eps))
    direct = [run_pw(c) for c in cases]
    runs = [run_pw_streams(c) for c in cases]
    judged = judge_pw_cases_given(ctx, cases, runs, "pw_streams")
    agree = bad = 0
    for (pts, hot, eps), (od, ed, _), (o, e, _), j in zip(cases, direct, runs, judged):
        ctx.evaluations += 1
        ctx.count("pw_streams")
        ctx.nontrivial_case(("pw_streams", tuple(pts), hot, eps))
        if (o, e) == (od, ed):
            agree += 1
            continue
        bad += 1
        if bad == 1:
            ctx.fail("pw-streams-differs", "get_piecewise_linearisation_for_streams([one stream]) does not return what get_piecewise_data_points "
                     f"returns for the same profile, orientation and tolerance {eps}", input=dict(curve=pts, hot=hot, eps=eps),
                     impl_output=dict(stream_level=o if e is None else e, direct=od if ed is None else ed), suite="pw_streams", verdict=j[0],
                     predicate="same answer as get_piecewise_data_points; judge_pw on the answer")
    ctx.suite("pw_streams", cases=len(cases), agree=agree, mismatch=0, property_false=bad, fragile_skipped=0)


D16_CURVE = [(float(i), 4e-7 * i * i) for i in range(501)]
CORPUS_CLEAN = [
    D16_CURVE,                                                            # D16 (open finding): 2 points kept, deviation 0.0249
    [(100000.0, 4.0), (99999.5, 3.0), (50000.0, 2.0), (0.0, 1.0)],        # relative tolerance trims a genuine vertex (open finding)
    [(0.0, 3.0), (5.0, 2.0), (7.0, 1.0), (7.0, 0.0)],
    [(0.0, 5.0), (0.0, 4.0), (2.0, 3.0), (4.0, 2.0), (6.0, 1.0), (6.0, 0.0)],
    [(0.0, 4.0), (5.0, 3.0), (0.0, 2.0), (7.0, 1.0)],
    [(0.0, 2.0), (5.0, 1.0), (0.0, 0.0)],
    [(0.0, 1.0), (0.0, 0.0)], [(1.0, 1.0), (3.0, 0.0)], [], [(2.0, 1.0)],
    [(3.0, 3.0), (3.0, 2.0), (3.0, 1.0)],
    [(10.0, 3.0), (10.0, 2.0), (4.0, 1.0), (4.0, 0.0), (4.0, -1.0)],
    [(64000.25, 310.0), (64000.0, 300.0), (64000.0, 40.0)],              # relative band: raises IndexError (open finding)
]
CLEAN_KIND = {1: ("clean-subsequence", "kept points are not an in-order subsequence of the curve"),
              2: ("clean-trims-nonflat-point", "an end point whose abscissa differs by more than 3*tol from the first/last kept one was trimmed"),
              3: ("clean-interior-deviation", "a single removed point deviates by more than tol from the chord of its kept neighbours"),
              4: ("clean-variance-early-return", "nothing is returned although the abscissas spread by more than 2*tol (variance < tol early return)"),
              5: ("clean-ends-relative-tolerance", "end trimming uses numpy's relative tolerance (1e-5*|x|): a non-flat end point is dropped"),
              7: ("clean-ends-relative-tolerance", "clean_composite_curve raises IndexError: every abscissa lies within numpy's relative band "
                  "tol+1e-5*|x0| of the first one while the variance test passed (np.flatnonzero(mask)[0] on an empty array)"),
              6: ("clean-curve-collinearity-drift", "collinearity is tested against the original neighbours: consecutive removals drift by more than tol")}


def clean_suite(ctx):
    n = ctx.budget(300, 8000)
    cases, meta = list(CORPUS_CLEAN), ["corpus"] * len(CORPUS_CLEAN)
    for _ in range(n):
        kind, pts = gen_clean_curve(ctx.rng)
        cases.append(pts)
        meta.append(kind)
    res = judge_clean_cases(ctx, cases, "clean")
    agree = mism = bad = frag = 0
    seen = {}
    for pts, kind, (v, oe, oc, err) in zip(cases, meta, res):
        ctx.evaluations += 1
        ctx.count(f"clean_{kind}")
        if oc is not None and 0 < len(oc) < len(pts):
            ctx.nontrivial_case(("clean", tuple(pts)))
        ctx.sample(dict(suite="clean", kind=kind, n=len(pts), ends=None if oe is None else len(oe), kept=None if oc is None else len(oc)), limit=7)
        if v == [0]:
            agree += 1
            continue
        if v == [1]:
            frag += 1
            continue
        if v[0] == 3:
            k, what = CLEAN_KIND.get(v[1], ("clean-property", "property predicate false"))
            bad += 1
        elif err is not None:
            k, what = "clean-raises", f"clean_composite_curve raised {err}, the model does not"
            mism += 1
        else:
            k, what = "clean-model-mismatch", f"clean_composite_curve(_ends) differs from the model (position code {v[1]})"
            mism += 1
        seen[k] = seen.get(k, 0) + 1
        if seen[k] > 1:
            continue

        def still(cands, ref=v):
            return [same_failure(r[0], ref) for r in judge_clean_cases(ctx, cands, "clean_shrink")]
        small = shrink_points(pts, still, min_len=0)
        v2, oe2, oc2, err2 = judge_clean_cases(ctx, [small], "clean_final")[0]
        ctx.fail(k, what, input=dict(curve=small), impl_output=dict(ends=oe2, clean=oc2, error=err2), suite="clean", shrunk_from=len(pts),
                 verdict=v2, predicate="judge_clean (model equality; P_clean_code: subsequence, flat trims, |y - chord| <= tol)")
    ctx.extra["clean_kinds"] = seen
    ctx.suite("clean", cases=len(cases), agree=agree, mismatch=mism, property_false=bad, fragile_skipped=frag)


def run(ctx):
    rdp_suite(ctx)
    pw_suite(ctx)
    pw_history_suite(ctx)
    pw_streams_suite(ctx)
    clean_suite(ctx)


def replay(ctx, data):
    import json
    inp, suite = data["input"], data.get("suite")
    pts = [tuple(p) for p in inp["curve"]]
    if suite == "rdp":
        v, out, err = judge_rdp_cases(ctx, [(pts, inp["eps"])], "replay")[0]
        print(json.dumps(dict(verdict=v, impl_kept=out, error=err), indent=1))
    elif suite == "pw":
        v, out, err, dt = judge_pw_cases(ctx, [(pts, inp["hot"], inp["eps"])], "replay", deadline_s=600)[0]
        print(json.dumps(dict(verdict=v, impl_points=out, error=err, seconds=round(dt, 2)), indent=1))
    else:
        v, oe, oc, err = judge_clean_cases(ctx, [pts], "replay")[0]
        print(json.dumps(dict(verdict=v, impl_ends=oe, impl_clean=oc, error=err), indent=1))
