"""C11 -- Analysis is a pure function of its input (DESIGN.md section 8, C11).

Three roles in one file:
  * harness module (imported by harness/main.py): generators of call histories, parallel execution, the cases handed
    to the Coq judge `judge_history` (model/ServiceState.v), classification, shrinking, replay;
  * `python c11.py --worker job.json`: runs ONE call history against the real code in a FRESH interpreter and prints
    what it observed around every call (content digests, object identities, module-state digests);
  * a fresh-interpreter "twin" is the same worker with a one-call history: its result is the specification
    `service pn x` the judge compares every result of every history with.
"""
from __future__ import annotations

import copy
import hashlib
import json
import os
import sys
from pathlib import Path

if __name__ == "__main__":                       # worker: make `harness` importable, OpenPinch comes from PYTHONPATH
    sys.path.insert(0, str(Path(__file__).resolve().parents[2]))

from harness import lib                           # noqa: E402

MODEL_TARGETS = ["model/ServiceState.vo"]
PROOF_FILES = ["proofs/ServiceStateInv.v"]
ALLOWED_AXIOMS = []
RULE = ("call histories of 2-6 calls (thorough: 2-8, plus every history of length <= 3 over an 8-call alphabet) mixing "
        "pinch_analysis_service(dict), pinch_analysis_service(validated TargetInput), the SAME TargetInput object reused, and "
        "PinchProblem load(model | JSON file)/target/export sequences, over 1-3 distinct small multi-zone problems per history "
        "(2-6 streams, zone labels from {A, B, A/B, C, Plant/U1, Plant/U2}, 0-2 utilities, optional options / zone_tree, dyadic "
        "numbers) and 1-2 project names; every history runs in its own fresh interpreter, every distinct (channel, project "
        "name, problem) once more alone in a fresh interpreter (the twin = the specification). Around each call the worker "
        "records: exception class, identity and content of every TargetOutput object returned so far, content and nested "
        "object identities of every caller-owned input, digests of __defaults__/__kwdefaults__/closures of every function "
        "and method and of the globals and class attributes of every loaded OpenPinch.* module. Digests are interned to "
        "small integers and judge_history (Coq) decides: property predicate on the observations first, then agreement with "
        "the state machine. A history is non-trivial when it returns >= 2 results and reuses a model object, analyses two "
        "different problems, or targets after a second load; distinct = distinct call list + problems")
ASSUMPTIONS = [
    "equality of contents is equality of canonical JSON (sorted keys, floats by shortest round-trip repr, i.e. exact doubles) "
    "of model_dump(); graph entries are compared as an ordered list of (key, graph set)",
    "a 'fresh process' is a new /venv/bin/python interpreter with its own PYTHONHASHSEED (0..6, by job number) and the repository first on sys.path",
    "module state = every module named OpenPinch or OpenPinch.* in sys.modules: globals (identity of functions/classes/modules/"
    "foreign objects, deep value of dict/list/set/tuple/scalars/enum members/instances of OpenPinch classes), class attributes, "
    "and per function/method/property/static/class method: __defaults__, __kwdefaults__, closure cells, __dict__, __wrapped__; "
    "state of third-party modules (numpy, pint, CoolProp, pydantic, logging) is outside the statement",
    "narrow exclusions from the class-attribute snapshot, all interpreter/pydantic memoisation that cannot influence a result: "
    "`__slotnames__` (copyreg cache written by copy.deepcopy on Stream and StreamCollection), `__pydantic_setattr_handlers__` "
    "(pydantic's per-class memo of attribute setters, filled when preparation assigns stream.zone / utility fields), and "
    "`_abc_impl`/`__abstractmethods__`",
    "the numeric pipeline is abstract in the Coq model (an arbitrary pure function); its purity is not proved from its source, "
    "it is observed through the snapshots and the twin comparison (exploration for code paths the histories do not reach, "
    "e.g. heat-pump options)",
    "the workbook written by export_to_Excel is not compared (its name carries a timestamp); export is observed through the "
    "cached result object and the snapshots",
]
HDR = ("From OP Require Import gen.Consts model.Base model.ServiceState.\nRequire Import Coq.ZArith.ZArith.\n"
       "Local Open Scope Z_scope.")
WORKERS = int(os.environ.get("VERIF_JOBS", "16"))
SCALE = float(os.environ.get("VERIF_C11_SCALE", "1"))      # < 1 only to smoke-test the thorough tier on a busy machine
MARK = "C11OUT:"


# =========================================================================== shared: canonical content
def canon(o) -> str:
    """Canonical JSON: sorted keys; floats via repr (shortest round-trip => injective on doubles)."""
    def default(x):
        try:
            import numpy as np
            if isinstance(x, np.generic):
                return x.item()
            if isinstance(x, np.ndarray):
                return x.tolist()
        except Exception:                      # pragma: no cover
            pass
        import enum
        if isinstance(x, enum.Enum):
            return x.value
        if hasattr(x, "model_dump"):
            return x.model_dump()
        raise TypeError(f"not canonicalisable: {type(x)!r}")
    return json.dumps(o, sort_keys=True, default=default, allow_nan=True, separators=(",", ":"))


def dig(s: str) -> str:
    return hashlib.sha1(s.encode("utf8", "surrogatepass")).hexdigest()[:20]


# =========================================================================== worker side (fresh interpreter)
EXCLUDED_CLASS_ATTRS = ("__slotnames__", "__pydantic_setattr_handlers__", "_abc_impl", "__abstractmethods__")


def _worker_snapshot():
    """(defaults, globals): two dicts key -> text, deterministic within one process."""
    import enum
    import types

    def is_op(t):
        return (getattr(t, "__module__", "") or "").split(".")[0] == "OpenPinch"

    def deep(o, depth=0, seen=frozenset()):
        if isinstance(o, enum.Enum):
            return f"E<{type(o).__name__}.{o.name}>"
        if isinstance(o, float):
            return o.hex() if o == o and abs(o) != float("inf") else repr(o)
        if isinstance(o, (str, int, bool, bytes, type(None), complex)):
            return repr(o)
        if id(o) in seen or depth > 10:
            return f"<cycle {type(o).__name__}>"
        seen = seen | {id(o)}
        if isinstance(o, dict):
            return type(o).__name__ + "{" + ",".join(f"{deep(k, depth + 1, seen)}:{deep(v, depth + 1, seen)}" for k, v in o.items()) + "}"
        if isinstance(o, (list, tuple)):
            return type(o).__name__ + "[" + ",".join(deep(x, depth + 1, seen) for x in o) + "]"
        if isinstance(o, (set, frozenset)):
            return type(o).__name__ + "{" + ",".join(sorted(deep(x, depth + 1, seen) for x in o)) + "}"
        if isinstance(o, (types.FunctionType, type, types.ModuleType, types.BuiltinFunctionType)):
            return f"<{type(o).__name__} {getattr(o, '__qualname__', getattr(o, '__name__', '?'))}@{id(o)}>"
        if is_op(type(o)):                        # instance of an OpenPinch class held in module state: by value
            d = getattr(o, "__dict__", None)
            body = deep(dict(d), depth + 1, seen) if isinstance(d, dict) else ""
            slots = [s for c in type(o).__mro__ for s in getattr(c, "__slots__", ())]
            sl = ",".join(f"{s}={deep(getattr(o, s), depth + 1, seen)}" for s in slots if hasattr(o, s))
            return f"<{type(o).__qualname__}@{id(o)} {body} {sl}>"
        return f"<{type(o).__module__}.{type(o).__qualname__}@{id(o)}>"

    defaults, globs = {}, {}
    seen_f, seen_c = set(), set()

    def func_state(fn, label):
        if id(fn) in seen_f:
            return
        seen_f.add(id(fn))
        defaults[label + ".__defaults__"] = f"{id(fn.__defaults__) if fn.__defaults__ is not None else None} {deep(fn.__defaults__)}"
        defaults[label + ".__kwdefaults__"] = f"{id(fn.__kwdefaults__) if fn.__kwdefaults__ is not None else None} {deep(fn.__kwdefaults__)}"
        for i, c in enumerate(fn.__closure__ or ()):
            try:
                v = c.cell_contents
            except ValueError:
                continue
            if isinstance(v, types.FunctionType):
                func_state(v, f"{label}.<cell{i}>")
            else:
                defaults[f"{label}.<cell{i}>"] = deep(v)
        d = getattr(fn, "__dict__", None)
        if d:
            defaults[label + ".__dict__"] = deep({k: v for k, v in d.items() if k != "__wrapped__"})
        w = getattr(fn, "__wrapped__", None)
        if isinstance(w, types.FunctionType):
            func_state(w, label + ".__wrapped__")

    def member_funcs(v):
        if isinstance(v, (staticmethod, classmethod)):
            return [v.__func__] if isinstance(v.__func__, types.FunctionType) else []
        if isinstance(v, property):
            return [f for f in (v.fget, v.fset, v.fdel) if isinstance(f, types.FunctionType)]
        if isinstance(v, types.FunctionType):
            return [v]
        return []

    def class_state(cls):
        if id(cls) in seen_c:
            return
        seen_c.add(id(cls))
        cname = f"{cls.__module__}.{cls.__qualname__}"
        globs[cname + "::<names>"] = ",".join(sorted(k for k in vars(cls) if k not in EXCLUDED_CLASS_ATTRS))
        for an, av in sorted(vars(cls).items()):
            if an in EXCLUDED_CLASS_ATTRS:
                continue
            fs = member_funcs(av)
            for f in fs:
                func_state(f, f"{cname}.{an}")
            if isinstance(av, type) and is_op(av):
                class_state(av)
            elif not fs:
                if an.startswith("__pydantic_") or an in ("__signature__", "__class_vars__", "__private_attributes__",
                                                         "__dataclass_fields__", "__dataclass_params__", "__weakref__",
                                                         "__dict__", "_member_map_", "_value2member_map_", "__match_args__"):
                    globs[f"{cname}::{an}"] = f"@{id(av)}"          # machinery of pydantic/dataclasses/enum: identity only
                else:
                    globs[f"{cname}::{an}"] = deep(av)

    for mname in sorted(sys.modules):
        if not (mname == "OpenPinch" or mname.startswith("OpenPinch.")):
            continue
        mod = sys.modules[mname]
        if mod is None:
            continue
        g = vars(mod)
        globs[mname + ":<names>"] = ",".join(sorted(g))
        for name in sorted(g):
            if name in ("__builtins__",):
                continue
            v = g[name]
            key = f"{mname}:{name}"
            if isinstance(v, types.FunctionType):
                globs[key] = f"<function@{id(v)}>"
                if is_op(v):
                    func_state(v, f"{v.__module__}.{v.__qualname__}")
            elif isinstance(v, type):
                globs[key] = f"<class@{id(v)}>"
                if is_op(v):
                    class_state(v)
            elif isinstance(v, types.ModuleType):
                globs[key] = f"<module {v.__name__}@{id(v)}>"
            else:
                globs[key] = f"@{id(v)} " + deep(v)
    return defaults, globs


def _snap_digest(d):
    return dig("\x00".join(f"{k}\x01{d[k]}" for k in sorted(d)))


def _snap_diff(a, b, limit=6):
    out = []
    for k in sorted(set(a) | set(b)):
        if a.get(k) != b.get(k):
            out.append([k, str(a.get(k))[:240], str(b.get(k))[:240]])
    return out[:limit] + ([["...", f"{len(out) - limit} more", ""]] if len(out) > limit else [])


def _struct_ids(o, depth=0):
    """identities of the nested mutable objects of an input (dict / pydantic model)."""
    out = []
    if depth > 8:
        return out
    if hasattr(o, "__dict__") and hasattr(o, "model_dump"):
        out.append(id(o))
        for v in vars(o).values():
            out += _struct_ids(v, depth + 1)
    elif isinstance(o, dict):
        out.append(id(o))
        for v in o.values():
            out += _struct_ids(v, depth + 1)
    elif isinstance(o, (list, tuple)):
        out.append(id(o))
        for v in o:
            out += _struct_ids(v, depth + 1)
    return out


def _input_digest(o):
    """(content digest, identity digest) of an input object; None -> (None, None)"""
    if o is None:
        return None, None
    body = o.model_dump() if hasattr(o, "model_dump") else o
    try:
        c = dig(canon(body))
    except Exception as e:  # noqa: BLE001
        c = "uncanon:" + type(e).__name__
    return c, dig(repr(_struct_ids(o)))


def _result_content(r):
    d = r.model_dump()
    graphs = d.pop("graphs", None) or {}
    return [dig(canon(d)), [[str(k), dig(canon(v))] for k, v in graphs.items()]]


def worker_main(jobfile):
    job = json.loads(Path(jobfile).read_text())
    jobdir = Path(jobfile).resolve().parent
    os.chdir(jobdir)
    from OpenPinch import pinch_analysis_service
    from OpenPinch.lib.schema import TargetInput
    from OpenPinch.classes.pinch_problem import PinchProblem
    problems, names = job["problems"], job["names"]
    objs = [TargetInput.model_validate(copy.deepcopy(problems[o["problem"]])) for o in job["objects"]]
    store_ids0 = [_input_digest(o) for o in objs]
    out = dict(store0=[c for c, _ in store_ids0], dict_digests=[dig(canon(p)) for p in problems], calls=[])
    pps, heap = {}, []
    resdir = jobdir / "results"

    def store_now():
        res = []
        for o, (c0, i0) in zip(objs, store_ids0):
            c, i = _input_digest(o)
            res.append(c if i == i0 else "identity-changed:" + str(c))
        return res

    for call in job["calls"]:
        op = call["op"]
        inp = watch = None
        if op == "dict":
            inp = copy.deepcopy(problems[call["p"]])
        elif op == "model":
            inp = objs[call["obj"]]
            if call.get("as_dict"):
                # a plain dict whose rows ARE the stored object's validated rows (pydantic keeps model instances when it validates a
                # dict): the stored object is what must stay untouched
                watch = inp
                inp = dict(streams=list(watch.streams), utilities=list(watch.utilities), options=watch.options, zone_tree=watch.zone_tree)
        elif op == "load":
            if "model" in call["src"]:
                inp = objs[call["src"]["model"]]
            else:
                fp = jobdir / (names[call["src"]["file"]] + ".json")
                fp.write_text(json.dumps(problems[call["src"]["p"]]))
                inp = None
        pp = None
        if op in ("load", "target", "export"):
            pp = pps.get(call["pid"])
            if pp is None:
                pp = pps[call["pid"]] = PinchProblem()
            if op != "load":
                inp = pp.problem_data
        ib = _input_digest(watch if watch is not None else inp)
        d0, g0 = _worker_snapshot()
        err, errmsg, res = None, None, None
        try:
            if op in ("dict", "model"):
                res = pinch_analysis_service(inp, project_name=names[call["pn"]])
            elif op == "load":
                pp.load(inp if inp is not None else fp)
            elif op == "target":
                res = pp.target()
            elif op == "export":
                resdir.mkdir(exist_ok=True)
                pp.export_to_Excel(resdir)
                res = pp.results
        except Exception as e:  # noqa: BLE001
            err, errmsg = type(e).__name__, str(e)[:300]
        d1, g1 = _worker_snapshot()
        if op == "load" and inp is None:
            inp_after = None
        else:
            inp_after = watch if watch is not None else inp
        ia = _input_digest(inp_after)
        robj = -1
        if res is not None:
            for i, r in enumerate(heap):
                if r is res:
                    robj = i
                    break
            else:
                heap.append(res)
                robj = len(heap) - 1
        o = dict(err=err, errmsg=errmsg, robj=robj, heap=[_result_content(r) for r in heap], store=store_now(),
                 in_before=ib[0], in_after=(ia[0] if ia[1] == ib[1] else "identity-changed:" + str(ia[0])),
                 def_before=_snap_digest(d0), def_after=_snap_digest(d1), glob_before=_snap_digest(g0), glob_after=_snap_digest(g1),
                 result_name=getattr(res, "name", None))
        if o["def_before"] != o["def_after"]:
            o["def_diff"] = _snap_diff(d0, d1)
        if o["glob_before"] != o["glob_after"]:
            o["glob_diff"] = _snap_diff(g0, g1)
        out["calls"].append(o)
    out["n_defaults"], out["n_globals"] = len(d1), len(g1)
    sys.stdout.write("\n" + MARK + json.dumps(out) + "\n")
    sys.stdout.flush()


# =========================================================================== harness side
ZONES = ["A", "B", "A/B", "C", "Plant/U1", "Plant/U2"]
TEMPS = [20.0 + 5.0 * k for k in range(0, 49)]     # 20 .. 260 step 5
CPS = [0.25, 0.5, 0.75, 1.0, 1.5, 2.0, 3.0]
NAMES = ["Untitled", "Project", "Site1", "Run2"]   # index 0 must be PinchProblem's default project name


def gen_problem(rng):
    n = rng.randint(2, 6)
    zones = rng.sample(ZONES, rng.randint(1, 3))
    streams = []
    for i in range(n):
        a, b = rng.sample(TEMPS, 2)
        cp = rng.choice(CPS)
        streams.append(dict(zone=rng.choice(zones), name=f"S{i}", t_supply=a, t_target=b, heat_flow=cp * abs(a - b),
                            dt_cont=rng.choice([0.0, 2.5, 5.0, 10.0]), htc=rng.choice([0.5, 1.0, 2.0])))
    if rng.random() < 0.12:                        # a latent (isothermal) stream
        t = rng.choice(TEMPS)
        streams.append(dict(zone=rng.choice(zones), name="L", t_supply=t, t_target=t, heat_flow=float(rng.choice([10, 40])),
                            dt_cont=5.0, htc=1.0))
    uts = []
    for i in range(rng.choice([0, 0, 1, 2])):
        if rng.random() < 0.5:
            t = rng.choice([280.0, 300.0, 350.0])
            uts.append(dict(name=f"HU{i}", type="Hot", t_supply=t, t_target=t - rng.choice([0.0, 1.0]), heat_flow=0.0,
                            dt_cont=rng.choice([0.0, 5.0]), htc=1.0, price=10.0 + i))
        else:
            t = rng.choice([-10.0, 0.0, 10.0])
            uts.append(dict(name=f"CU{i}", type="Cold", t_supply=t, t_target=t + rng.choice([0.0, 1.0]), heat_flow=0.0,
                            dt_cont=rng.choice([0.0, 5.0]), htc=1.0, price=5.0 + i))
    p = dict(streams=streams, utilities=uts)
    k = rng.random()
    if k < 0.25:
        p["options"] = rng.choice([{"DO_BALANCED_CC": False}, {"DO_DIRECT_OPERATION_TARGETING": True}, {"UTILITY_PRICE": 50.0},
                                   {"DO_VERTICAL_GCC": True}, {"DECIMAL_PLACES": 4}, {"DECIMAL_PLACES": 1}, {"DT_CONT": 7.5}])
    elif k < 0.40:                                 # an explicit zone tree consistent with the labels' first components
        tops = sorted({s["zone"].split("/")[0] for s in streams})
        shape = rng.choice(["typed", "generic_nested", "root_labelled"])
        if shape == "typed":
            p["zone_tree"] = dict(name="Site", type="Site", children=[dict(name=t, type="Process Zone", children=[]) for t in tops])
            for s in streams:
                s["zone"] = s["zone"].split("/")[0]
        elif shape == "generic_nested":
            # generic "Zone" node types at three levels: preparation normalises the types (Site / Process Zone / Unit Operation)
            p["zone_tree"] = dict(name="Site", type="Zone", children=[
                dict(name=t, type="Zone", children=[dict(name="U" + t, type="Zone", children=[])]) for t in tops])
            for s in streams:
                t = s["zone"].split("/")[0]
                s["zone"] = f"{t}/U{t}"
        else:
            # some streams labelled with the root zone's own name: preparation appends a node per such stream to the tree
            p["zone_tree"] = dict(name="Site", type="Site", children=[dict(name=t, type="Process Zone", children=[]) for t in tops])
            for i, s in enumerate(streams):
                s["zone"] = "Site" if i % 2 == 0 else s["zone"].split("/")[0]
    return p


def gen_history(rng, pool, maxcalls=6):
    """mode 'mixed': anything; 'wrapper': mostly load/target/export on one PinchProblem with re-loads; 'reuse': mostly the
    same TargetInput object passed again and again (to the service and to the wrapper)."""
    mode = rng.choice(["mixed", "mixed", "wrapper", "reuse"])
    nprob = rng.choice([1, 2, 2, 3])
    pidx = rng.sample(range(len(pool)), nprob)
    problems = [pool[i] for i in pidx]
    names = [NAMES[0], NAMES[1]] + ([rng.choice(NAMES[2:])] if rng.random() < 0.2 else [])
    nobj = rng.choice([0, 1, 1, 2, 3]) if mode != "reuse" else rng.choice([1, 2])
    objects = [dict(problem=rng.randrange(nprob)) for _ in range(nobj)]
    calls, loaded = [], set()
    ncalls = rng.randint(2, maxcalls) if mode == "mixed" else rng.randint(3, maxcalls)
    w_service = {"mixed": 0.55, "wrapper": 0.15, "reuse": 0.7}[mode]
    while len(calls) < ncalls:
        pn = 1 if rng.random() < 0.8 else rng.randrange(1, len(names))
        if rng.random() < w_service:
            if objects and rng.random() < (0.5 if mode != "reuse" else 0.85):
                calls.append(dict(op="model", pn=pn, obj=rng.randrange(nobj) if rng.random() < 0.5 else 0))
                if rng.random() < 0.3:
                    calls[-1]["as_dict"] = True
            else:
                calls.append(dict(op="dict", pn=pn, p=rng.randrange(nprob)))
        else:
            pid = 0 if (mode == "wrapper" or rng.random() < 0.7) else 1
            r = rng.random()
            if (pid not in loaded and r < 0.92) or r < (0.4 if mode == "wrapper" else 0.25):
                if objects and rng.random() < 0.5:
                    src = dict(model=rng.randrange(nobj))
                else:
                    src = dict(file=pn, p=rng.randrange(nprob))
                calls.append(dict(op="load", pid=pid, src=src))
                loaded.add(pid)
                if rng.random() < 0.8:             # a load is mostly followed by a use of what was loaded
                    calls.append(dict(op=rng.choice(["target", "target", "export"]), pid=pid))
            elif r < 0.8:
                calls.append(dict(op="target", pid=pid))
            else:
                calls.append(dict(op="export", pid=pid))
    calls = calls[:maxcalls]
    return normalize(dict(problems=problems, names=names, objects=objects, calls=calls))


def normalize(H):
    """Drop unused problems / objects / names and re-index (keeps replays small)."""
    calls = copy.deepcopy(H["calls"])
    used_obj = sorted({c["obj"] for c in calls if c["op"] == "model"} | {c["src"]["model"] for c in calls if c["op"] == "load" and "model" in c["src"]})
    omap = {o: i for i, o in enumerate(used_obj)}
    objects = [dict(H["objects"][o]) for o in used_obj]
    used_p = sorted({c["p"] for c in calls if c["op"] == "dict"} | {c["src"]["p"] for c in calls if c["op"] == "load" and "file" in c["src"]}
                    | {o["problem"] for o in objects})
    pmap = {p: i for i, p in enumerate(used_p)}
    used_n = sorted({0} | {c["pn"] for c in calls if "pn" in c} | {c["src"]["file"] for c in calls if c["op"] == "load" and "file" in c["src"]})
    nmap = {n: i for i, n in enumerate(used_n)}
    for o in objects:
        o["problem"] = pmap[o["problem"]]
    for c in calls:
        if "pn" in c:
            c["pn"] = nmap[c["pn"]]
        if c["op"] == "dict":
            c["p"] = pmap[c["p"]]
        elif c["op"] == "model":
            c["obj"] = omap[c["obj"]]
        elif c["op"] == "load":
            if "model" in c["src"]:
                c["src"] = dict(model=omap[c["src"]["model"]])
            else:
                c["src"] = dict(file=nmap[c["src"]["file"]], p=pmap[c["src"]["p"]])
    return dict(problems=[H["problems"][p] for p in used_p], names=[H["names"][n] for n in used_n], objects=objects, calls=calls)


# --------------------------------------------------------------------------- fixed corpus (pins D5, D6, D11, D51)
def _s(zone, name, ts, tt, q, dt=5.0):
    return dict(zone=zone, name=name, t_supply=ts, t_target=tt, heat_flow=q, dt_cont=dt, htc=1.0)


PA = dict(streams=[_s("X", "H1", 200.0, 100.0, 100.0), _s("X/Y", "C1", 50.0, 150.0, 150.0), _s("X", "C2", 20.0, 80.0, 30.0)],
          utilities=[dict(name="ST", type="Hot", t_supply=250.0, t_target=249.0, heat_flow=0.0, dt_cont=5.0, htc=1.0, price=10.0),
                     dict(name="CW", type="Cold", t_supply=10.0, t_target=11.0, heat_flow=0.0, dt_cont=5.0, htc=1.0, price=1.0)])
PB = dict(streams=[_s("P", "H1", 180.0, 60.0, 240.0, 10.0), _s("Q", "C1", 30.0, 120.0, 90.0, 10.0), _s("Q", "H2", 90.0, 40.0, 50.0, 2.5)],
          utilities=[])


# five nested labels: the order in which their zones are created (and records listed) must not depend on the interpreter's hash seed
PD = dict(streams=[_s("Area/U1", "H1", 200.0, 100.0, 100.0), _s("Area/U2", "C1", 50.0, 150.0, 150.0), _s("Wing/K", "C2", 20.0, 80.0, 30.0),
                   _s("Wing/L", "H2", 160.0, 70.0, 90.0), _s("Yard/Q", "C3", 40.0, 110.0, 70.0), _s("Bay/R", "H3", 140.0, 60.0, 40.0)], utilities=[])
PC = dict(PB, options={"DECIMAL_PLACES": 4})       # an option the graph code reads: must not outlive its own call


def corpus():
    N = ["Untitled", "Project", "Other"]
    return [
        ("options of an earlier call must not outlive it [B(DECIMAL_PLACES=4); A]",
         dict(problems=[PC, PA], names=N[:2], objects=[], calls=[dict(op="dict", pn=1, p=0), dict(op="dict", pn=1, p=1)])),
        ("hash-seed independence [D; D; model D] nested labels", dict(problems=[PD], names=N[:2], objects=[dict(problem=0)],
                                                                       calls=[dict(op="dict", pn=1, p=0), dict(op="dict", pn=1, p=0), dict(op="model", pn=1, obj=0)])),
        ("D5 [A; B] dicts", dict(problems=[PA, PB], names=N[:2], objects=[], calls=[dict(op="dict", pn=1, p=0), dict(op="dict", pn=1, p=1)])),
        ("D6 [m; m] same model object", dict(problems=[PA], names=N[:2], objects=[dict(problem=0)],
                                             calls=[dict(op="model", pn=1, obj=0), dict(op="model", pn=1, obj=0)])),
        ("D58 [dict of m's rows; same again; m] rows of a validated object passed inside a plain dict",
         dict(problems=[PA], names=N[:2], objects=[dict(problem=0)],
              calls=[dict(op="model", pn=1, obj=0, as_dict=True), dict(op="model", pn=1, obj=0, as_dict=True), dict(op="model", pn=1, obj=0)])),
        ("D11 [load A; target; load B; target]", dict(problems=[PA, PB], names=N[:2], objects=[],
                                                      calls=[dict(op="load", pid=0, src=dict(file=1, p=0)), dict(op="target", pid=0),
                                                             dict(op="load", pid=0, src=dict(file=1, p=1)), dict(op="target", pid=0)])),
        ("D11 with model sources + export", dict(problems=[PA, PB], names=N[:1], objects=[dict(problem=0), dict(problem=1)],
                                                 calls=[dict(op="load", pid=0, src=dict(model=0)), dict(op="target", pid=0), dict(op="target", pid=0),
                                                        dict(op="load", pid=0, src=dict(model=1)), dict(op="export", pid=0), dict(op="target", pid=0)])),
        ("mixed channels, two names", dict(problems=[PA, PB], names=N, objects=[dict(problem=0), dict(problem=0)],
                                           calls=[dict(op="model", pn=1, obj=0), dict(op="dict", pn=1, p=1), dict(op="model", pn=2, obj=0),
                                                  dict(op="load", pid=1, src=dict(model=0)), dict(op="target", pid=1), dict(op="model", pn=1, obj=1)])),
        ("target/export before load raise", dict(problems=[PA], names=N[:2], objects=[],
                                                 calls=[dict(op="target", pid=0), dict(op="export", pid=0), dict(op="load", pid=0, src=dict(file=1, p=0)),
                                                        dict(op="export", pid=0), dict(op="dict", pn=1, p=0)])),
        ("D51 [load file Project.json (B); load model mA; target]", dict(problems=[PA, PB], names=N[:2], objects=[dict(problem=0)],
                                                                        calls=[dict(op="load", pid=0, src=dict(file=1, p=1)), dict(op="load", pid=0, src=dict(model=0)),
                                                                               dict(op="target", pid=0)])),
        ("D51 with target of the file first, then export of the model", dict(problems=[PA, PB], names=N[:2], objects=[dict(problem=0)],
                                                                             calls=[dict(op="load", pid=0, src=dict(file=1, p=1)), dict(op="target", pid=0),
                                                                                    dict(op="load", pid=0, src=dict(model=0)), dict(op="export", pid=0),
                                                                                    dict(op="target", pid=0)])),
    ]


# --------------------------------------------------------------------------- running workers
class Runner:
    def __init__(self, ctx):
        self.ctx = ctx
        self.root = ctx.workdir / "c11"
        self.root.mkdir(parents=True, exist_ok=True)
        self.n = 0
        self.twins = {}        # (channel, project name, canon(problem)) -> worker output
        self.ids = {}          # digest/text -> small positive integer
        self.outs = {}         # canon(history) -> worker output (each history runs once, in its own interpreter)
        self.nproc = 0
        self.nshrunk = 0

    def intern(self, s):
        if s is None:
            return -3
        k = self.ids.get(s)
        if k is None:
            k = self.ids[s] = len(self.ids) + 1
        return k

    def _spawn(self, H):
        self.n += 1
        d = self.root / f"j{self.n}"
        d.mkdir()
        (d / "job.json").write_text(json.dumps(H))
        return d

    @staticmethod
    def _exec(d):
        # every fresh interpreter gets its own string-hash seed (0..6): results must not depend on set / dict-of-str iteration order
        env = dict(lib.impl_env(), PYTHONHASHSEED=str(int(d.name[1:]) % 7))
        rc, out, dt = lib.sh([lib.PY, "-W", "ignore", str(Path(__file__).resolve()), "--worker", str(d / "job.json")], 600,
                             cwd=str(d), env=env)
        pos = out.rfind(MARK)
        if pos < 0:
            raise RuntimeError(f"C11 worker in {d} produced no observations (rc={rc}):\n{out[-1500:]}")
        return json.loads(out[pos + len(MARK):].split("\n", 1)[0])

    def run_many(self, histories):
        """Run each history in its own fresh interpreter, plus every twin not yet known. Returns worker outputs."""
        from concurrent.futures import ThreadPoolExecutor
        need, todo = {}, {}
        for H in histories:
            for key, job in self.twin_jobs(H):
                if key not in self.twins and key not in need:
                    need[key] = job
            hk = canon(H)
            if hk not in self.outs and hk not in todo:
                todo[hk] = H
        dirs = {hk: self._spawn(H) for hk, H in todo.items()}
        tdirs = {k: self._spawn(j) for k, j in need.items()}
        with ThreadPoolExecutor(max_workers=WORKERS) as ex:
            fo = {hk: ex.submit(self._exec, d) for hk, d in dirs.items()}
            ft = {k: ex.submit(self._exec, d) for k, d in tdirs.items()}
            for hk, f in fo.items():
                self.outs[hk] = f.result()
            for k, f in ft.items():
                self.twins[k] = f.result()
        self.nproc += len(dirs) + len(tdirs)
        return [self.outs[canon(H)] for H in histories]

    @staticmethod
    def twin_per_call(H):
        """For each call: None, or (key, one-call history) of the (channel, project name, problem) it is expected to analyse
        (mirrors `expected` / `view_step` of model/ServiceState.v; only used to decide which twins to run -- the judge
        recomputes the expectation itself)."""
        per = []
        names, problems = H["names"], H["problems"]
        view = {}                                  # pid -> (src, name index)
        for c in H["calls"]:
            want = None
            if c["op"] == "dict":
                want = ("dict", c["pn"], c["p"])
            elif c["op"] == "model":
                want = ("model", c["pn"], H["objects"][c["obj"]]["problem"])
            elif c["op"] == "load":
                # src_name: a file carries its stem, a TargetInput the default name 0 = 'Untitled' (29d391b)
                view[c["pid"]] = (c["src"], c["src"]["file"] if "file" in c["src"] else 0)
            else:
                src, n = view.get(c["pid"], (None, 0))
                if src is not None:
                    want = ("model", n, H["objects"][src["model"]]["problem"]) if "model" in src else ("dict", n, src["p"])
            if want is None:
                per.append(None)
                continue
            ch, n, p = want
            key = (ch, names[n], canon(problems[p]))
            if ch == "dict":
                job = dict(problems=[problems[p]], names=[NAMES[0], names[n]], objects=[], calls=[dict(op="dict", pn=1, p=0)])
            else:
                job = dict(problems=[problems[p]], names=[NAMES[0], names[n]], objects=[dict(problem=0)], calls=[dict(op="model", pn=1, obj=0)])
            per.append((key, job))
        return per

    @staticmethod
    def twin_jobs(H):
        return [x for x in Runner.twin_per_call(H) if x is not None]

    # ---- Coq terms
    def z(self, k):
        return f"({k})" if k < 0 else str(k)

    def zout(self, h):
        return f"({self.z(self.intern(h[0]))}, [{'; '.join('(' + self.z(self.intern('key:' + k)) + ', ' + self.z(self.intern(g)) + ')' for k, g in h[1])}])"

    def table(self, H):
        rows, seen = [], set()
        for key, _job in self.twin_jobs(H):
            if key in seen:
                continue
            seen.add(key)
            t = self.twins[key]
            o = t["calls"][0]
            x = t["dict_digests"][0] if key[0] == "dict" else t["store0"][0]
            pn = H["names"].index(key[1])
            if o["err"] is not None:
                val = f"({self.intern('exc:' + o['err'])}, (0, []))"
            else:
                val = f"(0, {self.zout(o['heap'][o['robj']])})"
            rows.append(f"(({pn}%nat, {self.z(self.intern(x))}), {val})")
        return "[" + "; ".join(rows) + "]"

    def coq_call(self, H, out, c):
        if c["op"] == "dict":
            return f"CallDict {c['pn']}%nat {self.z(self.intern(out['dict_digests'][c['p']]))}"
        if c["op"] == "model":
            return f"CallModel {c['pn']}%nat {c['obj']}%nat"
        if c["op"] == "load":
            if "model" in c["src"]:
                return f"PLoad {c['pid']}%nat (SModel {c['src']['model']}%nat)"
            return f"PLoad {c['pid']}%nat (SFile {c['src']['file']}%nat {self.z(self.intern(out['dict_digests'][c['src']['p']]))})"
        return f"{'PTarget' if c['op'] == 'target' else 'PExport'} {c['pid']}%nat"

    def coq_obs(self, o):
        err = 0 if o["err"] is None else self.intern("exc:" + o["err"])
        heap = "[" + "; ".join(self.zout(h) for h in o["heap"]) + "]"
        store = "[" + "; ".join(self.z(self.intern(s)) for s in o["store"]) + "]"
        f = [self.z(self.intern(o[k])) for k in ("in_before", "in_after", "def_before", "def_after", "glob_before", "glob_after")]
        return f"(mkObs {err} {self.z(o['robj'])} {heap} {store} {' '.join(f)})"

    def case_expr(self, H, out):
        st0 = "[" + "; ".join(self.z(self.intern(s)) for s in out["store0"]) + "]"
        calls = "[" + "; ".join(self.coq_call(H, out, c) for c in H["calls"]) + "]"
        obs = "[" + "; ".join(self.coq_obs(o) for o in out["calls"]) + "]"
        return f"judge_history {self.table(H)} {st0} {calls} {obs}"

    def judge(self, histories, suite):
        """[(verdict, worker output)] for each history; verdicts computed by coqc."""
        outs = self.run_many(histories)
        cf = lib.CaseFile(self.ctx, suite, HDR, shard=40)
        for H, out in zip(histories, outs):
            cf.add(self.case_expr(H, out))
        return list(zip(cf.run(), outs))


FLAGS = {1: "input", 2: "defaults", 3: "globals", 4: "earlier-results", 5: "result-vs-fresh", 6: "reply/identity (model)",
         7: "result heap (model)", 8: "caller store (model)", 9: "missing twin row (harness)"}


def classify(run, H, v, out):
    """kind tag + human text for a non-agreeing verdict [2|3; k; flag]."""
    code, k, flag = v[0], v[1], (v[2] if len(v) > 2 else 0)
    c = H["calls"][k] if 0 <= k < len(H["calls"]) else None
    o = out["calls"][k] if 0 <= k < len(out["calls"]) else None
    what = f"call #{k} ({json.dumps(c)}): flag {flag} = {FLAGS.get(flag, '?')}"
    detail = {}
    if flag == 9:
        raise RuntimeError("C11 harness error: no twin row for an expected (project name, problem): " + what)
    if code == 3:
        if flag == 1:
            return "input-mutated", what + ": the caller's input object differs after the call", detail
        if flag in (2, 3):
            diff = (o.get("def_diff") or []) + (o.get("glob_diff") or [])
            detail["changed"] = diff
            if any("get_output_graph_data" in d[0] for d in diff):
                return "graph-leak", what + ": get_output_graph_data keeps graph sets in a default argument: " + json.dumps(diff[:1])[:300], detail
            return "module-state-changed", what + ": module state differs after the call: " + json.dumps(diff[:2])[:400], detail
        if flag == 4:
            return "earlier-result-altered", what + ": a result object returned earlier has different content after this call", detail
        if flag == 5:
            prev = len(out["calls"][k - 1]["heap"]) if k > 0 else 0
            pc = Runner.twin_per_call(H)[k]
            twin = run.twins.get(pc[0]) if pc else None
            tw = twin["calls"][0] if twin else None
            if o["err"] is not None or (tw and tw["err"] is not None):
                detail["observed_error"], detail["fresh_error"] = [o["err"], o["errmsg"]], ([tw["err"], tw["errmsg"]] if tw else None)
                return "result-differs-from-fresh", what + f": raised {o['err']} but the fresh interpreter {'raised ' + str(tw['err']) if tw and tw['err'] else 'returned a result'}", detail
            got = o["heap"][o["robj"]] if 0 <= o["robj"] < len(o["heap"]) else None
            want = tw["heap"][tw["robj"]] if tw else None
            if got and want:
                detail["graph_keys_observed"], detail["graph_keys_fresh"] = [g[0] for g in got[1]], [g[0] for g in want[1]]
                detail["targets_equal"] = got[0] == want[0]
            if c["op"] in ("target", "export") and o["robj"] >= prev and carried_name(H, k) is not None:
                detail["result_name_observed"], detail["file_loaded_earlier"] = o.get("result_name"), carried_name(H, k)
                return ("wrapper-project-name-carryover", what + f": PinchProblem.load(TargetInput) kept the project name of a previously loaded "
                        f"file ({carried_name(H, k)!r}): the result is named {o.get('result_name')!r}, a fresh wrapper names it {NAMES[0]!r}", detail)
            if c["op"] in ("target", "export") and o["robj"] < prev:
                return "stale-cache", what + ": PinchProblem returned a result object cached before the last load; it is not the analysis of the loaded problem", detail
            if got and want and got[0] == want[0] and set(map(tuple, want[1])) < set(map(tuple, got[1])):
                return "graph-leak", what + ": result carries graph sets of other calls: " + str(detail["graph_keys_observed"]), detail
            return "result-differs-from-fresh", what + ": result differs from the same problem run alone in a fresh interpreter", detail
    if code == 2 and flag == 6 and c and c["op"] in ("target", "export", "load"):
        return "stale-cache", what + ": the wrapper returned " + ("an error" if o and o["err"] else f"object #{o['robj'] if o else '?'}") + " where the model predicts otherwise", detail
    return "model-mismatch", what + ": the state machine and the implementation disagree although the property predicate holds", detail


def carried_name(H, k):
    """For a target/export call k whose PinchProblem holds a TargetInput loaded AFTER a file with another stem: that stem."""
    pid, cur, stem = H["calls"][k].get("pid"), None, None
    for c in H["calls"][:k]:
        if c["op"] == "load" and c["pid"] == pid:
            if "file" in c["src"]:
                cur, stem = "file", H["names"][c["src"]["file"]]
            else:
                cur = "model"
    return stem if (cur == "model" and stem is not None and stem != NAMES[0]) else None


def shrink(run, H, failing):
    """Greedy call dropping; every candidate runs in a fresh interpreter and is judged by coqc."""
    H = normalize(H)
    while len(H["calls"]) > 1:
        cands = [normalize(dict(H, calls=H["calls"][:i] + H["calls"][i + 1:])) for i in range(len(H["calls"]))]
        res = run.judge(cands, "shrink")
        nxt = next((c for c, (v, _o) in zip(cands, res) if failing(v)), None)
        if nxt is None:
            break
        H = nxt
    return H


def nontrivial(H, out):
    nres = sum(1 for o in out["calls"] if o["err"] is None and o["robj"] >= 0)
    objs = [c["obj"] for c in H["calls"] if c["op"] == "model"]
    reuse = len(objs) != len(set(objs))
    probs = {json.dumps(c, sort_keys=True) for c in H["calls"] if c["op"] in ("dict",)} | {f"o{H['objects'][o]['problem']}" for o in objs}
    loads = {}
    reload_target = False
    for c in H["calls"]:
        if c["op"] == "load":
            loads[c["pid"]] = loads.get(c["pid"], 0) + 1
        elif c["op"] in ("target", "export") and loads.get(c["pid"], 0) >= 2:
            reload_target = True
    return nres >= 2 and (reuse or len(probs) >= 2 or reload_target)


def run_suite(ctx, run, name, histories, labels=None):
    res = run.judge(histories, name)
    agree = mism = bad = 0
    for i, (H, (v, out)) in enumerate(zip(histories, res)):
        ctx.evaluations += 1
        ctx.count(f"calls_{len(H['calls'])}")
        for c in H["calls"]:
            ctx.count("op_" + c["op"])
        for o in out["calls"]:
            if o["err"] is not None:
                ctx.count("raised_" + o["err"])
        if nontrivial(H, out):
            ctx.nontrivial_case((H["calls"], canon(H["problems"])))
        ctx.sample(dict(suite=name, label=(labels[i] if labels else None), calls=H["calls"], names=H["names"],
                        result_names=[o.get("result_name") for o in out["calls"]], verdict=v,
                        snapshot_size=dict(defaults=out.get("n_defaults"), globals=out.get("n_globals"))), limit=5)
        if v and v[0] == 0:
            agree += 1
            continue
        if run.nshrunk >= 3:                       # shrink and fully report only the first few failures of a run
            bad += 1
            continue
        run.nshrunk += 1
        code0 = v[0]
        H2 = shrink(run, H, lambda vv: bool(vv) and vv[0] == code0)
        (v2, out2), = run.judge([H2], "final")
        if not v2 or v2[0] == 0:                   # not reproducible alone: report the unshrunk history
            H2, v2, out2 = normalize(H), v, out
        kind, what, detail = classify(run, H2, v2, out2)
        ctx.fail(kind, what, input=H2, impl_output=dict(verdict=v2, observations=[{k: o[k] for k in o if k not in ("heap",)} for o in out2["calls"]],
                                                        detail=detail),
                 model_output="judge_history: machine predicts every flag clear and a new result object per analysis (C11_history_independent, "
                              "C11_input_unchanged, C11_module_state_unchanged, C11_earlier_results_unchanged, C11_wrapper_refines)",
                 predicate="P_flag = 0 at every call (inputs, defaults, globals, earlier results unchanged; result = fresh-interpreter twin)",
                 suite=name, shrunk_from=len(H["calls"]), label=(labels[i] if labels else None))
        if v2[0] == 3:
            bad += 1
        else:
            mism += 1
    ctx.suite(name, cases=len(histories), agree=agree, mismatch=mism, property_false=bad, fragile_skipped=0)


NAME_PROBE = [
    dict(problems=[PA], names=["Untitled"], objects=[dict(problem=0)], calls=[dict(op="load", pid=0, src=dict(model=0)), dict(op="target", pid=0)]),
    dict(problems=[PA, PB], names=["Untitled", "Project"], objects=[dict(problem=0)],
         calls=[dict(op="load", pid=0, src=dict(file=1, p=1)), dict(op="load", pid=0, src=dict(model=0)), dict(op="target", pid=0)]),
]


def name_carryover_probe(ctx, run):
    """Extra direct probe of D51 (repaired by 29d391b; C11_wrapper_refines_D51_prefix_refuted): load(TargetInput) after a file
    load must name the result like a fresh wrapper does. The judge catches a regression by itself (corpus histories
    'D51 ...'); this probe compares the two result names without going through the twins."""
    h1, h2 = NAME_PROBE
    o1, o2 = run.run_many([h1, h2])
    n1, n2 = o1["calls"][-1].get("result_name"), o2["calls"][-1].get("result_name")
    ctx.extra["wrapper_name_probe"] = dict(fresh=n1, after_file_load=n2)
    if n1 != n2:
        msg = (f"PinchProblem.load(TargetInput) keeps the project name of a previously loaded file: target() names the result {n2!r} "
               f"after load('Project.json'); load(model) but {n1!r} in a fresh wrapper")
        ctx.fail("wrapper-project-name-carryover", msg, input=h2, impl_output=dict(fresh=n1, after_file_load=n2), suite="wrapper-name",
                 predicate="result of load(model); target() equals the fresh-wrapper result (names included)")


def exhaustive_histories():
    """every history of length 2 and 3 over an 8-call alphabet (thorough tier)."""
    import itertools
    alpha = [dict(op="dict", pn=1, p=0), dict(op="dict", pn=1, p=1), dict(op="model", pn=1, obj=0), dict(op="model", pn=1, obj=1),
             dict(op="load", pid=0, src=dict(model=0)), dict(op="load", pid=0, src=dict(file=1, p=1)), dict(op="target", pid=0),
             dict(op="export", pid=0)]
    out = []
    for L in (2, 3):
        for seq in itertools.product(alpha, repeat=L):
            out.append(normalize(dict(problems=[PA, PB], names=["Untitled", "Project"], objects=[dict(problem=0), dict(problem=1)],
                                      calls=[copy.deepcopy(c) for c in seq])))
    return out


def run(ctx):
    run_ = Runner(ctx)
    cor = corpus()
    n = max(4, int(ctx.budget(30, 200) * SCALE))
    pool = [gen_problem(ctx.rng) for _ in range(10 if not ctx.thorough else 30)]
    hs = [gen_history(ctx.rng, pool, 6 if not ctx.thorough else 8) for _ in range(n)]
    ex = exhaustive_histories() if ctx.thorough else []
    if SCALE < 1:
        ex = ctx.rng.sample(ex, int(len(ex) * SCALE))
    run_.run_many([H for _, H in cor] + NAME_PROBE + hs + ex)      # one parallel batch of fresh interpreters; suites read the cache
    run_suite(ctx, run_, "corpus", [H for _, H in cor], labels=[n for n, _ in cor])
    name_carryover_probe(ctx, run_)
    run_suite(ctx, run_, "histories", hs)
    if ctx.thorough:
        run_suite(ctx, run_, "exhaustive_len_le_3", ex)
        ctx.extra["exhaustive"] = (("all" if SCALE >= 1 else f"a random {SCALE:.0%} sample (VERIF_C11_SCALE) of the") +
                                   " 8^2 + 8^3 histories over {dict A, dict B, model mA, model mB, load mA, load file B, target, export}")
    ctx.extra["fresh_interpreters"] = run_.nproc
    ctx.extra["distinct_twins"] = len(run_.twins)


def replay(ctx, data):
    run_ = Runner(ctx)
    if data.get("suite") == "wrapper-name":      # the direct project-name carry-over probe
        o1, o2 = run_.run_many(NAME_PROBE)
        print(json.dumps(dict(kind="wrapper-project-name-carryover", fresh_wrapper_result_name=o1["calls"][-1].get("result_name"),
                              after_file_load_result_name=o2["calls"][-1].get("result_name"), calls=NAME_PROBE[1]["calls"]), indent=1))
        return
    H = data["input"]
    (v, out), = run_.judge([H], "replay")
    res = dict(verdict=v, calls=H["calls"], names=H["names"])
    if v and v[0] != 0:
        kind, what, detail = classify(run_, H, v, out)
        res.update(kind=kind, what=what, detail=detail)
    res["observations"] = [{k: o[k] for k in o if k != "heap"} | {"graph_keys": [[g[0] for g in h[1]] for h in o["heap"]]} for o in out["calls"]]
    print(json.dumps(res, indent=1, default=str))


if __name__ == "__main__":
    if len(sys.argv) == 3 and sys.argv[1] == "--worker":
        worker_main(sys.argv[2])
    else:
        sys.exit("usage: c11.py --worker job.json   (the check itself is ./check C11)")
