"""C03 -- multi-utility targeting allocates exactly the target duty (DESIGN.md section 8, C03)."""
from __future__ import annotations

from harness.props import util_common as uc

MODEL_TARGETS = uc.MODEL_TARGETS
ALLOWED_AXIOMS = []
RULE = ("corpus (pins D1, D23, D28, the open D24 and glide-crossing witnesses) + stage suite: get_utility_targets on synthetic "
        "shifted tables (2-20 rows, pocket-free profiles with flats, 15 % arbitrary profiles, 0-4 utilities per side placed on "
        "rows / 0.1 K beside rows / above / below all rows, 0.1 K and wide glides, utility end points inserted as rows in 75 %) + "
        "end-to-end suite: pinch_analysis_service on 1-3 zones, 2-8 streams on a 5 K lattice (25 % with 1/8 K offsets, 10 % latent), "
        "0-4 utilities per side whose shifted levels are drawn from the process' own shifted end points (pinch and pocket "
        "candidates) +- {0, 0.1, 0.125, 5}, the extremes +- dt_cont, or a coarse lattice; 40 % gliding; 30 % mixed dt_cont; every "
        "'<zone>/Direct Integration' target, the default-utility decision and the Total Process Target are judged inside coqc. "
        "non-trivial = a target with >= 2 utilities carrying duty on one side, or >= 2 in total with a user utility present; "
        "distinct = distinct (input, target)")
ASSUMPTIONS = ["IEEE rounding of the implementation versus exact rationals is not proved: duties compared to 1e-9, sums to 1e-6 of max(1, Qh+Qc)",
               "the shifted table is observed right after get_utility_targets through a wrapper installed in the check's own "
               "interpreter (the reported table is the same rounded to 4 decimals, which the harness verifies)",
               "pocket removal (H_net_actual) is taken as given: C07",
               "hand-written model coq/model/Utility.v is validated by correspondence only"]
PROP = "C03"


def run(ctx):
    uc.run_property(ctx, PROP)


def replay(ctx, data):
    uc.replay_case(ctx, PROP, data)
