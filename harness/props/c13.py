"""C13 -- graph payloads reproduce the curves of the problem tables (DESIGN.md section 8, C13).

Suites (every verdict is computed by coqc from exact rationals, see coq/model/Curves.v):
  stage   _graph_gcc / _graph_cc on random polylines      model = implementation (segments, labels, rounded points) + P13
  e2e     pinch_analysis_service(..., full results)        every record x graph x column: model = implementation + P13,
                                                           graph sets keyed by record with the layout per record kind,
                                                           curve extents = Qh, Qc, stream duties
  corpus  D32 (balanced curves off: no NaN point), D5 (two problems in one process), fixed stage cases
"""
from __future__ import annotations

import copy
import math
import traceback

from harness.lib import CaseFile, coq_bool, coq_string, qlit
from harness.props.c17 import ERR, _cum, cpts, same_failure, shrink_points

MODEL_TARGETS = ["gen/CurvesConsts.vo", "model/RDP.vo", "model/Curves.vo"]
ALLOWED_AXIOMS = []
RULE = ("stage suite: columns of 0..40 rows with strictly descending temperatures (4-decimal and dyadic values, rounding ties x.xx5 and "
        "k/8 included), enthalpies with plateaus, vertical steps (|dH| <= GCC_VERTICAL_TOL), sign changes, flat ends, values within and "
        "outside numpy's relative band, process and utility classification, preferred location on/off; end-to-end suite: random problems of "
        "1..3 zones x 1..5 streams (sensible, isothermal, nested and coincident ranges; contributions 0/5/10; duties on the lattice k/4 so that "
        "table rows are exact), 0..2 hot and cold utilities, options DO_BALANCED_CC / DO_VERTICAL_GCC / DO_ASSITED_HT drawn independently; "
        "every record x graph type x column is one evaluation. Non-trivial = a curve with at least one removed row and at least two emitted "
        "points, or a grand composite with at least two segments; distinct = distinct (rows, flags).")
ASSUMPTIONS = ["IEEE rounding of the implementation versus exact rationals is not proved: the stored graph tables enter the model as the exact "
               "rationals of their (4-decimal) doubles; a displayed coordinate is accepted when it is a multiple of 0.01 within half a unit "
               "(+1e-9) of the table value, so that numpy's multiply-rint-divide rounding and exact half-even rounding both pass",
               "the zone's graph tables (Zone.targets[..].graphs) are the reference: their faithfulness to the streams is property C05",
               "columns are all-NaN or NaN-free (anything else is reported as unmodelled)",
               "the layout per record kind (which columns, which series are utility profiles) is read from _create_graph_set/_save_graph_data "
               "and restated in GRAPH_LAYOUT of this module"]
TRUSTED = ["translator/gen_curves.py (comparison operators of clean_*/_classify_segment/_segment_bounds, numpy rtol, round decimals)"]
HDR = ("From OP Require Import gen.Consts gen.CurvesConsts model.Base model.RDP model.Curves.\n"
       "Require Import Coq.QArith.QArith Coq.Strings.String.\nLocal Open Scope Q_scope.")

SLOC = {0: "HotS", 1: "ColdS", 2: "HotU", 3: "ColdU", 4: "Unassigned"}


def layout():
    """graph type -> (is_gcc, [(column, is_utility_profile, location (cc) / preferred location (gcc))])"""
    from OpenPinch.lib import GT, PT
    return {
        GT.CC.value: (False, [(PT.H_HOT.value, False, "HotS"), (PT.H_COLD.value, False, "ColdS")]),
        GT.SCC.value: (False, [(PT.H_HOT.value, False, "HotS"), (PT.H_COLD.value, False, "ColdS")]),
        GT.BCC.value: (False, [(PT.H_HOT_BAL.value, False, "HotS"), (PT.H_COLD_BAL.value, False, "ColdS")]),
        GT.GCC.value: (True, [(PT.H_NET.value, False, None), (PT.H_NET_NP.value, False, None), (PT.H_NET_V.value, False, None),
                              (PT.H_NET_A.value, False, None), (PT.H_NET_UT.value, True, "HotU")]),
        GT.TSP.value: (False, [(PT.H_NET_HOT.value, False, "HotS"), (PT.H_NET_COLD.value, False, "ColdS"),
                               (PT.H_HOT_UT.value, False, "HotU"), (PT.H_COLD_UT.value, False, "ColdU")]),
        GT.SUGCC.value: (True, [(PT.H_NET_UT.value, True, "HotU")]),
        GT.GCC_HP.value: (True, [(PT.H_NET_W_AIR.value, False, None), (PT.H_NET_HP_PRO.value, True, None)]),
    }


def kinds_layout():
    """record kind (TargetType value) -> graph types of its graph set, in order"""
    from OpenPinch.lib import GT, TargetType
    return {TargetType.DI.value: [GT.CC.value, GT.SCC.value, GT.BCC.value, GT.GCC.value, GT.GCC_HP.value],
            TargetType.TS.value: [GT.TSP.value, GT.SUGCC.value],
            TargetType.TZ.value: []}


# ------------------------------------------------------------------ Coq literals
def cseg(s) -> str:
    return f"({s['loc']}, {coq_bool(s['vert'])}, {cpts(s['pts'])})"


def csegs(segs) -> str:
    return "[" + "; ".join(cseg(s) for s in segs) + "]"


def ccol(rows) -> str:
    return "AllNaN" if rows is None else f"(Col {cpts(rows)})"


def curve_expr(c) -> str:
    pref = "None" if c["pref"] is None else f"(Some {c['pref']})"
    loc = c["loc"] or "Unassigned"
    if c.get("err"):
        return f"judge_curve_err {coq_bool(c['gcc'])} {coq_bool(c['util'])} {loc} {pref} {ccol(c['rows'])} {ERR.get(c['err'], 9)}%Z"
    return f"judge_curve {coq_bool(c['gcc'])} {coq_bool(c['util'])} {loc} {pref} {ccol(c['rows'])} {csegs(c['segs'])}"


def raw_segments(raw_segs):
    """raw dict segments of graph_data.py -> [{loc, vert, pts}] (None when a point is not finite)"""
    out = []
    for s in raw_segs:
        pts = [(float(p["x"]), float(p["y"])) for p in s["data_points"]]
        if any(not (math.isfinite(x) and math.isfinite(y)) for x, y in pts):
            return None
        out.append(dict(loc=SLOC.get(s["colour"], "Unassigned"), vert=bool(s.get("is_vertical", False)), pts=pts))
    return out


# ------------------------------------------------------------------ stage level
def gen_column(rng):
    """(kind, rows) with rows = [(H, T)], T strictly descending."""
    kind = rng.choice(["cc", "cc", "gcc", "gcc", "gcc", "ties", "vertical", "flatends", "largemag", "tiny", "empty"])
    n = rng.randint(0, 3) if kind == "empty" else rng.randint(2, 8) if rng.random() < 0.4 else rng.randint(9, 40)
    fourdp = rng.random() < 0.5
    tstep = (lambda: rng.choice([0.01, 0.1, 2.5, 5.0, 10.0, 12.3456, 0.0099])) if fourdp else (lambda: rng.randint(1, 160) / 8)
    ts = _cum([-tstep() for _ in range(n)], 300.0)
    if fourdp:
        ts = [round(t, 4) for t in ts]
    ok = all(a > b for a, b in zip(ts, ts[1:]))
    if not ok:
        ts = [300.0 - i for i in range(n)]
    if kind in ("cc", "flatends"):
        cps = [rng.choice([0, 0, 1, 2, 2.5, 4, 0.5]) for _ in range(n)]
        hs = list(reversed(_cum([c * (a - b) for c, a, b in zip(cps, ts, ts[1:] + [ts[-1] if ts else 0])][::-1]))) if n else []
        if kind == "flatends" and n > 4:
            hs = [hs[2]] * 2 + hs[2:-2] + [hs[-3]] * 2
    elif kind == "gcc":
        hs, h = [], rng.choice([0.0, 30.0, 12.5])
        for _ in range(n):
            h = max(0.0, h + rng.choice([0, 0, -20, -5, 5, 20, 7.5, 0.0005, -0.0005, 0.002]))
            hs.append(h)
    elif kind == "ties":
        hs = list(reversed(_cum([rng.choice([0.005, 0.015, 1.005, 0.125, 0.375, 2.675]) for _ in range(n)])))   # x.xx5 and k/8 rounding ties
    elif kind == "vertical":
        hs, h = [], 50.0
        for _ in range(n):
            h = max(0.0, h + rng.choice([0, 0.001, -0.001, 0.0009, -0.0011, 0.0011, 10, -10, 0.5]))
            hs.append(h)
    elif kind == "largemag":
        base = rng.choice([2000.0, 50000.0, 1000000.0])
        hs = list(reversed(_cum([rng.choice([0, 0.02, 0.3, 5, 1000]) for _ in range(n)], base)))
    elif kind == "tiny":
        hs = list(reversed(_cum([rng.choice([0, 0, 0, 0.0004, 0.003]) for _ in range(n)])))
    else:
        hs = [rng.choice([0.0, 5.0]) for _ in range(n)]
    if fourdp:
        hs = [round(h, 4) for h in hs]
    return kind, list(zip(hs, ts))


def run_stage(c):
    from OpenPinch.analysis.graph_data import _graph_cc, _graph_gcc
    from OpenPinch.lib import GT, StreamLoc
    xs, ys = [p[0] for p in c["rows"]], [p[1] for p in c["rows"]]
    try:
        if c["gcc"]:
            raw = _graph_gcc(list(ys), list(xs), is_utility_profile=c["util"],
                             preferred_stream_loc=None if c["pref"] is None else StreamLoc[c["pref"]])
        else:
            raw = _graph_cc(GT.CC.value, StreamLoc[c["loc"]], list(ys), list(xs))
        segs = raw_segments(raw)
        if segs is None:
            return dict(c, err="NaN", segs=[])
        return dict(c, segs=segs, err=None)
    except Exception as e:  # noqa: BLE001
        return dict(c, segs=[], err=type(e).__name__)


def judge_curves(ctx, curves, suite, shard=120):
    cf = CaseFile(ctx, suite, HDR, shard=shard)
    for c in curves:
        cf.add(curve_expr(c))
    return cf.run()


P13_KIND = {1: ("graph-point-not-a-table-row", "an emitted point is not a table row (to display rounding) taken in table order"),
            2: ("graph-segments-not-contiguous", "segments do not share end points / wrong number of segments or location for a composite curve"),
            3: ("graph-extent-lost", "emitted points do not span the non-flat extent of the column (a non-flat end row or the min/max enthalpy is missing)"),
            4: ("graph-row-not-recovered", "a single removed table row is not recovered by interpolation to 0.005*(1+|dH/dT|)"),
            5: ("graph-classification-sign", "segment label disagrees with the sign of an enthalpy change inside the segment"),
            6: ("graph-segments-not-maximal", "adjacent segments carry the same classification"),
            7: ("clean-ends-relative-tolerance", "end trimming uses numpy's relative tolerance (1e-5*|H|): a row differing by more than the display rounding is dropped from the curve end"),
            8: ("clean-curve-collinearity-drift", "rows removed together drift from the emitted chord by more than the display tolerance"),
            10: ("clean-ends-relative-tolerance", "the graph assembly raises IndexError: every enthalpy of the column lies within numpy's relative band "
                 "tol+1e-5*|H0| of the first one while the variance test passed (np.flatnonzero(mask)[0] on an empty array)"),
            9: ("clean-variance-early-return", "no point is emitted although the column spreads by more than the display rounding (variance < tol early return)")}

STAGE_CORPUS = [
    dict(gcc=True, util=False, pref=None, loc=None, rows=[(30.0, 195.0), (50.0, 185.0), (70.0, 145.0), (100.0, 125.0), (90.0, 105.01), (60.0, 105.0), (55.0, 95.0), (30.0, 85.0), (0.0, 55.0)]),
    dict(gcc=True, util=True, pref="HotU", loc=None, rows=[(80.0, 160.0), (0.0, 159.9), (0.0, 20.1), (50.0, 20.0)]),
    dict(gcc=True, util=False, pref=None, loc=None, rows=[(30.0, 195.0), (30.0, 185.0), (30.0, 85.0), (0.0, 55.0), (0.0, 20.0)]),
    dict(gcc=False, util=False, pref=None, loc="HotS", rows=[(290.0, 250.0), (290.0, 200.0), (190.0, 150.0), (40.0, 100.0), (0.0, 60.0), (0.0, 20.0)]),
    dict(gcc=False, util=False, pref=None, loc="ColdS", rows=[(1.115, 3.0), (0.125, 2.0), (0.0, 1.0)]),
    dict(gcc=False, util=False, pref=None, loc="ColdS", rows=None),                      # D32: all-NaN column -> no point
    dict(gcc=True, util=False, pref=None, loc=None, rows=None),
    dict(gcc=True, util=False, pref=None, loc=None, rows=[]),
    dict(gcc=False, util=False, pref=None, loc="HotS", rows=[(0.0, 5.0), (0.0, 4.0)]),
    dict(gcc=False, util=False, pref=None, loc="ColdS", rows=[(50000.3, 410.0), (50000.0, 400.0), (25000.0, 200.0), (0.0, 100.0)]),  # relative band (open finding)
    dict(gcc=False, util=False, pref=None, loc="ColdS", rows=[(64000.25, 310.0), (64000.0, 300.0), (64000.0, 40.0)]),   # relative band: raises IndexError
    # collinearity drift (D16) at display scale: T = 300 + H^2/8192 on 400 steps of 1/16 (second difference 9.5e-7 < tol):
    # two points emitted, the middle rows are 0.019 K off the chord, i.e. 3.9 kW at their temperature (bound 0.005*(1+205))
    dict(gcc=False, util=False, pref=None, loc="HotS", rows=[(i / 16, 300.0 + (i / 16) ** 2 / 8192) for i in range(400, -1, -1)]),
    # variance early return at display scale: 120 rows, one of them 0.0105 kW above the others (var = 9.2e-7 < tol): nothing emitted
    dict(gcc=False, util=False, pref=None, loc="HotS", rows=[(0.0105, 300.0)] + [(0.0, 300.0 - i) for i in range(1, 120)]),
]


def classify_failure(v, err):
    if v[:2] == [3, 10]:
        return P13_KIND[10]
    if err == "NaN":
        return "graph-nan-point", "a returned data point is NaN/inf (D32 regression?)"
    if err:
        return "graph-curve-raises", f"graph assembly raised {err}"
    if v[0] == 3:
        return P13_KIND.get(v[1], ("graph-property", "property predicate false"))
    return "graph-model-mismatch", f"emitted segments differ from the model at segment {v[1]}"


def shrink_curve(ctx, c, v, runner):
    if not c["rows"]:
        return c, v

    def still(cands):
        cs = [runner(dict(c, rows=r)) for r in cands]
        return [same_failure(x, v) for x in judge_curves(ctx, cs, "shrink")]
    rows = shrink_points(list(c["rows"]), still, min_len=0, time_budget=20.0) if c["rows"] else c["rows"]
    c2 = runner(dict(c, rows=rows))
    v2 = judge_curves(ctx, [c2], "final")[0]
    return c2, v2


def stage_suite(ctx):
    n = ctx.budget(320, 10000)
    curves, meta = [], []
    for c in STAGE_CORPUS:
        curves.append(run_stage_nan(c))
        meta.append("corpus")
    for _ in range(n):
        kind, rows = gen_column(ctx.rng)
        gcc = kind in ("gcc", "vertical") or (kind not in ("cc",) and ctx.rng.random() < 0.5)
        util = gcc and ctx.rng.random() < 0.35
        pref = ctx.rng.choice([None, "HotU"]) if gcc else None
        c = dict(gcc=gcc, util=util, pref=pref, loc=None if gcc else ctx.rng.choice(["HotS", "ColdS", "HotU", "ColdU"]), rows=rows)
        curves.append(run_stage(c))
        meta.append(kind)
    vs = judge_curves(ctx, curves, "stage")
    tally(ctx, "stage", curves, meta, vs, rerun_graph_stage)


def run_stage_nan(c):
    """all-NaN columns are passed as NaN lists to the stage functions"""
    if c["rows"] is None:
        r = run_stage(dict(c, rows=[(float("nan"), 100.0), (float("nan"), 50.0)]))
        r["rows"] = None
        return r
    return run_stage(c)


def tally(ctx, suite, curves, meta, vs, runner):
    agree = mism = bad = frag = 0
    seen = {}
    for c, kind, v in zip(curves, meta, vs):
        ctx.evaluations += 1
        ctx.count(f"{suite}_{kind}")
        npts = sum(len(s["pts"]) for s in c["segs"])
        nrows = 0 if c["rows"] is None else len(c["rows"])
        if (2 <= npts < nrows) or (c["gcc"] and len(c["segs"]) >= 2):
            ctx.nontrivial_case((suite, None if c["rows"] is None else tuple(c["rows"]), c["gcc"], c["util"], c["pref"], c["loc"]))
        ctx.sample(dict(suite=suite, kind=kind, rows=nrows, gcc=c["gcc"], util=c["util"], segments=len(c["segs"]), points=npts), limit=6)
        if v == [0]:
            agree += 1
            continue
        if v == [1]:
            frag += 1
            continue
        k, what = classify_failure(v, c.get("err"))
        if v[0] == 3:
            bad += 1
        else:
            mism += 1
        seen[k] = seen.get(k, 0) + 1
        if seen[k] > 1:
            continue
        c2, v2 = shrink_curve(ctx, c, v, runner) if runner is not None else (c, v)
        ctx.fail(k, what, input=dict(curve=dict(gcc=c2["gcc"], util=c2["util"], pref=c2["pref"], loc=c2["loc"], rows=c2["rows"]),
                                     where=c.get("where")),
                 impl_output=dict(segments=c2["segs"], error=c2.get("err")), suite=suite, verdict=v2,
                 shrunk_from=nrows, predicate="judge_curve (model equality to display rounding; P13_code)")
    ctx.extra[f"{suite}_kinds"] = seen
    ctx.suite(suite, cases=len(curves), agree=agree, mismatch=mism, property_false=bad, fragile_skipped=frag)


def rerun_graph_stage(c):
    """a curve taken from an end-to-end table, re-run through the stage functions while shrinking"""
    return run_stage_nan(c) if c["rows"] is None else run_stage(c)


# ------------------------------------------------------------------ end to end
def S(zone, name, ts, tt, q, dt=5.0, htc=1.0):
    return dict(zone=zone, name=name, t_supply=float(ts), t_target=float(tt), heat_flow=float(q), dt_cont=float(dt), htc=htc)


def U(name, typ, ts, dt=5.0):
    return dict(name=name, type=typ, t_supply=float(ts), t_target=float(ts), heat_flow=0.0, dt_cont=float(dt), htc=1.0, price=10.0)


def gen_problem(rng):
    nz = rng.randint(1, 3)
    streams = []
    big = rng.random() < 0.06
    for z in range(nz):
        for i in range(rng.randint(1, 5)):
            a, b = rng.sample(range(20, 300, 10), 2)
            cp = rng.choice([1, 2, 3, 4, 5, 10]) / 2
            if rng.random() < 0.12:
                b = a
            q = cp * abs(a - b) if a != b else rng.choice([10.0, 30.0])
            if big:
                q *= 256.0
            streams.append(S(f"Z{z}", f"S{z}{i}", a, b, q, rng.choice([0, 5, 10])))
    if big:   # a small stream at the hot end of a large system (relative-tolerance trimming)
        streams.append(S("Z0", "Stiny", 300, 310, rng.choice([0.25, 0.5, 1.0]), 0))
    utils = []
    for j, t in enumerate(rng.sample(range(30, 420, 10), rng.randint(0, 2))):
        utils.append(U(f"HU{j}", "Hot", t))
    for j, t in enumerate(rng.sample(range(-20, 250, 10), rng.randint(0, 2))):
        utils.append(U(f"CU{j}", "Cold", t))
    opts = {"DO_VERTICAL_GCC": rng.random() < 0.5, "DO_ASSITED_HT": rng.random() < 0.5, "DO_BALANCED_CC": rng.random() < 0.7}
    if rng.random() < 0.2:
        opts["DO_DIRECT_OPERATION_TARGETING"] = True      # unit-operation zones get records too: each needs its graph set
    return dict(streams=streams, utilities=utils, options=opts)


def walk(z):
    yield z
    for s in z.subzones.values():
        yield from walk(s)


def column_rows(tab, col):
    """rows [(H, T)] of a graph table column; None if all NaN; 'partial' if some NaN."""
    import numpy as np
    from OpenPinch.lib import PT
    T = np.asarray(tab.col[PT.T.value], dtype=float)
    H = np.asarray(tab.col[col], dtype=float)
    nan = np.isnan(H)
    if nan.all():
        return None
    if nan.any() or np.isnan(T).any():
        return "partial"
    return [(float(h), float(t)) for h, t in zip(H, T)]


def observe(problem, project="P"):
    """Run the service; returns dict(curves, sets, records, extents, structural failures)."""
    from OpenPinch import pinch_analysis_service
    from OpenPinch.analysis.graph_data import get_output_graph_data
    from OpenPinch.lib import GT, PT, TargetType
    out, mz = pinch_analysis_service(copy.deepcopy(problem), project, is_return_full_results=True)
    LAY = layout()
    targets, tzone = {}, {}
    for z in walk(mz):
        for k, t in z.targets.items():
            targets[k] = t
            tzone[k] = z
    raw = get_output_graph_data(mz)
    res = dict(curves=[], structural=[], extents=[],
               records=[(t.name, next((tt.identifier for k, tt in targets.items() if k == t.name), "?")) for t in out.targets],
               sets=[(k, gs.name, [g.type for g in gs.graphs]) for k, gs in (out.graphs or {}).items()],
               target_keys=sorted(targets.keys()))
    for key, gs in (out.graphs or {}).items():
        t = targets.get(key)
        if t is None or key not in raw:
            continue                              # reported by the graph-set judge
        for gi, g in enumerate(gs.graphs):
            where = dict(record=key, graph=g.type)
            if g.type not in LAY or g.type not in (t.graphs or {}) or gi >= len(raw[key]["graphs"]):
                res["structural"].append(("graph-layout", f"graph type {g.type!r} has no table / is not a documented type", where))
                continue
            rg = raw[key]["graphs"][gi]
            pay = [[(float(p.x), float(p.y)) for p in s.data_points] for s in g.segments]
            rawpts = [[(float(p["x"]), float(p["y"])) for p in s["data_points"]] for s in rg["segments"]]
            if any(not (math.isfinite(x) and math.isfinite(y)) for seg in pay for x, y in seg):
                res["structural"].append(("graph-nan-point", "a returned data point is NaN/inf (D32 regression?)", where))
                continue
            if rg["type"] != g.type or pay != rawpts or [s.colour for s in g.segments] != [s["colour"] for s in rg["segments"]]:
                res["structural"].append(("graph-payload-differs", "TargetOutput.graphs differs from get_output_graph_data(zone)", where))
                continue
            is_gcc, cols = LAY[g.type]
            tab = t.graphs[g.type]
            segs = raw_segments(rg["segments"])
            pos = 0
            for ci, (col, util, loc) in enumerate(cols):
                rows = column_rows(tab, col)
                w = dict(where, column=col)
                if rows == "partial":
                    res["structural"].append(("graph-column-partial-nan", "a graph table column is partially NaN (unmodelled)", w))
                    continue
                if is_gcc:
                    sid = f"{g.type}:{col}"
                    mine = [s for s, r in zip(segs, rg["segments"]) if r.get("series_id") == sid]
                    k = len(mine)
                    if [r.get("series_id") for r in rg["segments"][pos:pos + k]] != [sid] * k:
                        res["structural"].append(("graph-layout", "series are not emitted in the documented column order", w))
                    pos += k
                    c = dict(gcc=True, util=util, pref=loc, loc=None, rows=rows, segs=mine, err=None, where=w)
                else:
                    mine = segs[ci:ci + 1]
                    pos += 1
                    c = dict(gcc=False, util=False, pref=None, loc=loc, rows=rows, segs=mine, err=None, where=w)
                res["curves"].append(c)
            if pos != len(segs):
                res["structural"].append(("graph-layout", f"{len(segs) - pos} emitted segment(s) belong to no documented column", where))
        # extents against the record's own targets and its zone's stream duties
        G = {g.type: g for g in gs.graphs}
        Qh, Qc = float(t.hot_utility_target), float(t.cold_utility_target)

        def xs_of(gt, pred):
            g = G.get(gt)
            return None if g is None else [p.x for s in g.segments if pred(s) for p in s.data_points]
        checks = []
        if t.identifier == TargetType.DI.value:
            z = tzone[key]
            hs = float(sum(s.heat_flow for s in z.hot_streams))
            cs = float(sum(s.heat_flow for s in z.cold_streams))
            gx = xs_of(GT.GCC.value, lambda s: (s.title or "").startswith("GCC "))
            if gx:
                checks += [("GCC top = Qh", gx[0], Qh), ("GCC bottom = Qc", gx[-1], Qc)]
            elif gx is not None:
                checks += [("GCC empty: Qh = Qc", Qh, Qc)]
            for gt in (GT.CC.value, GT.SCC.value):
                g = G.get(gt)
                if g is None or len(g.segments) != 2:
                    continue
                hp = [p.x for p in g.segments[0].data_points]
                cp = [p.x for p in g.segments[1].data_points]
                checks += ([(f"{gt}: hot max = sum of hot duties", max(hp), hs), (f"{gt}: hot min = 0", min(hp), 0.0)] if hp
                           else [(f"{gt}: hot curve empty, duties 0", hs, 0.0)])
                checks += ([(f"{gt}: cold min = Qc", min(cp), Qc), (f"{gt}: cold max = Qc + sum of cold duties", max(cp), Qc + cs)] if cp
                           else [(f"{gt}: cold curve empty, duties 0", cs, 0.0)])
            g = G.get(GT.BCC.value)
            if g is not None and len(g.segments) == 2 and t.config.DO_BALANCED_CC:
                hp = [p.x for p in g.segments[0].data_points]
                cp = [p.x for p in g.segments[1].data_points]
                if hp:
                    checks += [("BCC: hot max = hot duties + Qh", max(hp), hs + Qh), ("BCC: hot min = 0", min(hp), 0.0)]
                if cp:
                    checks += [("BCC: cold max = cold duties + Qc", max(cp), cs + Qc), ("BCC: cold min = 0", min(cp), 0.0)]
            res["extents"].append(dict(where=dict(record=key, kind="DI"), checks=checks, kindtag="graph-extent-differs-from-target"))
        elif t.identifier == TargetType.TS.value:
            gx = xs_of(GT.SUGCC.value, lambda s: True)
            if gx:
                checks += [("SUGCC top = site Qh", gx[0], Qh), ("SUGCC bottom = site Qc", gx[-1], Qc)]
            elif gx is not None:
                checks += [("SUGCC empty: site Qh = 0", Qh, 0.0), ("SUGCC empty: site Qc = 0", Qc, 0.0)]
            res["extents"].append(dict(where=dict(record=key, kind="TS"), checks=checks, kindtag="site-utility-gcc-extent-differs-from-site-target"))
    return res


def sets_expr(records, sets):
    rec = "[" + "; ".join(f"({coq_string(n)}, {coq_string(i)})" for n, i in records) + "]"
    st = "[" + "; ".join(f"({coq_string(k)}, {coq_string(nm)}, [" + "; ".join(coq_string(t) for t in ts) + "])" for k, nm, ts in sets) + "]"
    return f"judge_sets {rec} {st}"


def ascii_ok(records, sets):
    return all(all(32 <= ord(ch) < 127 for ch in s) for r in records for s in r) and \
        all(all(32 <= ord(ch) < 127 for ch in s) for k, nm, ts in sets for s in [k, nm] + ts)


SETS_KIND = {1: ("graph-set-missing-or-foreign", "graph-set keys differ from the target-record names (a record without its graph set, or a graph set of another result: D5)"),
             2: ("graph-set-name", "a graph set is not named after its own key"),
             3: ("graph-set-types", "a graph set does not hold the graph types documented for its record kind")}


def e2e_suite(ctx):
    n = ctx.budget(45, 1500)
    problems = [gen_problem(ctx.rng) for _ in range(n)]
    problems[0:0] = E2E_CORPUS
    curves, meta, setcases, extcases = [], [], [], []
    raised = raised_rtol = 0
    for pi, prob in enumerate(problems):
        try:
            ob = observe(prob)
        except Exception as e:  # noqa: BLE001  (totality is C14's property; here it only limits what can be observed)
            raised += 1
            frames = [(f.filename.rsplit("/", 1)[-1], f.name) for f in traceback.extract_tb(e.__traceback__)]
            if isinstance(e, IndexError) and ("miscellaneous.py", "clean_composite_curve_ends") in frames[-1:]:
                ctx.count("e2e_service_raised_in_end_trimming")
                if not raised_rtol:
                    ctx.fail("clean-ends-relative-tolerance",
                             "pinch_analysis_service raises IndexError while building the graphs: every enthalpy of a curve lies within numpy's "
                             "relative band tol+1e-5*|H0| of the first one (np.flatnonzero(mask)[0] on an empty array in clean_composite_curve_ends)",
                             input=dict(problem=prob), impl_output=dict(error=f"{type(e).__name__}: {e}", frames=frames[-4:]), suite="e2e",
                             predicate="every curve of every record is emitted (no exception)")
                raised_rtol += 1
            else:
                ctx.count("e2e_service_raised_elsewhere")
                ctx.notes.append(f"service raised {type(e).__name__}: {str(e)[:80]} at {frames[-1:]}") if len(ctx.notes) < 3 else None
            continue
        o = prob["options"]
        tag = ("B" if o.get("DO_BALANCED_CC", True) else "b") + ("V" if o.get("DO_VERTICAL_GCC") else "v") + ("A" if o.get("DO_ASSITED_HT") else "a")
        ctx.count(f"e2e_options_{tag}")
        for kind, what, where in ob["structural"]:
            ctx.fail(kind, what, input=dict(problem=prob, where=where), suite="e2e", predicate="payload structure")
        for c in ob["curves"]:
            c["where"]["problem"] = pi
            curves.append(c)
            meta.append(("gcc" if c["gcc"] else "cc") + ("_nan" if c["rows"] is None else ""))
        setcases.append((prob, ob["records"], ob["sets"]))
        for e in ob["extents"]:
            if e["checks"]:
                e["where"]["problem"] = pi
                extcases.append((prob, e))
    ctx.extra["e2e_problems"] = len(problems)
    ctx.extra["e2e_service_raised"] = raised
    vs = judge_curves(ctx, curves, "e2e", shard=200)
    # failing curves are shrunk through the stage functions (same code path, without the service)
    for c in curves:
        c["where"] = dict(c["where"], problem_input=problems[c["where"]["problem"]])
    tally(ctx, "e2e", curves, meta, vs, rerun_graph_stage)
    rtol_records = {(c["where"]["problem"], c["where"]["record"]) for c, v in zip(curves, vs) if v[:2] == [3, 7]}
    # graph sets per record
    cf = CaseFile(ctx, "sets", HDR)
    idx = []
    for i, (prob, rec, sets) in enumerate(setcases):
        if ascii_ok(rec, sets):
            cf.add(sets_expr(rec, sets))
            idx.append(i)
    agree = bad = 0
    for i, v in zip(idx, cf.run()):
        ctx.evaluations += 1
        if v == [0]:
            agree += 1
            continue
        bad += 1
        k, what = SETS_KIND.get(v[1], ("graph-set", "graph-set predicate false"))
        names = [r[0] for r in setcases[i][1]]
        if v[1] == 1 and len(set(names)) < len(names):
            k, what = ("record-names-not-unique", "two zones with the same name under different parents give two records with the same name; the "
                       "graph payload is keyed by that name, so one record's graph set is overwritten")
        if bad <= 2 or k == "record-names-not-unique":
            ctx.fail(k, what, input=dict(problem=setcases[i][0]), impl_output=dict(records=setcases[i][1], graph_sets=setcases[i][2]),
                     suite="sets", verdict=v, predicate="judge_sets")
    ctx.suite("graph_sets", cases=len(idx), agree=agree, mismatch=0, property_false=bad, fragile_skipped=0)
    # extents
    cf = CaseFile(ctx, "extents", HDR)
    for prob, e in extcases:
        cf.add("judge_extents [" + "; ".join(f"({qlit(a)}, {qlit(b)})" for _, a, b in e["checks"]) + "]")
    agree = bad = 0
    seen = {}
    for (prob, e), v in zip(extcases, cf.run()):
        ctx.evaluations += 1
        ctx.count(f"extents_{e['where']['kind']}")
        if v == [0]:
            agree += 1
            continue
        bad += 1
        name, a, b = e["checks"][v[1] - 1]
        k = e["kindtag"]
        if (e["where"]["problem"], e["where"]["record"]) in rtol_records:
            k = "clean-ends-relative-tolerance"       # the curve judge already traced this record's lost extent to the relative band
        seen[k] = seen.get(k, 0) + 1
        ctx.count("extent_failed: " + name.split(":")[-1].strip())
        if seen[k] == 1:
            ctx.fail(k, f"curve extent differs from the record's target: {name}: emitted {a} expected {b}",
                     input=dict(problem=prob, where=e["where"]), impl_output=dict(checks=e["checks"]), suite="extents", verdict=v,
                     predicate="judge_extents (|emitted - expected| <= 0.005 + 1e-4)")
    ctx.extra["extent_kinds"] = seen
    ctx.suite("extents", cases=len(extcases), agree=agree, mismatch=0, property_false=bad, fragile_skipped=0)


E2E_CORPUS = [
    # D32: DO_BALANCED_CC = False must not emit NaN points
    dict(streams=[S("Z0", "H1", 200, 100, 200), S("Z0", "C1", 80, 180, 150), S("Z1", "H2", 150, 60, 90), S("Z1", "C2", 50, 120, 140), S("Z1", "C3", 100, 100, 30)],
         utilities=[U("HU", "Hot", 250), U("MP", "Hot", 160), U("CU", "Cold", 20)], options=dict(DO_BALANCED_CC=False)),
    dict(streams=[S("Z0", "H1", 200, 100, 200), S("Z0", "C1", 80, 180, 150)], utilities=[], options=dict(DO_VERTICAL_GCC=True, DO_ASSITED_HT=True)),
    # relative-tolerance trimming end to end: a 0.5 kW stream on top of a 50 MW system disappears from the cold composite
    dict(streams=[S("Z0", "Cbig", 100, 300, 50000, 0), S("Z0", "Ctiny", 300, 310, 0.5, 0), S("Z0", "H", 350, 120, 23000, 0)], utilities=[], options={}),
    # site record versus its own utility GCC (open finding, root cause in site targeting): hot utility HU1 (90 - 5) and cold utility
    # CU0 (80 + 5) sit on the same shifted level; the Total Site Target reports Qh = 247.5, Qc = 22.5 (22.5 recovered through the
    # utility system) while its H_net_ut table (SUGCC) runs from 270.0 to 45.0
    dict(streams=[S("Z0", "S01", 60, 240, 270, 10), S("Z2", "S22", 130, 40, 45, 0)], utilities=[U("HU1", "Hot", 90), U("CU0", "Cold", 80)], options={}),
    # same zone name under two parents (labels A/B and C/B): two records named 'B/Direct Integration', one graph key (open finding D59)
    dict(streams=[S("A/B", "H1", 250, 40, 2100), S("A/B", "C1", 20, 180, 1800), S("C/B", "H2", 200, 80, 1200), S("C/B", "C2", 60, 150, 1450)],
         utilities=[], options={}),
    # user trees whose root is a pure container (Community / Region above the Site): every record still has its graph set
    dict(streams=[S("P1", "H1", 250, 40, 2100), S("P1", "C1", 20, 180, 1800), S("P2", "H2", 200, 80, 1200), S("P2", "C2", 60, 150, 1450)], utilities=[], options={},
         zone_tree=dict(name="Cm", type="Community", children=[dict(name="S1", type="Site", children=[dict(name="P1", type="Process Zone"),
                                                                                                    dict(name="P2", type="Process Zone")])])),
    dict(streams=[S("P1", "H1", 250, 40, 2100), S("P1", "C1", 20, 180, 1800), S("P2", "H2", 200, 80, 1200), S("P2", "C2", 60, 150, 1450)], utilities=[], options={},
         zone_tree=dict(name="R", type="Region", children=[dict(name="Cm", type="Community", children=[
             dict(name="S1", type="Site", children=[dict(name="P1", type="Process Zone"), dict(name="P2", type="Process Zone")])])])),
    dict(streams=[S("Z0", "H1", 250, 40, 2100), S("Z0", "C1", 20, 180, 1800), S("Z0", "H2", 200, 80, 1200), S("Z0", "C2", 60, 150, 1450)], utilities=[],
         options=dict(DO_DIRECT_OPERATION_TARGETING=True)),                   # records of the unit-operation zones carry graph sets too
    # relative band, severe form: the cold composite [64000.25, 64000, ...] is entirely within 1e-5*|H0| of its first value: the SERVICE raises
    dict(streams=[S("Z0", "H", 290, 40, 64000, 5), S("Z0", "Ctiny", 300, 310, 0.25, 0)], utilities=[], options={}),
]


def history_suite(ctx):
    """D5: two DIFFERENT problems analysed in one process; the second result must hold only its own graph sets."""
    a = dict(streams=[S("A1", "H1", 200, 100, 200), S("A2", "C1", 80, 180, 150)], utilities=[], options={})
    b = dict(streams=[S("B1", "H9", 300, 150, 300), S("B1", "C9", 100, 250, 200)], utilities=[U("HP", "Hot", 320)], options={})
    cf = CaseFile(ctx, "history", HDR)
    obs = []
    for first, second, pa, pb in [(a, b, "PA", "PB"), (b, a, "PB", "PA")]:
        observe(first, pa)
        ob = observe(second, pb)
        obs.append((second, ob))
        cf.add(sets_expr(ob["records"], ob["sets"]))
    agree = bad = 0
    for (prob, ob), v in zip(obs, cf.run()):
        ctx.evaluations += 1
        if v == [0]:
            agree += 1
        else:
            bad += 1
            k, what = SETS_KIND.get(v[1], ("graph-set", "graph-set predicate false"))
            ctx.fail(k, what + " (second of two different problems in one process)", input=dict(problem=prob),
                     impl_output=dict(records=ob["records"], graph_sets=ob["sets"]), suite="history", verdict=v, predicate="judge_sets")
    ctx.suite("history_D5", cases=len(obs), agree=agree, mismatch=0, property_false=bad, fragile_skipped=0)


def run(ctx):
    stage_suite(ctx)
    e2e_suite(ctx)
    history_suite(ctx)


def replay(ctx, data):
    import json
    inp, suite = data["input"], data.get("suite")
    if suite in ("stage", "e2e") and "curve" in inp:
        c = inp["curve"]
        c["rows"] = None if c["rows"] is None else [tuple(r) for r in c["rows"]]
        c2 = rerun_graph_stage(dict(c, segs=[], err=None))
        v = judge_curves(ctx, [c2], "replay")[0]
        print(json.dumps(dict(verdict=v, impl_segments=c2["segs"], error=c2.get("err")), indent=1))
    else:
        ob = observe(inp["problem"])
        cf = CaseFile(ctx, "replay", HDR)
        cf.add(sets_expr(ob["records"], ob["sets"]))
        for e in ob["extents"]:
            if e["checks"]:
                cf.add("judge_extents [" + "; ".join(f"({qlit(a)}, {qlit(b)})" for _, a, b in e["checks"]) + "]")
        print(json.dumps(dict(verdicts=cf.run(), records=ob["records"], graph_sets=ob["sets"], structural=ob["structural"],
                              extents=[e["checks"] for e in ob["extents"]]), indent=1, default=str))
