"""C16 -- all input channels describe the same problem identically; wrapper cache; sheet naming (DESIGN.md section 8, C16)."""
from __future__ import annotations

import contextlib
import copy
import csv
import io
import json
import os
import shutil
from pathlib import Path

from harness.lib import CaseFile, F, VERIF, coq_bool, qlit, qopt

MODEL_TARGETS = ["gen/ChannelsGen.vo", "model/Channels.vo"]
ALLOWED_AXIOMS = []
RULE = ("names: lists of 1..40 base names drawn from small pools (so duplicates are the rule) over alphabets containing the "
        "characters Excel forbids, apostrophes, Python whitespace (incl. 0x85, 0xA0), any of the 256 Latin-1 code points, lengths "
        "0..40 with emphasis on 25..40, names that collide only after truncation to 31 and names equal to another name's ' (k)' "
        "alternative; the real _unique_sheet_name/_sanitize_sheet_name are called with one shared `used` set per list; non-trivial = "
        "some name needed truncation or a ' (k)' suffix; distinct = distinct list. labels: (zone, name) cells through "
        "_validate_stream_data. wrapper: op sequences load(problem, channel)/target/export over 3 problems with distinct targets. "
        "channels: every generated problem (1..6 streams, 1..3 zones incl. nested paths, 0..3 utilities, isothermal/zero-duty streams; "
        "dyadic numbers) is materialised as dict, validated TargetInput, value-with-unit dict, JSON file, CSV directory, CSV pair, "
        ".xlsx with the template sheets and run through pinch_analysis_service AND PinchProblem; non-trivial = >= 2 streams and Qr > 0 "
        "somewhere; a second stream of problems uses names that hit the normalisation rules (blanks, dots, digits, NA-like words)")
ASSUMPTIONS = [
    "pandas / openpyxl / json decode what was encoded: not provable here, each channel is treated as a separate implementation and compared",
    ".xlsb workbooks cannot be written offline (pyxlsb is read-only): the workbook channel is exercised with .xlsx only",
    "sheet-name theorems are about strings over the code points 0..255 (Coq ascii read as Latin-1); what str.strip()/str.isdigit() do on "
    "those code points is written out in model/Channels.v and compared with Python on every run; code points >= 256 are outside the statement",
    "the service is abstract in the wrapper theorems (Section variable); identity of the cached object is modelled by the ordinal of the service call",
    "names in the 7-channel comparison are printable, without leading/trailing blanks, '.', all-digit or numeric-looking or NA-like words "
    "(those are the separate normalisation stream)",
]
TRUSTED = ["Python str()/repr() of floats round-trips exactly through CSV text and through openpyxl"]

HDR = ("From OP Require Import gen.Consts gen.ChannelsGen model.Base model.Channels.\n"
       "Require Import Coq.Strings.String Coq.Strings.Ascii Coq.NArith.NArith Coq.QArith.QArith.\n"
       "Definition sc (n : N) : string := String (ascii_of_N n) EmptyString.\n")

PANDAS_NA = {"", "#N/A", "#N/A N/A", "#NA", "-1.#IND", "-1.#QNAN", "-NaN", "-nan", "1.#IND", "1.#QNAN", "<NA>", "N/A", "NA",
             "NULL", "NaN", "None", "n/a", "nan", "null"}

def run_cases(cf, **kw):
    """cf.run() with a retry when another check rebuilt a shared .vo while the shards were compiling (the shards are compiled outside the
    build lock): `inconsistent assumptions` says nothing about the property, so the libraries are rebuilt under the lock and the shards re-run."""
    import fcntl
    import time
    from harness import lib
    for attempt in range(4):
        try:
            return cf.run(**kw)
        except lib.CoqCasesError as e:
            if "inconsistent assumptions" not in str(e) and "Cannot find a physical path" not in str(e) and "bad version number" not in str(e) or attempt == 3:
                raise
            time.sleep(5 + 10 * attempt)
            with open(lib.COQ / ".lock", "w") as lock:
                fcntl.flock(lock, fcntl.LOCK_EX)
                try:
                    lib.coq_make(list(MODEL_TARGETS))
                finally:
                    fcntl.flock(lock, fcntl.LOCK_UN)



# ------------------------------------------------------------------ Coq literals
def cstr(s: str, utf8=False) -> str:
    """Coq string term. utf8=False: one ascii per code point (< 256). utf8=True: the UTF-8 bytes (exact comparisons only)."""
    codes = list(s.encode("utf-8")) if utf8 else [ord(ch) for ch in s]
    parts, buf = [], []
    for o in codes:
        if o > 255:
            raise ValueError("code point >= 256 cannot enter the naming model")
        if 32 <= o < 127:
            buf.append('""' if o == 34 else chr(o))
        else:
            if buf:
                parts.append('"' + "".join(buf) + '"')
                buf = []
            parts.append(f"sc {o}%N")
    if buf:
        parts.append('"' + "".join(buf) + '"')
    if not parts:
        return "EmptyString"
    return "(" + " ++ ".join(parts) + ")%string"


def cstrs(xs, utf8=False):
    return "[" + "; ".join(cstr(x, utf8) for x in xs) + "]"


def copt_str(x, utf8=False):
    return "None" if x is None else f"(Some {cstr(x, utf8)})"


# ------------------------------------------------------------------ 1. sheet names
FORB = ":\\/?*[]"
ALPHAS = ["AB", "Ab '", "A" + FORB + "'", "A (2)1", " \t\x85\xa0A'", "A'", "".join(chr(i) for i in range(256)), "Zone-_.9(" ")"]


def rand_name(rng):
    L = rng.choice([0, 1, 2, 3, 5, 10, 20, 24, 25, 26, 27, 28, 29, 30, 31, 32, 33, 34, 36, 40])
    a = rng.choice(ALPHAS)
    return "".join(rng.choice(a) for _ in range(L))


def gen_name_list(rng):
    pool = []
    for _ in range(rng.randint(1, 5)):
        n = rng.choice(["P" * rng.choice([23, 24, 25, 26, 27, 30, 31]), rand_name(rng), rand_name(rng), "Site - Direct Integration (Shifted)",
                        "'quoted'", "Sheet", "", "'''", "  ", "A" * 25 + " (100)", "A" * 26 + " (10)", "B" * 27 + " (2)"])
        pool.append(n)
        r = rng.random()
        if r < 0.25:
            pool.append(n[:31] + rng.choice(["x", "yy", "'", " ", "]"]))      # collides only after truncation
        elif r < 0.45:
            pool.append(n[:27] + f" ({rng.choice([2, 3, 9, 10, 11, 99, 100])})")   # equals an alternative of n
        elif r < 0.55:
            pool.append("'" + n + "'")
        elif r < 0.65:
            pool.append(n.replace("A", ":").replace("P", "?", 1))
    return [rng.choice(pool) for _ in range(rng.randint(1, 40))]


def run_names(bases):
    from OpenPinch.utils.export import _unique_sheet_name
    used, out, raised = set(), [], False
    for b in bases:
        try:
            out.append(_unique_sheet_name(b, used))
        except ValueError:
            raised = True
            break
    return out, raised


def names_expr(bases, out, raised):
    return f"judge_names {cstrs(bases)} {cstrs(out)} {coq_bool(raised)}"


def judge_name_lists(ctx, lists, suite):
    cf = CaseFile(ctx, suite, HDR, shard=150)
    obs = []
    for bases in lists:
        out, raised = run_names(bases)
        obs.append((out, raised))
        cf.add(names_expr(bases, out, raised))
    return list(zip(run_cases(cf), obs))


def shrink_list(items, still_fails):
    """Greedy one-at-a-time deletion; still_fails(list of candidate lists) -> list of bool."""
    changed = True
    while changed and len(items) > 1:
        changed = False
        cands = [items[:i] + items[i + 1:] for i in range(len(items))]
        for c, bad in zip(cands, still_fails(cands)):
            if bad:
                items, changed = c, True
                break
    return items


def names_suite(ctx):
    n = ctx.budget(1500, 30000)
    corpus = [["'Zone'" + "'" * 30 + "x"],                                    # D21: leading apostrophe, trailing one exposed by truncation
              ["A" * 30 + "'B", "A" * 30 + "'C"],                               # D21: cut at 31 leaves a trailing apostrophe, then collide
              ["'", "''", "Sheet", ""],                                           # fallbacks collide with a literal "Sheet"
              ["Untitled - Untitled_Direct Integration (Shifted)", "Untitled - Untitled_Direct Integration (Real)"],   # D37 witness names
              ["X" * 31] * 12 + ["X" * 27 + " (2)"],                             # alternative already taken by a later literal
              ["a:b", "a/b", "a?b", "a*b", "a[b", "a]b", "a\\b", "a_b"]]          # every forbidden character, all collapse to a_b
    lists = corpus + [gen_name_list(ctx.rng) for _ in range(n)]
    if ctx.thorough:   # name sets of <= 3 names over a 5-character alphabet at lengths 29..33 (all singles and pairs, 20000 sampled triples)
        import itertools
        alpha = "A':( "
        tails = ["".join(t) for L in (1, 2) for t in itertools.product(alpha, repeat=L)] + ["A" * (L - 1) + c for L in (3, 4, 5) for c in alpha]
        pool = ["A" * 28 + t for t in tails]
        lists += [[x] for x in pool] + [list(c) for c in itertools.product(pool, repeat=2)]
        lists += [[ctx.rng.choice(pool) for _ in range(3)] for _ in range(20000)]
        ctx.extra["names_exhaustive"] = (f"{len(pool)} names = 28*'A' + tail over \"A':( \" (lengths 29..33): all singles, all {len(pool) ** 2} ordered pairs, "
                                         "20000 sampled triples")
    res = judge_name_lists(ctx, lists, "names")
    agree = mism = bad = known = 0
    for bases, (v, (out, raised)) in zip(lists, res):
        ctx.evaluations += 1
        ctx.count("names_len_%d" % min(len(bases) // 10 * 10, 40))
        if any(len(b) > 31 for b in bases) or any(o.endswith(")") and o not in bases for o in out):
            ctx.nontrivial_case(("n", tuple(bases)))
        ctx.sample(dict(suite="names", bases=bases[:6], names=out[:6]), limit=3)
        if v[0] == 0:
            agree += 1
            continue
        if v[0] == 4:      # both raise: only legitimate beyond the bound (never generated here: lists have <= 40 names)
            ctx.fail("sheet-name-raises-below-bound", f"_unique_sheet_name raised after {v[1]} names", input=dict(bases=bases), impl_output=out,
                     suite="names", predicate="allocation succeeds below 998 taken alternatives")
            bad += 1
            continue
        if bad + mism >= 3:
            bad += 1
            continue

        def still(cands):
            return [vv[0] not in (0,) for vv, _ in judge_name_lists(ctx, cands, "names_shrink")]
        small = shrink_list(list(bases), still)
        (v2, (out2, raised2)), = judge_name_lists(ctx, [small], "names_final")
        if v2[0] == 3:
            ctx.fail("sheet-name-rule", "a returned sheet name breaks Excel's rule (1..31 chars, none of : \\ / ? * [ ], no apostrophe at either end) "
                     f"or is not unique (position {v2[1]})", input=dict(bases=small), impl_output=out2, suite="names",
                     predicate="names_ok_b", shrunk_from=len(bases))
            bad += 1
        else:
            ctx.fail("sheet-name-model-mismatch", f"model and _unique_sheet_name differ at name #{v2[1]}", input=dict(bases=small),
                     impl_output=dict(names=out2, raised=raised2), suite="names", predicate="first_diff", shrunk_from=len(bases))
            mism += 1
    ctx.suite("names", cases=len(lists), agree=agree, mismatch=mism, property_false=bad, fragile_skipped=0)

    # _sanitize_sheet_name on its own
    from OpenPinch.utils.export import _sanitize_sheet_name
    cf = CaseFile(ctx, "sanitize", HDR, shard=250)
    names = ["", "'", " ' a ' ", "\x85'\xa0x\xa0'\x85", "a:b?c", "\t[x]\n"] + [rand_name(ctx.rng) for _ in range(ctx.budget(400, 5000))]
    for s in names:
        cf.add(f"judge_sanitize {cstr(s)} {cstr(_sanitize_sheet_name(s))}")
    vs = run_cases(cf)
    nb = 0
    for s, v in zip(names, vs):
        ctx.evaluations += 1
        if v[0] != 0:
            nb += 1
            if nb <= 2:
                ctx.fail("sheet-name-model-mismatch", "model and _sanitize_sheet_name differ", input=dict(name=s),
                         impl_output=_sanitize_sheet_name(s), suite="sanitize", predicate="String.eqb")
    ctx.suite("sanitize", cases=len(names), agree=len(names) - nb, mismatch=nb, property_false=0, fragile_skipped=0)

    # the bound: 1000 copies of one base (and 999 copies of a base whose own alternative equals it)
    cfb = CaseFile(ctx, "bound", HDR, shard=2)
    bcases = []
    for base, copies in (("Zone", 1000), ("A" * 25 + " (100)", 999), ("Zone", 999)):
        out, raised = run_names([base] * copies)
        used_before = out[:-1] if not raised else out
        last = None if raised else out[-1]
        bcases.append((base, copies, out, raised))
        cfb.add(f"judge_step {cstr(base)} {cstrs(used_before)} {copt_str(last)}")
    nb_agree = nb_beyond = 0
    for (base, copies, out, raised), v in zip(bcases, run_cases(cfb, timeout=1200)):
        ctx.evaluations += 1
        ctx.count("bound_case")
        nb_agree += v[0] == 0
        nb_beyond += v[0] == 4
        if v[0] == 4:
            ctx.nontrivial_case(("bound", base, copies))
            ctx.fail("sheet-name-999th-collision", f"_unique_sheet_name raises ValueError at occurrence #{len(out) + 1} of the same base "
                     f"({len(out)} names handed out, all {v[1]} alternatives taken); the model raises too",
                     input=dict(base=base, copies=copies), impl_output=dict(names_allocated=len(out), raised=True), suite="bound",
                     predicate="allocation succeeds (holds only below 998 taken alternatives)")
        elif v[0] != 0:
            ctx.fail("sheet-name-model-mismatch" if v[0] == 2 else "sheet-name-rule", f"bound case {base!r} x {copies}: verdict {v}",
                     input=dict(base=base, copies=copies), impl_output=dict(last=out[-3:], raised=raised), suite="bound", predicate="judge_step")
    ctx.suite("bound", cases=len(bcases), agree=nb_agree, mismatch=len(bcases) - nb_agree - nb_beyond, property_false=nb_beyond, fragile_skipped=0,
              note="property_false = the loop is exhausted (beyond the stated bound; listed finding)")


# ------------------------------------------------------------------ 2. labels, get_value
LABEL_ALPHA = ["A", "b", "1", "7", "0", ".", " ", "\t", "-", "\xb2", "\xa0", "Z", "S", "/"]


def gen_cell(rng):
    r = rng.random()
    if r < 0.08:
        return None
    if r < 0.12:
        return float("nan")
    if r < 0.20:
        return rng.choice([0, 7, 12, 2024])
    if r < 0.26:
        return rng.choice([1.5, 2.0, 10.25])
    return "".join(rng.choice(LABEL_ALPHA) for _ in range(rng.choice([0, 1, 1, 2, 3, 4, 6])))


def cell_model(x):
    if x is None or (isinstance(x, float) and x != x):
        return None
    return str(x)


def labels_suite(ctx):
    from OpenPinch.utils.wkbook_to_json import _validate_stream_data
    n = ctx.budget(800, 10000)
    corpus = [(" 12 ", "3.0"), ("1.5", "a.b"), (None, "x"), ("  ", "x"), ("Z", None), ("A", "  "), ("\xb2", "\xb3\xb9"), (7, 12), (1.5, 2.0)]
    cases = corpus + [(gen_cell(ctx.rng), gen_cell(ctx.rng)) for _ in range(n)]
    cf = CaseFile(ctx, "labels", HDR, shard=250)
    outs = []
    for z, nm in cases:
        rec = _validate_stream_data([dict(zone=z, name=nm)])
        o = None if not rec else (rec[0]["zone"], rec[0]["name"])
        outs.append(o)
        impl = "None" if o is None else f"(Some ({cstr(o[0])}, {cstr(o[1])}))"
        cf.add(f"judge_record {copt_str(cell_model(z))} {copt_str(cell_model(nm))} {impl}")
    nb = 0
    for (z, nm), o, v in zip(cases, outs, run_cases(cf)):
        ctx.evaluations += 1
        if o is not None and (o[0] != z or o[1] != nm):
            ctx.nontrivial_case(("l", repr(z), repr(nm)))
        if v[0] != 0:
            nb += 1
            if nb <= 2:
                ctx.fail("label-model-mismatch", "model validate_record/normalize_label differs from _validate_stream_data", input=dict(zone=z, name=nm),
                         impl_output=o, suite="labels", predicate="opt_pair_eqb")
    ctx.suite("labels", cases=len(cases), agree=len(cases) - nb, mismatch=nb, property_false=0, fragile_skipped=0)

    # get_value
    from OpenPinch.lib.schema import ValueWithUnit
    from OpenPinch.utils.miscellaneous import get_value
    ERR = {"KeyError": 3, "TypeError": 7}
    vals = []
    for _ in range(ctx.budget(150, 1500)):
        x = ctx.rng.choice([0.0, 1.5, -20.25, 300.0, 1e-3])
        k = ctx.rng.randrange(8)
        vals.append([("f", x, x), ("d", x, dict(value=x, units="kW")), ("d", None, dict(value=None, units="kW")), ("dk", None, dict(units="kW")),
                     ("vu", x, ValueWithUnit(value=x, units="degC")), ("vu", None, ValueWithUnit(units="degC")), ("o", None, int(x)),
                     ("o", None, ctx.rng.choice([None, "5", [x]]))][k])
    cf = CaseFile(ctx, "get_value", HDR, shard=250)
    for kind, x, obj in vals:
        try:
            r, err = get_value(obj), 0
        except Exception as e:  # noqa: BLE001
            r, err = None, ERR.get(type(e).__name__, 9)
        pv = {"f": f"(PFloat {qlit(x)})" if kind == "f" else "", "d": f"(PDict true {qopt(x)})", "dk": "(PDict false None)", "vu": f"(PVU {qopt(x)})",
              "o": "POther"}[kind]
        cf.add(f"judge_get_value {pv} {qopt(r)} {err}%Z")
    nb = 0
    for (kind, x, obj), v in zip(vals, run_cases(cf)):
        ctx.evaluations += 1
        if v[0] != 0:
            nb += 1
            if nb <= 2:
                ctx.fail("get-value-model-mismatch", "model get_value differs from the implementation", input=dict(kind=kind, value=x),
                         impl_output=repr(obj), suite="get_value", predicate="judge_get_value")
    ctx.suite("get_value", cases=len(vals), agree=len(vals) - nb, mismatch=nb, property_false=0, fragile_skipped=0)


# ------------------------------------------------------------------ problems and channels
def S(zone, name, ts, tt, q, dt=5.0, htc=1.0):
    return dict(zone=zone, name=name, t_supply=float(ts), t_target=float(tt), heat_flow=float(q), dt_cont=float(dt), htc=float(htc))


def U(name, typ, ts, tt, dt=5.0, price=10.0, htc=1.0):
    return dict(name=name, type=typ, t_supply=float(ts), t_target=float(tt), heat_flow=0.0, dt_cont=float(dt), htc=float(htc), price=float(price))


PLAIN_ZONES = ["A", "Plant B", "Boiler house", "Area-2", "Unit_3 (new)", "Bleaching", "Évaporation", "Zone Δ", "it's, \"quoted\"", "P1/Sub a", "P1/Sub b",
               "x;y", "Dryer #4", "A&B", "100% load", "Zone: north", "q?", "[core]"]
PLAIN_STREAMS = ["H1", "C1", "Feed pre-heat", "Cooling of BB2 to AWP white wash", "Heating of KLR to filter 2&3", "steam, LP", "Product \"A\"", "h2o",
                 "Réchauffeur", "流", "s'1", "a=b", "#7", "S-12", "x (2)", "T>100"]


def gen_problem(rng, zones=None, names=None):
    zs = rng.sample(zones or PLAIN_ZONES, rng.randint(1, 3))
    pool = list(names or PLAIN_STREAMS)
    rng.shuffle(pool)
    streams = []
    for i in range(rng.randint(1, 6)):
        a, b = rng.sample(range(20, 600), 2)
        ts, tt = a / 2.0, b / 2.0
        cp = rng.choice([0.5, 1.0, 2.0, 4.0])
        q = cp * abs(ts - tt)
        r = rng.random()
        if r < 0.10:
            tt, q = ts, rng.choice([10.0, 25.0])
        elif r < 0.14:
            q = 0.0
        nm = pool[i % len(pool)] if rng.random() < 0.9 else pool[0]
        streams.append(S(rng.choice(zs), nm, ts, tt, q, rng.choice([0.0, 2.5, 5.0, 10.0]), rng.choice([0.5, 1.0, 2.0])))
        if rng.random() < 0.08:
            streams.append(dict(streams[-1]))      # two parallel, identical units: the same row twice is two streams in every channel
    utils = []
    if rng.random() < 0.6:
        for j, t in enumerate(rng.sample(range(30, 420, 10), rng.randint(0, 2))):
            utils.append(U(f"HU {j}", rng.choice(["Hot", "Hot", "Both"]), t, t if rng.random() < 0.5 else t - 1.0, rng.choice([0.0, 5.0]), 30.0 + j))
        for j, t in enumerate(rng.sample(range(-20, 250, 10), rng.randint(0, 2))):
            utils.append(U(f"CW-{j}", "Cold", t, t if rng.random() < 0.5 else t + 10.0, rng.choice([0.0, 5.0]), 5.0 + j))
    return dict(streams=streams, utilities=utils, options={})


def vu_wrap(p):
    q = copy.deepcopy(p)
    for s in q["streams"]:
        for k, u in (("t_supply", "degC"), ("t_target", "degC"), ("heat_flow", "kW"), ("dt_cont", "K"), ("htc", "kW/m^2/degC")):
            s[k] = dict(value=s[k], units=u)
    for s in q["utilities"]:
        for k, u in (("t_supply", "degC"), ("t_target", "degC"), ("dt_cont", "K"), ("htc", "kW/m^2/degC"), ("price", "$/MWh")):
            s[k] = dict(value=s[k], units=u)
    return q


def write_csv_bundle(p, d: Path):
    d.mkdir(parents=True, exist_ok=True)
    with open(d / "streams.csv", "w", newline="", encoding="utf-8") as f:
        w = csv.writer(f)
        w.writerow(["Process Zone", "Stream", "TS", "TT", "dH", "dTcont", "HTC"])
        w.writerow(["", "", "°C", "°C", "kW", "°C", "kW/m2/°C"])
        for s in p["streams"]:
            w.writerow([s["zone"], s["name"]] + [repr(s[k]) for k in ("t_supply", "t_target", "heat_flow", "dt_cont", "htc")])
    with open(d / "utilities.csv", "w", newline="", encoding="utf-8") as f:
        w = csv.writer(f)
        w.writerow(["Utility", "Type", "Ts", "Tt", "dTcont", "Price", "HTC"])
        w.writerow(["", "", "°C", "°C", "°C", "$/MWh", "kW/m2/°C"])
        for u in p["utilities"]:
            w.writerow([u["name"], u["type"]] + [repr(u[k]) for k in ("t_supply", "t_target", "dt_cont", "price", "htc")])


def write_xlsx(p, fn: Path, options=None):
    import openpyxl
    wb = openpyxl.Workbook()
    ws = wb.active
    ws.title = "Stream Data"
    ws.append(["Process Zone", "Stream", "TS", "TT", "ΔH", "ΔTcont", "HTC"])
    ws.append([None, None, "°C", "°C", "kW", "°C", "kW/m2/°C"])
    for s in p["streams"]:
        ws.append([s["zone"], s["name"], s["t_supply"], s["t_target"], s["heat_flow"], s["dt_cont"], s["htc"]])
    ws = wb.create_sheet("Utility Data")
    ws.append(["Utility", "Type", "Ts", "Tt", "ΔTcont", "Price", "HTC"])
    ws.append([None, None, "°C", "°C", "°C", "$/MWh", "kW/m2/°C"])
    for u in p["utilities"]:
        ws.append([u["name"], u["type"], u["t_supply"], u["t_target"], u["dt_cont"], u["price"], u["htc"]])
    ws = wb.create_sheet("Options")
    ws.append(["### General parameters ###", "Value (blank = default value)"])
    ws.append(["DT_CONT", None])
    for k, v in (options or {}).items():
        ws.append([k, v])
    wb.save(fn)


def val(x):
    if x is None:
        return None
    if hasattr(x, "value"):
        return x.value
    return float(x)


def records(out, project):
    """Observable part of a TargetOutput; the leading project label is replaced by '@' (the runners name the root differently)."""
    recs = []
    for t in out.targets:
        nm = t.name
        if nm.startswith(project + "/"):
            nm = "@" + nm[len(project):]
        recs.append(dict(name=nm, nums=[val(t.Qh), val(t.Qc), val(t.Qr), val(t.temp_pinch.cold_temp), val(t.temp_pinch.hot_temp),
                                        val(t.utility_cost), val(t.degree_of_integration)],
                         utils=[(u.name, val(u.heat_flow)) for u in list(t.hot_utilities) + list(t.cold_utilities)]))
    return recs


def coq_recs(recs):
    return "[" + "; ".join(
        "(mkT " + cstr(r["name"], utf8=True) + " [" + "; ".join(qopt(x) for x in r["nums"]) + "] ["
        + "; ".join(f"({cstr(n, utf8=True)}, {qlit(x)})" for n, x in r["utils"]) + "])" for r in recs) + "]"


CHANNELS = ["dict/wrapper", "model/service", "model/wrapper", "vu-dict/service", "vu-model/wrapper", "json/service", "json/wrapper",
            "csvdir/service", "csvdir/wrapper", "csvpair/wrapper", "xlsx/service", "xlsx/wrapper"]


def run_channels(p, wd: Path, stem="Case", with_csv=True, options=None):
    """Returns (reference records, {channel: records or ('EXC', type, message)}). Reference = service on the plain dict."""
    from OpenPinch import pinch_analysis_service
    from OpenPinch.classes.pinch_problem import PinchProblem
    from OpenPinch.lib.schema import TargetInput
    from OpenPinch.utils.csv_to_json import get_problem_from_csv
    from OpenPinch.utils.wkbook_to_json import get_problem_from_excel
    if wd.exists():
        shutil.rmtree(wd)
    wd.mkdir(parents=True)
    p = copy.deepcopy(p)
    if options:
        p["options"] = dict(options)
    ref = records(pinch_analysis_service(copy.deepcopy(p), project_name=stem), stem)
    res = {}

    def attempt(name, fn):
        try:
            with contextlib.redirect_stdout(io.StringIO()):
                res[name] = fn()
        except Exception as e:  # noqa: BLE001
            res[name] = ("EXC", type(e).__name__, str(e)[:300])

    def wrapper(src, project="Untitled"):
        pp = PinchProblem()
        pp.load(src)
        return records(pp.target(), project)

    def from_json(d):
        pp = PinchProblem.from_json(d)
        return records(pp.target(), "Untitled")

    attempt("dict/wrapper", lambda: from_json(copy.deepcopy(p)))
    attempt("model/service", lambda: records(pinch_analysis_service(TargetInput.model_validate(copy.deepcopy(p)), project_name=stem), stem))
    attempt("model/wrapper", lambda: wrapper(TargetInput.model_validate(copy.deepcopy(p))))
    attempt("vu-dict/service", lambda: records(pinch_analysis_service(vu_wrap(p), project_name=stem), stem))
    attempt("vu-model/wrapper", lambda: wrapper(TargetInput.model_validate(vu_wrap(p))))
    # the kind of a problem file is decided by its extension whatever its letter case: derive the spelling from the stem
    jext, xext = [(".json", ".xlsx"), (".JSON", ".Xlsx"), (".Json", ".XLSX")][sum(map(ord, stem)) % 3]
    jf = wd / f"{stem}{jext}"
    jf.write_text(json.dumps(p), encoding="utf-8")
    attempt("json/service", lambda: records(pinch_analysis_service(json.loads(jf.read_text(encoding="utf-8")), project_name=stem), stem))
    attempt("json/wrapper", lambda: wrapper(jf, stem))
    if with_csv and not options:
        cd = wd / stem
        write_csv_bundle(p, cd)
        attempt("csvdir/service", lambda: records(pinch_analysis_service(get_problem_from_csv(cd / "streams.csv", cd / "utilities.csv"), project_name=stem), stem))
        attempt("csvdir/wrapper", lambda: wrapper(cd, stem))
        attempt("csvpair/wrapper", lambda: wrapper((cd / "streams.csv", cd / "utilities.csv")))
    xf = wd / f"{stem}{xext}"
    write_xlsx(p, xf, options)
    attempt("xlsx/service", lambda: records(pinch_analysis_service(get_problem_from_excel(xf), project_name=stem), stem))
    attempt("xlsx/wrapper", lambda: wrapper(xf, stem))
    return ref, res


def numeric_looking(s):
    xs = s.strip()
    if xs == "":
        return False
    try:
        float(xs) if ("." in xs or "e" in xs.lower()) else int(xs)
        return True
    except ValueError:
        return False


def na_like(s):
    return s in PANDAS_NA or s.strip() in PANDAS_NA


def classify_channel_failure(p, channel, outcome):
    """Narrow kinds for the known channel defects; anything else is a plain channel disagreement."""
    names = [s["zone"] for s in p["streams"]] + [s["name"] for s in p["streams"]] + [u["name"] for u in p["utilities"]]
    is_exc = isinstance(outcome, tuple) and outcome and outcome[0] == "EXC"
    if channel.startswith("csv") and is_exc and outcome[1] == "ValidationError":
        if any(na_like(n) for n in names) and "string_type" in outcome[2]:
            return "csv-na-like-name-rejected"
        if any(numeric_looking(n) for n in names) and "string_type" in outcome[2]:
            return "csv-numeric-looking-name-rejected"
    if channel.startswith("xlsx") and any(na_like(n) for n in names):
        return "workbook-na-like-name-dropped"
    return "channel-raises" if is_exc else "channel-disagrees"


def judge_problem_channels(ctx, items, suite):
    """items: list of (problem, options, with_csv). Returns list of (verdict, ref, res)."""
    cf = CaseFile(ctx, suite, HDR, shard=40)
    out = []
    for k, (p, options, with_csv) in enumerate(items):
        ref, res = run_channels(p, ctx.workdir / "chan" / f"{suite}{k % 4}", with_csv=with_csv, options=options)
        chans = [c for c in CHANNELS if c in res]
        exc = [c for c in chans if isinstance(res[c], tuple)]
        out.append([None, ref, res, chans, exc])
        if not exc:
            cf.add("judge_channels " + coq_recs(ref) + " [" + "; ".join(coq_recs(res[c]) for c in chans) + "]")
    vs = iter(run_cases(cf))
    for o in out:
        if not o[4]:
            o[0] = next(vs)
    return out


def shrink_problem(p, still_fails):
    """Drop streams / utilities one at a time while the failure persists."""
    changed = True
    while changed:
        changed = False
        cands = []
        for i in range(len(p["streams"])):
            if len(p["streams"]) > 1:
                q = copy.deepcopy(p)
                del q["streams"][i]
                cands.append(q)
        for i in range(len(p["utilities"])):
            q = copy.deepcopy(p)
            del q["utilities"][i]
            cands.append(q)
        if not cands:
            break
        for c, bad in zip(cands, still_fails(cands)):
            if bad:
                p, changed = c, True
                break
    return p


def report_channel_failure(ctx, p, options, with_csv, suite, reported):
    """Shrink one failing problem and record it; `reported` counts per kind."""
    def failing(q):
        o, = judge_problem_channels(ctx, [(q, options, with_csv)], suite + "_shrink")
        return bool(o[4]) or o[0][0] != 0

    small = shrink_problem(p, lambda cands: [failing(c) for c in cands])
    v, ref, res, chans, exc = judge_problem_channels(ctx, [(small, options, with_csv)], suite + "_final")[0]
    if exc:
        ch = exc[0]
        kind = classify_channel_failure(small, ch, res[ch])
        what = f"channel {ch} raises {res[ch][1]}: {res[ch][2][:160]}"
        impl = {c: (res[c] if isinstance(res[c], tuple) else "ok") for c in chans}
    else:
        ch = chans[v[1]] if len(v) > 2 and 0 <= v[1] < len(chans) else "?"
        kind = classify_channel_failure(small, ch, res.get(ch))
        what = f"channel {ch} gives different targets than the service on the plain dictionary (record #{v[2] if len(v) > 2 else '?'})"
        impl = dict(reference=ref, channel=ch, got=res.get(ch))
    reported[kind] = reported.get(kind, 0) + 1
    ctx.fail(kind, what, input=dict(problem=small, options=options, with_csv=with_csv), impl_output=impl, suite=suite,
             predicate="judge_channels (names equal, Qh/Qc/Qr/pinches/cost/utility duties within 1e-9 relative)", shrunk_from=len(p["streams"]))


NORM = {   # flavour -> (zones, stream names)
    "blank-dot": ([" A ", "a.b", "x. y", "plain", "\tTabbed", "v1.2.3 ", "Z1"], [" s ", "s.1", "ok", "a b", "S7", "end. ", ".lead"]),
    "digits": ([" A ", "12", "007", " 12 ", "1.5", "3-0", "plain"], ["7", "2.0", "ok", "s.1", "42 ", "1_000", "1e5"]),
    "na": (["NA", "null", "plain", "None", "n/a", "A"], ["nan", "NULL", "N/A", "ok", "NaN", "H1"]),   # not "#N/A": openpyxl writes that text as an Excel error cell
}


def channels_suite(ctx):
    rng = ctx.rng
    n = ctx.budget(24, 200)
    p_d8 = dict(streams=[S("A", "H1", 200, 100, 300), S("A", "C1", 50, 150, 200, 2.5), S("B", "H2", 120, 40, 80), S("B", "C2", 30, 90, 120)],
                utilities=[U("HPS", "Hot", 250, 249), U("CW", "Cold", 10, 20)], options={})           # D8: the CSV channel must run at all
    p_twin = dict(streams=[S("Evaporation", "Condenser", 140, 139, 300), S("Evaporation", "Condenser", 140, 139, 300), S("Evaporation", "Feed", 40, 120, 160)],
                  utilities=[], options={})                                                            # identical rows are two streams
    items = [(p_d8, None, True), (p_twin, None, True)] + [(gen_problem(rng), None, True) for _ in range(n)]
    opts_pool = [dict(DO_VERTICAL_GCC=True), dict(DO_ASSITED_HT=True, DO_BALANCED_CC=False), dict(DO_DIRECT_OPERATION_TARGETING=True), dict(DT_CONT=10.0)]
    items += [(gen_problem(rng), rng.choice(opts_pool), False) for _ in range(ctx.budget(6, 60))]
    # option values that are legal and falsy (0, 0.0, False) must travel through every channel like any other value
    items += [(p_d8, dict(DT_CONT=0.0), False), (p_d8, dict(DO_BALANCED_CC=False, DO_VERTICAL_GCC=False), False),
              (dict(p_d8, utilities=[]), dict(UTILITY_PRICE=0), False), (gen_problem(rng), dict(DT_CONT=0.0, DT_PHASE_CHANGE=0.5), False)]
    res = judge_problem_channels(ctx, items, "channels")
    agree = bad = 0
    reported = {}
    for (p, options, with_csv), (v, ref, r, chans, exc) in zip(items, res):
        ctx.evaluations += 1
        ctx.count(f"channels_streams_{len(p['streams'])}")
        if len(p["streams"]) >= 2 and any((rec["nums"][2] or 0) > 0 for rec in ref):
            ctx.nontrivial_case(("ch", json.dumps(p, sort_keys=True)))
        ctx.sample(dict(suite="channels", streams=[(s["zone"], s["name"], s["t_supply"], s["t_target"], s["heat_flow"]) for s in p["streams"]][:3],
                        channels=chans, first_record=ref[0] if ref else None), limit=2)
        if not exc and v[0] == 0:
            agree += 1
            continue
        bad += 1
        if sum(reported.values()) < 3:
            report_channel_failure(ctx, p, options, with_csv, "channels", reported)
    ctx.suite("channels", cases=len(items), agree=agree, mismatch=0, property_false=bad, fragile_skipped=0,
              channels_per_case=len(CHANNELS), note="reference = pinch_analysis_service on the plain dictionary")
    normnames_suite(ctx)


def normnames_suite(ctx):
    """Names that hit the normalisation rules.  Workbook channel: the labels it loads must be model validate_record of the cells (judged in
    coqc) and its targets those of the service on the dictionary carrying the loaded labels; CSV channel: labels kept as written.
    Flavours: blank-dot (blanks, dots; nothing numeric-looking: every channel must pass), digits (all-digit / numeric-looking cells: workbook
    must pass, CSV is the listed finding), na (pandas' NA words: listed findings for both)."""
    from OpenPinch.utils.wkbook_to_json import get_problem_from_excel
    rng = ctx.rng
    m = ctx.budget(16, 100)
    flavours = ["blank-dot"] * 5 + ["digits"] * 2 + ["na"]
    nitems = [   # deterministic corpus: one witness per listed kind / repaired defect
        ("digits", dict(streams=[S("12", "7", 200, 100, 300), S("12", "C1", 50, 150, 200, 2.5)], utilities=[U("HPS", "Hot", 250, 249), U("CW", "Cold", 10, 20)],
                        options={})),                                   # open: csv-numeric-looking-name-rejected (workbook gives Z12 / S7)
        ("na", dict(streams=[S("A", "null", 200, 100, 300), S("A", "C1", 50, 150, 200, 2.5)], utilities=[U("HPS", "Hot", 250, 249), U("CW", "Cold", 10, 20)],
                    options={})),                                       # repaired 31f0685: stream named "null" was dropped by the workbook reader
        ("na", dict(streams=[S("NA", "x", 200, 100, 300), S("NA", "None", 50, 150, 200, 2.5)], utilities=[], options={})),   # zone "NA" became "Process Zone"
    ]
    for k in range(m):
        fl = flavours[k % len(flavours)]
        nitems.append((fl, gen_problem(rng, zones=NORM[fl][0], names=NORM[fl][1])))
    cfn = CaseFile(ctx, "normnames", HDR, shard=60)
    agree = bad = 0
    per_kind = {}
    for k, (fl, p) in enumerate(nitems):
        ctx.evaluations += 1
        ctx.count("normalisation_" + fl)
        wd = ctx.workdir / "norm" / str(k % 4)
        if wd.exists():
            shutil.rmtree(wd)
        wd.mkdir(parents=True)
        failures = []       # (channel, outcome)
        has_na = any(na_like(s["zone"]) or na_like(s["name"]) for s in p["streams"])
        # workbook
        xf = wd / "Case.xlsx"
        write_xlsx(p, xf)
        got = None
        try:
            with contextlib.redirect_stdout(io.StringIO()):
                loaded = get_problem_from_excel(xf)
            got = [(s["zone"], s["name"]) for s in loaded["streams"]]
        except Exception as e:  # noqa: BLE001
            failures.append(("xlsx/service", ("EXC", type(e).__name__, str(e)[:300])))
        if got is not None:
            expect_n = sum(1 for s in p["streams"] if s["name"].strip() != "")
            if len(got) != expect_n or has_na:
                ref, r = run_channels(p, wd / "run", with_csv=False)
                # NA-like words: what was written (labels normalised by the rule) is the reference; the loaded problem lost cells
                q = copy.deepcopy(p)
                for s in q["streams"]:
                    s["zone"], s["name"] = py_validate(s["zone"], s["name"])
                ref_q = service_records(q)
                for ch in ("xlsx/service", "xlsx/wrapper"):
                    if isinstance(r[ch], tuple) or r[ch] != ref_q:
                        failures.append((ch, r[ch]))
                        break
            else:
                for s, g in zip(p["streams"], got):
                    cfn.add(f"judge_record {copt_str(s['zone'])} {copt_str(s['name'])} (Some ({cstr(g[0])}, {cstr(g[1])}))")
                q = copy.deepcopy(p)
                for s, g in zip(q["streams"], got):
                    s["zone"], s["name"] = g
                ref_n = service_records(q)
                ref_w, rw = run_channels(p, wd / "runw", with_csv=False)
                for ch in ("xlsx/service", "xlsx/wrapper"):
                    if isinstance(rw[ch], tuple) or rw[ch] != ref_n:
                        failures.append((ch, rw[ch]))
                        break
        # CSV: labels as written
        ref, r2 = run_channels(p, wd / "run2", with_csv=True)
        for ch in ("csvdir/service", "csvdir/wrapper", "csvpair/wrapper"):
            if isinstance(r2[ch], tuple) or r2[ch] != ref:
                failures.append((ch, r2[ch]))
                break
        if not failures:
            agree += 1
            ctx.nontrivial_case(("norm", json.dumps(p, sort_keys=True)))
            continue
        bad += 1
        for ch, outcome in failures:
            kind = classify_channel_failure(p, ch, outcome)
            per_kind[kind] = per_kind.get(kind, 0) + 1
            if per_kind[kind] > 1:
                continue

            def still(cands, ch=ch, kind=kind):
                outb = []
                for c in cands:
                    fs = normname_failures(c, wd / "shr")
                    outb.append(any(classify_channel_failure(c, ch2, o2) == kind for ch2, o2 in fs))
                return outb
            small = shrink_problem(p, still)
            fs = [(c2, o2) for c2, o2 in normname_failures(small, wd / "fin") if classify_channel_failure(small, c2, o2) == kind]
            ch2, o2 = fs[0] if fs else (ch, outcome)
            ctx.fail(kind, f"channel {ch2}: " + (f"raises {o2[1]}: {o2[2][:140]}" if isinstance(o2, tuple) and o2 and o2[0] == "EXC"
                                                 else "targets differ from the service on the same problem"),
                     input=dict(problem=small, options=None, with_csv=True), impl_output=dict(channel=ch2, got=o2), suite="normnames",
                     predicate="workbook channel = service on model-normalised labels; CSV channel = service on the labels as written",
                     shrunk_from=len(p["streams"]))
    nb = sum(1 for v in run_cases(cfn) if v[0] != 0)
    if nb:
        ctx.fail("label-model-mismatch", f"{nb} labels loaded from a workbook differ from model validate_record", input=dict(note="see suite labels"),
                 suite="normnames", predicate="judge_record")
    ctx.suite("normnames", cases=len(nitems), agree=agree, mismatch=nb, property_false=bad, fragile_skipped=0, kinds=per_kind)


def service_records(p, stem="Case"):
    from OpenPinch import pinch_analysis_service
    return records(pinch_analysis_service(copy.deepcopy(p), project_name=stem), stem)


def py_validate(zone, name):
    """Python mirror of model validate_record for str cells (only used to build the comparison input when NA-like words are present;
    the mirror itself is checked against the model by the `labels` suite through the implementation)."""
    from OpenPinch.utils.wkbook_to_json import _validate_stream_data
    rec = _validate_stream_data([dict(zone=zone, name=name)])
    return (rec[0]["zone"], rec[0]["name"]) if rec else (zone, name)


def normname_failures(p, wd):
    """All channel failures of one normalisation-stream problem (used while shrinking)."""
    from OpenPinch import pinch_analysis_service
    fails = []
    q = copy.deepcopy(p)
    for s in q["streams"]:
        s["zone"], s["name"] = py_validate(s["zone"], s["name"])
    try:
        ref_q = records(pinch_analysis_service(copy.deepcopy(q), project_name="Case"), "Case")
    except Exception:  # noqa: BLE001
        return fails
    ref, r = run_channels(p, wd, with_csv=True)
    for ch in ("xlsx/service", "xlsx/wrapper"):
        if isinstance(r[ch], tuple) or r[ch] != ref_q:
            fails.append((ch, r[ch]))
            break
    for ch in ("csvdir/service", "csvdir/wrapper", "csvpair/wrapper"):
        if isinstance(r[ch], tuple) or r[ch] != ref:
            fails.append((ch, r[ch]))
            break
    return fails


# ------------------------------------------------------------------ wrapper op sequences
def wrapper_problems():
    a = dict(streams=[S("A", "H1", 200, 100, 300), S("A", "C1", 50, 150, 200, 2.5)], utilities=[], options={})
    b = dict(streams=[S("B", "H1", 180, 60, 240), S("B", "C1", 40, 120, 160)], utilities=[U("HPS", "Hot", 250, 249)], options={})
    c = dict(streams=[S("C", "C9", 20, 95, 75)], utilities=[], options={})
    return [a, b, c]


def signature(out):
    return tuple((round(val(t.Qh), 6), round(val(t.Qc), 6), round(val(t.Qr), 6)) for t in out.targets)


class WrapperRig:
    """Materialises the three problems once per run and counts service calls made by PinchProblem."""

    def __init__(self, ctx):
        from OpenPinch import pinch_analysis_service
        from OpenPinch.lib.schema import TargetInput
        self.dir = ctx.workdir / "wrap"
        if self.dir.exists():
            shutil.rmtree(self.dir)
        self.dir.mkdir(parents=True)
        self.probs = wrapper_problems()
        self.sigs = [signature(pinch_analysis_service(copy.deepcopy(p))) for p in self.probs]
        assert len(set(self.sigs)) == len(self.sigs)
        self.sources = []
        for i, p in enumerate(self.probs):
            jf = self.dir / f"P{i}.json"
            jf.write_text(json.dumps(p))
            cd = self.dir / f"P{i}"
            write_csv_bundle(p, cd)
            xf = self.dir / f"P{i}.xlsx"
            write_xlsx(p, xf)
            self.sources.append([lambda p=p: TargetInput.model_validate(copy.deepcopy(p)), lambda jf=jf: jf, lambda cd=cd: cd,
                                 lambda cd=cd: (cd / "streams.csv", cd / "utilities.csv"), lambda xf=xf: xf])
        self.out = self.dir / "out"
        self.out.mkdir()

    def which(self, sig):
        return self.sigs.index(sig) if sig in self.sigs else 99

    @staticmethod
    def name_id(nm):
        """Project name as the model's number: 0 = the class default 'Untitled', i + 1 = the stem 'P<i>' of a file or directory source."""
        if nm == "Untitled":
            return 0
        return int(nm[1:]) + 1 if nm[:1] == "P" and nm[1:].isdigit() else 97

    def run(self, ops):
        import OpenPinch.classes.pinch_problem as PP
        real = PP.pinch_analysis_service
        calls = []

        def counting(*a, **k):
            r = real(*a, **k)
            calls.append(r[0] if isinstance(r, tuple) else r)
            return r
        PP.pinch_analysis_service = counting
        obs = []
        try:
            pp = PP.PinchProblem()
            for op in ops:
                try:
                    with contextlib.redirect_stdout(io.StringIO()):
                        if op[0] == "load":
                            pp.load(self.sources[op[1]][op[2]]())
                            obs.append(("loaded",))
                        elif op[0] == "target":
                            r = pp.target()
                            st = next((i + 1 for i, c in enumerate(calls) if c is r), 0)
                            obs.append(("result", st, self.which(signature(r)), self.name_id(r.name)))
                        else:
                            path = pp.export_to_Excel(self.out if op[1] else None)
                            r = pp.results
                            st = next((i + 1 for i, c in enumerate(calls) if c is r), 0)
                            import openpyxl
                            wb = openpyxl.load_workbook(path, read_only=True)
                            rows = list(wb["Summary"].iter_rows(values_only=True))
                            wb.close()
                            hdr = rows[0]
                            iq = [hdr.index(k) for k in ("Qh (value)", "Qc (value)", "Qr (value)")]
                            sig = tuple(tuple(round(float(r_[i]), 6) for i in iq) for r_ in rows[1:])
                            obs.append(("result", st, self.which(sig), self.name_id(r.name) if Path(path).name.startswith(r.name + "_") else 96))
                except RuntimeError:
                    obs.append(("err", 1))
                except ValueError as e:
                    obs.append(("err", 2 if "results_dir" in str(e) else 9))
                except Exception as e:  # noqa: BLE001
                    obs.append(("err", 9, type(e).__name__ + ": " + str(e)[:200]))
        finally:
            PP.pinch_analysis_service = real
        return obs, len(calls)


SOURCE_HAS_NAME = [False, True, True, False, True]      # TargetInput, JSON path, CSV directory, CSV pair, .xlsx path


def coq_wop(op):
    if op[0] == "load":
        nm = f"(Some {op[1] + 1}%nat)" if SOURCE_HAS_NAME[op[2]] else "None"
        return f"WLoad {op[1]}%nat {nm}"
    if op[0] == "target":
        return "WTarget"
    return f"WExport {coq_bool(op[1])}"


def coq_wobs(o):
    if o[0] == "loaded":
        return "ObsLoaded"
    if o[0] == "result":
        return f"(ObsResult {o[1]}%nat ({o[2]}%nat, {o[3]}%nat))"
    return {1: "(ObsErr WNoInput)", 2: "(ObsErr WNoDir)"}.get(o[1], "(ObsResult 0%nat (98%nat, 98%nat))")    # an unexpected exception never matches


def gen_wops(rng):
    ops = []
    nexp = 0
    for _ in range(rng.randint(1, 9)):
        r = rng.random()
        if r < 0.35:
            ops.append(("load", rng.randrange(3), rng.randrange(5)))
        elif r < 0.85 or nexp >= 2:
            ops.append(("target",))
        else:
            nexp += 1
            ops.append(("export", rng.random() < 0.8))
    return ops


def judge_wrapper_cases(ctx, rig, cases, suite):
    cf = CaseFile(ctx, suite, HDR, shard=250)
    obs = []
    for ops in cases:
        o, ncalls = rig.run(ops)
        obs.append((o, ncalls))
        cf.add(f"judge_wrapper [{'; '.join(coq_wop(x) for x in ops)}] [{'; '.join(coq_wobs(x) for x in o)}] {ncalls}%nat")
    return list(zip(run_cases(cf), obs))


def wrapper_suite(ctx):
    rig = WrapperRig(ctx)
    n = ctx.budget(150, 1500)
    corpus = [[("load", 0, 1), ("target",), ("load", 1, 1), ("target",)],                  # D11
              [("load", 0, 1), ("target",), ("load", 1, 0), ("target",)],                  # 29d391b: a model loaded after a file must run as 'Untitled'
              [("load", 2, 4), ("load", 1, 3), ("export", True)],                          # ... same for a CSV pair, observed through the export
              [("load", 0, 0), ("target",), ("target",), ("load", 0, 0), ("target",)],       # cached object, then reset by a reload of the same problem
              [("target",)], [("export", True)], [("load", 2, 4), ("export", False), ("export", True), ("target",)],
              [("load", 0, 2), ("target",), ("load", 1, 3), ("export", True), ("load", 2, 4), ("target",)]]
    cases = corpus + [gen_wops(ctx.rng) for _ in range(n)]
    res = judge_wrapper_cases(ctx, rig, cases, "wrapper")
    agree = mism = bad = 0
    for ops, (v, (o, ncalls)) in zip(cases, res):
        ctx.evaluations += 1
        ctx.count(f"wrapper_ops_{len(ops)}")
        loads = [x for x in ops if x[0] == "load"]
        if len(loads) >= 2 and any(x[0] != "load" for x in ops[ops.index(loads[1]):]):
            ctx.nontrivial_case(("w", tuple(ops)))
        ctx.sample(dict(suite="wrapper", ops=ops, observations=o, service_calls=ncalls), limit=2)
        if v[0] == 0:
            agree += 1
            continue
        if bad + mism >= 3:
            bad += 1
            continue

        def still(cands):
            return [vv[0] != 0 for vv, _ in judge_wrapper_cases(ctx, rig, cands, "wrapper_shrink")]
        small = shrink_list(list(ops), still)
        (v2, (o2, n2)), = judge_wrapper_cases(ctx, rig, [small], "wrapper_final")
        data = dict(input=dict(ops=small), impl_output=dict(observations=o2, service_calls=n2), suite="wrapper", shrunk_from=len(ops))
        if v2[0] == 3:
            ctx.fail("wrapper-stale-or-wrong-result", f"PinchProblem returned/exported something other than the service result of the last loaded problem (op #{v2[1]})",
                     predicate="spec_ok: target()/export after load p shows service(p); errors only without input / directory", **data)
            bad += 1
        else:
            ctx.fail("wrapper-model-mismatch", f"model state machine and PinchProblem differ at op #{v2[1]} (-2 = number of service calls)",
                     predicate="nobs_eqb + call count", **data)
            mism += 1
    ctx.suite("wrapper", cases=len(cases), agree=agree, mismatch=mism, property_false=bad, fragile_skipped=0)


# ------------------------------------------------------------------ real export, read back
EXPORT_ZONES = ["Zone with a very long descriptive name 01", "Zone with a very long descriptive name 02", "a:b", "a?b", "'quoted'", "it's [x]*", "Q\\R",
                "Long name ending in apostrophe '''''", "Bleaching", "Plant B"]


def sheet_labels(master_zone):
    from OpenPinch.streamlit_webviewer.web_graphing import problem_table_to_dataframe
    from OpenPinch.utils.export import _iter_zones
    labels = []
    for zone in _iter_zones(master_zone):
        for target_name, target in zone.targets.items():
            for lab, tab in ((f"{zone.name} - {target_name} (Shifted)", getattr(target, "pt", None)),
                             (f"{zone.name} - {target_name} (Real)", getattr(target, "pt_real", None))):
                if not problem_table_to_dataframe(tab, round_decimals=2).empty:
                    labels.append(lab)
    return labels


def export_suite(ctx):
    import openpyxl
    from OpenPinch.classes.pinch_problem import PinchProblem
    n = ctx.budget(6, 60)
    base = dict(streams=[S("A", "H1", 200, 100, 300), S("A", "C1", 50, 150, 200, 2.5)], utilities=[], options={})   # D37: any export must work
    items = [base] + [gen_problem(ctx.rng, zones=EXPORT_ZONES) for _ in range(n)]
    cf = CaseFile(ctx, "export", HDR, shard=20)
    meta = []
    out = ctx.workdir / "export"
    out.mkdir(parents=True, exist_ok=True)
    for k, p in enumerate(items):
        ctx.evaluations += 1
        ctx.count("export_case")
        try:
            with contextlib.redirect_stdout(io.StringIO()):
                pp = PinchProblem.from_json(copy.deepcopy(p))
                (out / str(k)).mkdir(exist_ok=True)
                path = pp.export_to_Excel(out / str(k))
            wb = openpyxl.load_workbook(path, read_only=True)
            sheets = list(wb.sheetnames)
            wb.close()
            labels = sheet_labels(pp.master_zone)
        except Exception as e:  # noqa: BLE001
            ctx.fail("export-raises", f"export_to_Excel raised {type(e).__name__}: {str(e)[:200]}", input=dict(problem=p), suite="export",
                     predicate="export succeeds")
            meta.append(None)
            continue
        if any(ord(ch) > 255 for s in sheets + labels for ch in s):
            meta.append(None)
            continue
        meta.append((p, labels, sheets))
        cf.add(f"judge_sheets {cstrs(labels)} {cstrs([s for s in sheets if s != 'Summary'])}")
    vs = iter(run_cases(cf))
    agree = bad = mism = 0
    for mt in meta:
        if mt is None:
            continue
        v = next(vs)
        p, labels, sheets = mt
        if any(len(x) > 31 for x in labels):
            ctx.nontrivial_case(("e", tuple(labels)))
        if v[0] == 0 and "Summary" in sheets:
            agree += 1
        elif v[0] == 3 or "Summary" not in sheets:
            bad += 1
            ctx.fail("sheet-name-rule", f"exported workbook has a sheet name breaking Excel's rule or a duplicate (position {v[1] if len(v) > 1 else '?'})",
                     input=dict(problem=p, labels=labels), impl_output=sheets, suite="export", predicate="names_ok_b on the names read back with openpyxl")
        else:
            mism += 1
            ctx.fail("sheet-name-model-mismatch", f"sheet names read back differ from the model allocation over the labels (position {v[1]})",
                     input=dict(problem=p, labels=labels), impl_output=sheets, suite="export", predicate="alloc labels = sheets")
    ctx.suite("export", cases=len(items), agree=agree, mismatch=mism, property_false=bad, fragile_skipped=0)


# ------------------------------------------------------------------ entry points
def run(ctx):
    names_suite(ctx)
    labels_suite(ctx)
    wrapper_suite(ctx)
    channels_suite(ctx)
    export_suite(ctx)


def replay(ctx, data):
    inp, suite = data["input"], data.get("suite")
    if suite in ("names",):
        (v, (out, raised)), = judge_name_lists(ctx, [inp["bases"]], "replay")
        print(json.dumps(dict(verdict=v, names=out, raised=raised), indent=1))
    elif suite == "bound":
        out, raised = run_names([inp["base"]] * inp["copies"])
        print(json.dumps(dict(names_allocated=len(out), raised=raised, last=out[-2:]), indent=1))
    elif suite == "wrapper":
        rig = WrapperRig(ctx)
        (v, (o, n)), = judge_wrapper_cases(ctx, rig, [[tuple(x) for x in inp["ops"]]], "replay")
        print(json.dumps(dict(verdict=v, observations=o, service_calls=n), indent=1, default=str))
    elif suite in ("channels", "normnames"):
        ref, res = run_channels(inp["problem"], ctx.workdir / "replay", with_csv=inp.get("with_csv", True), options=inp.get("options"))
        diff = {c: r for c, r in res.items() if isinstance(r, tuple) or r != ref}
        print(json.dumps(dict(reference=ref, differing_channels=diff), indent=1, default=str))
    else:
        print(json.dumps(data, indent=1, default=str))
