"""C02 -- every reported target closes the first-law energy balance (DESIGN.md 8/C02)."""
from __future__ import annotations

from harness.lib import CaseFile, qlist, qlit
from harness.props import pinch_common as pc
from harness.props import c01

MODEL_TARGETS = ["model/Cascade.vo", "model/CascadeE2E.vo", "model/Site.vo"]
ALLOWED_AXIOMS = []
HDR = ("From OP Require Import gen.Consts model.Base model.Stream model.Cascade model.CascadeE2E model.Site.\n"
       "Require Import Coq.QArith.QArith.\nLocal Open Scope Q_scope.")
RULE = ("end-to-end: 1-4 zones (flat/nested labels) x utility regimes {none (defaults only), isothermal, several levels, gliding}; "
        "EVERY record of TargetOutput (direct integration of every zone and of the site, total-process, total-site) is judged in "
        "coqc against the duties of the INPUT streams it covers: Qh-Qc = cold duty - hot duty, Qr = hot duty - Qc, all >= 0, listed "
        "utility duties >= 0 and sum(hot) - sum(cold) = Qh - Qc; non-trivial = record of a zone with both kinds of streams or a "
        "site with >= 2 zones; distinct = distinct (record kind, stream multiset, utility ladder)")
ASSUMPTIONS = c01.ASSUMPTIONS


def utility_lists(t):
    return [float(u.heat_flow) for u in t.hot_utilities], [float(u.heat_flow) for u in t.cold_utilities]


def has_gliding_user_cold_utility(prob):
    """A user utility usable as cold utility.  Every such utility has a glide when targeting runs: an isothermal one is given the
    artificial DT_PHASE_CHANGE (0.1 K) glide, which is "long" for a stream narrower than 0.1 K."""
    return any(u["type"] in ("Cold", "Both") and u.get("active", True) for u in prob["utilities"])     # a switched-off row is in no ladder


def is_d24(prob, k, kind, clause, t, hu, cu, short_zones):
    """Trigger of finding D24: a user cold utility with a glide exists, and either this DI record lists less cold duty than its
    Qc (hot side closed), or this is a site-level record of a problem in which some zone does (the site cascade and the
    total-process sums inherit the missing cold duty)."""
    if not has_gliding_user_cold_utility(prob):
        return False
    if kind == "DI":
        # signature of D24: the hot side closes, the cold side is short, and NO default cold utility was added
        no_default_cu = all(u.name != "CU" or float(u.heat_flow) == 0.0 for u in t.cold_utilities) and \
            {u.name for u in t.cold_utilities} <= {x["name"] for x in prob["utilities"]} | {"CU"} and \
            "CU" not in {u.name for u in t.cold_utilities if float(u.heat_flow) > 0}
        return clause == 25 and no_default_cu and sum(cu) < t.Qc - 1e-6 and abs(sum(hu) - t.Qh) <= 1e-6 * max(1.0, t.Qh)
    return clause in (21, 22, 25) and id(prob) in short_zones


def collect(prob):
    """(record name, covered input streams, TargetResults, kind) for every record of the output."""
    out, mz = pc.run_service(prob)
    recs = {t.name: t for t in out.targets}
    res = []
    seen = set()
    for path, z in pc.walk_zones(mz):
        xs = c01.zone_inputs(prob, z)
        for k in z.targets:
            if k in recs and k not in seen:
                seen.add(k)
                kind = "DI" if k.endswith("Direct Integration") else "TZ" if k.endswith("Total Process Target") else "TS" if k.endswith("Total Site Target") else "other"
                res.append((k, xs, recs[k], kind))
    return out, mz, res, [k for k in recs if k not in seen]


def site_grid_slack(prob, t):
    """The total-site record integrates the utility pseudo-streams (isothermal ones carry the artificial 0.1 K glide) over a grid rounded
    to 6 decimals: each end of each utility may sit up to 5e-7 K off its row, so the integrated duty is only defined up to
    2e-6 K x (heat-capacity flow rate of the utilities) -- a resolution limit of the code (tol = 1e-6 K), not a property failure."""
    hu, cu = utility_lists(t)
    spans = [max(abs(u["t_supply"] - u["t_target"]), 0.1) for u in prob["utilities"]] + [0.1]
    return 2e-6 * (sum(abs(x) for x in hu) + sum(abs(x) for x in cu)) / min(spans)


def gen_cases(ctx, n):
    probs = [(dict(streams=[dict(zone="A", name="h", t_supply=200.0, t_target=100.0, heat_flow=100.0, dt_cont=10.0, htc=1.0)], utilities=[]),
              dict(zones=1, shapes=["only_hot"], regime="none")),                                            # D1 witness
             (dict(streams=[dict(zone="A", name="c", t_supply=50.0, t_target=50.0, heat_flow=10.0, dt_cont=0.0, htc=1.0)], utilities=[]),
              dict(zones=1, shapes=["latent"], regime="none")),                                              # D23 witness
             (dict(streams=[dict(zone="A", name="h", t_supply=120.0, t_target=30.0, heat_flow=180.0, dt_cont=5.0, htc=1.0),
                            dict(zone="A", name="c", t_supply=60.0, t_target=100.0, heat_flow=40.0, dt_cont=5.0, htc=1.0)],
                   utilities=[dict(name="CW", type="Cold", t_supply=30.0, t_target=30.0, heat_flow=0.0, dt_cont=5.0, htc=1.0, price=1.0)]),
              dict(zones=1, shapes=["D28"], regime="iso"))]                                                  # D28 witness
    # D24 witness (open finding): a 0.00075 K wide hot stream served by an isothermal cold utility whose artificial 0.1 K glide is "long"
    probs.append((dict(streams=[dict(zone="P0", name="S0_0", t_supply=175.0, t_target=174.99925, heat_flow=5.0, dt_cont=10.0, htc=1.0)],
                       utilities=[dict(name="TopU", type="Hot", t_supply=155.0, t_target=155.0, heat_flow=0.0, dt_cont=10.0, htc=1.0, price=30.0),
                                  dict(name="BotU", type="Cold", t_supply=159.99925, t_target=159.99925, heat_flow=0.0, dt_cont=5.0, htc=1.0, price=2.0)]),
                  dict(zones=1, shapes=["D24"], regime="witness")))
    for i in range(n):
        if i % 6 == 0:
            probs.append(pc.gen_header_problem(ctx.rng))      # generation/use at nearly the same utility level
            continue
        regime = ctx.rng.choice(["none", "iso", "multi", "steered", "steered", "glide", "limit"])
        prob, m = pc.gen_problem(ctx.rng, regime=regime, nmax=6)
        if ctx.rng.random() < 0.15:
            # a site stated in MW with five decimals: duties of order 0.01 .. 1, so that an absolute slip of 1e-4 is far above the tolerance
            k = ctx.rng.choice([1e-2, 1e-3])
            for st in prob["streams"]:
                st["heat_flow"] = round(st["heat_flow"] * k + ctx.rng.randrange(1, 10) * 1e-5, 5)
            m = dict(m, shapes=m["shapes"] + ["small_duties"])
        elif ctx.rng.random() < 0.1:
            # a needle at the temperature extreme: 0.4 kW to heat above (or to cool below) one large stream -- the last interval carries
            # less than 1e-5 of the zone's target and must still be assigned to a utility
            big = float(ctx.rng.choice([32768, 49152, 65536]))
            t0 = float(ctx.rng.choice([40, 60, 100]))
            if ctx.rng.random() < 0.5:
                ss = [dict(zone="N", name="BigC", t_supply=t0, t_target=t0 + 100.0, heat_flow=big, dt_cont=5.0, htc=1.0),
                      dict(zone="N", name="SmallH", t_supply=t0 + 90.0, t_target=t0 + 20.0, heat_flow=1024.0, dt_cont=5.0, htc=1.0),
                      dict(zone="N", name="NeedleC", t_supply=t0 + 110.0, t_target=t0 + 120.0, heat_flow=0.4, dt_cont=5.0, htc=1.0)]
            else:
                ss = [dict(zone="N", name="BigH", t_supply=t0 + 100.0, t_target=t0, heat_flow=big, dt_cont=5.0, htc=1.0),
                      dict(zone="N", name="SmallC", t_supply=t0 + 10.0, t_target=t0 + 80.0, heat_flow=1024.0, dt_cont=5.0, htc=1.0),
                      dict(zone="N", name="NeedleH", t_supply=t0 - 10.0, t_target=t0 - 20.0, heat_flow=0.4, dt_cont=5.0, htc=1.0)]
            prob = dict(streams=ss, utilities=prob["utilities"] if ctx.rng.random() < 0.5 else [])
            m = dict(zones=1, shapes=["needle_at_extreme"], regime=m["regime"])
        if ctx.rng.random() < 0.12:
            # rows switched off with `active: false`: a stream row is analysed all the same (nothing reads the flag), a utility row is
            # left out of every ladder -- neither may change which default utilities are needed
            cold = [x for x in prob["streams"] if x["t_supply"] < x["t_target"]]
            hot = [x for x in prob["streams"] if x["t_supply"] > x["t_target"]]
            if cold and ctx.rng.random() < 0.5:
                max(cold, key=lambda x: x["t_target"])["active"] = False
            elif hot:
                min(hot, key=lambda x: x["t_target"])["active"] = False
            lo = min(min(x["t_supply"], x["t_target"]) for x in prob["streams"])
            hi = max(max(x["t_supply"], x["t_target"]) for x in prob["streams"])
            prob["utilities"] = prob["utilities"] + [
                dict(name="OffCW", type="Cold", t_supply=lo - 40.0, t_target=lo - 40.0, heat_flow=0.0, dt_cont=5.0, htc=1.0, price=1.0, active=False),
                dict(name="OffST", type="Hot", t_supply=hi + 40.0, t_target=hi + 40.0, heat_flow=0.0, dt_cont=5.0, htc=1.0, price=50.0, active=False)]
            m = dict(m, shapes=m["shapes"] + ["inactive_rows"])
        probs.append((prob, m))
    return probs


def run(ctx):
    n = ctx.budget(150, 5000)
    cf = CaseFile(ctx, "records", HDR, shard=60)
    meta = []
    for prob, m in gen_cases(ctx, n):
        try:
            out, mz, recs, orphan = collect(prob)
        except Exception as e:  # noqa: BLE001
            ctx.fail("service-raises", f"{type(e).__name__}: {e}", suite="records", input=prob, predicate="service returns")
            continue
        for k, xs, t, kind in recs:
            hu, cu = utility_lists(t)
            # the allocation loop stops when the unmet demand is within tol (1e-6 kW, absolute): a zone's listed sum closes to 2*tol
            # (C02_zone_sums_and_balance_from_data; the exact sum is refuted), a record summing n zones to 2n*tol
            nz = max(1, len({x["zone"] for x in xs}))
            cf.add(f"c02_b eps6 {qlit((site_grid_slack(prob, t) if kind == 'TS' else 0.0) + 2e-6 * nz)} [{'; '.join(c01.coq_sin(s) for s in xs)}] {qlit(t.Qh)} {qlit(t.Qc)} {qlit(t.Qr)} {qlist(hu)} {qlist(cu)}")
            meta.append((prob, m, k, kind, xs, t, hu, cu))
    agree = bad = 0
    short_zones = {id(prob) for (prob, m, k, kind, xs, t, hu, cu) in meta
                   if kind == "DI" and sum(cu) < t.Qc - 1e-6 and abs(sum(hu) - t.Qh) <= 1e-6 * max(1.0, t.Qh)}
    for (prob, m, k, kind, xs, t, hu, cu), v in zip(meta, cf.run()):
        ctx.evaluations += 1
        ctx.count(f"{kind}_{m['regime']}_z{m['zones']}")
        if len(xs) >= 2 or kind != "DI":
            ctx.nontrivial_case((kind, tuple((s["t_supply"], s["t_target"], s["heat_flow"], s["dt_cont"]) for s in xs),
                                 tuple((u["t_supply"], u["t_target"], u["type"]) for u in prob["utilities"])))
        ctx.sample(dict(record=k, Qh=t.Qh, Qc=t.Qc, Qr=t.Qr, hot_utilities=hu, cold_utilities=cu), limit=6)
        if v[0] == 0:
            agree += 1
            continue
        clause = {21: "Qh - Qc != cold duty - hot duty", 22: "Qr != hot duty - Qc", 23: "negative target", 24: "negative utility duty",
                  25: "sum(hot utilities) - sum(cold utilities) != Qh - Qc"}.get(v[1], str(v))
        if is_d24(prob, k, kind, v[1], t, hu, cu, short_zones):
            ctx.fail("glide-utility-undersupplied", f"record {k}: {clause}", suite="records", input=dict(problem=prob, record=k),
                     impl_output=dict(Qh=t.Qh, Qc=t.Qc, Qr=t.Qr, hot=hu, cold=cu), predicate="c02_b")
            continue
        if bad < 3:
            ctx.fail("record-balance-open", f"record {k}: {clause}", suite="records", input=dict(problem=prob, record=k, zone_streams=xs),
                     impl_output=dict(Qh=t.Qh, Qc=t.Qc, Qr=t.Qr, hot=hu, cold=cu), predicate=f"c02_b {v}")
        bad += 1
    ctx.suite("records", cases=len(meta), agree=agree, property_false=bad, mismatch=0, fragile_skipped=0)


def replay(ctx, data):
    import json
    out, mz, recs, _ = collect(data["input"]["problem"])
    print(json.dumps([dict(name=k, kind=kind, Qh=t.Qh, Qc=t.Qc, Qr=t.Qr, hot=utility_lists(t)[0], cold=utility_lists(t)[1]) for k, xs, t, kind in recs], indent=1))
