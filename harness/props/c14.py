"""C14 -- the service is total and well-formed on every valid problem (DESIGN.md section 8, C14)."""
from __future__ import annotations

import copy
import json
import math
import traceback

from harness.lib import CaseFile, F, coq_bool, coq_string, qlist, qlit, qopt

MODEL_TARGETS = ["model/Stream.vo", "model/Totality.vo"]
ALLOWED_AXIOMS = []
RULE = ("schema-valid problems: 1..6 streams over 1..3 zones (nested labels, 10 % with a user zone tree), 0..4 utilities (isothermal / "
        "gliding / Both), numbers as floats or value-with-unit objects (25 %), dyadic temperatures and duties; 40 % degenerate shapes "
        "(single stream, only hot, only cold, isothermal, zero contributions, duplicate names, unused utilities, zero-duty streams, a few "
        "streams with a span of 1e-7..1e-3 K, a zone label made only of separators) crossed with the options wired into the pipeline (DO_BALANCED_CC, DO_VERTICAL_GCC, "
        "DO_ASSITED_HT, DO_DIRECT_OPERATION_TARGETING, DO_DIRECT_SITE_TARGETING, DO_AREA_TARGETING, DO_INDIRECT_PROCESS_TARGETING, "
        "DT_CONT, DT_PHASE_CHANGE incl. values the sanitiser rewrites); each case is run twice; non-trivial = returns with >= 2 records and "
        "a non-zero target somewhere, or is one of the degenerate shapes; distinct = distinct (problem, options)")
ASSUMPTIONS = [
    "WF_input: schema-valid, >= 1 stream, finite numbers, heat_flow >= 0, dt_cont >= 0, htc > 0, no None inside a value-with-unit object; "
    "zone labels non-empty; a user zone tree carries every stream on a leaf",
    "pydantic output validation, JSON serialisation and the float -> exact rational conversion (which is what decides 'finite') run in Python; "
    "the finiteness flag, record count, envelope and repeatability are then decided inside coqc (model/Totality.v wf_output_b)",
    "envelope = [min T - W, max T + W] over the given stream and utility temperatures with W = max stream contribution + max utility "
    "contribution (DT_CONT for the default utilities) + DT_PHASE_CHANGE + latent width 0.01 + half a unit of the reported decimal",
    "options reaching unmodelled code (heat pumps, exergy, turbine) are exercised for totality only and reported in evidence, not claimed",
    "the full pipeline is not modelled here: service_total is OPEN, the stage guards are proved (see props/C14.v)",
]
HDR = ("From OP Require Import gen.Consts model.Base model.Stream model.Totality.\n"
       "Require Import Coq.QArith.QArith Coq.Strings.String.\nLocal Open Scope Q_scope.")
ERR = {"ZeroDivisionError": 1, "IndexError": 2, "KeyError": 3, "AttributeError": 4, "ValueError": 5, "TypeError": 7}
BOOL_OPTS = ["DO_BALANCED_CC", "DO_VERTICAL_GCC", "DO_ASSITED_HT", "DO_DIRECT_OPERATION_TARGETING", "DO_DIRECT_SITE_TARGETING"]
UNMODELLED = ["DO_EXERGY_TARGETING", "DO_PROCESS_HP_TARGETING", "DO_UTILITY_HP_TARGETING", "DO_TURBINE_WORK", "DO_TURBINE_TARGETING"]
SHAPES = ["single", "onlyhot", "onlycold", "iso", "zerodt", "dup", "unused_ut", "zeroq", "tiny", "seplabel", "glidecw", "glidecw"]


def S(zone, name, ts, tt, q, dt=5.0, htc=1.0):
    return dict(zone=zone, name=name, t_supply=float(ts), t_target=float(tt), heat_flow=float(q), dt_cont=float(dt), htc=float(htc))


def U(name, typ, ts, tt, dt=5.0, price=10.0):
    return dict(name=name, type=typ, t_supply=float(ts), t_target=float(tt), heat_flow=0.0, dt_cont=float(dt), htc=1.0, price=float(price))

def run_cases(cf, **kw):
    """cf.run() with a retry when another check rebuilt a shared .vo while the shards were compiling (the shards are compiled outside the
    build lock): `inconsistent assumptions` says nothing about the property, so the libraries are rebuilt under the lock and the shards re-run."""
    import fcntl
    import time
    from harness import lib
    for attempt in range(4):
        try:
            return cf.run(**kw)
        except lib.CoqCasesError as e:
            if "inconsistent assumptions" not in str(e) and "Cannot find a physical path" not in str(e) and "bad version number" not in str(e) or attempt == 3:
                raise
            time.sleep(5 + 10 * attempt)
            with open(lib.COQ / ".lock", "w") as lock:
                fcntl.flock(lock, fcntl.LOCK_EX)
                try:
                    lib.coq_make(list(MODEL_TARGETS))
                finally:
                    fcntl.flock(lock, fcntl.LOCK_UN)



# ------------------------------------------------------------------ generator
def gen_case(rng, force_shape=None):
    shape = force_shape or (rng.choice(SHAPES) if rng.random() < 0.40 else "gen")
    zones = rng.choice([["Z0"], ["Z0", "Z1"], ["Z0", "Z1", "Z0/Sub"], ["A/B", "A/C", "D"]])
    n = 1 if shape == "single" else rng.randint(1, 6)
    streams = []
    for i in range(n):
        a, b = rng.sample(range(40, 600), 2)
        ts, tt = a / 2.0, b / 2.0
        if shape == "onlyhot":
            ts, tt = max(ts, tt), min(ts, tt)
        if shape == "onlycold":
            ts, tt = min(ts, tt), max(ts, tt)
        cp = rng.choice([0.5, 1.0, 1.5, 2.0, 4.0])
        q = cp * abs(ts - tt)
        if shape == "iso" and (i == 0 or rng.random() < 0.3):
            tt, q = ts, rng.choice([10.0, 25.0, 0.0, -30.0, -300.0])      # negative duty = isothermal HOT stream
        if shape == "zeroq" and (i == 0 or rng.random() < 0.3):
            q = 0.0
        if shape == "tiny" and i == 0:
            tt, q = ts + rng.choice([1e-7, 6e-7, 1e-6, 2e-6, 1e-5, 1e-3]) * rng.choice([1, -1]), 10.0
        dt = 0.0 if shape == "zerodt" else rng.choice([0.0, 2.5, 5.0, 10.0])
        nm = "S" if shape == "dup" else f"S{i}"
        streams.append(S(rng.choice(zones), nm, ts, tt, q, dt, rng.choice([0.5, 1.0, 2.0])))
    if shape == "seplabel":          # a zone label made only of separators (schema-valid: any string)
        streams[0]["zone"] = rng.choice(["/", " / ", "//"])
    utils = []
    if shape == "unused_ut" or rng.random() < 0.5:
        for j, t in enumerate(rng.sample(range(30, 420, 10), rng.randint(0 if shape != "unused_ut" else 1, 2))):
            utils.append(U(f"HU{j}", rng.choice(["Hot", "Hot", "Both"]), t, t if rng.random() < 0.5 else t - rng.choice([10.0, 10.0, 40.0]), rng.choice([0.0, 5.0, 10.0]), 20.0 + j))
        for j, t in enumerate(rng.sample(range(-20, 250, 10), rng.randint(0 if shape != "unused_ut" else 1, 2))):
            utils.append(U(f"CU{j}", "Cold", t, t if rng.random() < 0.5 else t + rng.choice([10.0, 40.0, 80.0]), rng.choice([0.0, 5.0, 10.0]), 5.0 + j))
    if shape == "glidecw":
        # a cold utility with a long glide below a hot stream (and an isothermal hot stream): the cold duties may stay below the
        # demand, which exercises the exhausted-utility path of the net-segment builder
        lo = min(min(s["t_supply"], s["t_target"]) for s in streams)
        streams.append(S(zones[0], "Hg", lo + 70.0, lo, 800.0, 5.0))
        streams.append(S(zones[0], "Cg", lo + 50.0, lo + 120.0, 500.0, 5.0))
        utils = [U("CWg", "Cold", lo - 15.0, lo - 15.0 + rng.choice([45.0, 75.0, 85.0]), 5.0, 2.0)]
    opts = {o: (rng.random() < 0.5) for o in BOOL_OPTS if rng.random() < 0.8}
    if rng.random() < 0.18:
        opts["DO_AREA_TARGETING"] = True
    if rng.random() < 0.06:
        opts["DO_INDIRECT_PROCESS_TARGETING"] = True
    if rng.random() < 0.3:
        opts["DT_CONT"] = rng.choice([0.0, 2.0, 10.0, -1.0])
    if rng.random() < 0.2:
        opts["DT_PHASE_CHANGE"] = rng.choice([0.5, 1.0, 0.0, -0.25, 0.125])
    case = dict(streams=streams, utilities=utils, options=opts)
    if rng.random() < 0.10 and all("/" not in z for z in zones) and shape != "seplabel":
        pad = (lambda t: t) if rng.random() < 0.6 else (lambda t: rng.choice([" " + t, t + " ", " " + t + "  "]))   # type strings are stripped on input
        kids = [dict(name=z, type=pad("Process Zone"), children=None) for z in zones]
        case["zone_tree"] = dict(name="Works", type=pad("Site"), children=kids)
    elif rng.random() < 0.06 and shape != "seplabel":
        # a user tree that consists of the root only (children omitted, null or empty) with every stream labelled with the root's own name
        for s in streams:
            s["zone"] = "Works"
        case["zone_tree"] = rng.choice([dict(name="Works", type="Site"), dict(name="Works", type="Site", children=None),
                                        dict(name="Works", type="Site", children=[])])
    vu = rng.random() < 0.25
    return dict(case=case, shape=shape, vu=vu)


def materialise(item):
    """The dictionary handed to the service (numbers optionally wrapped as value-with-unit dictionaries)."""
    p = copy.deepcopy(item["case"])
    if item["vu"]:
        for s in p["streams"]:
            for k, u in (("t_supply", "degC"), ("t_target", "degC"), ("heat_flow", "kW"), ("dt_cont", "K"), ("htc", "kW/m2/K")):
                s[k] = dict(value=s[k], units=u)
        for s in p["utilities"]:
            for k, u in (("t_supply", "degC"), ("t_target", "degC"), ("dt_cont", "K"), ("htc", "kW/m2/K"), ("price", "$/MWh")):
                s[k] = dict(value=s[k], units=u)
    return p


# ------------------------------------------------------------------ observation
def floats_of(o):
    if isinstance(o, dict):
        for v in o.values():
            yield from floats_of(v)
    elif isinstance(o, (list, tuple)):
        for v in o:
            yield from floats_of(v)
    elif isinstance(o, float):
        yield o


def qopt_finite(x):
    return "None" if (x != x or x in (float("inf"), float("-inf"))) else f"(Some {qlit(x)})"


def tree_of(zone):
    kind = {"Site": "KSite", "Process Zone": "KProcess", "Unit Operation": "KOp"}.get(zone.identifier, "KOther")
    return dict(kind=kind, name=zone.name, subs=[tree_of(z) for z in zone.subzones.values()])


def coq_tree(t):
    return f"(ZNode {t['kind']} {cstr_ascii(t['name'])} [" + "; ".join(coq_tree(s) for s in t["subs"]) + "])"


def cstr_ascii(s):
    return coq_string("".join(ch if 32 <= ord(ch) < 127 else "?" for ch in s))


def coq_in(item, tree):
    c = item["case"]
    temps = [s["t_supply"] for s in c["streams"]] + [s["t_target"] for s in c["streams"]] + \
            [u["t_supply"] for u in c["utilities"]] + [u["t_target"] for u in c["utilities"]]
    o = c["options"]
    return ("(mkIn " + qlist(temps) + " " + qlist([s["dt_cont"] for s in c["streams"]]) + " " + qlist([u["dt_cont"] for u in c["utilities"]]) + " "
            + qlit(o.get("DT_CONT", 5.0)) + " " + qlit(o.get("DT_PHASE_CHANGE", 0.1)) + " " + coq_tree(tree) + " "
            + coq_bool(o.get("DO_DIRECT_OPERATION_TARGETING", False)) + " " + coq_bool(o.get("DO_INDIRECT_PROCESS_TARGETING", False)) + ")")


def observe(item):
    """Run the service twice.  Returns dict(status='ok', ...) or dict(status='raised', ...)."""
    from OpenPinch import pinch_analysis_service
    from OpenPinch.lib.schema import TargetOutput
    p = materialise(item)
    try:
        out, mz = pinch_analysis_service(copy.deepcopy(p), project_name="Project", is_return_full_results=True)
    except Exception as e:  # noqa: BLE001
        tb = traceback.extract_tb(e.__traceback__)
        return dict(status="raised", exc=type(e).__name__, msg=str(e)[:200], where=f"{tb[-1].filename.split('/')[-1]}:{tb[-1].lineno}",
                    frames=[f.name for f in tb])
    problems = []
    try:
        d = out.model_dump()
        TargetOutput.model_validate(d)
        js = out.model_dump_json()
        json.loads(js)
    except Exception as e:  # noqa: BLE001
        problems.append(f"output schema/JSON: {type(e).__name__}: {str(e)[:160]}")
        d = out.model_dump()
    out2 = pinch_analysis_service(copy.deepcopy(p), project_name="Project")
    d2 = out2.model_dump()
    temps = []
    for t in d["targets"]:
        for k in ("cold_temp", "hot_temp"):
            v = t["temp_pinch"][k]
            if v is not None:
                temps.append(v["value"] if isinstance(v, dict) else v)
    for g in (d["graphs"] or {}).values():
        for gr in g["graphs"]:
            for seg in gr["segments"]:
                for pt in seg["data_points"]:
                    temps.append(pt["y"])
    di = [t["name"] for t in d["targets"] if t["name"].endswith("/Direct Integration")]
    return dict(status="ok", nums=list(floats_of(d)), nums2=list(floats_of(d2)), temps=temps, di=di, tree=tree_of(mz), problems=problems,
                nrec=len(d["targets"]), nonzero=any((t["Qh"] or 0) > 0 or (t["Qc"] or 0) > 0 for t in d["targets"]))


def dedupe_pairs(a, b):
    """Keep positions where either list has a not-yet-seen (value, value2) pair: equality of the two full lists is equality of these plus lengths."""
    if len(a) != len(b):
        return a, b
    seen, ra, rb = set(), [], []
    for x, y in zip(a, b):
        k = (repr(x), repr(y))
        if k not in seen:
            seen.add(k)
            ra.append(x)
            rb.append(y)
    return ra, rb


def prepared_tree_and_grids(item):
    """For a raising case: the zone tree and the shifted temperature grids, obtained from the real preparation code."""
    from OpenPinch.analysis.data_preparation import prepare_problem
    from OpenPinch.analysis.problem_table_analysis import create_problem_table_with_t_int
    from OpenPinch.lib.enums import ProblemTableLabel as PT
    from OpenPinch.lib.schema import TargetInput
    req = TargetInput.model_validate(materialise(item))
    mz = prepare_problem(project_name="Project", streams=req.streams, utilities=req.utilities, options=req.options, zone_tree=req.zone_tree)
    grids = []

    def walk(z):
        try:
            pt = create_problem_table_with_t_int(z.all_streams, True, z.config)
            grids.append([float(x) for x in pt.col[PT.T.value]])
        except Exception:  # noqa: BLE001
            pass
        for s in z.subzones.values():
            walk(s)
    walk(mz)
    return tree_of(mz), grids


def has_zero_duty_zone(case):
    """Some zone that receives a direct-integration record carries no EFFECTIVE duty: every stream of a labelled zone has heat_flow 0 or a span
    inside the cascade's activity window (<= 10*tol, such a stream is never active in any interval), or -- with DO_DIRECT_OPERATION_TARGETING on
    a synthesised tree, where every stream is its own unit operation -- one such stream on its own."""
    def eff(s):
        return 0.0 if (s["heat_flow"] == 0.0 or 0.0 < abs(s["t_supply"] - s["t_target"]) <= 1.0001e-5) else s["heat_flow"]
    d = {}
    for s in case["streams"]:
        d[s["zone"]] = d.get(s["zone"], 0.0) + eff(s)
    if min(d.values()) == 0.0:
        return True
    if "zone_tree" in case and not (case["zone_tree"].get("children") or []) \
            and any(s["zone"] == case["zone_tree"]["name"] and eff(s) == 0.0 for s in case["streams"]):
        return True              # root-only user tree: a stream labelled with the root becomes a zone of its own (with a DI record)
    if "zone_tree" in case:      # a zone declared in the user tree that no stream is assigned to

        def names(t):
            yield t["name"]
            for c in t.get("children") or []:
                yield from names(c)
        used = {part for z in d for part in z.split("/")}
        if any(n not in used for n in list(names(case["zone_tree"]))[1:]):
            return True
    return bool(case["options"].get("DO_DIRECT_OPERATION_TARGETING")) and "zone_tree" not in case and any(eff(s) == 0.0 for s in case["streams"])


def glide_utility_inside_process_range(case):
    """Trigger of finding D39 seen from the input: a user utility with a glide of at least 1 K whose SHIFTED range overlaps the shifted
    range of the process streams by more than 1 K."""
    sh = []
    for x in case["streams"]:
        d = x["dt_cont"] if x["t_supply"] < x["t_target"] else -x["dt_cont"]
        sh += [x["t_supply"] + d, x["t_target"] + d]
    if not sh:
        return False
    lo, hi = min(sh), max(sh)
    for u in case["utilities"]:
        a, b = sorted((u["t_supply"], u["t_target"]))
        if b - a < 1.0:
            continue
        for d in ((-u["dt_cont"],) if u["type"] == "Hot" else (u["dt_cont"],) if u["type"] == "Cold" else (-u["dt_cont"], u["dt_cont"])):
            if min(b + d, hi) - max(a + d, lo) > 1.0:
                return True
    return False


def classify_raise(item, ob, verdict):
    """Narrow kinds for the listed findings; anything else is `service-raises` (a violation)."""
    o = item["case"]["options"]
    if verdict and verdict[0] == 4 and verdict[1] == ERR["KeyError"] and ob["exc"] == "KeyError" and o.get("DO_INDIRECT_PROCESS_TARGETING") \
            and "Direct Integration" in ob["msg"] and "_sum_subzone_targets" in ob["frames"]:
        return "indirect-process-targeting-keyerror"
    if verdict and verdict[0] == 4 and verdict[1] == ERR["KeyError"] and ob["exc"] == "KeyError" and not o.get("DO_INDIRECT_PROCESS_TARGETING") \
            and not o.get("DO_DIRECT_OPERATION_TARGETING") and "Direct Integration" in ob["msg"] and "_sum_subzone_targets" in ob["frames"] \
            and any(not [c for c in s["zone"].split("/") if c.strip()] for s in item["case"]["streams"]):
        return "separator-only-zone-label-keyerror"
    if o.get("DO_AREA_TARGETING") and ob["exc"] == "ValueError" and "get_area_targets" in ob["frames"]:
        if ob["msg"].startswith("Invalid temperature differences") and min(s["dt_cont"] for s in item["case"]["streams"]) == 0.0:
            return "area-targeting-degenerate-raises"
        if ob["msg"].startswith("Invalid temperature differences") and glide_utility_inside_process_range(item["case"]):
            # consequence of finding D39: a gliding user utility whose range reaches into the process range is given more duty than the
            # pocket-free GCC allows at some level, the balanced curves cross and an end difference is negative
            return "area-targeting-glide-utility-crosses"
        if ob["msg"].startswith("Composite curve arrays cannot be empty") and has_zero_duty_zone(item["case"]):
            return "area-targeting-zero-duty-zone-raises"
        if ob["msg"].startswith("The temperature driving force plot requires the inputted composite curves to be balanced") \
                and any(u["type"] in ("Cold", "Both") and u["t_supply"] != u["t_target"] for u in item["case"]["utilities"]):
            # consequence of finding D24: a gliding cold user utility is undersupplied, so the balanced curves do not balance
            return "area-targeting-unbalanced-glide-utility"
    if verdict and verdict[0] == 5 and ob["exc"] == "ValueError" and ob["msg"].startswith("Infeasible temperature interval"):
        return "grid-gap-within-tol-raises"
    if ob["exc"] == "IndexError" and "clean_composite_curve_ends" in ob["frames"]:
        # D45 end to end: np.isclose's relative tolerance (1e-5*|H|) swallows a vertex whose duty is below 1e-5 of the curve's enthalpy
        duties = [abs(s["heat_flow"]) for s in item["case"]["streams"]]
        if duties and max(duties) >= 1e4 and any(0.0 < d <= 1.5e-5 * sum(duties) for d in duties):
            return "clean-ends-relative-tolerance-indexerror"
    return "service-raises"


# ------------------------------------------------------------------ judging
def judge_items(ctx, items, suite):
    """Returns list of (verdict, observation)."""
    cf = CaseFile(ctx, suite, HDR, shard=25)
    obs = []
    for it in items:
        ob = observe(it)
        obs.append(ob)
        if ob["status"] == "ok":
            n1, n2 = dedupe_pairs(ob["nums"], ob["nums2"])
            temps = sorted(set(ob["temps"]))
            ob["temps_sorted"] = temps
            y = ("(mkObs [" + "; ".join(qopt_finite(x) for x in n1) + "] [" + "; ".join(qopt_finite(x) for x in n2) + "] ["
                 + "; ".join(cstr_ascii(n) for n in ob["di"]) + "] " + qlist([t for t in temps if t == t and abs(t) != float("inf")]) + ")")
            cf.add(f"judge_c14 {coq_in(it, ob['tree'])} {y}")
        else:
            try:
                tree, grids = prepared_tree_and_grids(it)
            except Exception as e:  # noqa: BLE001
                tree, grids = dict(kind="KSite", name="Project", subs=[]), []
                ob["prepare_failed"] = f"{type(e).__name__}: {str(e)[:120]}"
            ob["tree"] = tree
            cf.add(f"judge_c14_raise {coq_in(it, tree)} {ERR.get(ob['exc'], 9)}%Z [" + "; ".join(qlist([x for x in g if x == x and abs(x) != float("inf")]) for g in grids) + "]")
    return list(zip(run_cases(cf), obs))


def shrink_case(item, still_fails):
    """Drop streams, utilities, options one at a time while the same failure persists."""
    changed = True
    while changed:
        changed = False
        c = item["case"]
        cands = []
        for i in range(len(c["streams"])):
            if len(c["streams"]) > 1:
                q = copy.deepcopy(item)
                del q["case"]["streams"][i]
                cands.append(q)
        for i in range(len(c["utilities"])):
            q = copy.deepcopy(item)
            del q["case"]["utilities"][i]
            cands.append(q)
        for k in list(c["options"]):
            q = copy.deepcopy(item)
            del q["case"]["options"][k]
            cands.append(q)
        if item["vu"]:
            q = copy.deepcopy(item)
            q["vu"] = False
            cands.append(q)
        if "zone_tree" in c:
            q = copy.deepcopy(item)
            del q["case"]["zone_tree"]
            cands.append(q)
        if not cands:
            break
        for q, bad in zip(cands, still_fails(cands)):
            if bad:
                item, changed = q, True
                break
    return item


WHAT = {1: "a reported number is NaN or infinite", 2: "not exactly one direct-integration record per zone",
        3: "a reported temperature lies outside the envelope of the input temperatures widened by the contributions",
        4: "the repeated call returns different numbers"}
KIND = {1: "non-finite-output", 2: "di-record-count", 3: "temperature-outside-envelope", 4: "not-repeatable"}


def failure_of(item, v, ob):
    """(kind, what, detail) or None for one judged case."""
    if ob["status"] == "raised":
        kind = classify_raise(item, ob, v)
        return kind, f"service raised {ob['exc']}: {ob['msg'][:120]} at {ob['where']}", dict(verdict=v)
    if ob["problems"]:
        return "output-invalid", ob["problems"][0], dict(verdict=v)
    if v[0] == 0:
        return None
    if v[0] == 3:
        detail = dict(verdict=v)
        if v[1] == 3 and 0 <= v[2] < len(ob["temps_sorted"]):
            detail["temperature"] = ob["temps_sorted"][v[2]]
        return KIND.get(v[1], "wf-output"), WHAT.get(v[1], "wf_output_b false"), detail
    return "dispatch-model-mismatch", "the zone-type dispatch model predicts other direct-integration records (or an exception) than the implementation produced", dict(verdict=v)


def service_suite(ctx):
    n = ctx.budget(360, 5000)
    corpus = [
        dict(case=dict(streams=[S("Z0", "S0", 50.0, 50.0, 0.0)], utilities=[], options={}), shape="iso", vu=False),                       # D13
        dict(case=dict(streams=[S("Z0", "S0", 50.0, 50.0, 0.0), S("Z0", "S1", 200.0, 100.0, 100.0)], utilities=[], options={}), shape="iso", vu=True),
        dict(case=dict(streams=[S("Z0", "H", 200.0, 100.0, 100.0), S("Z1", "C", 50.0, 150.0, 100.0)], utilities=[], options={}), shape="gen", vu=False),   # D25
        dict(case=dict(streams=[S("Z0", "H", 200.0, 100.0, 100.0), S("Z0", "C", 50.0, 150.0, 120.0)], utilities=[],
                       options=dict(DO_BALANCED_CC=False)), shape="gen", vu=False),                                                       # D32
        dict(case=dict(streams=[S("Z0", "H", 200.0, 100.0, 100.0), S("Z1", "C", 50.0, 150.0, 120.0)], utilities=[U("HPS", "Hot", 250.0, 249.0)],
                       options=dict(DO_BALANCED_CC=False, DO_VERTICAL_GCC=True, DO_ASSITED_HT=True)), shape="gen", vu=False),               # D32
        dict(case=dict(streams=[S("Z0", "H", 200.0, 100.0, 100.0)], utilities=[], options={}), shape="onlyhot", vu=False),                # D26 sentinel side
        dict(case=dict(streams=[S("Z0", "C", 50.0, 150.0, 100.0)], utilities=[], options={}), shape="onlycold", vu=False),                # D26 sentinel side
        dict(case=dict(streams=[S("Z0", "H", 200.0, 100.0, 100.0), S("Z0", "C", 50.0, 150.0, 100.0)], utilities=[],
                       options=dict(DO_INDIRECT_PROCESS_TARGETING=True)), shape="gen", vu=False),                                         # D30
        dict(case=dict(streams=[S("Z0", "H", 200.0, 100.0, 100.0, 0.0), S("Z0", "C", 50.0, 150.0, 100.0, 0.0)], utilities=[],
                       options=dict(DO_AREA_TARGETING=True)), shape="zerodt", vu=False),                                                  # D31
        dict(case=dict(streams=[S("Z0/Sub", "S2", 229.0, 133.5, 47.75, 0.0, 0.5)], utilities=[U("HU0", "Both", 200.0, 190.0, 0.0, 20.0)],
                       options=dict(DO_AREA_TARGETING=True)), shape="zerodt", vu=False),                                                  # D31 (minimal witness)
        dict(case=dict(streams=[S("Z0", "S0", 81.0, 68.5, 0.0, 5.0, 2.0)], utilities=[], options=dict(DO_AREA_TARGETING=True)), shape="zeroq", vu=False),   # D42
        dict(case=dict(streams=[S("A/C", "S0", 206.0, 206.0000006, 10.0, 5.0, 2.0), S("A/C", "S4", 193.0, 80.0, 113.0, 0.0, 0.5)], utilities=[], options={}),
             shape="tiny", vu=False),                                                                                                      # D43
        dict(case=dict(streams=[S("Z0", "S1", 218.0, 255.5, 0.0, 2.5), S("Z0", "S3", 66.5, 157.0, 45.25, 0.0, 0.5)], utilities=[],
                       options=dict(DO_DIRECT_OPERATION_TARGETING=True, DO_AREA_TARGETING=True)), shape="zeroq", vu=False),                # D42 through a unit-operation zone
        dict(case=dict(streams=[S("/", "H", 200.0, 100.0, 100.0), S("B", "C", 50.0, 150.0, 100.0)], utilities=[], options={}), shape="seplabel", vu=False),  # separator-only label
        dict(case=dict(streams=[S("Z1", "S0", 122.5, 122.4999999, 10.0, 10.0, 0.5)], utilities=[], options=dict(DO_AREA_TARGETING=True)),
             shape="tiny", vu=False),                                                                                                      # D42: the only stream is inside the activity window
        dict(case=dict(streams=[S("Z1", "S0", 235.5, 234.5, 1.5, 2.5, 0.5)], utilities=[], options=dict(DO_AREA_TARGETING=True),
                       zone_tree=dict(name="Works", type="Site", children=[dict(name="Z0", type="Process Zone", children=None),
                                                                           dict(name="Z1", type="Process Zone", children=None)])),
             shape="gen", vu=False),                                                                                                       # D42: a declared zone without streams
        dict(case=dict(streams=[S("Z0", "Hg", 170.0, 100.0, 800.0, 5.0), S("Z0", "Cg", 150.0, 220.0, 500.0, 5.0)],
                       utilities=[U("CWg", "Cold", 85.0, 160.0, 5.0, 2.0)], options=dict(DO_AREA_TARGETING=True)), shape="glidecw", vu=False),   # D24 consequence (open finding)
        dict(case=dict(streams=[S("Z0", "S2", 237.0, 183.0, 27.0, 5.0, 2.0), S("Z0", "S3", 133.5, 121.0, 25.0, 2.5, 1.0)],
                       utilities=[U("CU0", "Cold", 120.0, 160.0, 0.0, 5.0)], options=dict(DO_AREA_TARGETING=True)), shape="gen", vu=False),   # D39 consequence (open finding)
        dict(case=dict(streams=[S("Z0", "H", 200.0, 100.0, 100.0), S("Z1", "C", 50.0, 150.0, 80.0)], utilities=[], options={},
                       zone_tree=dict(name="Works", type="Site ", children=[dict(name="Z0", type=" Process Zone", children=None),
                                                                            dict(name="Z1", type="Process Zone  ", children=None)])),
             shape="gen", vu=False),                                      # type strings with surrounding blanks
        dict(case=dict(streams=[S("Works", "H", 200.0, 100.0, 100.0), S("Works", "C", 50.0, 150.0, 80.0)], utilities=[], options={},
                       zone_tree=dict(name="Works", type="Site")), shape="gen", vu=False),             # root-only user tree, children omitted, streams labelled with the root
        dict(case=dict(streams=[S("Works", "H", 200.0, 100.0, 100.0), S("Works", "C", 50.0, 150.0, 80.0)], utilities=[], options={},
                       zone_tree=dict(name="Works", type="Site", children=None)), shape="gen", vu=True),
        dict(case=dict(streams=[S("Z0", "H", 200.0, 100.0, 100.0), S("Z0", "C", 50.0, 100.000001, 100.0)], utilities=[], options={}), shape="tiny", vu=False),  # D43, ordinary spans
        dict(case=dict(streams=[S("Z0", "H", 290.0, 40.0, 64000.0, 5.0), S("Z0", "C", 300.0, 310.0, 0.25, 0.0)], utilities=[], options={}),
             shape="gen", vu=False),                                                                                                       # D45 end to end: IndexError in clean_composite_curve_ends
    ]
    items = corpus + [gen_case(ctx.rng) for _ in range(n)]
    res = judge_items(ctx, items, "service")
    agree = bad = mism = known = 0
    reported = {}
    fail_kinds = {}
    for it, (v, ob) in zip(items, res):
        ctx.evaluations += 1
        ctx.count("shape_" + it["shape"])
        for k, val in it["case"]["options"].items():
            if val is True:
                ctx.count("opt_" + k)
        if ob["status"] == "ok" and ((ob["nrec"] >= 2 and ob["nonzero"]) or it["shape"] != "gen"):
            ctx.nontrivial_case(json.dumps(it, sort_keys=True))
        if ob["status"] == "ok":
            ctx.sample(dict(suite="service", shape=it["shape"], options=it["case"]["options"], n_streams=len(it["case"]["streams"]),
                            records=ob["nrec"], distinct_temperatures=len(ob["temps_sorted"]), numbers=len(ob["nums"])), limit=3)
        f = failure_of(it, v, ob)
        if f is None:
            agree += 1
            continue
        kind = f[0]
        fail_kinds[kind] = fail_kinds.get(kind, 0) + 1
        if kind == "dispatch-model-mismatch":
            mism += 1
        else:
            bad += 1
        # every distinct kind is reported once (kinds listed as open findings must never use up the budget of unlisted ones)
        if reported.get(kind, 0) >= 1:
            continue
        reported[kind] = 1

        def still(cands, kind=kind):
            out = []
            for q, (vv, oo) in zip(cands, judge_items(ctx, cands, "service_shrink")):
                ff = failure_of(q, vv, oo)
                out.append(ff is not None and ff[0] == kind)
            return out
        small = shrink_case(it, still)
        (v2, ob2), = judge_items(ctx, [small], "service_final")
        f2 = failure_of(small, v2, ob2) or f
        ctx.fail(f2[0], f2[1], input=dict(case=small["case"], vu=small["vu"], shape=it["shape"]),
                 impl_output=dict(status=ob2["status"], **({k: ob2[k] for k in ("exc", "msg", "where")} if ob2["status"] == "raised" else
                                  dict(records=ob2["nrec"], di=ob2["di"], detail=f2[2]))),
                 suite="service", predicate="wf_output_b (finite numbers, one DI record per zone, temperatures in the envelope, repeatable) and no exception",
                 shrunk_from=len(it["case"]["streams"]))
    ctx.suite("service", cases=len(items), agree=agree, mismatch=mism, property_false=bad, fragile_skipped=0, failure_kinds=fail_kinds)


def unmodelled_suite(ctx):
    """Options that reach unmodelled code: totality only, small budget, reported but not claimed."""
    import time
    out = {}
    for opt in UNMODELLED:
        res = {}
        for _ in range(ctx.budget(3, 12)):
            it = gen_case(ctx.rng, force_shape=ctx.rng.choice(["gen", "gen", "onlyhot", "single"]))
            it["case"]["options"] = {opt: True}
            t0 = time.time()
            ob = observe(it)
            key = "ok" if ob["status"] == "ok" and not ob["problems"] else (f"{ob.get('exc')}: {ob.get('msg', '')[:60]}" if ob["status"] == "raised" else ob["problems"][0][:80])
            res[key] = res.get(key, 0) + 1
            if time.time() - t0 > 20:
                break
        out[opt] = res
    ctx.extra["unmodelled_options_totality_only"] = out


# ------------------------------------------------------------------ stage-level ties of the guard models
def stage_suite(ctx):
    import numpy as np
    from OpenPinch.analysis.data_preparation import _validate_config_data_completed
    from OpenPinch.analysis.problem_table_analysis import _get_T_start_on_opposite_cc
    from OpenPinch.classes.problem_table import ProblemTable
    from OpenPinch.lib.config import Configuration
    from OpenPinch.lib.enums import ProblemTableLabel as PT
    rng = ctx.rng
    # option sanitiser
    cf = CaseFile(ctx, "cfg", HDR, shard=250)
    cases = [(rng.choice([-5.0, -0.5, 0.0, 0.5, 2.0, 5.0, 10.0]), rng.choice([-1.0, 0.0, 0.01, 0.1, 0.5, 1.0])) for _ in range(ctx.budget(60, 400))]
    for dc, dp in cases:
        cfg = _validate_config_data_completed(Configuration(options=dict(DT_CONT=dc, DT_PHASE_CHANGE=dp)))
        cf.add(f"judge_cfg {qlit(dc)} {qlit(dp)} {qlit(float(cfg.DT_CONT))} {qlit(float(cfg.DT_PHASE_CHANGE))}")
    nb = 0
    for (dc, dp), v in zip(cases, run_cases(cf)):
        ctx.evaluations += 1
        if v[0] != 0:
            nb += 1
            if nb == 1:
                ctx.fail("cfg-model-mismatch", "model of _validate_config_data_completed differs", input=dict(DT_CONT=dc, DT_PHASE_CHANGE=dp), suite="cfg",
                         predicate="judge_cfg")
    ctx.suite("cfg", cases=len(cases), agree=len(cases) - nb, mismatch=nb, property_false=0, fragile_skipped=0)
    # _get_T_start_on_opposite_cc (the linear_interpolation call site of the real-temperature cascade)
    cf = CaseFile(ctx, "tstart", HDR, shard=250)
    tcases = []
    for _ in range(ctx.budget(300, 3000)):
        m = rng.randint(1, 7)
        Ts = sorted(rng.sample(range(20, 400), m), reverse=True)
        cc = [0.0]
        for _k in range(m - 1):
            cc.append(cc[-1] + rng.choice([0.0, 0.0, 10.0, 25.0, 40.0]))
        cc = cc[::-1] if rng.random() < 0.8 else [rng.choice([0.0, 10.0, 30.0, 50.0]) for _ in range(m)]
        h0 = rng.choice([0.0, 5.0, 10.0, 12.5, 30.0, 1e-7, 35.0, 10.0 + 5e-7, 100.0])
        tcases.append(([float(t) for t in Ts], [float(c) for c in cc], h0))
    outs = []
    for Ts, cc, h0 in tcases:
        pt = ProblemTable({PT.T.value: Ts, PT.H_HOT.value: cc})
        try:
            r, err = _get_T_start_on_opposite_cc(pt, h0, PT.H_HOT.value), 0
        except Exception as e:  # noqa: BLE001
            r, err = None, ERR.get(type(e).__name__, 9)
        outs.append((r, err))
        cf.add(f"judge_t_start {qlist(cc)} {qlist(Ts)} {qlit(h0)} {qopt(None if r is None else float(r))} {err}%Z")
    nb = 0
    for (Ts, cc, h0), (r, err), v in zip(tcases, outs, run_cases(cf)):
        ctx.evaluations += 1
        if r is not None:
            ctx.nontrivial_case(("t", tuple(Ts), tuple(cc), h0))
        if err != 0:
            ctx.fail("stage-raises", f"_get_T_start_on_opposite_cc raised (code {err})", input=dict(T=Ts, cc=cc, h0=h0), suite="tstart",
                     predicate="no exception for any two columns of one table")
        elif v[0] != 0:
            nb += 1
            if nb == 1:
                ctx.fail("tstart-model-mismatch", "model of _get_T_start_on_opposite_cc differs", input=dict(T=Ts, cc=cc, h0=h0), impl_output=r,
                         suite="tstart", predicate="judge_t_start")
    ctx.suite("tstart", cases=len(tcases), agree=len(tcases) - nb, mismatch=nb, property_false=0, fragile_skipped=0)


def run(ctx):
    stage_suite(ctx)
    service_suite(ctx)
    unmodelled_suite(ctx)


def replay(ctx, data):
    inp = data["input"]
    if data.get("suite") == "service":
        it = dict(case=inp["case"], vu=inp.get("vu", False), shape=inp.get("shape", "gen"))
        (v, ob), = judge_items(ctx, [it], "replay")
        f = failure_of(it, v, ob)
        keep = {k: ob.get(k) for k in ("status", "exc", "msg", "where", "nrec", "di", "problems")}
        print(json.dumps(dict(verdict=v, failure=f, observation=keep), indent=1, default=str))
    else:
        print(json.dumps(data, indent=1, default=str))
