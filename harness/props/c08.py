"""C08 -- inserting temperature intervals never changes any curve (DESIGN.md section 8, C08).

The real `ProblemTable.insert_temperature_interval` is driven over histories of calls; after every call the whole
matrix is snapshotted.  Inside coqc (model/Insert.v, `judge_insert`) each call is judged twice:
  * the property predicate `prop_clause` on the implementation's own before/after matrices (independent of the model),
  * the whole matrix against the model's table (the model runs on its own state over the whole history).
"""
from __future__ import annotations

import copy
import json
import math

from harness.lib import CaseFile, coq_bool, qlit

MODEL_TARGETS = ["model/Insert.vo"]
ALLOWED_AXIOMS = []
RULE = ("direct suite: random tables (1..12 rows, mostly 3..12; strictly descending T on the lattice k/4, gaps >= 1.25; random subset of "
        "the 43 columns populated, others NaN; a few columns with single NaN cells; width / CP / dH columns consistent, "
        "inconsistent or absent) x histories of 1..6 calls x 1..5 requested temperatures (above, below, inside on the k/8 lattice, "
        "an existing row +- {0, 2^-21, 2^-20, 3*2^-21, 2^-19, 2^-18} (tol = 1e-6 lies between 2^-20 and 3*2^-21), the previous "
        "request +- the same offsets, duplicates, unsorted; a one-element request is passed as a scalar half of the time); "
        "corpus: the repository's own test fixtures and the cases pinning D3; pipeline suite: every call made by "
        "pinch_analysis_service on random problems, observed through a wrapper; non-trivial = at least two rows added over "
        "the history and at least one call in which a request was dropped (present / clustered) or two requests fell into one "
        "interval or an edge block was built; distinct = distinct (table, history)")
ASSUMPTIONS = ["IEEE rounding of the interpolation and of width*CP is not proved: computed cells are compared to 1e-9 relative, "
               "temperatures and copied cells exactly",
               "tables in the domain: no NaN temperature, rows strictly descending by more than tol (checked per case inside coqc; "
               "other cases are counted as outside the domain)",
               "requested temperatures are finite numbers",
               "the pipeline suite observes calls through a wrapper installed on ProblemTable in the check process only"]
HDR = "From OP Require Import gen.Consts model.Base model.Insert.\nRequire Import Coq.QArith.QArith.\nLocal Open Scope Q_scope."

OFFS = [2.0 ** -21, 2.0 ** -20, 3 * 2.0 ** -21, 2.0 ** -19, 2.0 ** -18]
KINDS = {1: "insert-count", 2: "insert-order", 3: "insert-rows", 4: "insert-curve-changed", 5: "insert-widths",
         6: "insert-dh", 7: "insert-not-idempotent"}
CLAUSES = {1: "returned count = rows added", 2: "rows strictly descending, gaps > tol",
           3: "old rows kept, new rows are requested temperatures, every request within tol of a row",
           4: "every populated curve column unchanged as a piecewise-linear function (all-NaN columns stay NaN)",
           5: "width_i = T_(i-1) - T_i for i >= 1 (table untouched when nothing is inserted)",
           6: "dH_i = CP_i * width_i for i >= 1, three pairs", 7: "re-inserting present temperatures adds nothing"}


def _names():
    from OpenPinch.classes.problem_table import HEAT_CAPACITY_PAIRS, INTERPOLATION_KEYS, PT
    cols = [l.value for l in PT]
    return PT, cols, list(INTERPOLATION_KEYS), [tuple(p) for p in HEAT_CAPACITY_PAIRS]


# ------------------------------------------------------------------ generators
def gen_table(rng):
    PT, cols, IK, HCP = _names()
    n = rng.choice([1, 2, 3, 3, 4, 5, 6, 7, 8, 9, 10, 11, 12, 3, 4, 5, 6])
    T = [t / 4 for t in sorted(rng.sample(range(0, 1600, 5), n), reverse=True)]
    dT = [0.0] + [a - b for a, b in zip(T[:-1], T[1:])]
    d = {PT.T.value: T}
    m = rng.random()
    if m < 0.7:
        d[PT.DELTA_T.value] = dT
    elif m < 0.85:
        d[PT.DELTA_T.value] = [float(rng.choice([0, 1.5, 10])) for _ in range(n)]
    for cp, dh in HCP:
        r = rng.random()
        if r < 0.7:
            c = [float(rng.choice([0, 0, 0.5]))] + [float(rng.choice([0, 0.5, 1, 2, 2.25])) for _ in range(n - 1)]
            d[cp] = c
            q = rng.random()
            if q < 0.6:
                d[dh] = [a * b for a, b in zip(c, dT)]
            elif q < 0.8:
                d[dh] = [float(rng.choice([0, 1, 7.5])) for _ in range(n)]
        elif r < 0.8:
            d[dh] = [float(rng.choice([0, 1, 7.5])) for _ in range(n)]
    for k in IK:
        r = rng.random()
        if r < 0.25:
            d[k] = [rng.randrange(-400, 800) / 8 for _ in range(n)]
        elif r < 0.28:
            d[k] = [rng.randrange(-400, 800) / 8 if rng.random() < 0.7 else None for _ in range(n)]
    for k in cols:
        if k.startswith(("rCP", "rcp", "HTC")) and rng.random() < 0.2:
            d[k] = [rng.choice([0.0, 1.0, 2.5, None]) for _ in range(n)]
    return d


def gen_reqs(rng, Tb):
    req = []
    for _ in range(rng.randint(1, 5)):
        r = rng.random()
        if r < 0.15:
            req.append(float(Tb[0] + rng.choice([5, 20.25, 0.5] + OFFS)))
        elif r < 0.3:
            req.append(float(Tb[-1] - rng.choice([5, 20.25, 0.5] + OFFS)))
        elif r < 0.5:
            req.append(float(rng.choice(list(Tb)) + rng.choice([0, 1, -1]) * rng.choice(OFFS)))
        elif r < 0.65 and req:
            req.append(req[-1] + rng.choice([0, 1, -1]) * rng.choice(OFFS))
        else:
            req.append(rng.randrange(int(Tb[-1] * 8) - 80, int(Tb[0] * 8) + 80) / 8)
    return req


def nan_to_none(x):
    x = float(x)
    return None if x != x else x


def make_pt(table):
    import numpy as np
    from OpenPinch.classes import ProblemTable
    return ProblemTable({k: np.array([np.nan if x is None else x for x in v], dtype=float) for k, v in table.items()})


def snapshot(pt):
    return [[nan_to_none(x) for x in row] for row in pt.data]


def observe_call(pt, req, scalar=False):
    """Runs one call on `pt` (mutates it). Returns dict(after, n, re_n, re_same) or raises."""
    import numpy as np
    n = pt.insert_temperature_interval(req[0] if scalar and len(req) == 1 else list(req))
    after = snapshot(pt)
    pt2 = copy.deepcopy(pt)
    again = list(req) + [float(x) for x in pt.data[:, 0]]
    re_n = pt2.insert_temperature_interval(again)
    re_same = pt2.data.shape == pt.data.shape and bool(np.array_equal(pt2.data, pt.data, equal_nan=True))
    return dict(after=after, n=int(n), re_n=int(re_n), re_same=re_same)


def run_case(case):
    """case = dict(table={col:[...]}, calls=[[T...]...], scalar=[bool...]). Returns (m0, observations, error)."""
    pt = make_pt(case["table"])
    m0 = snapshot(pt)
    obs = []
    for i, req in enumerate(case["calls"]):
        try:
            obs.append(observe_call(pt, req, scalar=bool(case.get("scalar", [])[i:i + 1] == [True])))
        except Exception as e:  # noqa: BLE001
            return m0, obs, f"call #{i} {req} raised {type(e).__name__}: {e}"
    return m0, obs, None


def gen_case(rng):
    table = gen_table(rng)
    pt = make_pt(table)
    calls, scalar = [], []
    for _ in range(rng.randint(1, 6)):
        req = gen_reqs(rng, [float(x) for x in pt.data[:, 0]])
        calls.append(req)
        scalar.append(rng.random() < 0.5)
        try:
            pt.insert_temperature_interval(list(req))
        except Exception:  # noqa: BLE001   (reported when the case is run)
            break
    return dict(table=table, calls=calls, scalar=scalar)


# ------------------------------------------------------------------ Coq literals
def coq_row(row):
    """Run-length encoded: V q = number, G k = k NaN cells."""
    out, gap = [], 0
    for x in row:
        if x is None:
            gap += 1
            continue
        if gap:
            out.append(f"G {gap}")
            gap = 0
        out.append("V" + qlit(x))
    if gap:
        out.append(f"G {gap}")
    return "[" + ";".join(out) + "]"


def coq_matrix(m):
    return "[" + ";\n ".join(coq_row(row) for row in m) + "]"


def case_expr(m0, calls, obs):
    cs = []
    for req, o in zip(calls, obs):
        cs.append(f"mkCall [{'; '.join(qlit(x) for x in req)}] {coq_matrix(o['after'])} ({o['n']})%Z ({o['re_n']})%Z {coq_bool(o['re_same'])}")
    return f"judge_insert {coq_matrix(m0)} [{'; '.join(cs)}]"


def judge_cases(ctx, cases, suite, shard=25):
    """Returns list of (verdict or None, m0, obs, err)."""
    cf = CaseFile(ctx, suite, HDR, shard=shard)
    out, idx = [], []
    for c in cases:
        m0, obs, err = run_case(c)
        out.append([None, m0, obs, err])
        if err is None:
            idx.append(len(out) - 1)
            cf.add(case_expr(m0, c["calls"], obs))
    for i, v in zip(idx, cf.run()):
        out[i][0] = v
    return out


def judge_observed(ctx, records, suite, shard=25):
    """records: (m0, req, obs) single calls observed elsewhere (pipeline)."""
    cf = CaseFile(ctx, suite, HDR, shard=shard)
    for m0, req, o in records:
        cf.add(case_expr(m0, [req], [o]))
    return cf.run()


# ------------------------------------------------------------------ classification, shrinking
def case_shape(case, obs):
    nrows = len(case["table"]["T"])
    added = sum(o["n"] for o in obs)
    dropped = sum(1 for req, o in zip(case["calls"], obs) if o["n"] < len(req))
    return nrows, added, dropped


def is_nontrivial(case, m0, obs):
    added = sum(o["n"] for o in obs)
    interesting = False
    prev = [r[0] for r in m0]
    for req, o in zip(case["calls"], obs):
        cur = [r[0] for r in o["after"]]
        new = [t for t in cur if t not in prev]
        if o["n"] < len(req) or any(t > prev[0] or t < prev[-1] for t in new):
            interesting = True
        for a, b in zip(prev[:-1], prev[1:]):
            if sum(1 for t in new if b < t < a) >= 2:
                interesting = True
        prev = cur
    return added >= 2 and interesting


def failed(v, err):
    return err is not None or (v is not None and v[0] not in (0, 1))


def reduce_case(case, removed):
    """The case without the removal tokens ('call', i) | ('req', i, j) | ('col', name) | ('row', i); None when nothing sensible is left."""
    calls, scalar = [], []
    for i, req in enumerate(case["calls"]):
        if ("call", i) in removed:
            continue
        r = [x for j, x in enumerate(req) if ("req", i, j) not in removed]
        if not r:
            return None
        calls.append(r)
        scalar.append(bool(case.get("scalar", [False] * len(case["calls"]))[i]))
    n = len(case["table"]["T"])
    rows = [i for i in range(n) if ("row", i) not in removed]
    if not calls or not rows:
        return None
    table = {k: [v[i] for i in rows] for k, v in case["table"].items() if k == "T" or ("col", k) not in removed}
    return dict(table=table, calls=calls, scalar=scalar)


def shrink_case(case, still_fails, rounds=6):
    """Delta-debugging over removal tokens: every round tries each single further removal in one batch, then all the
    successful ones together (falling back to the first)."""
    tokens = [("call", i) for i in range(len(case["calls"]))]
    tokens += [("req", i, j) for i, req in enumerate(case["calls"]) for j in range(len(req))]
    tokens += [("col", k) for k in case["table"] if k != "T"]
    tokens += [("row", i) for i in range(len(case["table"]["T"]))]
    removed = set()
    for _ in range(rounds):
        todo = [t for t in tokens if t not in removed and reduce_case(case, removed | {t}) is not None]
        if not todo:
            break
        res = still_fails([reduce_case(case, removed | {t}) for t in todo])
        good = [t for t, bad in zip(todo, res) if bad]
        if not good:
            break
        for cls in ("col", "call", "req", "row"):
            g = [t for t in good if t[0] == cls]
            while len(g) > 1 and reduce_case(case, removed | set(g)) is None:
                g = g[:-1]
            if not g:
                continue
            if len(g) > 1 and still_fails([reduce_case(case, removed | set(g))])[0]:
                removed |= set(g)
            elif reduce_case(case, removed | {g[0]}) is not None and still_fails([reduce_case(case, removed | {g[0]})])[0]:
                removed.add(g[0])
    return reduce_case(case, removed)


def report(ctx, case, suite, shrunk_from=None):
    (v, m0, obs, err), = judge_cases(ctx, [case], suite + "_final")
    data = dict(input=case, impl_output=dict(before=m0, calls=obs), suite=suite, shrunk_from=shrunk_from)
    if err is not None:
        ctx.fail("insert-raises", err, predicate="insert_temperature_interval does not raise on a table in the domain", **data)
        return "bad"
    if v[0] == 3:
        ctx.fail(KINDS.get(v[2], "insert-property"), f"clause {v[2]} of the property is false on the implementation at call #{v[1]}: {CLAUSES.get(v[2])}",
                 predicate="prop_clause tol eps9 before after requests count = 0", **data)
        return "bad"
    if v[0] == 2:
        what = "returned count" if v[2] == 0 else f"row {v[2]} of the table"
        ctx.fail("insert-model-mismatch", f"model and implementation differ at call #{v[1]} ({what}) although the property predicate holds",
                 predicate="table_diff eps9 model implementation = 0", **data)
        return "mismatch"
    return "ok"


def process(ctx, cases, suite, label):
    res = judge_cases(ctx, cases, suite)
    agree = mism = bad = frag = 0
    for case, (v, m0, obs, err) in zip(cases, res):
        ctx.evaluations += 1
        nrows, added, dropped = case_shape(case, obs)
        ctx.count(f"{label}_rows_{nrows}")
        ctx.count(f"{label}_calls_{len(case['calls'])}")
        ctx.count(f"{label}_added_{min(added, 10)}")
        if err is None and is_nontrivial(case, m0, obs):
            ctx.nontrivial_case((suite, json.dumps(case, sort_keys=True)))
        ctx.sample(dict(suite=suite, T=case["table"]["T"], populated=sorted(case["table"].keys()), calls=case["calls"],
                        returned=[o["n"] for o in obs], final_T=[r[0] for r in obs[-1]["after"]] if obs else None))
        if not failed(v, err):
            if v[0] == 1:
                frag += 1
            else:
                agree += 1
            continue
        if bad + mism >= 3:          # shrink and fully report only the first few failures; classify the rest by verdict
            if v is not None and v[0] == 2:
                mism += 1
            else:
                bad += 1
            continue

        def still(cands):
            return [failed(vv, ee) for vv, _, _, ee in judge_cases(ctx, cands, suite + "_shrink", shard=8)]
        small = shrink_case(case, still)
        k = report(ctx, small, suite, shrunk_from=dict(rows=nrows, calls=len(case["calls"])))
        if k == "ok":       # shrinking lost the failure (should not happen): report the original
            k = report(ctx, case, suite)
        if k == "mismatch":
            mism += 1
        else:
            bad += 1
    ctx.suite(suite, cases=len(cases), agree=agree, mismatch=mism, property_false=bad, fragile_skipped=frag)


# ------------------------------------------------------------------ corpus
def corpus_cases():
    PT, cols, IK, HCP = _names()
    T, DT = PT.T.value, PT.DELTA_T.value
    base = {T: [100.0, 60.0, 20.0, 0.0], DT: [0.0, 40.0, 40.0, 20.0],
            PT.CP_HOT.value: [0.0, 2.0, 1.0, 0.5], PT.DELTA_H_HOT.value: [0.0, 80.0, 40.0, 10.0],
            PT.CP_COLD.value: [0.0, 1.0, 3.0, 0.0], PT.DELTA_H_COLD.value: [0.0, 40.0, 120.0, 0.0],
            PT.CP_NET.value: [0.0, -1.0, 2.0, -0.5], PT.DELTA_H_NET.value: [0.0, -40.0, 80.0, -10.0],
            PT.H_HOT.value: [130.0, 50.0, 10.0, 0.0], PT.H_COLD.value: [160.0, 120.0, 0.0, 0.0], PT.H_NET.value: [30.0, 70.0, -10.0, 0.0]}
    fixture = {T: [300.0, 200.0, 100.0], DT: [0.0, 100.0, 100.0],
               PT.CP_HOT.value: [0.0, 2.0, 1.0], PT.DELTA_H_HOT.value: [0.0, 200.0, 100.0],
               PT.CP_COLD.value: [0.0, 0.2, 0.1], PT.DELTA_H_COLD.value: [0.0, 20.0, 10.0],
               PT.CP_NET.value: [0.0, 0.3, 0.4], PT.DELTA_H_NET.value: [0.0, 30.0, 40.0],
               PT.H_HOT.value: [300.0, 100.0, 0.0], PT.H_COLD.value: [30.0, 10.0, 0.0], PT.H_NET.value: [70.0, 40.0, 0.0],
               PT.H_NET_NP.value: [70.0, 40.0, 0.0], PT.H_NET_A.value: [70.0, 40.0, 0.0], PT.H_NET_V.value: [70.0, 40.0, 0.0]}
    c = lambda table, calls: dict(table=copy.deepcopy(table), calls=calls, scalar=[False] * len(calls))  # noqa: E731
    return [
        c(base, [[50.0]]),                                   # D3: off-centre insert (gap above 10, below 30)
        c(base, [[-10.0, -30.0]]),                           # D3: two bottom inserts (negative width before the repair)
        c(base, [[30.0, 50.0, 55.0]]),                       # D3: several per interval, off-centre
        c(base, [[120.0, 130.0, 50.0, 55.0, -10.0, -30.0], [50.0 + 2.0 ** -21, 7.0]]),
        c(base, [[90.0], [95.0], [110.0], [105.0]]),          # first-row width rule; middle insert under a new top row
        c(base, [[100.0 + 2.0 ** -20, 60.0 - 2.0 ** -21, 20.0]]),   # everything present within tol
        c(base, [[100.0 + 3 * 2.0 ** -21, 100.0 + 2.0 ** -19, 0.0 - 3 * 2.0 ** -21, 0.0 - 2.0 ** -19]]),   # clusters just outside tol
        c(fixture, [[350.0, 250.0, 50.0, 250.0]]),           # tests/test_problem_table.py: vectorised top/middle/bottom
        c(fixture, [[350.0]]), c(fixture, [[50.0]]), c(fixture, [[225.0]]),
        c({T: [50.0], PT.H_NET.value: [5.0]}, [[60.0, 40.0], [55.0]]),   # one-row table
        c({T: [250.0, 200.0, 100.0], PT.H_NET.value: [150.0, 100.0, 0.0]}, [[225.0]]),
    ]


# ------------------------------------------------------------------ pipeline suite
def gen_problem(rng):
    n = rng.randint(2, 7)
    streams = []
    for i in range(n):
        a, b = rng.sample(range(20, 300, 10), 2)
        cp = rng.choice([1, 2, 3, 4, 5]) / 2
        streams.append(dict(zone="P1" if rng.random() < 0.7 else "P2", name=f"S{i}", t_supply=float(a), t_target=float(b),
                            heat_flow=float(cp * abs(a - b)), dt_cont=float(rng.choice([0, 5, 10])), htc=1.0))
    return dict(streams=streams, utilities=[])


def pipeline_suite(ctx):
    import numpy as np
    from OpenPinch import pinch_analysis_service
    from OpenPinch.classes.problem_table import ProblemTable
    n = ctx.budget(20, 300)
    records = []
    orig = ProblemTable.insert_temperature_interval
    state = dict(depth=0)

    def wrapper(self, T_ls):
        if state["depth"] > 0 or self.data is None:
            return orig(self, T_ls)
        state["depth"] += 1
        try:
            m0 = snapshot(self)
            req = [float(x) for x in np.atleast_1d(np.asarray(T_ls, dtype=float))]
            before = copy.deepcopy(self)
            res = orig(self, T_ls)
            if all(math.isfinite(x) for x in req):
                after = snapshot(self)
                pt2 = copy.deepcopy(self)
                re_n = orig(pt2, list(req) + [float(x) for x in self.data[:, 0]])
                re_same = pt2.data.shape == self.data.shape and bool(np.array_equal(pt2.data, self.data, equal_nan=True))
                records.append((m0, req, dict(after=after, n=int(res), re_n=int(re_n), re_same=re_same)))
            del before
            return res
        finally:
            state["depth"] -= 1

    problems = 0
    ProblemTable.insert_temperature_interval = wrapper
    try:
        for _ in range(n):
            p = gen_problem(ctx.rng)
            try:
                pinch_analysis_service(copy.deepcopy(p), "c08")
                problems += 1
            except Exception:  # noqa: BLE001   (totality of the pipeline is C14's business)
                pass
    finally:
        ProblemTable.insert_temperature_interval = orig
    cap = 300 if not ctx.thorough else 2000
    if len(records) > cap:
        records = [records[i] for i in sorted(ctx.rng.sample(range(len(records)), cap))]
    vs = judge_observed(ctx, records, "pipeline")
    agree = mism = bad = frag = 0
    for (m0, req, o), v in zip(records, vs):
        ctx.evaluations += 1
        ctx.count(f"pipeline_added_{min(o['n'], 5)}")
        if v[0] == 0:
            agree += 1
            if o["n"] >= 1:
                ctx.nontrivial_case(("pipeline", json.dumps([m0, req])))
        elif v[0] == 1:
            frag += 1
        else:
            if bad + mism < 3:
                cols = _names()[1]
                table = {c: [row[i] for row in m0] for i, c in enumerate(cols) if any(row[i] is not None for row in m0)}
                k = report(ctx, dict(table=table, calls=[req], scalar=[False]), "pipeline")
                if k == "ok":   # not reproducible from the snapshot alone: report the observation itself
                    ctx.fail(KINDS.get(v[2], "insert-property") if v[0] == 3 else "insert-model-mismatch",
                             f"verdict {v} on a call observed inside pinch_analysis_service", input=dict(before=m0, request=req),
                             impl_output=o, suite="pipeline", predicate="prop_clause / table_diff")
            if v[0] == 2:
                mism += 1
            else:
                bad += 1
    ctx.extra["pipeline_problems"] = problems
    ctx.suite("pipeline", cases=len(records), agree=agree, mismatch=mism, property_false=bad, fragile_skipped=frag)


# ------------------------------------------------------------------ entry points
def exhaustive_cases():
    """All requests of length <= 3 over a 9-value alphabet on one 3-row table (thorough tier)."""
    import itertools
    PT, cols, IK, HCP = _names()
    table = {PT.T.value: [30.0, 20.0, 10.0], PT.DELTA_T.value: [0.0, 10.0, 10.0], PT.CP_NET.value: [0.0, 2.0, 0.5],
             PT.DELTA_H_NET.value: [0.0, 20.0, 5.0], PT.H_NET.value: [25.0, 5.0, 0.0], PT.H_HOT.value: [40.0, 10.0, 0.0]}
    alpha = [35.0, 30.0 + 2.0 ** -20, 30.0 + 3 * 2.0 ** -21, 27.5, 27.5 + 2.0 ** -20, 20.0, 12.0, 10.0 - 3 * 2.0 ** -21, 5.0]
    out = []
    for L in (1, 2, 3):
        for seq in itertools.product(alpha, repeat=L):
            out.append(dict(table=copy.deepcopy(table), calls=[list(seq)], scalar=[False]))
    return out


def run(ctx):
    process(ctx, corpus_cases(), "corpus", "corpus")
    n = ctx.budget(330, 6000)
    process(ctx, [gen_case(ctx.rng) for _ in range(n)], "direct", "direct")
    if ctx.thorough:
        process(ctx, exhaustive_cases(), "exhaustive", "exh")
        ctx.extra["exhaustive"] = "all requests of length <= 3 over 9 temperatures (present, within tol, just outside tol, inside, outside) on a 3-row table"
    pipeline_suite(ctx)


def replay(ctx, data):
    inp = data["input"]
    if "table" not in inp:
        print(json.dumps(data, indent=1, default=str)[:4000])
        return
    (v, m0, obs, err), = judge_cases(ctx, [inp], "replay")
    PT, cols, IK, HCP = _names()
    keep = [i for i, c in enumerate(cols) if any(r[i] is not None for r in m0) or any(r[i] is not None for o in obs for r in o["after"])]
    show = lambda m: [{cols[i]: r[i] for i in keep} for r in m]  # noqa: E731
    print(json.dumps(dict(verdict=v, meaning="[0] agree, [1] outside domain/fragile, [2,call,row] model<>implementation, [3,call,clause] property false",
                          clause=CLAUSES.get(v[2]) if v and v[0] == 3 else None, error=err, requests=inp["calls"],
                          before=show(m0), calls=[dict(returned=o["n"], reinserted=o["re_n"], unchanged_on_reinsert=o["re_same"], after=show(o["after"])) for o in obs]),
                     indent=1, default=str))
