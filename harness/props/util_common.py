"""Shared by C03 and C04: generators, driver of the real code, Coq case construction for the utility-targeting stage
(coq/model/Utility.v).  Nothing here decides a verdict: verdicts are the integer lists coqc prints for judge_c03 /
judge_c04 / judge_defaults / judge_tz."""
from __future__ import annotations

import copy
import json
import math

from harness.lib import CaseFile, VERIF, coq_bool, qlit, qlist

HDR = ("From OP Require Import gen.Consts model.Base model.Stream model.Utility.\n"
       "Require Import Coq.QArith.QArith.\nLocal Open Scope Q_scope.")
MODEL_TARGETS = ["model/Stream.vo", "model/Utility.vo"]
COLS = ["T", "H_net", "H_net_actual", "H_hot_net", "H_cold_net", "H_net_ut"]
DEFAULT_IDS = {"HU": 1000, "CU": 1001}

# ------------------------------------------------------------------------------------------------------------------
# observation of the real pipeline: the shifted table right after get_utility_targets (before the 4-dp rounding of
# _save_graph_data); the check process wraps the function object in its own interpreter, /repo is untouched.
# ------------------------------------------------------------------------------------------------------------------
_SNAP = []
_INSTALLED = False


def install_snapshot():
    global _INSTALLED
    if _INSTALLED:
        return
    import OpenPinch.analysis.direct_integration_entry as die
    orig = die.get_utility_targets

    def wrapped(pt, pt_real, hu, cu, is_direct_integration=True):
        r = orig(pt, pt_real, hu, cu, is_direct_integration=is_direct_integration)
        _SNAP.append((pt, {c: pt.col[c].copy() for c in COLS}))
        return r
    die.get_utility_targets = wrapped
    _INSTALLED = True


def S(zone, name, ts, tt, q, dt=5.0, htc=1.0):
    return dict(zone=zone, name=name, t_supply=float(ts), t_target=float(tt), heat_flow=float(q), dt_cont=float(dt), htc=htc)


def U(name, typ, ts, tt=None, dt=5.0):
    return dict(name=name, type=typ, t_supply=float(ts), t_target=float(ts if tt is None else tt), heat_flow=0.0,
                dt_cont=float(dt), htc=1.0, price=10.0)


def uid(name):
    return DEFAULT_IDS[name] if name in DEFAULT_IDS else int(name[1:])


def obs_of(snap, target):
    """dict of exact-float observations of one Direct Integration target."""
    def side(coll):
        us, d = [], []
        for u in coll:
            us.append((float(u.t_min_star), float(u.t_max_star), abs(float(u.t_supply) - float(u.t_target))))
            d.append(float(u.heat_flow))
        return us, d
    hus, dh = side(target.hot_utilities)
    cus, dc = side(target.cold_utilities)
    return dict(T=[float(x) for x in snap["T"]], HA=[float(x) for x in snap["H_net_actual"]], Hn=[float(x) for x in snap["H_net"]],
                Hhn=[float(x) for x in snap["H_hot_net"]], Hcn=[float(x) for x in snap["H_cold_net"]],
                Hut=[float(x) for x in snap["H_net_ut"]], hus=hus, cus=cus, dh=dh, dc=dc,
                qh=float(target.hot_utility_target), qc=float(target.cold_utility_target),
                names_h=[u.name for u in target.hot_utilities], names_c=[u.name for u in target.cold_utilities])


def run_e2e(inp):
    """Runs pinch_analysis_service on a deep copy of `inp`. Returns dict(error=..) or dict(targets={name: obs}, defaults=..., tz=...)."""
    import numpy as np
    from OpenPinch import pinch_analysis_service
    install_snapshot()
    del _SNAP[:]
    try:
        data = copy.deepcopy(inp)
        # the input heat_flow of a utility is only a placeholder (targeting decides the duties): results must not depend on it
        for i, u in enumerate(data.get("utilities") or []):
            if u.get("heat_flow") in (0.0, None):
                u["heat_flow"] = [0.0, 25.0, None, 7.5][(i + len(data["streams"])) % 4]
        out, mz = pinch_analysis_service(data, is_return_full_results=True)
    except Exception as e:  # noqa: BLE001
        return dict(error=f"{type(e).__name__}: {e}")
    snaps = list(_SNAP)
    del _SNAP[:]
    res = dict(targets={}, notes=[])
    zones = [mz] + list(mz.subzones.values())
    for z in zones:
        key = f"{z.name}/Direct Integration"
        t = z.targets.get(key)
        if t is None:
            continue
        sn = [s for p, s in snaps if p is t.pt]
        if len(sn) != 1:
            res["notes"].append(f"no snapshot for {key}")
            continue
        sn = sn[0]
        # the snapshot is what the target reports (up to the 4-decimal rounding applied when graphs are saved)
        for c in ("H_net_ut", "H_net_actual", "T"):
            if not np.allclose(np.round(sn[c], 4), t.pt.col[c], rtol=0, atol=1e-9, equal_nan=True):
                res["notes"].append(f"snapshot != reported table in column {c} of {key}")
        o = obs_of(sn, t)
        if not all(math.isfinite(x) for k in ("T", "HA", "Hhn", "Hcn", "Hut", "dh", "dc") for x in o[k]):
            res["notes"].append(f"non-finite value in table/duties of {key}")
            continue
        res["targets"][key] = o
    # default-utility decision: observed created utilities of the master zone
    res["created_hot"] = [(uid(u.name), float(u.t_supply), float(u.t_target), float(u.dt_cont)) for u in mz.hot_utilities]
    res["created_cold"] = [(uid(u.name), float(u.t_supply), float(u.t_target), float(u.dt_cont)) for u in mz.cold_utilities]
    # Total Process Target of the master zone
    tz = mz.targets.get(f"{mz.name}/Total Process Target")
    if tz is not None:
        res["tz"] = dict(h=[float(u.heat_flow) for u in tz.hot_utilities], c=[float(u.heat_flow) for u in tz.cold_utilities],
                         zones_h=[[float(u.heat_flow) for u in z.targets[f"{z.name}/Direct Integration"].hot_utilities] for z in mz.subzones.values()],
                         zones_c=[[float(u.heat_flow) for u in z.targets[f"{z.name}/Direct Integration"].cold_utilities] for z in mz.subzones.values()],
                         qh=float(tz.hot_utility_target), qc=float(tz.cold_utility_target),
                         zq=[(float(z.targets[f"{z.name}/Direct Integration"].hot_utility_target),
                              float(z.targets[f"{z.name}/Direct Integration"].cold_utility_target)) for z in mz.subzones.values()])
    res["master"] = mz.name
    return res


# ------------------------------------------------------------------------------------------------------------------
# Coq literals
# ------------------------------------------------------------------------------------------------------------------
def coq_ustars(us):
    return "[" + "; ".join(f"mkUS {qlit(a)} {qlit(b)} {qlit(c)}" for a, b, c in us) + "]"


def coq_obs(o):
    return ("(mkObs " + " ".join([qlist(o["T"]), qlist(o["HA"]), qlist(o["Hhn"]), qlist(o["Hcn"]), qlist(o["Hut"]),
                                  coq_ustars(o["hus"]), coq_ustars(o["cus"]), qlist(o["dh"]), qlist(o["dc"]),
                                  qlit(o["qh"]), qlit(o["qc"])]) + ")")


UT = {"Hot": "UHot", "Cold": "UCold", "Both": "UBoth"}


def coq_defaults_case(inp, res):
    ss = "[" + "; ".join(f"({qlit(s['t_supply'])}, {qlit(s['t_target'])}, {qlit(s['dt_cont'])}, {qlit(s['heat_flow'])})"
                         for s in sorted(inp["streams"], key=lambda x: x["name"])) + "]"
    us = "[" + "; ".join(
        f"mkUin {uid(u['name'])}%nat {UT[u['type']]} {qlit(u['t_supply'])} (Some {qlit(u['t_target'])}) (Some {qlit(u['dt_cont'])}) {coq_bool(u.get('active', True))}"
        for u in inp["utilities"]) + "]"

    def cr(l):
        return "[" + "; ".join(f"mkUcr {i}%nat {qlit(a)} {qlit(b)} {qlit(c)}" for i, a, b, c in l) + "]"
    return f"judge_defaults {ss} {us} {cr(res['created_hot'])} {cr(res['created_cold'])}"


def coq_tz_case(tz):
    ll = lambda xs: "[" + "; ".join(qlist(x) for x in xs) + "]"  # noqa: E731
    return f"judge_tz {ll(tz['zones_h'])} {ll(tz['zones_c'])} {qlist(tz['h'])} {qlist(tz['c'])}"


# ------------------------------------------------------------------------------------------------------------------
# generators
# ------------------------------------------------------------------------------------------------------------------
DTS = [0.0, 2.5, 5.0, 10.0]
GLIDES = [0.5, 1.0, 5.0, 10.0, 20.0, 50.0]


def gen_streams(rng, nz=None):
    nz = nz or rng.choice([1, 1, 2, 3])
    n = rng.randint(2, 8)
    streams = []
    fine = rng.random() < 0.25
    for i in range(n):
        z = f"Z{rng.randrange(nz)}"
        if rng.random() < 0.1:                                   # latent stream (t_supply == t_target)
            a = float(rng.randrange(20, 300, 5))
            hot = rng.random() < 0.5
            streams.append(S(z, f"S{i}", a + (0.01 if hot else 0.0), a, rng.choice([10.0, 40.0, 25.0]), rng.choice(DTS)))
            continue
        while True:
            a, b = rng.sample(range(20, 300, 5), 2)
            if fine:
                a += rng.choice([0, 0.125, 0.5, 2.5])
                b += rng.choice([0, 0.25, 1.5])
            if a != b:
                break
        cp = rng.choice([1, 2, 3, 4, 5, 6, 8, 10]) / 4
        streams.append(S(z, f"S{i}", a, b, cp * abs(a - b), rng.choice(DTS)))
    return streams


def special_levels(streams):
    """shifted end points of the process streams (pinch / pocket candidates) and the two extremes."""
    pts = set()
    for s in streams:
        hot = s["t_supply"] > s["t_target"]
        sh = -s["dt_cont"] if hot else s["dt_cont"]
        pts.add(s["t_supply"] + sh)
        pts.add(s["t_target"] + sh)
    return sorted(pts)


def gen_utilities(rng, streams):
    pts = special_levels(streams)
    lo, hi = pts[0], pts[-1]
    same_dt = rng.random() < 0.7
    dt0 = rng.choice(DTS)
    utils = []

    def level():
        k = rng.random()
        if k < 0.45:
            return rng.choice(pts) + rng.choice([0.0, 0.0, 0.125, -0.125, 5.0, -5.0, 0.1, -0.1])
        if k < 0.6:
            return rng.choice([hi, hi + 5.0, hi + 0.125, hi + 30.0, lo, lo - 5.0, lo - 0.125, lo - 30.0])
        return float(rng.randrange(int(lo) - 20, int(hi) + 40, 5)) + rng.choice([0.0, 0.0, 0.5])
    idx = 0
    for typ, n in (("Hot", rng.choice([0, 0, 1, 2, 3, 4])), ("Cold", rng.choice([0, 0, 1, 2, 3, 4]))):
        for _ in range(n):
            dt = dt0 if same_dt else rng.choice(DTS)
            shifted = level()
            real = shifted + dt if typ == "Hot" else shifted - dt
            if rng.random() < 0.6:
                tt = None
            else:
                g = rng.choice(GLIDES)
                tt = real - g if typ == "Hot" else real + g
                if rng.random() < 0.15:                          # supply/target given the other way round
                    real, tt = tt, real
            t = typ if rng.random() > 0.04 else "Both"
            utils.append(U(f"U{idx}", t, real, tt, dt))
            idx += 1
    rng.shuffle(utils)
    return utils


def gen_e2e(rng):
    streams = gen_streams(rng)
    # (options are not part of this model: the option sanitiser -- e.g. a non-positive DT_PHASE_CHANGE is replaced -- is modelled and
    #  checked by C14's cfg suite)
    inp = dict(streams=streams, utilities=gen_utilities(rng, streams))
    if rng.random() < 0.15:
        # unit-operation zones are targeted too (after their parent): the parent's record must keep its own duties
        inp["options"] = dict(DO_DIRECT_OPERATION_TARGETING=True)
    elif rng.random() < 0.2:
        # the optional curve analyses run next to utility targeting and must not change what it is fed
        inp["options"] = {o: rng.random() < 0.6 for o in ("DO_VERTICAL_GCC", "DO_ASSITED_HT", "DO_BALANCED_CC")}
    return inp


# ---- stage level: get_utility_targets on a synthetic table -------------------------------------------------------
def gen_stage(rng):
    """synthetic shifted table (T descending, pocket-free profile or, 15 %, arbitrary) + utility ladders."""
    n = rng.randint(2, 9)
    base = sorted(rng.sample([float(x) for x in range(20, 300, 5)] + [100.125, 150.5, 200.25], n), reverse=True)
    hot, cold = [], []
    glide_iso = 0.125 if rng.random() < 0.5 else 0.1
    for kind, lst in (("h", hot), ("c", cold)):
        for _ in range(rng.choice([0, 1, 1, 2, 3, 4])):
            k = rng.random()
            if k < 0.5:
                lv = rng.choice(base) + rng.choice([0.0, 0.0, glide_iso, -glide_iso, 5.0, -5.0])
            elif k < 0.7:
                lv = rng.choice([base[0] + 10, base[0], base[-1], base[-1] - 10, base[0] + 0.125, base[-1] - 0.125])
            else:
                lv = float(rng.randrange(10, 320, 5))
            g = glide_iso if rng.random() < 0.6 else rng.choice(GLIDES)
            dt = rng.choice(DTS)
            lst.append((lv, g, dt))       # shifted supply level, glide, dt_cont
    T = set(base)
    if rng.random() < 0.75:               # utility end points are rows, as in the real grid
        for lv, g, dt in hot:
            T.update([lv, lv - g])
        for lv, g, dt in cold:
            T.update([lv, lv + g])
    T = sorted(T, reverse=True)
    m = len(T)
    p = rng.randrange(m)
    p2 = min(m - 1, p + rng.choice([0, 0, 0, 1, 2]))
    HA = [0.0] * m
    acc = 0.0
    for i in range(p - 1, -1, -1):
        acc += rng.choice([0.0, 0.0, 2.5, 10.0, 30.0, 0.125])
        HA[i] = acc
    acc = 0.0
    for i in range(p2 + 1, m):
        acc += rng.choice([0.0, 0.0, 2.5, 10.0, 30.0, 0.125])
        HA[i] = acc
    mono = True
    if rng.random() < 0.15:
        mono = False
        for _ in range(rng.randint(1, 3)):
            i = rng.randrange(m)
            HA[i] = max(0.0, HA[i] + rng.choice([-5.0, 5.0, 12.5]))
    return dict(T=T, HA=HA, hot=hot, cold=cold, mono=mono)


def run_stage(case):
    import numpy as np
    from OpenPinch.analysis.gcc_manipulation import get_seperated_gcc_heat_load_profiles
    from OpenPinch.analysis.utility_targeting import get_utility_targets
    from OpenPinch.classes import ProblemTable, Stream, StreamCollection
    T = np.array(case["T"], dtype=float)
    HA = np.array(case["HA"], dtype=float)
    sep = get_seperated_gcc_heat_load_profiles(HA.copy())
    pt = ProblemTable({"T": T, "H_net_actual": HA, "H_net": HA.copy(), "H_hot_net": sep["H_hot_net"], "H_cold_net": sep["H_cold_net"]})
    hu, cu = StreamCollection(), StreamCollection()
    for i, (lv, g, dt) in enumerate(case["hot"]):
        hu.add(Stream(name=f"U{i}", t_supply=lv + dt, t_target=lv + dt - g, dt_cont=dt, htc=1.0, price=10.0, is_process_stream=False))
    for i, (lv, g, dt) in enumerate(case["cold"]):
        cu.add(Stream(name=f"U{100 + i}", t_supply=lv - dt, t_target=lv - dt + g, dt_cont=dt, htc=1.0, price=10.0, is_process_stream=False))
    try:
        get_utility_targets(pt, None, hu, cu, True)
    except Exception as e:  # noqa: BLE001
        return dict(error=f"{type(e).__name__}: {e}")

    class Tg:
        pass
    t = Tg()
    t.hot_utilities, t.cold_utilities = hu, cu
    t.hot_utility_target, t.cold_utility_target = float(HA[0]), float(HA[-1])
    o = obs_of({c: pt.col[c] for c in COLS}, t)
    if not all(math.isfinite(x) for k in ("Hut", "dh", "dc") for x in o[k]):
        return dict(error="non-finite utility profile or duty")
    return dict(obs=o)


# ------------------------------------------------------------------------------------------------------------------
# decoding of verdicts
# ------------------------------------------------------------------------------------------------------------------
FLAG = dict(hot_cf=1, cold_cf=2, hot_sorted=4, cold_sorted=8, d24_cold=16, d24_hot=32, cold_short=64, hot_short=128,
            hot_top=256, cold_bot=512, hot_over=1024, cold_over=2048, viol_in_glide=4096)
CODE = {21: "separated load profiles differ from the model", 23: "hot-utility duties differ from the model",
        24: "cold-utility duties differ from the model", 25: "utility grand composite (H_net_ut) differs from the model",
        31: "sum of hot-utility duties != Qh", 32: "sum of cold-utility duties != Qc", 33: "negative utility duty",
        34: "duty on a utility that cannot reach any demand", 35: "H_net_ut < 0", 36: "H_net_ut > pocket-free GCC",
        37: "hot-utility duties are not the closed-form optimum", 38: "cold-utility duties are not the closed-form optimum",
        39: "utility profile is not the step form of the duties",
        45: "hot utilities with distinct shifted levels are not served lowest-grade-first (loop order = real supply temperature)",
        46: "cold utilities with distinct shifted levels are not served lowest-grade-first (loop order = real supply temperature)",
        41: "created hot utilities (defaults/order/temperatures) differ from the model",
        42: "created cold utilities (defaults/order/temperatures) differ from the model",
        43: "no hot utility reaches the top of the process after default completion",
        44: "no cold utility reaches the bottom of the process after default completion",
        51: "Total Process Target hot utilities are not the per-utility zone sums",
        52: "Total Process Target cold utilities are not the per-utility zone sums"}


KIND_D24 = "glide-utility-undersupplied"
KIND_CROSS = "glide-utility-crosses-gcc"
KIND_OF_CODE = {31: "utility-sum-open", 32: "utility-sum-open", 33: "negative-utility-duty", 34: "duty-out-of-reach",
                35: "utility-gcc-infeasible", 36: "utility-gcc-infeasible", 37: "not-closed-form-optimum",
                38: "not-closed-form-optimum", 39: "utility-profile-not-step", 45: "not-lowest-grade-first-mixed-contributions",
                46: "not-lowest-grade-first-mixed-contributions", 41: "default-utility-model-mismatch",
                42: "default-utility-model-mismatch", 43: "default-utility-missing", 44: "default-utility-missing",
                51: "total-process-utility-sums", 52: "total-process-utility-sums"}


def is_d24(v):
    """narrow trigger of the open finding D24: ONLY the sum clause(s) fail, the sum is short, the model reproduces the
    implementation's duties, and the model's run shows a utility that reaches into the process range (not clear of the
    grid) being cut by the slope bound / zeroed by the early return."""
    if not v or v[0] != 3:
        return False
    fl, codes = v[1], set(v[2:])
    if not codes or not codes <= {31, 32}:
        return False
    ok = True
    if 32 in codes:
        ok = ok and bool(fl & FLAG["d24_cold"]) and bool(fl & FLAG["cold_short"])
    if 31 in codes:
        ok = ok and bool(fl & FLAG["d24_hot"]) and bool(fl & FLAG["hot_short"])
    return ok


def is_cross(v):
    """narrow trigger of the glide-crossing finding: ONLY clause 36 (H_ut <= H_np) fails, the model reproduces the
    implementation, and every violating row lies strictly inside the range of a duty-carrying utility that is not clear
    of the grid."""
    return bool(v) and v[0] == 3 and set(v[2:]) == {36} and bool(v[1] & FLAG["viol_in_glide"])


def describe(v):
    return "; ".join(CODE.get(c, str(c)) for c in v[2:])


def effective(v, relevant=None):
    """(status, codes) after dropping property clauses that do not apply to the case (stage-level preconditions)."""
    if not v:
        return 2, [-1]
    if v[0] in (0, 1):
        return v[0], []
    pc = [c for c in v[2:] if c >= 30 and (relevant is None or relevant(c, v[1]))]
    cc = [c for c in v[2:] if c < 30]
    if pc:
        return 3, pc + cc
    if cc:
        return 2, cc
    return 0, []


def kind_of(prop, st, codes, v):
    if st == 2:
        return "utility-model-mismatch"
    vv = [3, v[1]] + codes
    if prop == "C03" and is_d24(vv):
        return KIND_D24
    if prop == "C04" and is_cross(vv):
        return KIND_CROSS
    return KIND_OF_CODE.get(codes[0], "utility-property-false")


def load_corpus(name):
    p = VERIF / "corpus" / name
    return json.loads(p.read_text()) if p.exists() else []


# ------------------------------------------------------------------------------------------------------------------
# judging a batch of end-to-end inputs / stage cases (one coqc run per batch)
# ------------------------------------------------------------------------------------------------------------------
def judge_e2e_batch(ctx, prop, inputs, suite):
    """For every input: list of (object name, status, codes, raw verdict, data). `error` objects carry status 4."""
    judge = "judge_c03" if prop == "C03" else "judge_c04"
    cf = CaseFile(ctx, suite, HDR, shard=40)
    slots, results = [], []
    for k, inp in enumerate(inputs):
        r = run_e2e(inp)
        results.append(r)
        if "error" in r:
            continue
        for name, o in r["targets"].items():
            cf.add(f"{judge} {coq_obs(o)}")
            slots.append((k, name, o))
        if prop == "C03":
            cf.add(coq_defaults_case(inp, r))
            slots.append((k, "default utilities", dict(created_hot=r["created_hot"], created_cold=r["created_cold"])))
            if "tz" in r:
                cf.add(coq_tz_case(r["tz"]))
                slots.append((k, "Total Process Target", r["tz"]))
    out = [[] for _ in inputs]
    for k, r in enumerate(results):
        if "error" in r:
            out[k].append(("service", 4, [], [4], dict(error=r["error"])))
        elif r["notes"]:
            out[k].append(("observation", 5, [], [5], dict(notes=r["notes"])))
    for (k, name, data), v in zip(slots, cf.run()):
        st, codes = effective(v)
        out[k].append((name, st, codes, v, data))
    return out, results


def stage_relevant(case):
    ends_rows = all(x in set(case["T"]) for lv, g, dt in case["hot"] for x in (lv, lv - g)) and \
        all(x in set(case["T"]) for lv, g, dt in case["cold"] for x in (lv, lv + g))

    def rel(c, fl):
        if c == 33:
            return True
        if not case["mono"]:
            return False
        if c == 31:
            return bool(fl & (FLAG["hot_top"] | FLAG["hot_over"]))
        if c == 32:
            return bool(fl & (FLAG["cold_bot"] | FLAG["cold_over"]))
        if c in (35, 36, 39):
            return ends_rows
        return True
    return rel


def judge_stage_batch(ctx, prop, cases, suite):
    judge = "judge_c03" if prop == "C03" else "judge_c04"
    cf = CaseFile(ctx, suite, HDR, shard=40)
    idx, out = [], []
    for k, c in enumerate(cases):
        r = run_stage(c)
        if "error" in r:
            out.append((4, [], [4], r))
            continue
        out.append(None)
        idx.append((k, r["obs"]))
        cf.add(f"{judge} {coq_obs(r['obs'])}")
    for (k, o), v in zip(idx, cf.run()):
        st, codes = effective(v, stage_relevant(cases[k]))
        out[k] = (st, codes, v, o)
    return out


# ------------------------------------------------------------------------------------------------------------------
# shrinking
# ------------------------------------------------------------------------------------------------------------------
def e2e_candidates(inp):
    ss, us = inp["streams"], inp["utilities"]
    c = []
    for i in range(len(us)):
        c.append(dict(streams=ss, utilities=us[:i] + us[i + 1:]))
    if len(ss) > 1:
        for i in range(len(ss)):
            c.append(dict(streams=ss[:i] + ss[i + 1:], utilities=us))
    if len({s["zone"] for s in ss}) > 1:
        c.append(dict(streams=[dict(s, zone="Z0") for s in ss], utilities=us))
    for i, u in enumerate(us):
        if u["t_target"] != u["t_supply"]:
            c.append(dict(streams=ss, utilities=us[:i] + [dict(u, t_target=u["t_supply"])] + us[i + 1:]))
        if u["dt_cont"] != 0.0:
            sh = u["dt_cont"] if u["type"] == "Hot" else -u["dt_cont"]
            c.append(dict(streams=ss, utilities=us[:i] + [dict(u, dt_cont=0.0, t_supply=u["t_supply"] - sh, t_target=u["t_target"] - sh)] + us[i + 1:]))
    if inp.get("options"):
        c = [dict(x, options=inp["options"]) for x in c] + [dict(streams=ss, utilities=us)]
    return c


def shrink_e2e(ctx, prop, inp, kind, rounds=10):
    for _ in range(rounds):
        cands = e2e_candidates(inp)
        if not cands:
            break
        res, _ = judge_e2e_batch(ctx, prop, cands, "shrink")
        hit = None
        for c, objs in zip(cands, res):
            if any(st >= 2 and st <= 3 and kind_of(prop, st, codes, v) == kind for _, st, codes, v, _ in objs):
                hit = c
                break
        if hit is None:
            break
        inp = hit
    return inp


def stage_candidates(case):
    c = []
    for side in ("hot", "cold"):
        for i in range(len(case[side])):
            c.append(dict(case, **{side: case[side][:i] + case[side][i + 1:]}))
    used = {x for lv, g, dt in case["hot"] for x in (lv, lv - g)} | {x for lv, g, dt in case["cold"] for x in (lv, lv + g)}
    for i in range(len(case["T"])):
        if len(case["T"]) > 2 and case["T"][i] not in used:
            ha = case["HA"][:i] + case["HA"][i + 1:]
            if min(ha) == 0.0:                       # a grand composite curve always touches zero (the pinch)
                c.append(dict(case, T=case["T"][:i] + case["T"][i + 1:], HA=ha))
    return c


def shrink_stage(ctx, prop, case, kind, rounds=10):
    for _ in range(rounds):
        cands = stage_candidates(case)
        if not cands:
            break
        res = judge_stage_batch(ctx, prop, cands, "shrink_stage")
        hit = None
        for c, (st, codes, v, _) in zip(cands, res):
            if 2 <= st <= 3 and kind_of(prop, st, codes, v) == kind:
                hit = c
                break
        if hit is None:
            break
        case = hit
    return case


# ------------------------------------------------------------------------------------------------------------------
# the suites
# ------------------------------------------------------------------------------------------------------------------
def shape_counts(ctx, inp, res):
    ctx.count(f"zones_{len({s['zone'] for s in inp['streams']})}")
    ctx.count(f"streams_{len(inp['streams'])}")
    nh = sum(1 for u in inp["utilities"] if u["type"] in ("Hot", "Both"))
    nc = sum(1 for u in inp["utilities"] if u["type"] in ("Cold", "Both"))
    ctx.count(f"user_hot_levels_{nh}")
    ctx.count(f"user_cold_levels_{nc}")
    if any(u["t_target"] != u["t_supply"] for u in inp["utilities"]):
        ctx.count("has_gliding_utility")
    if "error" not in res:
        if any(i == 1000 for i, *_ in res["created_hot"]):
            ctx.count("default_HU_added")
        if any(i == 1001 for i, *_ in res["created_cold"]):
            ctx.count("default_CU_added")


def target_counts(ctx, v, o):
    fl = v[1] if len(v) > 1 else 0
    for nm in ("hot_cf", "cold_cf"):
        if fl & FLAG[nm]:
            ctx.count("closed_form_applicable_" + nm[:-3])
    if not fl & FLAG["hot_sorted"] and len(o["hus"]) > 1:
        ctx.count("hot_real_order_differs_from_level_order_or_tie")
    if not fl & FLAG["cold_sorted"] and len(o["cus"]) > 1:
        ctx.count("cold_real_order_differs_from_level_order_or_tie")
    if fl & (FLAG["hot_over"] | FLAG["cold_over"]):
        ctx.count("duties_exceed_target")
    if o["qh"] <= 1e-6:
        ctx.count("threshold_no_heating")
    if o["qc"] <= 1e-6:
        ctx.count("threshold_no_cooling")
    nzh = sum(1 for q in o["dh"] if q > 1e-6)
    nzc = sum(1 for q in o["dc"] if q > 1e-6)
    ctx.count(f"utilities_with_duty_{min(nzh + nzc, 6)}")
    return nzh, nzc


def report(ctx, prop, suite, kind, codes, v, inp, data, shrunk_from=None):
    what = "; ".join(CODE.get(c, str(c)) for c in codes) or "service raised / observation failed"
    ctx.fail(kind, what, input=inp, impl_output=data, suite=suite, verdict=v,
             predicate=("judge_c03" if prop == "C03" else "judge_c04") + " clause(s) " + ",".join(map(str, codes)),
             shrunk_from=shrunk_from)


def run_e2e_suite(ctx, prop, inputs, suite, names=None):
    res, runs = judge_e2e_batch(ctx, prop, inputs, suite)
    agree = mism = bad = frag = 0
    reported = {}
    for k, (inp, objs, r) in enumerate(zip(inputs, res, runs)):
        ctx.evaluations += max(1, len(objs))      # one evaluation per judged object (direct-integration target, defaults judge, total-process record)
        shape_counts(ctx, inp, r)
        worst = 0
        anymism = False
        for name, st, codes, v, data in objs:
            if name.endswith("Direct Integration") and st in (0, 1, 2, 3):
                nzh, nzc = target_counts(ctx, v, data)
                if max(nzh, nzc) >= 2 or (nzh + nzc >= 2 and len(inp["utilities"]) >= 1):
                    ctx.nontrivial_case((json.dumps(inp, sort_keys=True), name))
            if st == 0:
                continue
            if st == 1:
                frag += 1
                continue
            kind = ("service-raises" if st == 4 else "observation-failed" if st == 5 else kind_of(prop, st, codes, v))
            worst = max(worst, 2 if st == 2 else 3)
            if st == 2:
                anymism = True
            ctx.count("failing_" + kind)
            n = reported.get(kind, 0)
            reported[kind] = n + 1
            if n >= 2:
                continue
            known_open = any(k.get("kind") == kind and not k.get("fixed") for k in ctx.known)
            small = shrink_e2e(ctx, prop, inp, kind) if st in (2, 3) and not known_open and n == 0 else inp
            objs2, _ = judge_e2e_batch(ctx, prop, [small], suite + "_final")
            pick = [(nm, s2, c2, v2, d2) for nm, s2, c2, v2, d2 in objs2[0]
                    if s2 >= 2 and (s2 > 3 or kind_of(prop, s2, c2, v2) == kind)]
            if pick:
                nm, s2, c2, v2, d2 = pick[0]
                report(ctx, prop, suite, kind, c2, v2, dict(case=names[k] if names else None, target=nm, **small), d2,
                       shrunk_from=dict(streams=len(inp["streams"]), utilities=len(inp["utilities"])))
            else:
                report(ctx, prop, suite, kind, codes, v, dict(case=names[k] if names else None, target=name, **inp), data)
        if worst == 0:
            agree += 1
        else:
            mism += 1 if anymism else 0
            bad += 1 if worst == 3 else 0
        ctx.sample(dict(suite=suite, streams=[(s["zone"], s["t_supply"], s["t_target"], s["heat_flow"], s["dt_cont"]) for s in inp["streams"]],
                        utilities=[(u["name"], u["type"], u["t_supply"], u["t_target"], u["dt_cont"]) for u in inp["utilities"]],
                        duties={nm: dict(hot=list(zip(d["names_h"], d["dh"])), cold=list(zip(d["names_c"], d["dc"])), Qh=d["qh"], Qc=d["qc"])
                                for nm, st, _, _, d in objs if nm.endswith("Direct Integration") and "dh" in d}), limit=5)
    ctx.suite(suite, cases=len(inputs), agree=agree, mismatch=mism, property_false=bad, fragile_skipped=frag)
    if prop == "C04":
        link_suite(ctx, inputs, res, suite)


HDR_POCKETS = ("From OP Require Import gen.Consts model.Base model.Pockets.\nRequire Import Coq.QArith.QArith.\nFrom Coq Require Import ZArith List.\n"
               "Import ListNotations.\nLocal Open Scope Q_scope.\n")


def link_suite(ctx, inputs, res, suite):
    """C04 compares the utility profile with the column the implementation calls H_net_actual.  That this column IS the pocket-free
    process GCC is decided here, independently of the code that produced it: at every row it must be the running minimum of the
    observed H_net towards the far end of its side (specification spec_np of the pocket model, 4*tol slack, as in C07)."""
    cf = CaseFile(ctx, suite + "_link", HDR_POCKETS, shard=60)
    meta = []
    for inp, objs in zip(inputs, res):
        for name, st, codes, v, data in objs:
            if name.endswith("Direct Integration") and isinstance(data, dict) and "Hn" in data and len(data["T"]) == len(data["Hn"]) == len(data["HA"]):
                if all(a > b for a, b in zip(data["T"], data["T"][1:])):
                    cf.add(f"[P_rows_slack tol (1 # 1000000000) {qlist(data['T'])} {qlist(data['Hn'])} {qlist(data['T'])} {qlist(data['HA'])}]")
                    meta.append((inp, name, data))
    agree = bad = 0
    for (inp, name, data), v in zip(meta, cf.run()):
        ctx.evaluations += 1
        if v == [0]:
            agree += 1
            continue
        bad += 1
        if bad <= 2:
            ctx.fail("actual-gcc-not-pocket-free", f"{name}: the column H_net_actual that utility targeting is fed is not the pocket-free form (running "
                     "minimum towards the far end of each side) of the table's own H_net", suite=suite + "_link",
                     input=dict(target=name, **inp), impl_output=dict(T=data["T"], H_net=data["Hn"], H_net_actual=data["HA"]),
                     predicate="P_rows_slack (spec_np at every row, 4*tol slack)")
    ctx.suite(suite + "_link", cases=len(meta), agree=agree, mismatch=0, property_false=bad, fragile_skipped=0)


def run_stage_suite(ctx, prop, cases, suite):
    res = judge_stage_batch(ctx, prop, cases, suite)
    agree = mism = bad = frag = 0
    reported = {}
    for case, (st, codes, v, o) in zip(cases, res):
        ctx.evaluations += 1
        ctx.count("stage_" + ("monotone" if case["mono"] else "arbitrary_profile"))
        if st == 0:
            agree += 1
            if len(case["hot"]) + len(case["cold"]) >= 2 and isinstance(o, dict) and sum(1 for q in o["dh"] + o["dc"] if q > 1e-6) >= 2:
                ctx.nontrivial_case(("stage", json.dumps(case, sort_keys=True)))
            continue
        if st == 1:
            frag += 1
            continue
        kind = "stage-raises" if st == 4 else kind_of(prop, st, codes, v)
        if st == 2:
            mism += 1
        else:
            bad += 1
        ctx.count("failing_" + kind)
        n = reported.get(kind, 0)
        reported[kind] = n + 1
        if n >= 2:
            continue
        known_open = any(k.get("kind") == kind and not k.get("fixed") for k in ctx.known)
        small = shrink_stage(ctx, prop, case, kind) if st in (2, 3) and not known_open and n == 0 else case
        st2, c2, v2, o2 = judge_stage_batch(ctx, prop, [small], suite + "_final")[0]
        if st2 >= 2:
            report(ctx, prop, suite, kind, c2, v2, dict(stage=small), o2, shrunk_from=dict(rows=len(case["T"])))
        else:
            report(ctx, prop, suite, kind, codes, v, dict(stage=case), o)
    ctx.suite(suite, cases=len(cases), agree=agree, mismatch=mism, property_false=bad, fragile_skipped=frag)


def run_property(ctx, prop):
    corpus = load_corpus("c03_c04_utility.json")
    run_e2e_suite(ctx, prop, [c["input"] for c in corpus], "corpus", names=[c["name"] for c in corpus])
    n_stage = ctx.budget(260, 4000)
    run_stage_suite(ctx, prop, [gen_stage(ctx.rng) for _ in range(n_stage)], "stage:get_utility_targets")
    n_e2e = ctx.budget(220, 3000)
    chunk = 500
    left = n_e2e
    part = 0
    while left > 0:
        m = min(chunk, left)
        run_e2e_suite(ctx, prop, [gen_e2e(ctx.rng) for _ in range(m)], "end-to-end" + (f"#{part}" if n_e2e > chunk else ""))
        left -= m
        part += 1


def replay_case(ctx, prop, data):
    inp = data["input"]
    if "stage" in inp:
        st, codes, v, o = judge_stage_batch(ctx, prop, [inp["stage"]], "replay")[0]
        print(json.dumps(dict(status=st, clauses=[CODE.get(c, c) for c in codes], verdict=v, observed=o), indent=1, default=str))
        return
    case = dict(streams=inp["streams"], utilities=inp["utilities"])
    if inp.get("options"):
        case["options"] = inp["options"]
    objs, _ = judge_e2e_batch(ctx, prop, [case], "replay")
    for nm, st, codes, v, d in objs[0]:
        print(json.dumps(dict(object=nm, status={0: "agree", 1: "fragile", 2: "model != implementation", 3: "property false",
                                                 4: "service raised", 5: "observation failed"}[st],
                              clauses=[CODE.get(c, c) for c in codes], verdict=v, observed=d), indent=1, default=str))
