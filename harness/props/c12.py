"""C12 -- results are invariant under equivalent descriptions of the problem (DESIGN.md 8/C12)."""
from __future__ import annotations

import copy
import re

from harness.lib import CaseFile, qlist, qlit, qopt
from harness.props import pinch_common as pc

MODEL_TARGETS = ["model/Cascade.vo", "model/Twins.vo"]
ALLOWED_AXIOMS = []
HDR = ("From OP Require Import gen.Consts model.Base model.Twins.\nRequire Import Coq.QArith.QArith.\nLocal Open Scope Q_scope.")
RULE = ("every generated problem (1-3 zones, isothermal or gliding utility ladders with distinct levels, ladders steered to the process extremes, or defaults only) is run together with "
        "its transformed twins: streams/utilities/zones permuted, one stream split at an intermediate lattice temperature, one stream "
        "split into two parallel branches, zones renamed injectively, all temperatures translated by d in {-40, 12.5, 100} or by minus a utility temperature (so that it lands on exactly 0.0), all duties "
        "scaled by k in {0.5, 2, 4, 10}, temperature axis mirrored (hot<->cold, utilities swapped; latent streams excluded because the "
        "schema cannot express a hot latent stream); EVERY record (DI of every zone, total-process, total-site) of the twin is related "
        "to the original's in coqc: targets, utility duties by name, pinch temperatures; non-trivial = twin of a problem with both hot "
        "and cold streams; distinct = distinct (problem, transformation)")
ASSUMPTIONS = ["relation judged to 1e-6 of the record's magnitude for duties and 1e-5 K for pinch temperatures",
               "theorems cover the exact deficit function and, through C01, direct-integration targets; total-site records and utility "
               "duties are covered by the twin comparison on the implementation only"]


def records(prob):
    out, mz = pc.run_service(prob)
    res = {}
    for t in out.targets:
        res[t.name] = dict(Qh=t.Qh, Qc=t.Qc, Qr=t.Qr, hu={u.name: float(u.heat_flow) for u in t.hot_utilities},
                           cu={u.name: float(u.heat_flow) for u in t.cold_utilities}, cold=t.temp_pinch.cold_temp, hot=t.temp_pinch.hot_temp)
    return res


def trec(r, hu_names, cu_names):
    return (f"(mkT {qlit(r['Qh'])} {qlit(r['Qc'])} {qlit(r['Qr'])} {qlist([r['hu'].get(n, 0.0) for n in hu_names])} "
            f"{qlist([r['cu'].get(n, 0.0) for n in cu_names])} {qopt(r['cold'])} {qopt(r['hot'])})")


# ---- transformations: each returns (twin problem, mode, k, d, record-name map, utility-name map) ----
def t_permute(rng, p, reverse=False):
    q = copy.deepcopy(p)
    if reverse:
        q["streams"].reverse()
    else:
        rng.shuffle(q["streams"])
    rng.shuffle(q["utilities"])
    return q, 0, 1.0, 0.0, None, None


def t_split_T(rng, p):
    q = copy.deepcopy(p)
    cand = [i for i, s in enumerate(q["streams"]) if abs(s["t_supply"] - s["t_target"]) >= 10.0]
    if not cand:
        return None
    i = rng.choice(cand)
    s = q["streams"][i]
    a, b = s["t_supply"], s["t_target"]
    m = a + (b - a) * rng.choice([0.25, 0.5, 0.75])
    q1 = s["heat_flow"] * abs(a - m) / abs(a - b)
    s1 = dict(s, name=s["name"] + "a", t_target=m, heat_flow=q1)
    s2 = dict(s, name=s["name"] + "b", t_supply=m, heat_flow=s["heat_flow"] - q1)
    q["streams"][i:i + 1] = [s1, s2]
    return q, 0, 1.0, 0.0, None, None


def t_split_branch(rng, p):
    q = copy.deepcopy(p)
    i = rng.randrange(len(q["streams"]))
    s = q["streams"][i]
    f = rng.choice([0.25, 0.5])
    q["streams"][i:i + 1] = [dict(s, name=s["name"] + "x", heat_flow=s["heat_flow"] * f), dict(s, name=s["name"] + "y", heat_flow=s["heat_flow"] * (1 - f))]
    return q, 0, 1.0, 0.0, None, None


def t_rename(rng, p):
    q = copy.deepcopy(p)
    zones = sorted({s["zone"] for s in q["streams"]})
    new = {z: f"R{len(zones) - i}" for i, z in enumerate(zones)}      # reverses the alphabetical order too
    for s in q["streams"]:
        s["zone"] = new[s["zone"]]
    return q, 0, 1.0, 0.0, new, None


def t_translate(rng, p, forced=None):
    q = copy.deepcopy(p)
    d = rng.choice([-40.0, 12.5, 100.0])
    if forced is not None:
        d = forced
    elif q["utilities"] and rng.random() < 0.6:
        # a shift that puts some utility temperature exactly on zero (no temperature is special: not even 0.0)
        u = rng.choice(q["utilities"])
        d = -rng.choice([u["t_supply"], u["t_target"]])
    for s in q["streams"] + q["utilities"]:
        s["t_supply"] += d
        s["t_target"] += d
    return q, 1, 1.0, d, None, None


def t_scale(rng, p):
    q = copy.deepcopy(p)
    k = rng.choice([0.5, 2.0, 4.0, 10.0])
    for s in q["streams"]:
        s["heat_flow"] *= k
    return q, 2, k, 0.0, None, None


def t_mirror(rng, p):
    if any(s["t_supply"] == s["t_target"] for s in p["streams"]):
        return None
    q = copy.deepcopy(p)
    for s in q["streams"] + q["utilities"]:
        s["t_supply"], s["t_target"] = -s["t_supply"], -s["t_target"]
    um = {}
    for u in q["utilities"]:
        u["type"] = {"Hot": "Cold", "Cold": "Hot"}.get(u["type"], u["type"])
    return q, 3, 1.0, 0.0, None, um


TWINS = [("permute", t_permute), ("split_T", t_split_T), ("branches", t_split_branch), ("rename", t_rename), ("translate", t_translate),
         ("scale", t_scale), ("mirror", t_mirror)]


def mirror_both_glide(prob, a, b):
    """Trigger of finding D52: an isothermal utility of type Both exists and the mirrored pinch temperatures differ from the
    expected ones by no more than the artificial phase-change glide (0.1 K) given to isothermal utilities."""
    if not any(u["type"] == "Both" and u["t_supply"] == u["t_target"] for u in prob["utilities"]):
        return False
    # (pinch temperatures are not constrained here: in threshold problems the marginal utility, and with it the reported
    #  site pinch, can move to another level once the 0.1 K glide points the other way)
    # duties may move by at most the glide (0.1 K) times the total heat-capacity flow rate of the problem
    cp = sum(s["heat_flow"] / abs(s["t_supply"] - s["t_target"]) for s in prob["streams"] if s["t_supply"] != s["t_target"])
    lim = 0.1 * cp + 1e-6
    return (abs(b["Qh"] - a["Qc"]) <= lim and abs(b["Qc"] - a["Qh"]) <= lim and abs(b["Qr"] - a["Qr"]) <= lim
            and abs(sum(b["hu"].values()) - sum(a["cu"].values())) <= lim and abs(sum(b["cu"].values()) - sum(a["hu"].values())) <= lim)


def real_supply_tie(prob):
    """Trigger of finding D61 inside a twin comparison: two utilities of one side whose REAL supply temperatures coincide (to 1e-9) while
    their shifted levels differ -- the visiting order (real supply temperature) is then decided by rounding noise and the duties
    move between them (typically: an isothermal `Both` utility with its 0.1 K artificial glide against the default utility)."""
    try:
        out, mz = pc.run_service(prob)
    except Exception:  # noqa: BLE001
        return False
    for coll, star in ((mz.hot_utilities, "t_max_star"), (mz.cold_utilities, "t_min_star")):
        us = [(float(u.t_supply), float(getattr(u, star))) for u in coll]
        for i in range(len(us)):
            for j in range(i + 1, len(us)):
                if abs(us[i][0] - us[j][0]) <= 1e-9 * max(1.0, abs(us[i][0])) and abs(us[i][1] - us[j][1]) > 1e-6:
                    return True
    return False


def same_key_streams(prob):
    """Trigger of finding D57: two input streams share (zone, name), the only key the code sorts by before generating O<k> zones."""
    keys = [(x["zone"], x["name"]) for x in prob["streams"]]
    return len(set(keys)) < len(keys)


def grid_slack(prob, mode, d):
    """Translating by an amount that is not a multiple of 1e-6 K moves every temperature to another place inside its cell of the
    6-decimal grid: each stream end is rounded differently and the integrated duty of a stream changes by up to 2e-6 K x CP
    (0.04 kW for a 5 kW stream 0.000125 K wide).  That is the resolution of the code's grid (tol = 1e-6 K), not a dependence on the
    temperature level; lattice translations (-40, 12.5, 100, minus a 6-decimal utility level) get no allowance."""
    from fractions import Fraction as Fr
    if mode != 1 or (Fr(d) * 10 ** 6).denominator == 1:
        return 0.0
    cp = 0.0
    for s in prob["streams"]:
        span = abs(s["t_supply"] - s["t_target"])
        cp += abs(s["heat_flow"]) / (span if span > 0 else 0.01)     # isothermal streams are given a 0.01 K glide by the code
    return 2e-6 * cp


def undersupplied_cold_utility(problem, recs):
    """Trigger of finding D24 inside a twin comparison: a user utility usable as cold utility exists and some direct-integration
    record lists less cold duty than its Qc while its hot side closes and no default cold utility carries duty."""
    if not any(u["type"] in ("Cold", "Both") for u in problem["utilities"]):
        return False
    for name, r in recs.items():
        if name.endswith("Direct Integration"):
            if sum(r["cu"].values()) < r["Qc"] - 1e-6 and abs(sum(r["hu"].values()) - r["Qh"]) <= 1e-6 * max(1.0, r["Qh"]) \
                    and r["cu"].get("CU", 0.0) <= 1e-9:
                return True
    return False


def _inexact(problem):
    """True when the first arithmetic step of the implementation (temperature -/+ dt_cont) is not exact in binary floating point
    for some stream or utility of the description: then two levels that are equal as real numbers may differ by an ulp."""
    from fractions import Fraction as Fr
    for s in problem["streams"] + problem["utilities"]:
        for t in (s["t_supply"], s["t_target"]):
            for sg in (1.0, -1.0):
                if Fr(t) + Fr(sg * s["dt_cont"]) != Fr(t + sg * s["dt_cont"]):
                    return True
    return False


def knife_edge(prob, twin, ra):
    """A failing twin comparison is not evidence against the property when (1) the original sits on an exact tie -- moving every
    utility level by a relative 2^-50 (about 0.2 ulp of a picokelvin, far below any tolerance of the code) changes a duty or a
    target -- and (2) the shifted temperatures of the twin or of the original are not exactly representable, so that the twin the
    implementation sees is not the exact image of the original.  Zero stays zero under the relative nudge, so a special-cased
    temperature in the twin is not hidden by this filter (the twin is never nudged)."""
    if not (_inexact(prob) or _inexact(twin)):
        return False
    for sgn in (1, -1):
        pp = copy.deepcopy(prob)
        for u in pp["utilities"]:
            for f in ("t_supply", "t_target"):
                u[f] *= (1 + sgn * 2.0 ** -50)
        try:
            rn = records(pp)
        except Exception:  # noqa: BLE001
            return True
        for name, a in ra.items():
            b = rn.get(name)
            if b is None:
                return True
            sc = 1e-6 * max(1.0, a["Qh"], a["Qc"])
            if abs(a["Qh"] - b["Qh"]) > sc or abs(a["Qc"] - b["Qc"]) > sc:
                return True
            for side in ("hu", "cu"):
                for n in set(a[side]) | set(b[side]):
                    if abs(a[side].get(n, 0.0) - b[side].get(n, 0.0)) > sc:
                        return True
    return False


def _straddling_hot_utility(problem):
    """A hot-typed user utility with a glide whose supply end reaches the hottest shifted cold-stream temperature while its target
    end lies STRICTLY below it (equality is accepted by the code's >= test and is not part of the finding)."""
    tops = [max(s["t_supply"], s["t_target"]) + s["dt_cont"] for s in problem["streams"] if s["t_supply"] <= s["t_target"]]
    if not tops:
        return False
    lim = max(tops)
    for u in problem["utilities"]:
        if u["type"] in ("Hot", "Both"):
            # an isothermal utility is given the artificial 0.1 K glide (target = supply - DT_PHASE_CHANGE for a hot one)
            g = 0.1 if u["t_supply"] == u["t_target"] else 0.0
            lo, hi = min(u["t_supply"], u["t_target"]) - g - u["dt_cont"], max(u["t_supply"], u["t_target"]) - u["dt_cont"]
            if lo < lim - 1e-9 and hi >= lim:
                return True
    return False


def mirror_reach_asymmetry(prob, a, b, twin=None):
    """Trigger of finding D55: in the original or in its mirror image a gliding hot-typed utility straddles the process extreme
    (accepted by the cold-side supply-end test of the other description, rejected by the hot-side target-end test), the three
    targets do follow the mirror relation, and a default utility carries duty in exactly one of the two descriptions."""
    if not (_straddling_hot_utility(prob) or (twin is not None and _straddling_hot_utility(twin))):
        return False
    tol = 1e-6 * max(1.0, abs(a["Qh"]) + abs(a["Qc"]) + abs(a["Qr"]))
    if not (abs(b["Qh"] - a["Qc"]) <= tol and abs(b["Qc"] - a["Qh"]) <= tol and abs(b["Qr"] - a["Qr"]) <= tol):
        return False
    d = lambda r, side, nm: r[side].get(nm, 0.0) > tol        # noqa: E731
    return (d(a, "cu", "CU") != d(b, "hu", "HU")) or (d(a, "hu", "HU") != d(b, "cu", "CU"))


def map_record_name(name, zmap):
    if not zmap:
        return name
    z, _, kind = name.rpartition("/")
    return f"{zmap.get(z, z)}/{kind}"


def run(ctx):
    n = ctx.budget(45, 1500)
    cf = CaseFile(ctx, "twins", HDR, shard=60)
    meta = []
    base = [(dict(streams=[dict(zone="A", name="h", t_supply=200.0, t_target=100.0, heat_flow=100.0, dt_cont=10.0, htc=1.0)], utilities=[]), None),
            # D52 witness: isothermal Both utility, mirror image off by the 0.1 K artificial glide
            (dict(streams=[dict(zone="P0", name="S0", t_supply=300.0, t_target=235.0, heat_flow=16.25, dt_cont=5.0, htc=1.0),
                           dict(zone="P0", name="S1", t_supply=165.0, t_target=220.0, heat_flow=110.0, dt_cont=2.5, htc=2.0)],
                  utilities=[dict(name="TopU", type="Both", t_supply=285.0, t_target=285.0, heat_flow=0.0, dt_cont=10.0, htc=1.0, price=30.0),
                             dict(name="BotU", type="Cold", t_supply=162.5, t_target=162.5, heat_flow=0.0, dt_cont=5.0, htc=1.0, price=2.0)]), None)]
    # D24 witness (open finding, listed for C12): a gliding cold utility that passes the reach test on its supply end but is cut at its
    # target end leaves the zone undersupplied; the mirror image gets a default hot utility instead
    base.append((dict(streams=[dict(zone="P0", name="S0_0", t_supply=130.0, t_target=210.0, heat_flow=100.0, dt_cont=0.0, htc=1.0),
                               dict(zone="P0", name="S1_0", t_supply=115.0, t_target=114.9995, heat_flow=40.0, dt_cont=0.0, htc=1.0)],
                      utilities=[dict(name="HPS", type="Hot", t_supply=217.0, t_target=215.0, heat_flow=0.0, dt_cont=5.0, htc=1.0, price=30.0),
                                 dict(name="LPS", type="Hot", t_supply=164.49975, t_target=162.49975, heat_flow=0.0, dt_cont=5.0, htc=1.0, price=20.0),
                                 dict(name="CW", type="Cold", t_supply=102.4995, t_target=114.4995, heat_flow=0.0, dt_cont=2.5, htc=1.0, price=2.0)]), None))
    # D57 witness (open finding): same (zone, name) twice; with unit-operation targeting the records O1/O2 swap with the listing order
    base.append((dict(streams=[dict(zone="A", name="S", t_supply=200.0, t_target=100.0, heat_flow=1000.0, dt_cont=5.0, htc=1.0),
                               dict(zone="A", name="S", t_supply=50.0, t_target=150.0, heat_flow=800.0, dt_cont=5.0, htc=1.0)],
                      utilities=[], options=dict(DO_DIRECT_OPERATION_TARGETING=True)), dict(permute_reverse=True, only=["permute"])))
    # D61 witness (open finding): isothermal Both utility (302.5 + 0.1 K artificial glide, dt 10) and the default HU (297.6 + 5) have the
    # same real supply temperature 302.6 but different shifted levels; translated by -300 the visiting order flips and the default
    # utility takes the whole duty
    base.append((dict(streams=[dict(zone="P1", name="C", t_supply=21.5, t_target=295.0, heat_flow=547.0, dt_cont=2.5, htc=0.5),
                               dict(zone="P1", name="H", t_supply=258.5, t_target=177.0, heat_flow=101.875, dt_cont=5.0, htc=2.0)],
                      utilities=[dict(name="TopU", type="Both", t_supply=302.5, t_target=302.5, heat_flow=0.0, dt_cont=10.0, htc=1.0, price=30.0)]),
                 dict(translate_d=-300.0, only=["translate"])))
    # two cold utilities whose glides nest (cooling water 12 -> 36, tempered water 20 -> 26): the ladder must be ranked the same way as its mirror image
    base.append((dict(streams=[dict(zone="Plant", name="H1", t_supply=160.0, t_target=40.0, heat_flow=2400.0, dt_cont=5.0, htc=1.0),
                               dict(zone="Plant", name="H2", t_supply=120.0, t_target=45.0, heat_flow=1500.0, dt_cont=5.0, htc=1.0),
                               dict(zone="Plant", name="C1", t_supply=60.0, t_target=140.0, heat_flow=1600.0, dt_cont=5.0, htc=1.0),
                               dict(zone="Plant", name="C2", t_supply=90.0, t_target=130.0, heat_flow=1200.0, dt_cont=5.0, htc=1.0)],
                      utilities=[dict(name="HP", type="Hot", t_supply=200.0, t_target=199.0, heat_flow=0.0, dt_cont=5.0, htc=1.0, price=30.0),
                                 dict(name="CW", type="Cold", t_supply=12.0, t_target=36.0, heat_flow=0.0, dt_cont=5.0, htc=1.0, price=2.0),
                                 dict(name="TW", type="Cold", t_supply=20.0, t_target=26.0, heat_flow=0.0, dt_cont=5.0, htc=1.0, price=3.0)]),
                 dict(only=["mirror", "translate", "permute"])))
    # regression of a corrected false alarm (DESIGN 12.3 item 12): a 0.000125 K wide stream (CP 40000) translated by an off-lattice amount
    base.append((dict(streams=[dict(zone="P0", name="S0_0", t_supply=195.0, t_target=55.0, heat_flow=105.0, dt_cont=5.0, htc=0.5),
                               dict(zone="P0", name="N1_0", t_supply=60.0, t_target=190.0, heat_flow=260.0, dt_cont=5.0, htc=1.0),
                               dict(zone="P0", name="S2_0", t_supply=275.0, t_target=275.000125, heat_flow=5.0, dt_cont=5.0, htc=1.0)],
                      utilities=[dict(name="HPS", type="Hot", t_supply=283.000125, t_target=282.500125, heat_flow=0.0, dt_cont=2.5, htc=1.0, price=30.0),
                                 dict(name="LPS", type="Hot", t_supply=165.5000625, t_target=165.0000625, heat_flow=0.0, dt_cont=2.5, htc=1.0, price=20.0),
                                 dict(name="CW", type="Cold", t_supply=37.5, t_target=48.0, heat_flow=0.0, dt_cont=2.5, htc=1.0, price=2.0)]),
                 dict(translate_d=-165.0000625)))
    for _ in range(n):
        base.append(pc.gen_problem(ctx.rng, nzones=ctx.rng.choice([1, 1, 2, 3]), regime=ctx.rng.choice(["none", "iso", "multi", "glide", "steered", "limit", "limit"]), nmax=5))
    for prob, m in base:
        try:
            ra = records(prob)
        except Exception as e:  # noqa: BLE001
            ctx.fail("service-raises", f"{type(e).__name__}: {e}", suite="twins", input=prob, predicate="service returns")
            continue
        for tname, fn in TWINS:
            if m and "only" in m and tname not in m["only"]:
                continue          # (unit-operation records O<k> are not comparable across a split: the pinned case is about the order only)
            if tname == "translate" and m and "translate_d" in m:
                tw = fn(ctx.rng, prob, m["translate_d"])
            elif tname == "permute" and m and m.get("permute_reverse"):
                tw = fn(ctx.rng, prob, reverse=True)
            else:
                tw = fn(ctx.rng, prob)
            if tw is None:
                continue
            q, mode, k, d, zmap, umap = tw
            try:
                rb = records(q)
            except Exception as e:  # noqa: BLE001
                ctx.fail("twin-raises", f"{tname}: {type(e).__name__}: {e}", suite="twins", input=dict(problem=prob, twin=q, transformation=tname),
                         predicate="twin analysable")
                continue
            for name, a in ra.items():
                nb = map_record_name(name, zmap)
                if nb not in rb:
                    ctx.fail("twin-record-missing", f"{tname}: record {nb} missing in the twin", suite="twins",
                             input=dict(problem=prob, twin=q, transformation=tname), impl_output=sorted(rb), predicate="same record set")
                    continue
                b = rb[nb]
                if mode == 3:
                    # mirrored: user utilities keep their names but change side; generated defaults are matched by side totals
                    # mirrored: user utilities keep their names but change side; the generated defaults HU <-> CU swap names too.
                    # Compare utility by utility: a.hu[n] with b.cu[mirror(n)], a.cu[n] with b.hu[mirror(n)].
                    mir = lambda n: {"HU": "CU", "CU": "HU"}.get(n, n)          # noqa: E731
                    hn = sorted(set(a["hu"]) | {mir(n) for n in b["cu"]})
                    cn = sorted(set(a["cu"]) | {mir(n) for n in b["hu"]})
                    B = dict(b, hu={mir(n): v_ for n, v_ in b["hu"].items()}, cu={mir(n): v_ for n, v_ in b["cu"].items()})
                    # c12_b mode 3 relates b.hu to a.cu and b.cu to a.hu position by position
                    cf.add(f"c12_b 3 1 0 0 {trec(a, hn, cn)} {trec(B, cn, hn)}")
                else:
                    hn = sorted(set(a["hu"]) | set(b["hu"]))
                    cn = sorted(set(a["cu"]) | set(b["cu"]))
                    cf.add(f"c12_b {mode} {qlit(k)} {qlit(d)} {qlit(grid_slack(prob, mode, d))} {trec(a, hn, cn)} {trec(b, hn, cn)}")
                meta.append((prob, q, tname, name, a, b, ra, rb))
    agree = bad = frag = 0
    for (prob, q, tname, name, a, b, ra, rb), v in zip(meta, cf.run()):
        ctx.evaluations += 1
        ctx.count(f"{tname}_{name.rpartition('/')[2].replace(' ', '')}")
        kinds = {s["t_supply"] > s["t_target"] for s in prob["streams"]}
        if len(kinds) == 2:
            ctx.nontrivial_case((tname, name, repr(prob["streams"])))
        ctx.sample(dict(transformation=tname, record=name, original=(a["Qh"], a["Qc"], a["Qr"]), twin=(b["Qh"], b["Qc"], b["Qr"])), limit=7)
        if v[0] == 0:
            agree += 1
            continue
        if tname == "permute" and re.match(r"O\d+/", name) and same_key_streams(prob):
            ctx.fail("permute-same-key-generated-names", f"permute: record {name}: two streams with the same zone and name swap their generated "
                     "unit-operation zones O<k> when listed in the other order", suite="twins",
                     input=dict(problem=prob, twin=q, transformation=tname, record=name), impl_output=dict(original=a, twin=b), predicate="c12_b")
            continue
        if undersupplied_cold_utility(prob, ra) or undersupplied_cold_utility(q, rb):
            ctx.fail("glide-utility-undersupplied", f"{tname}: record {name}: one of the two descriptions has a zone whose cold user utility is "
                     "undersupplied (finding D24), so the twin relation cannot hold", suite="twins",
                     input=dict(problem=prob, twin=q, transformation=tname, record=name), impl_output=dict(original=a, twin=b), predicate="c12_b")
            continue
        if tname == "mirror" and mirror_reach_asymmetry(prob, a, b, q):
            ctx.fail("mirror-reach-criterion-asymmetry", f"mirror: record {name}: a gliding utility is accepted as reaching on one side but replaced by "
                     "a default utility on the mirrored side (hot test uses the target end, cold test the supply end)", suite="twins",
                     input=dict(problem=prob, twin=q, transformation=tname, record=name), impl_output=dict(original=a, twin=b), predicate="c12_b")
            continue
        if tname == "mirror" and mirror_both_glide(prob, a, b):
            ctx.fail("mirror-both-isothermal-glide", f"mirror: pinch temperature of record {name} is off by the 0.1 K artificial glide of an "
                     "isothermal Both utility", suite="twins", input=dict(problem=prob, twin=q, transformation=tname, record=name),
                     impl_output=dict(original=a, twin=b), predicate="c12_b")
            continue
        if v[1:2] == [122] and (real_supply_tie(prob) or real_supply_tie(q)):
            ctx.fail("not-lowest-grade-first-mixed-contributions", f"{tname}: record {name}: duties move between two utilities whose real supply "
                     "temperatures coincide while their shifted levels differ (visiting order decided by rounding noise: finding D61)",
                     suite="twins", input=dict(problem=prob, twin=q, transformation=tname, record=name), impl_output=dict(original=a, twin=b),
                     predicate="c12_b")
            continue
        if knife_edge(prob, q, ra):
            frag += 1
            continue
        if bad < 3:
            clause = {121: "targets", 122: "utility duties", 123: "pinch temperatures"}.get(v[1], str(v))
            ctx.fail(f"twin-{tname}", f"{tname}: {clause} of record {name} do not follow the transformation", suite="twins",
                     input=dict(problem=prob, twin=q, transformation=tname, record=name), impl_output=dict(original=a, twin=b), predicate=f"c12_b {v}")
        bad += 1
    ctx.suite("twins", cases=len(meta), agree=agree, property_false=bad, mismatch=0, fragile_skipped=frag)


def replay(ctx, data):
    import json
    i = data["input"]
    print(json.dumps(dict(original=records(i["problem"]), twin=records(i["twin"])), indent=1))
