"""C06 -- reported pinch temperatures are where the exact cascade is pinched (DESIGN.md 8/C06)."""
from __future__ import annotations

from harness.lib import CaseFile, coq_bool, qlist, qlit, qopt
from harness.props import pinch_common as pc
from harness.props import c01

MODEL_TARGETS = ["model/Cascade.vo", "model/CascadeE2E.vo", "model/Pinch.vo"]
ALLOWED_AXIOMS = []
HDR = ("From OP Require Import gen.Consts model.Base model.Stream model.Cascade model.CascadeE2E model.Pinch.\n"
       "Require Import Coq.QArith.QArith.\nLocal Open Scope Q_scope.")
RULE = ("stage suite: ProblemTable.pinch_idx on random residual columns of 1-10 rows over {0, +-5e-7, 1e-6, 1.000001e-6, 9.99999e-7, "
        "0.125, 2.5, 10} with zero runs forced at either end and in the middle; values inside the tolerance band are classified "
        "fragile when the model at tol*(1+-1e-3) disagrees with itself; end-to-end suite: temp_pinch of every '<zone>/Direct "
        "Integration' record against the exact residual Qh* - D(T) evaluated in Coq at the reported temperatures and at every "
        "stream/utility end point; non-trivial = column with a zero and a non-zero (stage) / zone with both hot and cold streams "
        "(e2e); distinct = distinct column / stream multiset")
ASSUMPTIONS = c01.ASSUMPTIONS + ["'zero' on the implementation side means |exact residual| <= 2e-6 + 1e-9*scale (the code's own test is < 1e-6 on floats)"]
VALS = [0.0, 0.0, 0.0, 5e-7, -5e-7, 1e-6, 1.000001e-6, 9.99999e-7, 0.125, 2.5, 10.0]


def gen_column(rng):
    n = rng.randint(1, 10)
    h = [rng.choice(VALS) for _ in range(n)]
    if rng.random() < 0.3:
        for i in range(rng.randint(1, max(1, n // 2))):
            h[i] = 0.0
    if rng.random() < 0.3:
        for i in range(rng.randint(1, max(1, n // 2))):
            h[n - 1 - i] = 0.0
    return h


def stage_suite(ctx):
    from OpenPinch.classes import ProblemTable
    from OpenPinch.lib import PT
    n = ctx.budget(1000, 40000)
    cols = [[0.0, 0.0, 0.0], [0.0, 0.0, 5.0, 0.0, 3.0, 0.0, 0.0], [2.0, 1.0, 0.0], [0.0, 1.0, 2.0], [1.0, 2.0, 3.0], [0.0]]
    cols += [gen_column(ctx.rng) for _ in range(n)]
    cf = CaseFile(ctx, "pinch_idx", HDR, shard=250)
    impl = []
    for h in cols:
        pt = ProblemTable({PT.T.value: list(range(len(h), 0, -1)), PT.H_NET.value: h})
        rh, rc, v = pt.pinch_idx()
        impl.append((int(rh), int(rc), bool(v)))
        cf.add(f"judge_pinch_stage {qlist(h)} ({int(rh)}%nat, {int(rc)}%nat, {coq_bool(v)})")
    agree = frag = mism = bad = 0
    for h, im, v in zip(cols, impl, cf.run()):
        ctx.evaluations += 1
        has, allz = any(abs(x) < 1e-6 for x in h), all(abs(x) < 1e-6 for x in h)
        ctx.count("col_" + ("allzero" if allz else "nozero" if not has else "top_run" if abs(h[0]) < 1e-6 else "bottom_run" if abs(h[-1]) < 1e-6 else "interior"))
        if has and not allz:
            ctx.nontrivial_case(("col", tuple(h)))
        if v[0] == 0:
            agree += 1
        elif v[0] == 1:
            frag += 1
        elif v[0] == 3 and v[1] == 618:
            ctx.fail("pinch-absent-all-zero", "identically-zero residual column reports no pinch", suite="pinch_idx",
                     input=dict(h=h), impl_output=im, predicate="pinch_rows_b")
        else:
            if mism + bad < 3:
                ctx.fail("pinch-rows-wrong" if v[0] == 3 else "pinch-model-mismatch", f"pinch_idx verdict {v}", suite="pinch_idx",
                         input=dict(h=h), impl_output=im, predicate="pinch_rows_b / agree_idx")
            if v[0] == 3:
                bad += 1
            else:
                mism += 1
    ctx.suite("pinch_idx", cases=len(cols), agree=agree, fragile_skipped=frag, mismatch=mism, property_false=bad)


def gen_near_pinch(rng):
    """Two candidate pinches whose residuals differ by a sliver d of duty, 5e-6 <= |d| <= 4.5e-5 kW: well above the zero tolerance of the
    code (1e-6 kW) and below the 4-decimal display rounding.  Only the true zero is a pinch."""
    t0 = rng.choice([40.0, 60.0, 100.0])
    w1, w2, w3 = (rng.choice([20.0, 30.0, 50.0]) for _ in range(3))
    a, b, c = t0 + w1, t0 + w1 + w2, t0 + w1 + w2 + w3          # t0 < a < b < c
    q = rng.choice([16.0, 40.0, 125.0])
    d = rng.choice([5e-6, 1e-5, 3e-5, 4.5e-5]) * rng.choice([1, -1])
    dt = rng.choice([0.0, 2.5])
    S = lambda nm, ts, tt, h: dict(zone="Z", name=nm, t_supply=ts, t_target=tt, heat_flow=h, dt_cont=dt, htc=1.0)   # noqa: E731
    streams = [S("ctop", b - dt, c - dt, rng.choice([10.0, 20.0])),           # deficit above b
               S("cmid", a - dt, b - dt, q + d), S("hmid", b + dt, a + dt, q),  # between a and b: net deficit d (pinch at a if d > 0, at b if d < 0)
               S("hbot", a + dt, t0 + dt, rng.choice([50.0, 80.0]))]          # surplus below a
    rng.shuffle(streams)
    return dict(streams=streams, utilities=[]), dict(zones=1, shapes=["near_pinch"], regime="none")


def e2e_suite(ctx):
    n = ctx.budget(120, 4000)
    probs = []
    bal = dict(streams=[dict(zone="Z", name="h", t_supply=100.0, t_target=50.0, heat_flow=50.0, dt_cont=0.0, htc=1.0),
                        dict(zone="Z", name="c", t_supply=50.0, t_target=100.0, heat_flow=50.0, dt_cont=0.0, htc=1.0)], utilities=[])
    probs.append((bal, dict(zones=1, shapes=["balanced_everywhere"], regime="none")))          # D18 witness end to end
    for i in range(n):
        if i % 6 == 5:
            probs.append(gen_near_pinch(ctx.rng))
            continue
        prob, m = pc.gen_problem(ctx.rng, nmax=6)
        if i % 4 == 0:
            # sub-ambient variant: translate everything so that one shifted stream end point (a pinch candidate) is exactly 0.0
            s0 = ctx.rng.choice(prob["streams"])
            cold = s0["t_supply"] <= s0["t_target"]
            e = ctx.rng.choice([s0["t_supply"], s0["t_target"]]) + (s0["dt_cont"] if cold else -s0["dt_cont"])
            for x in prob["streams"] + prob["utilities"]:
                x["t_supply"] -= e
                x["t_target"] -= e
            m = dict(m, shapes=m["shapes"] + ["zero_level"])
        probs.append((prob, m))
    # pinned: a single pinch exactly at T* = 0.0 (cold stream supplied at -5 with dt_cont 5)
    probs.append((dict(streams=[dict(zone="Z", name="c", t_supply=-5.0, t_target=60.0, heat_flow=130.0, dt_cont=5.0, htc=1.0),
                                dict(zone="Z", name="h", t_supply=45.0, t_target=-35.0, heat_flow=240.0, dt_cont=5.0, htc=1.0)], utilities=[]),
                  dict(zones=1, shapes=["zero_level"], regime="none")))
    cf = CaseFile(ctx, "e2e_pinch", HDR, shard=40)
    meta = []
    for prob, m in probs:
        try:
            out, mz = pc.run_service(prob)
        except Exception as e:  # noqa: BLE001
            ctx.fail("service-raises", f"{type(e).__name__}: {e}", suite="e2e_pinch", input=prob, predicate="service returns")
            continue
        recs = {t.name: t for t in out.targets}
        for path, z in pc.walk_zones(mz):
            k = pc.di_key(z)
            if k is None or k not in recs:
                continue
            xs = c01.zone_inputs(prob, z)
            tp = recs[k].temp_pinch
            # the two places the property names must tell the same story: the serialised record and the zone's own target object
            et = z.targets[k]
            ser = (tp.cold_temp, tp.hot_temp if tp.hot_temp is not None else tp.cold_temp)
            own = (getattr(et, "cold_pinch", None), getattr(et, "hot_pinch", None))
            if ser != own:
                ctx.fail("pinch-record-disagrees", f"record {k}: TargetResults.temp_pinch {ser} differs from EnergyTarget cold/hot pinch {own}",
                         suite="e2e_pinch", input=dict(problem=prob, record=k), impl_output=dict(serialised=ser, energy_target=own),
                         predicate="temp_pinch = (cold_pinch, hot_pinch)")
            cands = sorted({float(t) for s in list(z.hot_streams) + list(z.cold_streams) + list(z.hot_utilities) + list(z.cold_utilities)
                            for t in (s.t_min_star, s.t_max_star)}, reverse=True)
            cands = [t for t in cands if abs(t) < 1e8]          # default-utility sentinels are not process temperatures
            xsq = "[" + "; ".join(c01.coq_sin(s) for s in xs) + "]"
            cf.add(f"(let hs := hot_views shifted_view {xsq} in let cs := cold_views shifted_view {xsq} in "
                   f"c06_b (Qred ((2 # 1000000) + eps9 * dscale hs cs)) hs cs {qlist(cands)} {qopt(tp.cold_temp)} {qopt(tp.hot_temp)})")
            meta.append((prob, k, xs, (tp.cold_temp, tp.hot_temp), cands, m))
    agree = bad = 0
    for (prob, k, xs, tp, cands, m), v in zip(meta, cf.run()):
        ctx.evaluations += 1
        ctx.count("pinch_" + ("absent" if tp[0] is None else "single" if tp[1] is None else "pair"))
        ctx.nontrivial_case(("e2e", k, tuple((s["t_supply"], s["t_target"], s["heat_flow"], s["dt_cont"]) for s in xs)))
        ctx.sample(dict(suite="e2e_pinch", record=k, temp_pinch=tp, candidates=len(cands)), limit=5)
        if v[0] == 0:
            agree += 1
        elif v[1] == 618:
            ctx.fail("pinch-absent-all-zero", f"record {k}: residual is zero at every temperature, pinch reported absent", suite="e2e_pinch",
                     input=dict(problem=prob, record=k), impl_output=tp, predicate="c06_b")
        else:
            if bad < 3:
                clause = {61: "absent although the residual has a zero", 62: "reported temperature is not a zero of the residual",
                          63: "hot pinch colder than cold pinch", 64: "a zero outside [cold,hot] not in an end run",
                          65: "threshold side: pinch is not the process-side end of the end run"}.get(v[1], str(v))
                ctx.fail("pinch-temperature-wrong", f"record {k}: {clause}", suite="e2e_pinch",
                         input=dict(problem=prob, record=k, zone_streams=xs, candidates=cands), impl_output=tp, predicate=f"c06_b {v}")
            bad += 1
    ctx.suite("e2e_pinch", cases=len(meta), agree=agree, property_false=bad, mismatch=0, fragile_skipped=0)


def retarget_suite(ctx):
    """What-if on an analysed zone tree: a stream is added to a zone's collection (and to the site's), the tree is targeted again with the
    public get_targets() hook, and the pinch of the re-targeted records is judged exactly like a fresh analysis of the enlarged problem
    (and must coincide with it)."""
    from OpenPinch import get_targets, extract_results
    from OpenPinch.classes import Stream
    from OpenPinch.lib import TargetOutput
    n = ctx.budget(30, 600)
    cf = CaseFile(ctx, "retarget", HDR, shard=40)
    meta = []
    for _ in range(n):
        prob, m = pc.gen_problem(ctx.rng, nzones=ctx.rng.choice([1, 2]), regime=ctx.rng.choice(["none", "iso", "multi"]), nmax=5)
        try:
            out, mz = pc.run_service(prob)
        except Exception:  # noqa: BLE001   (judged by the e2e suite)
            continue
        zname = ctx.rng.choice(sorted({s["zone"] for s in prob["streams"]}))
        a = float(ctx.rng.randrange(30, 280, 5)) + 1.25            # end points that are not rows of the existing tables
        b = a + ctx.rng.choice([-60.0, -35.0, 40.0, 75.0])
        mean_q = sum(abs(x["heat_flow"]) for x in prob["streams"]) / len(prob["streams"])
        extra = dict(zone=zname, name="WhatIf", t_supply=a, t_target=b, heat_flow=mean_q * ctx.rng.choice([0.25, 0.5, 2.0]),   # of the problem's own magnitude
                     dt_cont=ctx.rng.choice([0.0, 2.5, 5.0]), htc=1.0)
        st = Stream(name="WhatIf", t_supply=a, t_target=b, heat_flow=extra["heat_flow"], dt_cont=extra["dt_cont"], htc=1.0, is_process_stream=True)
        z = mz.subzones[zname]
        (z.hot_streams if a > b else z.cold_streams).add(st, "O99.WhatIf")
        (mz.hot_streams if a > b else mz.cold_streams).add(st, zname + ".WhatIf")
        q = dict(prob, streams=prob["streams"] + [extra])
        try:
            fresh, _ = pc.run_service(q)
        except Exception:  # noqa: BLE001   (the enlarged problem itself is not analysable: totality is C14's statement)
            continue
        try:
            mz2 = get_targets(mz)
            out2 = TargetOutput.model_validate(extract_results(mz2))
        except Exception as e:  # noqa: BLE001
            ctx.fail("retarget-raises", f"{type(e).__name__}: {e}", suite="retarget", input=dict(problem=prob, added=extra), predicate="get_targets on an analysed tree")
            continue
        r2, r3 = {t.name: t for t in out2.targets}, {t.name: t for t in fresh.targets}
        for zz, key in ((mz2, pc.di_key(mz2)), (mz2.subzones[zname], pc.di_key(mz2.subzones[zname]))):
            if key is None or key not in r2 or key not in r3:
                continue
            tp, tf = r2[key].temp_pinch, r3[key].temp_pinch
            xs = [x for x in q["streams"] if zz is mz2 or x["zone"] == zname]
            cands = sorted({float(t) for x in list(zz.hot_streams) + list(zz.cold_streams) + list(zz.hot_utilities) + list(zz.cold_utilities)
                            for t in (x.t_min_star, x.t_max_star) if abs(float(t)) < 1e8}, reverse=True)
            xsq = "[" + "; ".join(c01.coq_sin(x) for x in xs) + "]"
            cf.add(f"(let hs := hot_views shifted_view {xsq} in let cs := cold_views shifted_view {xsq} in "
                   f"c06_b (Qred ((2 # 1000000) + eps9 * dscale hs cs)) hs cs {qlist(cands)} {qopt(tp.cold_temp)} {qopt(tp.hot_temp)})")
            meta.append((prob, extra, key, (tp.cold_temp, tp.hot_temp), (tf.cold_temp, tf.hot_temp)))
    agree = bad = 0
    for (prob, extra, key, tp, tf), v in zip(meta, cf.run()):
        ctx.evaluations += 1
        ctx.count("retarget_" + ("same_as_fresh" if tp == tf else "differs_from_fresh"))
        ctx.nontrivial_case(("retarget", key, repr(extra), repr(prob["streams"])))
        if v[0] == 0 and tp == tf:
            agree += 1
            continue
        bad += 1
        if bad <= 2:
            ctx.fail("pinch-after-retargeting", f"record {key} after adding a stream and calling get_targets again: "
                     + (f"c06_b {v}" if v[0] != 0 else f"pinch {tp} differs from a fresh analysis of the enlarged problem {tf}"),
                     suite="retarget", input=dict(problem=prob, added=extra, record=key), impl_output=dict(retargeted=tp, fresh=tf), predicate="c06_b; equal to fresh")
    ctx.suite("retarget", cases=len(meta), agree=agree, property_false=bad, mismatch=0, fragile_skipped=0)


def run(ctx):
    stage_suite(ctx)
    e2e_suite(ctx)
    retarget_suite(ctx)


def replay(ctx, data):
    import json
    print(json.dumps(data.get("input"), indent=1)[:4000])
