"""Regenerates MANIFEST.json from the table below (run by hand when a property's status changes)."""
import json
from pathlib import Path

VERIF = Path(__file__).resolve().parent.parent
TECH = "Rocq/Coq 8.16 theorems on an executable Gallina model (Q / R) + translator and in-coqc correspondence tie to /repo"

# id -> (design_ref, level text, level_note)   -- only properties with a working check appear here
CLAIMED = {
    "C01": ("DESIGN.md 8/C01",
            "Theorems (closed under the global context), for every list of hot/cold streams (lo<hi, CP>=0) on the rounding lattice and every "
            "strictly descending grid containing their end points with gaps wider than the tol*10 activity window (extra rows from "
            "utilities or insertions allowed): every row of the model cascade carries exactly the heat content of the streams above "
            "it; Qh is the supremum over ALL temperatures of the exact net deficit and is attained; Qc = Qh - cold duty + hot duty; "
            "Qr = hot duty - Qc; all three >= 0; they equal the grid-free reference maximum over the streams' own end points; for ARBITRARY "
            "(off-lattice) end points the table targets equal the reference of the streams rounded to 6 decimals; the tol*10 activity window is "
            "shown to lose heat on a narrower interval (C01_window_refuted = finding D44). Composed with the C10 zone-tree model: EVERY zone of "
            "the synthesised hierarchy (root, intermediate zones, generated leaves) runs its cascade on a permutation of the streams labelled "
            "into it, the stage is order-independent, hence its targets are the exact reference of those streams. "
            "Tie: the model table is compared cell by cell inside coqc with create_problem_table_with_t_int+problem_table_algorithm "
            "on both scales, and every '<zone>/Direct Integration' record of pinch_analysis_service is compared with the reference "
            "computed in Coq from the INPUT numbers (through the verified Stream model).",
            "Trusted: Coq kernel; hand-written model coq/model/Cascade.v validated by correspondence; constants (tol*10 window, 6-dp "
            "rounding, latent width) regenerated from /repo; float rounding not proved (targets compared to 1e-6 of total duty); zone "
            "membership of streams taken from the implementation (C10); Robust/lattice hypotheses of the theorems."),
    "C02": ("DESIGN.md 8/C02",
            "Theorems: the direct-integration record of any zone is balanced (Qh-Qc = cold duty - hot duty, Qr = hot duty - Qc, all >= 0); the "
            "sum of balanced zonal records is balanced for the union of the zones' streams (any number of zones); the two ends of the site "
            "utility cascade differ by the net utility duty for ANY duties/levels and are >= 0; hence the total-site record is balanced "
            "whenever each zone's utilities sum to its targets (C03). Tie: EVERY record the service returns is judged in coqc against the "
            "duties of the input streams it covers (targets and listed hot/cold utility duties).",
            "As C01. Total-site balance is also proved from DATA hypotheses only (per zone: Robust GCC with a pinch, utilities gridded on the "
            "pocket-free table, one extreme hot and one extreme cold utility): total-process record exactly balanced, total-site record "
            "balanced to 2n*tol; the exact zonal sum is refuted for sub-tol demand (witness), so the slack is real. Gliding cold user "
            "utilities fall outside those hypotheses (open finding D24)."),
    "C09": ("DESIGN.md 8/C09",
            "Theorems on the model of the site utility cascade (max(h)-h on the cascade of the summed utilities), any utility sets: Qh_TS <= "
            "total hot-utility duty, Qc_TS <= total cold-utility duty; if the utilities release at every temperature at least the site's net "
            "deficit above it (zonal feasibility summed over the partition) then Qh_TS >= the deficit above ANY temperature = the site's own "
            "direct-integration target (the hypothesis is reduced to zonal feasibility at the break points, C04, plus isolation); Qr_TS "
            "identity; duties additive over partitions. Tie: the three site records and all zonal DI "
            "records of every generated site are judged in coqc: additivity value-by-value and utility-by-utility, both bounds, the site DI "
            "record against the exact reference, recovery identity.",
            "As C01; the lower bound is now proved from data hypotheses only: Qh_TS >= Qh*(site) - 2n*tol and Qc_TS >= Qc*(site) - 4n*tol for n "
            "zones (per zone: Robust GCC with a pinch, utilities gridded on the pocket-free table, one extreme hot and one extreme cold "
            "utility; that the GCC column is the exact residual and that end points are rows is derived for the stage model); C04 "
            "feasibility and C03 sums are derived, not assumed; two-zone example with inter-zone recovery. Gliding user utilities stay "
            "outside (open findings D24/D39); site-grid rows closer than the window: D44."),
    "C12": ("DESIGN.md 8/C12",
            "Theorems: the exact net-deficit function is invariant at every temperature under permutation of streams, splitting a stream at "
            "an intermediate temperature or into parallel branches, translates with a uniform shift, scales with the duties, and under "
            "mirroring becomes D + hot duty - cold duty (so Qh and Qc swap); a transfer theorem moves each invariance to the attained supremum, "
            "i.e. (by C01) to the direct-integration targets. The same invariances are proved directly on the MODEL OF THE ALGORITHM (cpsum/pta/"
            "stage_model) with no robustness hypothesis: stream order gives the identical table cell by cell, translation adds d to the T column "
            "and leaves every other column identical, scaling by k>=0 multiplies every CP/dH/H cell and the three targets by k. Total-site records, utility duties and pinch temperatures are decided by "
            "running the implementation on every problem together with its seven transformed twins and relating EVERY record pair in coqc.",
            "As C01. Zone renaming (injective onto separator-free, stripped, non-empty names; site name free) and stream order are proved on the "
            "zone-tree and cascade models: corresponding zones hold the same streams and have identical tables and targets, no Robust "
            "hypothesis; the prepared tree is literally order-independent iff no two labelled streams share (zone, name) (refuted otherwise: "
            "finding D57, witness replayed on the code); zone order of the total-process sums and utility order of the site cascade are "
            "proved on the Site model. Twin comparison remains the only evidence for user trees, the other non-DI records and generated "
            "names under renaming (refuted: numbers may change). Graph series are not compared between "
            "twins (on the unchanged code the number of emitted points already varies with float noise in the collinearity test; only the "
            "curve as a function is invariant): their invariance is carried by C13 (graphs reproduce the tables) plus the table-level "
            "theorems here. Translations that are not a multiple of 1e-6 K get the grid-resolution allowance 2e-6 K x total CP; failing "
            "pairs on an exact tie whose shifted temperatures are inexact in binary are skipped as fragile (counted)."),
    "C03": ("DESIGN.md 8/C03",
            "Theorems (closed) on the Q model of _assign_utility/_maximise_utility_duty, any profile, any ladder, instantiated at the generated "
            "tol: duties >= 0; a positive duty implies a reachable interval with unmet demand; on a pocket-free segment the duties NEVER exceed "
            "Qh/Qc (gliding utilities included); if one utility clear of the grid reaches the extreme row the sum is within tol of the target "
            "(telescoping); for ladders clear of the grid the loop equals the lowest-grade-first closed form duty_k = P_k - P_(k-1); after "
            "completion some hot and some cold utility always pass the reach test; on the model's own grid every utility end point is a row "
            "and one isolated extreme utility closes the sum to within tol. 'Sums close for EVERY target' (isolation not derived) rests on the tie: every "
            "DI target and the total-process record of every generated problem are judged in coqc (model = implementation duty by duty, "
            "sum, sign, reach, defaults, per-utility zone sums); stage-level get_utility_targets on synthetic tables as well.",
            "Open finding D24 (gliding cold user utility undersupplied; refuted-theorem witness). The loop iterates by real supply temperature; "
            "with mixed dt_cont this can differ from shifted-level order (closed form checked in iteration order). Float rounding ties are "
            "classified fragile. Table observed unrounded through an in-process wrapper around get_utility_targets (check process only)."),
    "C04": ("DESIGN.md 8/C04",
            "Theorems (closed): the lowest-grade-first allocation dominates prefix-wise every allocation whose prefix sums stay under the "
            "pocket-free demand (independent closed-form optimum, any ladder order, with tol); on a monotone segment the duties of utilities "
            "at or below a level never exceed the demand at that level (feasibility, any ladder). For ladders whose utilities are 'gridded' (positive width wider than the activity window, clear of the "
            "grid, both shifted ends rows of T -- the generated defaults are shown to be) the utility cascade of the model IS the step "
            "profile of the duties at every row and 0 <= H_ut(T_i) <= demand(T_i) holds at EVERY row on pocket-free segments with rows more "
            "than tol apart. Row-by-row 0 <= H_ut <= H_np of the cascade and the closed-form duties are additionally evaluated in coqc on "
            "every DI target's own table (stage and end-to-end).",
            "Open finding D39 (slope bound of gliding utilities: H_ut > H_np, refuted-theorem witness). The row theorem is composed with the "
            "pocket-free-GCC model (C07): for every Robust GCC with a pinch the demand columns (pinch_idx, sep_hot/sep_cold, flip, entry "
            "tests) are DERIVED from the output of gcc_np, so 0 <= H_ut[i] <= H_net_np[i] holds at every row of the output table with the "
            "GCC as the only data. Outside: non-Robust GCCs / no pinch row (C07's limits), that the grid contains the utilities' shifted "
            "end points (a ladder hypothesis: 'gridded'), non-gridded ladders and glides inside the process range (D39)."),
    "C07": ("DESIGN.md 8/C07",
            "Theorems (closed): the pocket sweep terminates on every table (distance to the pinch shrinks in every iteration, across "
            "insertions), its interpolation is never degenerate; on Robust curves with a pinch the code-shaped index model equals a functional "
            "(zipper) sweep whose H_net_np, as a piecewise-linear function, equals at EVERY temperature the running minimum of the input GCC "
            "towards the far end of its side (0 between the pinches); rows and ends keep Qh and Qc; the spec is the greatest monotone function "
            "under the GCC; load profiles are monotone, zero at the pinch side and end at Qh / Qc; the rows of the output are the input rows in order with "
            "breakpoints woven in EXACTLY where a pocket closes (interval gets one iff H_prev > M > H_next; count = rows + expected breakpoints; "
            "the crossing is unique; every row lies on the input curve, so the curve is unchanged over the whole table). Repaired defects D2 "
            "and D56 are pinned by corpus cases and by theorems on the model's output. Tie: get_GCC_without_pockets, "
            "get_additional_GCCs and the load profiles compared column by column in coqc on random and (thorough) ALL curves of <= 7 rows "
            "over 5 levels, plus the running-minimum predicate evaluated on the implementation's own output at rows and midpoints.",
            "Robust hypothesis (robust_b, decidable; tolerance ties skipped as fragile); float rounding compared at 1e-9; insertion modelled "
            "for one temperature and three columns (general insert = C08); non-Robust inputs judged per case only (model = implementation "
            "plus the running-minimum clause at rows with a 4*tol slack)."),
    "C13": ("DESIGN.md 8/C13",
            "Theorems (closed): emitted composite and grand-composite points are rounded table rows in table order; display rounding error "
            "<= 0.005 (instantiated at the generated DECIMAL_PLACES; breaks if lowered); only flat ends are trimmed, first/last non-flat rows "
            "kept, exactly collinear drops leave the piecewise-linear curve unchanged; segments partition the curve, share end points and "
            "carry the sign-based classification; rows added by insertions are exactly collinear with their old neighbours, so cleaning a "
            "table that went through insertions gives a polyline through every row (exact rational tables). The recovery clause for the "
            "4-decimal rounded tables, extents (= Qh, Qc, duties) and 'one graph set per "
            "record keyed by its name with the documented graph types' are evaluated in coqc on every record x graph x column of every "
            "generated problem and option combination; constants (loop bounds, rounding, isclose rtol, comparison operators) regenerated.",
            "Open findings D16, D45, D46, D49; graph tables are taken as the reference (their own faithfulness is C05); float rounding not "
            "proved (dyadic inputs + fragile verdicts)."),
    "C17": ("DESIGN.md 8/C17",
            "Theorems (closed) for all curves, sizes and eps >= 0: RDP always returns (fuel suffices), keeps both ends, returns an in-order "
            "subsequence, every original point is kept or within eps of the chord between two consecutive kept points (to the segment for "
            "monotone curves); with <= 10 kept points the public function equals RDP whatever the optimiser does; redundant-point removal "
            "returns a subsequence, trims only flat ends, keeps the end points, and is exact when every dropped row lies on the kept "
            "polyline. Refuted with witnesses replayed on the code: the 1e-6 bound in general (D16), the one-sided eps/10 bound (D17), "
            "relative-tolerance trimming (D45), variance early return (D46). Tie: _rdp, get_piecewise_data_points and clean_* compared with "
            "the model in coqc on random polylines (2-500 points, plateaus, vertical steps, repeats, both orientations) and the deviation / "
            "one-sidedness predicates evaluated on the implementation's outputs.",
            "SLSQP refinement is an oracle (only 'ends fixed' proved; D47, D48 open); _rdp modelled for eps >= 0; float rounding not proved."),
    "C08": ("DESIGN.md 8/C08",
            "Theorems (closed) for every table with rows more than tol apart and every request list or history of lists: every populated "
            "interpolated column is the same piecewise-linear function at every temperature; NaN columns stay NaN (cell rule proved); rows stay "
            "strictly descending with gaps > tol; old rows kept; count = rows added; widths and dH re-derived for all rows but the first after "
            "any effective call; idempotent; the invariant holds over histories. Tied to /repo by whole-matrix comparison (43 columns) after "
            "every call of random histories and of the pipeline's own calls, plus an independent predicate on the implementation's tables, in coqc.",
            "Across calls: same T column and count as one call under pairwise-tol spacing of the effective requests (needed: witness); "
            "interpolated cells == for ANY two histories (no condition); first-row width characterised per call (4 cases) and as a history "
            "invariant (stale, 0 or T0-T1). Still refuted: identity of heat-capacity / other cells across splits (witness replayed on the "
            "code). Float rounding measured at 1e-9, not proved."),
    "C10": ("DESIGN.md 8/C10",
            "Theorems (closed) for ALL label lists on synthesised trees: construction total (counter and renaming loops never fail), generated "
            "unit-operation leaves fresh, every labelled stream in exactly one leaf / once per ancestor / nowhere else, per-zone identity, count "
            "and duty conservation, siblings disjoint, fresh utility objects per zone; user trees partial. Tie: prepare_problem / the whole "
            "service on adversarial label sets (suffix/prefix/generated-name collisions, duplicate names, user trees); tree shape, placement, keys "
            "and utility object ids compared with the model and the conservation predicate evaluated in coqc.",
            "User trees proved only for labels resolving to childless zones (open findings D22, D38); model = path-list representation; "
            "stream identity carried by htc; distinct sibling names assumed; dyadic duties compared exactly."),
    "C11": ("DESIGN.md 8/C11",
            "Theorems (closed) over ALL call histories of a state machine with the hidden state the code could have (function-default dict, "
            "caller-owned vs library-created inputs, heap of returned results, PinchProblem source/name/cache) over an arbitrary pure pipeline: "
            "history independence, totality, stateless errors, input unchanged, earlier results unchanged, module state unchanged, wrapper "
            "refines the service; pre-repair machines (D5, D6, D11, D51) refuted with 2-3 call witnesses. Tie: every history runs in its own "
            "fresh interpreter, every distinct problem once alone as the twin; contents, object identities and digests of all function "
            "defaults/closures and module globals of the 40 OpenPinch modules are judged in coqc.",
            "Purity of the numeric pipeline itself is observed through snapshots and fresh-interpreter twins, not proved; digests and id->loc "
            "interning in c11.py are trusted; snapshot excludes __slotnames__, __pydantic_setattr_handlers__, _abc_impl, __abstractmethods__."),
    "C05": ("DESIGN.md 8/C05",
            "Theorems: on the model table, at every row, H_hot = exact heat of hot streams below T, H_cold = Qc + exact heat of cold "
            "streams below T, H_net = H_cold - H_hot = Qh - net deficit above T >= 0 and touches 0; curves span exactly the stream "
            "duties; heat above + heat below = duty at every temperature (both scales: the theorems are scale-agnostic). Composed with "
            "the insertion model (C08): after ANY history of temperature insertions every row of the table, old or inserted, still carries "
            "the exact heat contents, and Qh/Qc/Qr read from the end rows are unchanged. "
            "Row-consistency (dT, CP*dT = dH, cumulative vs increment) and the real-table clauses are decided by predicates evaluated "
            "in coqc on the implementation's own tables: stage tables cell-by-cell, get_process_heat_cascade (incl. rows inserted by "
            "the constant-enthalpy projection) with 1e-9 slack, and both tables of every zone after the whole pipeline.",
            "As C01; additionally end-to-end tables are observed after the pipeline's own 4-decimal rounding (slack 1e-4*(1+total CP))."),
    "C06": ("DESIGN.md 8/C06",
            "Theorems: for EVERY residual column with a zero that is not zero everywhere, pinch_idx returns a valid pair of zero rows "
            "with row_h <= row_c, every zero outside them lies in a zero run touching that end, and on a threshold side the pinch row "
            "is the process-side end of the run; a pinch is absent iff there is no zero or (finding D18) every row is zero; the table's "
            "residual column equals Qh - exact net deficit on every row; a zero of the exact residual between two rows forces zeros "
            "on both rows. Tie: pinch_idx compared on random columns (tolerance-edge values classified fragile), and every reported "
            "temp_pinch is judged in coqc against the exact residual at the reported temperatures and at every stream/utility end point.",
            "As C01; composed on the stage model (lattice inputs and arbitrary doubles via rounded streams): the reported (T_h, T_c) are rows "
            "where the EXACT residual Qh* - Dnet lies in [0, tol), T_h >= T_c; every REAL temperature outside [T_c, T_h] with residual < tol "
            "lies in a zero run reaching that end of the range or in the single interval next to the pinch row (exact zeros: only the "
            "former); threshold ends; absent iff no row / every row is a zero (D18 kept). On the implementation side 'zero' means "
            "|exact residual| <= 2e-6 + 1e-9*scale; the serialised temp_pinch and the zone's own EnergyTarget pinches are compared too."),
    "C14": ("DESIGN.md 8/C14",
            "Theorems (closed): stage guards return Ok on every input the earlier stages can produce (CP defined for every stream any setter "
            "sequence can build, linear_interpolation raises exactly when x1 = x2 and its call site never does, option sanitiser keeps "
            "DT_CONT >= 0 and DT_PHASE_CHANGE > 0, every utility has a non-zero span after completion, the grid holds two temperatures, gaps "
            "above tol pass the infeasible-interval guard); default utilities lie wholly outside the process range and inside the envelope, "
            "the +-1e9 sentinel is used exactly when a side is empty; the dispatch over every well-nested zone tree returns exactly one DI "
            "record per zone; D30 and D53 follow from the call order (refuted theorems). The full `service_total` statement is OPEN (the "
            "pipeline is not composed into one Gallina function): that clause is carried by wf_output_b evaluated INSIDE coqc on the "
            "implementation's own output for every generated problem x option combination (returns, schema-valid, JSON-serialisable, finite, "
            "one DI record per zone, temperatures within the widened envelope, identical on repeat).",
            "Open findings D30, D31, D42, D43, D53 (narrow triggers). Options reaching unmodelled code (heat pumps, exergy, turbine) are "
            "exercised on a small budget for totality only and reported separately (not claimed). pydantic/json trusted."),
    "C15": ("DESIGN.md 8/C15",
            "Theorems over R on generated definitions (costing.py translated by ast): capital cost = N(a + b(A/N)^c), annualised cost applies "
            "the capital-recovery factor whose discounted annuities sum to one (induction, integer life; for a real-valued life the closed-form annuity factor (1-(1+i)^-n)/i, proved equal to the discounted sum at integer lives), the factor strictly decreases with the service life, both "
            "increase with area. Over Q (closed): the area target is the sum over the code's own enthalpy intervals of duty x weighted "
            "resistances / LMTD, is positive, balanced spans are equal (LMTD abstract with min/mean hypotheses). Equality with the "
            "independent interval sum recomputed in Q from streams and utility duties is evaluated in coqc on every run (stage calls on "
            "captured arguments and end-to-end). get_temperature_driving_forces is modelled in Q (rounding, guards, normalisation, union "
            "grid, plateau interpolation, discontinuity block) and equals the implementation array by array on every end-to-end case and "
            "on synthetic plateau/jump/guard curves; proved for ALL curve pairs (closed): the grid is strictly ascending, consists exactly "
            "of the break points, its intervals partition the enthalpy range with both curves affine on each; one-sided limits at own "
            "break points are exact (a jump belongs to neither neighbour); the discontinuity block only lowers dT2, hence the area is only "
            "over-estimated for any monotone LMTD; refuted with witnesses replayed on the code: exact piecewise-linear values at foreign "
            "break points next to a plateau (off by <= tol/2 x slope), dT2 = end difference (mechanism of D36).",
            "Axioms: the standard library's real-number axioms (ClassicalDedekindReals.sig_forall_dec, sig_not_dec, functional_extensionality_dep, "
            "Classical_Prop.classic) via Reals/Coquelicot/Interval (cost theorems only; the TDF/area theorems over Q are closed). Not proved: "
            "the composition table -> balanced curves -> driving forces -> resistance mapping -> sum as one theorem (compared stage by "
            "stage on every run); np.interp modelled for increasing abscissae only; open finding D36."),
    "C16": ("DESIGN.md 8/C16",
            "Theorems (closed) over strings of all 256 code points: whenever sheet-name allocation returns, names are pairwise distinct, not "
            "already used, 1..31 characters, free of : \\ / ? * [ ] and of leading/trailing apostrophes; allocation succeeds whenever fewer "
            "than 998 of a label's alternatives are taken and fails only beyond that bound (tight, witness proved); label/zone/name "
            "normalisation idempotent; get_value cases; the PinchProblem wrapper refines the service over ALL load/target/export sequences "
            "(cached second target, load resets cache and project name; pre-repair machines refuted). Constants (31, range(2,1000), the regex "
            "class, suffix format) are regenerated from the AST. The codec half is correspondence: every generated problem is materialised "
            "as dict, validated model, value-with-unit, JSON file, CSV directory, CSV pair and .xlsx and run through service and wrapper "
            "(12 runs per problem), exports are read back with openpyxl.",
            "pandas/openpyxl/json trusted; .xlsb cannot be written offline; open findings D21 (beyond the bound) and D41 (numeric-looking names "
            "in the CSV channel)."),
    "C18": ("DESIGN.md 8/C18",
            "Theorems (closed): first law and COP relation of the metrics for all state-point enthalpies with H3 <= H0; stream duties, "
            "monotonicity and request-order independence for all enthalpy-monotone profiles and ALL request sequences (pre-repair stateful "
            "machine refuted); second-law, throttle and saturation clauses for every property library satisfying the stated hypotheses "
            "(LibHyps, shown satisfiable); Carnot first law. Tie per run: the implementation is compared inside coqc with the model "
            "instantiated with an independent CoolProp table (16 state-point values, metrics, every emitted stream for every request "
            "sequence) and the 14-clause predicate is evaluated on the implementation's own output; constants regenerated from the AST.",
            "CoolProp trusted as oracle (LibHyps instances sampled at 1e-7 on the states of each case; cases where an instance fails are "
            "skipped and counted); float vs Q 1e-9 (balance, COP, order) / 1e-6 (entropy, pressure); open findings D35, D35b, D50."),
    "C20": ("DESIGN.md 8/C20",
            "Theorems over R on definitions GENERATED from heat_exchanger.py by a fail-closed symbolic executor over the Python ast (whole "
            "HX_Eff / HX_NTU with label normalisation, every branch, multipass, the 20-term series, LMTD with its guards and np.isclose): all "
            "16 label forms reach their own branch (finite, exhaustive); NTU(eff(N)) = N and back on the reachable range for the six "
            "closed-form arrangements incl. c = 0 and c = 1 and any pass count; effectiveness in (0,1), strictly increasing in NTU, equal to "
            "1 - exp(-NTU) at c = 0; NEVER above counter flow for every arrangement except the two listed findings (cross-flow one/both "
            "mixed, shell-and-tube, parallel flow, any pass count; mean-value-theorem proofs, no interval); range (0,1) for all eight "
            "arrangements incl. the 20-term series; secant post-condition; LMTD between min and mean, refusal, symmetry (exact "
            "when both orders take the same isclose branch); the four-temperature entry point compute_LMTD_from_ts: accepted/refused cases, equals the two-difference form, translation invariant. D15 and D34 are refuted theorems with interval-checked witnesses. Tie: 676 "
            "interval proofs |f(x) - python value| <= 1e-9 regenerate on every run, dispatch observed by line tracing, and a numeric sweep "
            "(arrangement x label form x 40 NTU x 21 c x 4 passes) judged in coqc on exact rationals supports the search for failing inputs.",
            "Axioms: the standard library's real-number axioms plus PrimInt63/Uint63 primitives used by Interval in the two refutations. "
            "Convergence of the secant inversion and IEEE rounding stay outside the theorems. coqchk on C20 exceeds 30 min (re-checks Interval/Flocq/Coquelicot) and is disabled for this property."),
    "C19": ("DESIGN.md 8/C19",
            "Theorems (closed under the global context): for every constructor argument tuple and every finite setter sequence the "
            "Stream model satisfies CP*span = duty, t_min < t_max, shifted bounds by kind, htr*htc = 1 and kind follows the "
            "temperatures; for every operation sequence the StreamCollection model keeps duplicate-free keys and a coherent lazy "
            "cache, add/add_many/replace/concat never lose or replace a member, len counts members, iteration is a permutation of the "
            "members in sort-key order, the key-renaming loop always finds a fresh key. The model is tied to /repo on every run by "
            "running both on the same op sequences (state compared after every op, inside coqc) and the invariant predicate is also "
            "evaluated directly on the implementation's observed states.",
            "Trusted: Coq kernel; hand-written model (coq/model/Stream.v, Collection.v) validated by correspondence only; float "
            "rounding vs exact Q (compared to 1e-9); Python dict order / sorted() stability; generated constant latent_dT."),
}

NOT_YET = {}


def main():
    props = [json.loads(l) for l in (VERIF / "properties.jsonl").read_text().splitlines() if l.strip()]
    checks, na = [], []
    for p in props:
        pid = p["id"]
        if pid in CLAIMED:
            ref, text, note = CLAIMED[pid]
            checks.append(dict(
                property_id=pid,
                quick_cmd=f"./check {pid} --tier quick",
                thorough_cmd=f"./check {pid} --tier thorough",
                evidence_file=f"/verif/evidence/{pid}.json",
                replay_cmd_template=f"./check {pid} --replay {{path}}",
                engine="coq-model-correspondence",
                level_claimed=dict(category="proof", text=text, design_ref=ref),
                level_note=note,
                technique=TECH,
            ))
        else:
            na.append(dict(property_id=pid, reason=NOT_YET.get(pid, "check not built yet in this session; the design (DESIGN.md section 8) applies the same technique")))
    m = dict(
        version=1,
        setup_cmd="./setup.sh",
        hooks=dict(guard="OPENPINCH_VERIF", enable="no source hooks are needed: every observation point is reachable through public "
                   "functions; checks import /repo in place with PYTHONPATH=/repo OPENPINCH_VERIF=1",
                   baseline_off_cmd="cd /repo && /venv/bin/python -m pytest -q -p no:cacheprovider --timeout=900",
                   source_commits=[], add_only=True),
        engines=[dict(name="coq-model-correspondence", path="/verif/check",
                      serves_properties=[c["property_id"] for c in checks],
                      kind_free_text="Coq 8.16 development (coq/) with per-property theorem files, regenerated constants, and "
                                     "case shards evaluated by coqc against the running implementation")],
        checks=checks,
        notes="See DESIGN.md. known_findings.json lists repaired (fix: commits) and open findings.",
        not_applicable=na,
    )
    (VERIF / "MANIFEST.json").write_text(json.dumps(m, indent=1) + "\n")
    print("claimed", [c["property_id"] for c in checks])


if __name__ == "__main__":
    main()
