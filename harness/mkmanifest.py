"""Regenerates MANIFEST.json from the table below (run by hand when a property's status changes)."""
import json
from pathlib import Path

VERIF = Path(__file__).resolve().parent.parent
TECH = "Rocq/Coq 8.16 theorems on an executable Gallina model (Q / R) + translator and in-coqc correspondence tie to /repo"

# id -> (design_ref, level text, level_note)   -- only properties with a working check appear here
CLAIMED = {
    "C19": ("DESIGN.md 8/C19",
            "Theorems (closed under the global context): for every constructor argument tuple and every finite setter sequence the "
            "Stream model satisfies CP*span = duty, t_min < t_max, shifted bounds by kind, htr*htc = 1 and kind follows the "
            "temperatures; for every operation sequence the StreamCollection model keeps duplicate-free keys and a coherent lazy "
            "cache, add/add_many/replace/concat never lose or replace a member, len counts members, iteration is a permutation of the "
            "members in sort-key order, the key-renaming loop always finds a fresh key. The model is tied to /repo on every run by "
            "running both on the same op sequences (state compared after every op, inside coqc) and the invariant predicate is also "
            "evaluated directly on the implementation's observed states.",
            "Trusted: Coq kernel; hand-written model (coq/model/Stream.v, Collection.v) validated by correspondence only; float "
            "rounding vs exact Q (compared to 1e-9); Python dict order / sorted() stability; generated constant latent_dT."),
}

NOT_YET = {}


def main():
    props = [json.loads(l) for l in (VERIF / "properties.jsonl").read_text().splitlines() if l.strip()]
    checks, na = [], []
    for p in props:
        pid = p["id"]
        if pid in CLAIMED:
            ref, text, note = CLAIMED[pid]
            checks.append(dict(
                property_id=pid,
                quick_cmd=f"./check {pid} --tier quick",
                thorough_cmd=f"./check {pid} --tier thorough",
                evidence_file=f"/verif/evidence/{pid}.json",
                replay_cmd_template=f"./check {pid} --replay {{path}}",
                engine="coq-model-correspondence",
                level_claimed=dict(category="proof", text=text, design_ref=ref),
                level_note=note,
                technique=TECH,
            ))
        else:
            na.append(dict(property_id=pid, reason=NOT_YET.get(pid, "check not built yet in this session; the design (DESIGN.md section 8) applies the same technique")))
    m = dict(
        version=1,
        setup_cmd="./setup.sh",
        hooks=dict(guard="OPENPINCH_VERIF", enable="no source hooks are needed: every observation point is reachable through public "
                   "functions; checks import /repo in place with PYTHONPATH=/repo OPENPINCH_VERIF=1",
                   baseline_off_cmd="cd /repo && /venv/bin/python -m pytest -q -p no:cacheprovider --timeout=900",
                   source_commits=[], add_only=True),
        engines=[dict(name="coq-model-correspondence", path="/verif/check",
                      serves_properties=[c["property_id"] for c in checks],
                      kind_free_text="Coq 8.16 development (coq/) with per-property theorem files, regenerated constants, and "
                                     "case shards evaluated by coqc against the running implementation")],
        checks=checks,
        notes="See DESIGN.md. known_findings.json lists repaired (fix: commits) and open findings.",
        not_applicable=na,
    )
    (VERIF / "MANIFEST.json").write_text(json.dumps(m, indent=1) + "\n")
    print("claimed", [c["property_id"] for c in checks])


if __name__ == "__main__":
    main()
