"""Common machinery of the /verif checks (see DESIGN.md sections 2, 5, 6).

A per-property module (harness/props/cXX.py) describes its Coq targets, allowed
axioms and a `run(ctx)` function; everything else (regeneration, build, audit,
Print Assumptions, case shards evaluated by coqc, known findings, verdict,
evidence, replay files) lives here so that all twenty checks behave alike.
"""
from __future__ import annotations

import hashlib
import json
import os
import random
import re
import shutil
import subprocess
import sys
import time
from concurrent.futures import ThreadPoolExecutor
from fractions import Fraction
from pathlib import Path

VERIF = Path(__file__).resolve().parent.parent
# VERIF_COQ: a private copy of the Coq tree (cp -a /verif/coq <dir>), so that a run against another repository copy (VERIF_REPO)
# does not share generated files and compiled objects with runs against /repo
COQ = Path(os.environ.get("VERIF_COQ") or (VERIF / "coq"))
REPO = Path(os.environ.get("VERIF_REPO", "/repo"))
PY = "/venv/bin/python"
GUARD = "OPENPINCH_VERIF"
JOBS = int(os.environ.get("VERIF_JOBS", "16"))

FORBIDDEN = re.compile(
    r"\b(Admitted|admit|Axiom|Axioms|Parameter|Parameters|Conjecture|Conjectures|"
    r"Unset\s+Guard\s+Checking|bypass_check|Admit\s+Obligations|Unset\s+Positivity\s+Checking|"
    r"Unset\s+Universe\s+Checking|Hypothesis|Hypotheses|Variable|Variables)\b"
)


# --------------------------------------------------------------------------
# exact numbers
# --------------------------------------------------------------------------
def F(x) -> Fraction:
    """Exact rational value of a Python float/int (never via repr)."""
    if isinstance(x, Fraction):
        return x
    if isinstance(x, bool):
        return Fraction(int(x))
    if isinstance(x, int):
        return Fraction(x)
    x = float(x)
    if x != x or x in (float("inf"), float("-inf")):
        raise ValueError("non-finite number cannot enter the model: %r" % x)
    return Fraction(x)


def qlit(x) -> str:
    f = F(x)
    n, d = f.numerator, f.denominator
    return f"({n} # {d})" if n >= 0 else f"((-{-n}) # {d})"


def qopt(x) -> str:
    """option Q literal; NaN/None -> None."""
    if x is None:
        return "None"
    try:
        if x != x:
            return "None"
    except Exception:
        pass
    return f"(Some {qlit(x)})"


def qlist(xs) -> str:
    return "[" + "; ".join(qlit(x) for x in xs) + "]"


def coq_string(s: str) -> str:
    """Coq string literal (ASCII printable only; callers restrict alphabets)."""
    return '"' + s.replace('"', '""') + '"%string'


def coq_bool(b) -> str:
    return "true" if b else "false"


def coq_nat(n) -> str:
    return f"{int(n)}%nat"


# --------------------------------------------------------------------------
# shell
# --------------------------------------------------------------------------
def sh(cmd, timeout, cwd=None, env=None):
    e = dict(os.environ)
    if env:
        e.update(env)
    t0 = time.time()
    try:
        p = subprocess.run(cmd, shell=isinstance(cmd, str), cwd=cwd, env=e, timeout=timeout,
                           stdout=subprocess.PIPE, stderr=subprocess.STDOUT, text=True)
        return p.returncode, p.stdout, time.time() - t0
    except subprocess.TimeoutExpired as ex:
        out = ex.stdout or ""
        if isinstance(out, bytes):
            out = out.decode("utf8", "replace")
        return 124, out + "\n[TIMEOUT after %ss]" % timeout, time.time() - t0


def impl_env():
    return {"PYTHONPATH": str(REPO), "PYTHONHASHSEED": "0", GUARD: "1",
            "PYTHONDONTWRITEBYTECODE": "1", "OMP_NUM_THREADS": "1", "OPENBLAS_NUM_THREADS": "1"}


# --------------------------------------------------------------------------
# Coq project
# --------------------------------------------------------------------------
def write_coqproject():
    files = []
    for sub in ("gen", "model", "proofs", "props", "corr"):
        for p in sorted((COQ / sub).glob("*.v")):
            files.append(f"{sub}/{p.name}")
    txt = "-Q . OP\n-arg -w -arg -notation-overridden,-deprecated-hint-without-locality,-deprecated-instance-without-locality,-ambiguous-paths,-deprecated-syntactic-definition\n" + "\n".join(files) + "\n"
    cp = COQ / "_CoqProject"
    if not cp.exists() or cp.read_text() != txt:
        cp.write_text(txt)
        return True
    return False


def coq_makefile():
    changed = write_coqproject()
    if changed or not (COQ / "Makefile.coq").exists():
        rc, out, _ = sh("coq_makefile -f _CoqProject -o Makefile.coq", 60, cwd=COQ)
        if rc != 0:
            raise RuntimeError("coq_makefile failed:\n" + out)


def coq_make(targets, timeout=1500):
    """Full .vo build of the given targets (never -vos). Returns (ok, log)."""
    coq_makefile()
    tg = " ".join(targets)
    rc, out, dt = sh(f"make -f Makefile.coq -j{JOBS} {tg}", timeout, cwd=COQ)
    return rc == 0, out, dt


def parse_coq_error(log: str):
    """(file, line, message) of the first error in a coqc/make log."""
    m = re.search(r'File "\./?([^"]+)", line (\d+), characters [\d-]+:\s*\nError:?(.*?)(?:\n\n|\nmake|\Z)', log, re.S)
    if not m:
        m2 = re.search(r"Error:?(.*)", log, re.S)
        return (None, None, (m2.group(1) if m2 else log)[-600:].strip())
    return m.group(1), int(m.group(2)), m.group(3).strip()[:600]


def enclosing_lemma(vfile: Path, line: int):
    """Name of the Lemma/Theorem whose proof contains `line`."""
    name = None
    try:
        for i, l in enumerate(vfile.read_text().split("\n"), 1):
            m = re.match(r"\s*(?:Local\s+|Global\s+)?(Lemma|Theorem|Corollary|Example|Fact|Remark|Proposition|Definition|Fixpoint|Instance)\s+([A-Za-z0-9_']+)", l)
            if m:
                name = m.group(2)
            if i >= line:
                break
    except Exception:
        pass
    return name


def coq_deps(rel: str, seen=None):
    """Transitive closure of `From OP Require ... a.b` / `Require ... OP.a.b` starting at coq/<rel>."""
    seen = seen if seen is not None else []
    if rel in seen or not (COQ / rel).exists():
        return seen
    seen.append(rel)
    txt = strip_comments((COQ / rel).read_text())
    for sent in re.split(r"\.(?=\s)", txt):
        toks = sent.split()
        if len(toks) >= 3 and toks[0] == "From" and toks[1] == "OP" and toks[2] == "Require":
            for mod in toks[3:]:
                if mod not in ("Import", "Export"):
                    coq_deps(mod.replace(".", "/") + ".v", seen)
        elif toks and toks[0] == "Require":
            for mod in toks[1:]:
                if mod.startswith("OP."):
                    coq_deps(mod[3:].replace(".", "/") + ".v", seen)
    return seen


def audit_sources(files=None):
    """Forbidden vernacular in the given coq/ files (default: all; comments stripped).
    Variables and Hypotheses are allowed only inside a Section."""
    bad = []
    paths = sorted(COQ.rglob("*.v")) if files is None else [COQ / f for f in files]
    for p in paths:
        if ".work" in p.parts or not p.exists():
            continue
        txt = p.read_text()
        txt = strip_comments(txt)
        depth = 0
        for i, l in enumerate(txt.split("\n"), 1):
            if re.match(r"\s*Section\s+\w+", l):
                depth += 1
            elif re.match(r"\s*End\s+\w+\s*\.", l) and depth > 0:
                depth -= 1
            for m in FORBIDDEN.finditer(l):
                w = m.group(1)
                if w.startswith(("Variable", "Hypothes")):
                    if depth > 0:
                        continue
                if w == "Parameter" or w == "Parameters":
                    pass
                bad.append(f"{p.relative_to(COQ)}:{i}: {w}")
    return bad


def strip_comments(txt: str) -> str:
    out, depth, i, n = [], 0, 0, len(txt)
    instr = False
    while i < n:
        c = txt[i]
        if depth == 0 and c == '"':
            instr = not instr
            out.append(c)
            i += 1
            continue
        if not instr and txt.startswith("(*", i):
            depth += 1
            i += 2
            continue
        if not instr and depth > 0 and txt.startswith("*)", i):
            depth -= 1
            i += 2
            continue
        if depth == 0:
            out.append(c)
        elif c == "\n":
            out.append("\n")
        i += 1
    return "".join(out)


def props_assumptions(prop: str, timeout=600):
    """Recompile props/<prop>.v on its own and parse every `Print Assumptions`.
    Returns (ok, {theorem: [axiom names]}, log)."""
    vf = COQ / "props" / f"{prop}.v"
    rc, out, _ = sh(f"coqc -Q . OP -w -notation-overridden,-deprecated-hint-without-locality,-deprecated-instance-without-locality,-ambiguous-paths,-deprecated-syntactic-definition props/{prop}.v",
                    timeout, cwd=COQ)
    if rc != 0:
        return False, {}, out
    src = strip_comments(vf.read_text())
    names = re.findall(r"Print\s+Assumptions\s+([A-Za-z0-9_'.]+)\s*\.", src)
    blocks = re.split(r"(?m)^(?=Closed under the global context|Axioms:)", out)
    blocks = [b for b in blocks if b.startswith(("Closed under", "Axioms:"))]
    res = {}
    for nm, b in zip(names, blocks):
        if b.startswith("Closed"):
            res[nm] = []
        else:
            res[nm] = re.findall(r"(?m)^([A-Za-z_][A-Za-z0-9_.']*)\s*(?::|$)", b.split("\n", 1)[1] if "\n" in b else "")
            res[nm] = [a for a in res[nm] if a]
    if len(names) != len(blocks):
        return False, res, out + f"\n[assumption blocks {len(blocks)} != Print Assumptions commands {len(names)}]"
    return True, res, out


def theorems_in(prop: str):
    src = strip_comments((COQ / "props" / f"{prop}.v").read_text())
    return re.findall(r"(?m)^\s*(?:Theorem|Corollary)\s+([A-Za-z0-9_']+)", src)


def count_lemmas(files):
    n = 0
    for f in files:
        p = COQ / f
        if p.exists():
            n += len(re.findall(r"(?m)^\s*(?:Local\s+|Global\s+)?(?:Lemma|Theorem|Corollary|Fact|Remark|Proposition|Example)\s+[A-Za-z0-9_']+",
                                strip_comments(p.read_text())))
    return n


# --------------------------------------------------------------------------
# cases evaluated inside coqc
# --------------------------------------------------------------------------
class CaseFile:
    """Builds shards `Definition c<k> : T := ...` + one `Eval vm_compute` each
    and returns, for every case, the list of integers coqc printed for it.

    Each case's verdict must be a Coq term of type `list Z` (or Z): small
    integers only, so that parsing wrapped output is trivial and the comparison
    itself stays inside Coq."""

    def __init__(self, ctx, name, header, shard=250):
        self.ctx, self.name, self.header, self.shard = ctx, name, header, shard
        self.cases = []  # (preamble definitions, verdict expr)

    def add(self, expr: str, pre: str = ""):
        self.cases.append((pre, expr))
        return len(self.cases) - 1

    def run(self, timeout=900):
        if not self.cases:
            return []
        wd = self.ctx.workdir / f"cases_{self.name}"
        wd.mkdir(parents=True, exist_ok=True)
        shards = [self.cases[i:i + self.shard] for i in range(0, len(self.cases), self.shard)]
        files = []
        for si, sc in enumerate(shards):
            lines = [self.header, "Require Import Coq.ZArith.ZArith Coq.Lists.List.", "Import ListNotations."]
            for k, (pre, expr) in enumerate(sc):
                if pre:
                    lines.append(pre.replace("@K@", f"s{si}k{k}"))
                lines.append(f"Definition verdict_{k} : list Z := ({expr.replace('@K@', f's{si}k{k}')}).")
            names = "; ".join(f"verdict_{k}" for k in range(len(sc)))
            lines.append(f"Definition all_verdicts : list (list Z) := [{names}].")
            lines.append("Eval vm_compute in all_verdicts.")
            fn = wd / f"shard{si}.v"
            fn.write_text("\n".join(lines) + "\n")
            files.append(fn)

        def one(fn):
            cmd = (f"coqc -Q {COQ} OP -w -notation-overridden,-deprecated-hint-without-locality,-deprecated-instance-without-locality,"
                   f"-ambiguous-paths,-deprecated-syntactic-definition {fn.name}")
            r = sh(cmd, timeout, cwd=wd)
            tries = 0
            # another check process may be rebuilding shared .vo files (it holds coq/.lock while it does): wait for it and retry
            while r[0] != 0 and tries < 3 and ("inconsistent assumptions" in r[1] or "Cannot find a physical path" in r[1]
                                                or "bad version number" in r[1] or "Corrupted" in r[1] or "not found in loadpath" in r[1]):
                tries += 1
                import fcntl
                with open(COQ / ".lock", "w") as lk:
                    fcntl.flock(lk, fcntl.LOCK_EX)
                    fcntl.flock(lk, fcntl.LOCK_UN)
                time.sleep(2 * tries)
                r = sh(cmd, timeout, cwd=wd)
            return r

        with ThreadPoolExecutor(max_workers=JOBS) as ex:
            results = list(ex.map(one, files))
        verdicts = []
        for fn, sc, (rc, out, dt) in zip(files, shards, results):
            if rc != 0:
                raise CoqCasesError(self.name, fn, out)
            body = out[out.index("="):] if "=" in out else out
            body = re.sub(r":\s*list \(list Z\)\s*$", "", body.strip(), flags=re.S)
            body = body.replace("%Z", "").replace("\n", " ")
            inner = re.findall(r"\[([^\[\]]*)\]", body)
            vs = [[int(t) for t in re.findall(r"-?\d+", grp)] for grp in inner]
            if len(vs) != len(sc):
                raise CoqCasesError(self.name, fn, f"parsed {len(vs)} verdicts for {len(sc)} cases\n{out[:2000]}")
            verdicts.extend(vs)
        return verdicts


class CoqCasesError(Exception):
    def __init__(self, suite, fn, out):
        super().__init__(f"coqc failed on generated cases of suite {suite}: {fn}\n{out[-3000:]}")
        self.suite, self.fn, self.out = suite, fn, out


def coq_eval(ctx, header: str, expr: str, timeout=300) -> str:
    """Evaluate one expression with vm_compute and return coqc's raw text (used
    for replay files, never parsed for a verdict)."""
    wd = ctx.workdir / "eval"
    wd.mkdir(parents=True, exist_ok=True)
    fn = wd / f"e{ctx.next_id()}.v"
    fn.write_text(header + "\nEval vm_compute in (" + expr + ").\n")
    rc, out, _ = sh(f"coqc -Q {COQ} OP {fn.name}", timeout, cwd=wd)
    return out.strip()


# --------------------------------------------------------------------------
# known findings
# --------------------------------------------------------------------------
def load_known_findings():
    p = VERIF / "known_findings.json"
    if not p.exists():
        return []
    return json.loads(p.read_text())["findings"]


# --------------------------------------------------------------------------
# context of one check run
# --------------------------------------------------------------------------
class Ctx:
    def __init__(self, prop, tier, seed):
        self.prop, self.tier, self.seed = prop, tier, seed
        self.t0 = time.time()
        self.rng = random.Random(f"{prop}:{seed}")
        self.workdir = VERIF / ".work" / f"{prop}-{os.getpid()}"
        if self.workdir.exists():
            shutil.rmtree(self.workdir)
        self.workdir.mkdir(parents=True)
        self._id = 0
        self.suites = []            # dicts: name, cases, agree, fragile, mismatch, ...
        self.failures = []          # dicts: kind, what, input, impl_output, model_output, predicate, suite
        self.broken = []            # dicts: what (theorem/lemma/translator/correspondence), detail
        self.known_seen = []
        self.samples = []
        self.hist = {}
        self.evaluations = 0
        self.nontrivial = set()
        self.rule = ""
        self.notes = []
        self.drift = []
        self.theorems = {}
        self.obligations = 0
        self.discharged = 0
        self.extra = {}
        self.known = [k for k in load_known_findings() if k["property"] == prop]

    def next_id(self):
        self._id += 1
        return self._id

    @property
    def thorough(self):
        return self.tier == "thorough"

    def budget(self, quick, thorough):
        n = thorough if self.thorough else quick
        if self.broken and not self.thorough:
            n = max(n, min(thorough, quick * 4))   # escalated search after a broken obligation/tie
        return n

    def count(self, key, n=1):
        self.hist[key] = self.hist.get(key, 0) + n

    def sample(self, obj, limit=4):
        if len(self.samples) < limit:
            self.samples.append(obj)

    def nontrivial_case(self, key):
        self.nontrivial.add(hashlib.sha1(repr(key).encode()).hexdigest()[:16])

    def suite(self, name, **counts):
        self.suites.append(dict(name=name, **counts))

    def fail(self, kind, what, **data):
        """Record a case on which the property predicate (or the model/impl
        agreement) is false. `kind` is the trigger tag matched against
        known_findings.json."""
        self.failures.append(dict(kind=kind, what=what, **data))

    def break_(self, what, detail=""):
        self.broken.append(dict(what=what, detail=detail[-2000:]))

    def cleanup(self):
        if os.environ.get("VERIF_KEEP"):
            return
        shutil.rmtree(self.workdir, ignore_errors=True)
        try:
            (VERIF / ".work").rmdir()
        except OSError:
            pass


def jsonable(o):
    if isinstance(o, Fraction):
        return str(o)
    if isinstance(o, (set, tuple)):
        return [jsonable(x) for x in o]
    if isinstance(o, list):
        return [jsonable(x) for x in o]
    if isinstance(o, dict):
        return {str(k): jsonable(v) for k, v in o.items()}
    if isinstance(o, float):
        if o != o or o in (float("inf"), float("-inf")):
            return repr(o)
        return o
    if isinstance(o, (int, str, bool)) or o is None:
        return o
    try:
        import numpy as np
        if isinstance(o, np.generic):
            return jsonable(o.item())
        if isinstance(o, np.ndarray):
            return jsonable(o.tolist())
    except Exception:
        pass
    return repr(o)
