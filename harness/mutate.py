#!/usr/bin/env python3
"""maintainer helper: systematic mutation testing of the checks (complements the hand-seeded changes of /verif/seeded).

For a sample of single-point AST mutations of the anchored source files (comparison / arithmetic / boolean operator swaps, small
integer and tolerance tweaks, min<->max, dropped `not`, dropped abs), in scratch git worktrees of /repo (outside /repo and /verif):
  1. run the unedited test suite; a mutant the suite kills is uninteresting;
  2. run the quick checks that own the mutated file, against the mutated worktree, with a private copy of the Coq tree;
  3. record which checks raise a VIOLATION.  Survivors (suite passes, no check alarms) are listed for triage: they are either
     equivalent mutants or holes in the generators.
usage: harness/mutate.py --out DIR [--per-file N] [--workers K] [--seed S] [--files a.py,b.py]
Nothing is ever written to /repo; worktrees are removed at the end."""
import argparse
import ast
import copy
import json
import os
import random
import shutil
import subprocess
import sys
import time
from concurrent.futures import ThreadPoolExecutor
from pathlib import Path

V = Path(__file__).resolve().parent.parent
OWNERS = {
    "OpenPinch/analysis/problem_table_analysis.py": ["C01", "C05", "C06"],
    "OpenPinch/analysis/utility_targeting.py": ["C03", "C04"],
    "OpenPinch/analysis/gcc_manipulation.py": ["C07", "C04"],
    "OpenPinch/classes/problem_table.py": ["C08", "C06", "C05"],
    "OpenPinch/analysis/indirect_integration_entry.py": ["C09", "C02"],
    "OpenPinch/analysis/direct_integration_entry.py": ["C01", "C06", "C13"],
    "OpenPinch/analysis/data_preparation.py": ["C10", "C14", "C03"],
    "OpenPinch/classes/stream.py": ["C19", "C01"],
    "OpenPinch/classes/stream_collection.py": ["C19", "C12"],
    "OpenPinch/classes/zone.py": ["C10", "C09"],
    "OpenPinch/utils/heat_exchanger.py": ["C20", "C15"],
    "OpenPinch/analysis/graph_data.py": ["C13"],
    "OpenPinch/utils/miscellaneous.py": ["C17", "C13", "C16"],
    "OpenPinch/utils/stream_linearisation.py": ["C17"],
    "OpenPinch/classes/simple_heat_pump.py": ["C18"],
    "OpenPinch/utils/costing.py": ["C15"],
    "OpenPinch/analysis/capital_cost_and_area_targeting.py": ["C15"],
    "OpenPinch/analysis/temperature_driving_force.py": ["C15"],
    "OpenPinch/main.py": ["C11", "C14"],
    "OpenPinch/classes/pinch_problem.py": ["C11", "C16"],
    "OpenPinch/classes/energy_target.py": ["C02", "C06"],
}
CMP = {ast.Lt: ast.LtE, ast.LtE: ast.Lt, ast.Gt: ast.GtE, ast.GtE: ast.Gt, ast.Eq: ast.NotEq, ast.NotEq: ast.Eq}
ARI = {ast.Add: ast.Sub, ast.Sub: ast.Add, ast.Mult: ast.Div}


def candidates(tree):
    """[(description, mutator(node))] over a freshly parsed tree; each mutator edits the tree in place."""
    out = []
    for node in ast.walk(tree):
        ln = getattr(node, "lineno", 0)
        if isinstance(node, ast.Compare) and len(node.ops) == 1 and type(node.ops[0]) in CMP:
            new = CMP[type(node.ops[0])]
            out.append((f"L{ln}: {type(node.ops[0]).__name__} -> {new.__name__}", (node, "ops", [new()])))
        elif isinstance(node, ast.BinOp) and type(node.op) in ARI:
            new = ARI[type(node.op)]
            out.append((f"L{ln}: {type(node.op).__name__} -> {new.__name__}", (node, "op", new())))
        elif isinstance(node, ast.BoolOp):
            new = ast.Or if isinstance(node.op, ast.And) else ast.And
            out.append((f"L{ln}: {type(node.op).__name__} -> {new.__name__}", (node, "op", new())))
        elif isinstance(node, ast.UnaryOp) and isinstance(node.op, ast.Not):
            out.append((f"L{ln}: drop not", (node, "__replace__", node.operand)))
        elif isinstance(node, ast.Constant) and isinstance(node.value, int) and not isinstance(node.value, bool) and 0 <= node.value <= 3:
            out.append((f"L{ln}: const {node.value} -> {node.value + 1}", (node, "value", node.value + 1)))
        elif isinstance(node, ast.Call) and isinstance(node.func, ast.Name) and node.func.id in ("min", "max"):
            out.append((f"L{ln}: {node.func.id} -> {'max' if node.func.id == 'min' else 'min'}", (node.func, "id", "max" if node.func.id == "min" else "min")))
        elif isinstance(node, ast.Call) and isinstance(node.func, ast.Name) and node.func.id == "abs" and len(node.args) == 1:
            out.append((f"L{ln}: drop abs", (node, "__replace__", node.args[0])))
        elif isinstance(node, ast.Name) and node.id == "tol" and isinstance(node.ctx, ast.Load):
            out.append((f"L{ln}: tol -> tol*100", (node, "__replace__", ast.BinOp(left=ast.Name(id="tol", ctx=ast.Load()), op=ast.Mult(), right=ast.Constant(value=100)))))
    return out


def apply(src, index):
    tree = ast.parse(src)
    parents = {}
    for p in ast.walk(tree):
        for c in ast.iter_child_nodes(p):
            parents[id(c)] = p
    desc, (node, attr, val) = candidates(tree)[index]
    if attr == "__replace__":
        par = parents[id(node)]
        for f, v in ast.iter_fields(par):
            if v is node:
                setattr(par, f, val)
            elif isinstance(v, list):
                for i, x in enumerate(v):
                    if x is node:
                        v[i] = val
    else:
        setattr(node, attr, val)
    ast.fix_missing_locations(tree)
    return desc, ast.unparse(tree) + "\n"


def sh(cmd, cwd, env=None, timeout=3600):
    try:
        r = subprocess.run(cmd, cwd=cwd, env=env, shell=True, capture_output=True, text=True, timeout=timeout)
        return r.returncode, r.stdout + r.stderr
    except subprocess.TimeoutExpired:
        return 124, "TIMEOUT"


def worker(wid, jobs, out, results):
    wt = Path(out) / f"wt{wid}"
    cq = Path(out) / f"coq{wid}"
    sh(f"git -C /repo worktree add -q --detach {wt} HEAD", "/")
    shutil.copytree(V / "coq", cq, symlinks=True)
    env = dict(os.environ, VERIF_REPO=str(wt), VERIF_COQ=str(cq), VERIF_JOBS="4")
    for job in jobs:
        f, idx = job["file"], job["index"]
        src = (Path("/repo") / f).read_text()
        try:
            desc, new = apply(src, idx)
        except Exception as e:  # noqa: BLE001
            continue
        (wt / f).write_text(new)
        t0 = time.time()
        rc, o = sh("/venv/bin/python -m pytest -q -x -p no:cacheprovider --timeout=900 2>&1 | tail -3", wt, timeout=1200)
        suite_ok = " passed" in o and "failed" not in o and "error" not in o.lower()
        rec = dict(file=f, index=idx, mutation=desc, suite_passes=suite_ok, checks={}, seconds=None)
        if suite_ok:
            for c in OWNERS[f]:
                rc, o = sh(f"./check {c} 2>&1 | grep -E 'VIOLATION|^OK|CHECK-ERROR' | head -3", V, env=env, timeout=2400)
                rec["checks"][c] = "VIOLATION" if "VIOLATION" in o else ("ERROR" if "CHECK-ERROR" in o or rc == 124 else "ok")
                if "no-failing-input-found" in o and "VIOLATION" in o:
                    rec["checks"][c] = "VIOLATION(no-failing-input)"
                if rec["checks"][c].startswith("VIOLATION"):
                    break
        rec["seconds"] = round(time.time() - t0)
        (wt / f).write_text(src)
        results.append(rec)
        with open(Path(out) / "results.jsonl", "a") as fh:
            fh.write(json.dumps(rec) + "\n")
    sh(f"git -C /repo worktree remove --force {wt}", "/")
    shutil.rmtree(cq, ignore_errors=True)


def main():
    ap = argparse.ArgumentParser()
    ap.add_argument("--out", required=True)
    ap.add_argument("--per-file", type=int, default=6)
    ap.add_argument("--workers", type=int, default=3)
    ap.add_argument("--seed", type=int, default=1)
    ap.add_argument("--files")
    a = ap.parse_args()
    rng = random.Random(a.seed)
    Path(a.out).mkdir(parents=True, exist_ok=True)
    jobs = []
    files = a.files.split(",") if a.files else list(OWNERS)
    for f in files:
        n = len(candidates(ast.parse((Path("/repo") / f).read_text())))
        for idx in rng.sample(range(n), min(a.per_file, n)):
            jobs.append(dict(file=f, index=idx))
    rng.shuffle(jobs)
    results = []
    with ThreadPoolExecutor(a.workers) as ex:
        for w in range(a.workers):
            ex.submit(worker, w, jobs[w::a.workers], a.out, results)
    sh("git -C /repo worktree prune", "/")
    killed_by_suite = sum(1 for r in results if not r["suite_passes"])
    live = [r for r in results if r["suite_passes"]]
    caught = [r for r in live if any(v.startswith("VIOLATION") for v in r["checks"].values())]
    surv = [r for r in live if r not in caught]
    print(json.dumps(dict(mutants=len(results), killed_by_suite=killed_by_suite, passed_suite=len(live), caught_by_checks=len(caught),
                          survivors=[(r["file"], r["mutation"], r["checks"]) for r in surv]), indent=1))


if __name__ == "__main__":
    main()
