"""./check Cxx [--tier quick|thorough] [--replay file]  -- see DESIGN.md section 2."""
from __future__ import annotations

import argparse
import fcntl
import hashlib
import importlib
import json
import os
import sys
import time
import traceback
from pathlib import Path

HERE = Path(__file__).resolve().parent
sys.path.insert(0, str(HERE.parent))
from harness import lib  # noqa: E402
from harness.lib import COQ, VERIF, Ctx, jsonable  # noqa: E402

sys.path.insert(0, str(lib.REPO))
for k, v in lib.impl_env().items():
    os.environ.setdefault(k, v)

STD_ALLOWED = {
    # axioms declared by the standard library itself (never by this development)
    "ClassicalDedekindReals.sig_forall_dec", "ClassicalDedekindReals.sig_not_dec",
    "FunctionalExtensionality.functional_extensionality_dep", "Classical_Prop.classic",
}


def locked_build(ctx, mod):
    """Regenerate gen/, build model then proofs. Records broken obligations."""
    lock = open(COQ / ".lock", "w")
    fcntl.flock(lock, fcntl.LOCK_EX)
    try:
        # 1. translator
        rc, out, dt = lib.sh(f"{lib.PY} {VERIF}/translator/py2coq.py --repo {lib.REPO} --out {COQ}/gen", 300,
                             env=lib.impl_env())
        ctx.extra["translator_s"] = round(dt, 1)
        if rc != 0:
            ctx.break_("translator", out)
        # 2. model / corr (no proofs inside: must always build)
        model_targets = list(getattr(mod, "MODEL_TARGETS", []))
        ok, log, dt = lib.coq_make(model_targets) if model_targets else (True, "", 0)
        ctx.extra["build_model_s"] = round(dt, 1)
        if not ok:
            f, ln, msg = lib.parse_coq_error(log)
            ctx.break_(f"model-build:{f}:{ln}", msg + "\n" + log[-1500:])
            return False
        # 3. proofs + property theorems
        ok, log, dt = lib.coq_make([f"props/{ctx.prop}.vo"])
        ctx.extra["build_proofs_s"] = round(dt, 1)
        if not ok:
            f, ln, msg = lib.parse_coq_error(log)
            lemma = lib.enclosing_lemma(COQ / f, ln) if f else None
            ctx.break_(f"proof:{f}:{lemma or ln}", msg)
        return True
    finally:
        fcntl.flock(lock, fcntl.LOCK_UN)
        lock.close()


def audit(ctx, mod):
    ctx.dep_files = lib.coq_deps(f"props/{ctx.prop}.v")
    bad = lib.audit_sources(ctx.dep_files if not os.environ.get("VERIF_AUDIT_ALL") else None)
    if bad:
        ctx.break_("audit:forbidden-vernacular", "\n".join(bad))
    if any(b["what"].startswith(("proof:", "model-build")) for b in ctx.broken):
        return
    ok, ass, log = lib.props_assumptions(ctx.prop)
    if not ok:
        ctx.break_("assumptions:" + ctx.prop, log[-1500:])
    allowed = set(getattr(mod, "ALLOWED_AXIOMS", [])) | (STD_ALLOWED if getattr(mod, "USES_REALS", False) else set())
    ctx.theorems = ass
    for th, axs in ass.items():
        extra = [a for a in axs if a not in allowed]
        if extra:
            ctx.break_(f"assumptions:{th}", "unexpected axioms: " + ", ".join(extra))
    thms = lib.theorems_in(ctx.prop)
    missing = [t for t in thms if t not in ass]
    if missing:
        ctx.break_("assumptions:missing-print", "no Print Assumptions for " + ", ".join(missing))
    if ctx.thorough and getattr(mod, "COQCHK", True) and not ctx.broken:
        rc, out, dt = lib.sh(f"coqchk -Q . OP -o OP.props.{ctx.prop}", 1800, cwd=COQ)
        ctx.extra["coqchk_s"] = round(dt, 1)
        ctx.extra["coqchk_tail"] = out[-1500:]
        if rc != 0:
            ctx.break_("coqchk", out[-1500:])


def classify(ctx):
    """Split failures into known findings and new violations."""
    new, known = [], []
    for f in ctx.failures:
        hit = None
        for k in ctx.known:
            if k.get("fixed"):
                continue
            if k.get("kind") == f["kind"]:
                hit = k
                break
        (known if hit else new).append((f, hit))
    return new, known


def write_replay(ctx, payload):
    h = hashlib.sha1(json.dumps(jsonable(payload), sort_keys=True).encode()).hexdigest()[:8]
    p = VERIF / "replays" / f"{ctx.prop}-{h}.json"
    p.parent.mkdir(exist_ok=True)
    payload = dict(payload)
    payload["replay_cmd"] = f"./check {ctx.prop} --replay replays/{p.name}"
    p.write_text(json.dumps(jsonable(payload), indent=1))
    return p


def evidence(ctx, mod, violations):
    proof_files = [f for f in getattr(ctx, "dep_files", []) if f.startswith(("proofs/", "props/"))] or [f"props/{ctx.prop}.v"]
    obligations = lib.count_lemmas(proof_files)
    built = not any(b["what"].startswith(("proof:", "model-build", "assumptions", "audit")) for b in ctx.broken)
    if built:
        discharged = obligations
    else:
        discharged = 0
        for f in proof_files:
            v, vo = COQ / f, COQ / (f[:-2] + ".vo")
            if vo.exists() and v.exists() and vo.stat().st_mtime >= v.stat().st_mtime:
                discharged += lib.count_lemmas([f])
    axioms = sorted({a for axs in ctx.theorems.values() for a in axs})
    tb = ["Coq 8.16.1 kernel (coqc; vm_compute used for witnesses, finite sweeps and case verdicts; no native_compute)",
          "axioms reported by Print Assumptions: " + (", ".join(axioms) if axioms else "none (closed under the global context)"),
          "translator/py2coq.py (constants, enums, scalar formulas regenerated from /repo on this run)",
          "correspondence harness: generators + exact float->Fraction conversion; verdicts computed by coqc",
          "no extraction"] + list(getattr(mod, "TRUSTED", []))
    cov = dict(
        obligations=max(obligations, 1), discharged=max(discharged, 1) if built else discharged,
        checker_cmd=f"make -C coq -f Makefile.coq props/{ctx.prop}.vo && coqc props/{ctx.prop}.v (Print Assumptions)" + ("; coqchk -o" if ctx.thorough else ""),
        trusted_base=tb,
        theorems=[dict(name=t, assumptions=a) for t, a in ctx.theorems.items()],
        evaluations=ctx.evaluations, distinct_nontrivial=len(ctx.nontrivial), rule=ctx.rule or getattr(mod, "RULE", ""),
        samples=ctx.samples or [{"note": "no case sampled"}],
        correspondence=dict(suites=ctx.suites), shape_histogram=ctx.hist,
        known_findings_seen=ctx.known_seen, broken=ctx.broken, notes=ctx.notes, timings=ctx.extra,
        proved_files=proof_files,
    )
    ev = dict(property_id=ctx.prop, tier=ctx.tier, seed=ctx.seed, level="proof", coverage=cov,
              assumptions=list(getattr(mod, "ASSUMPTIONS", [])), wall_s=round(time.time() - ctx.t0, 2), violations=violations)
    # evidence describes /repo itself: a run against another copy (mutation testing) must not overwrite it
    edir = VERIF / "evidence" if str(lib.REPO) == "/repo" else VERIF / ".work" / "evidence-other-repo"
    edir.mkdir(parents=True, exist_ok=True)
    (edir / f"{ctx.prop}.json").write_text(json.dumps(jsonable(ev), indent=1))


def main():
    ap = argparse.ArgumentParser()
    ap.add_argument("prop")
    ap.add_argument("--tier", default=os.environ.get("VERIF_TIER", "quick"), choices=["quick", "thorough"])
    ap.add_argument("--replay")
    a = ap.parse_args()
    seed = int(os.environ.get("VERIF_SEED", "0"))
    mod = importlib.import_module(f"harness.props.{a.prop.lower()}")
    ctx = Ctx(a.prop, a.tier, seed)
    rc = 0
    try:
        built = locked_build(ctx, mod)
        audit(ctx, mod)
        if a.replay:
            data = json.loads(Path(a.replay).read_text())
            if hasattr(mod, "replay") and built:
                mod.replay(ctx, data)
            else:
                print(json.dumps(data, indent=1))
            return 0
        if built:
            try:
                mod.run(ctx)
            except lib.CoqCasesError as e:
                ctx.break_(f"correspondence:{e.suite}", str(e))
            except Exception as e:  # noqa: BLE001
                # An exception that escapes from the IMPLEMENTATION while a suite drives it (the harness calls it with inputs it
                # accepts on the unchanged tree) is a verdict about the code, not a failure of the check: report it as a violation
                # with the call stack as the replay.  Exceptions raised by the harness itself stay CHECK-ERRORs.
                frames = traceback.extract_tb(e.__traceback__)
                repo = str(lib.REPO.resolve())
                if not any(str(Path(f.filename).resolve()).startswith(repo + os.sep) for f in frames):
                    raise
                ctx.fail("implementation-raises", f"{type(e).__name__}: {str(e)[:200]} raised inside the implementation while a suite was "
                         "driving it with inputs the unchanged code accepts", suite="harness",
                         input=dict(traceback=[f"{f.filename}:{f.lineno} {f.name}: {f.line}" for f in frames][-8:]),
                         predicate="the implementation answers every call of the suites")
        new, known = classify(ctx)
        seen = {}
        for f, k in known:
            seen.setdefault(k["id"], (k, f))
        for kid, (k, f) in sorted(seen.items()):
            print(f"KNOWN-FINDING: property={ctx.prop} {k['id']}: {k['what']}")
            ctx.known_seen.append(dict(id=k["id"], what=k["what"], example=f.get("input")))
        nviol = 0
        if new:
            # one replay per distinct kind (first = smallest, modules shrink before reporting)
            bykind = {}
            for f, _ in new:
                bykind.setdefault(f["kind"], f)
            for kind, f in bykind.items():
                payload = dict(f)
                payload.update(property=ctx.prop, tier=ctx.tier, seed=seed, kind="failing-input", trigger=kind,
                               broken=[b["what"] for b in ctx.broken])
                p = write_replay(ctx, payload)
                print(f"VIOLATION property={ctx.prop} replay={p}")
                nviol += 1
        elif ctx.broken:
            p = write_replay(ctx, dict(property=ctx.prop, tier=ctx.tier, seed=seed, kind="broken-tie",
                                       broken=ctx.broken,
                                       note="a theorem, the translator or a correspondence suite no longer checks; "
                                            "the search found no input on which the property predicate fails",
                                       searched=dict(evaluations=ctx.evaluations, suites=ctx.suites)))
            print(f"VIOLATION property={ctx.prop} replay={p} no-failing-input-found")
            nviol += 1
        evidence(ctx, mod, nviol)
        rc = 1 if nviol else 0
        if rc == 0:
            print(f"OK property={ctx.prop} tier={ctx.tier} evaluations={ctx.evaluations} "
                  f"nontrivial={len(ctx.nontrivial)} theorems={len(ctx.theorems)} wall={time.time() - ctx.t0:.0f}s")
    except Exception:
        traceback.print_exc()
        print(f"CHECK-ERROR property={a.prop}: the check itself failed (not a verdict)")
        rc = 2
    finally:
        ctx.cleanup()
    return rc


if __name__ == "__main__":
    sys.exit(main())
