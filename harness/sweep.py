#!/usr/bin/env python3
"""maintainer helper: run every claimed check (quick or thorough) one after the other and report
   (a) any VIOLATION / CHECK-ERROR, (b) every open finding of known_findings.json whose KNOWN-FINDING line did not appear.
   usage: harness/sweep.py [--tier quick|thorough] [--seed N] [--only C01,C02] [--out DIR]"""
import argparse
import json
import os
import re
import subprocess
import sys
import time
from pathlib import Path

V = Path(__file__).resolve().parent.parent
ap = argparse.ArgumentParser()
ap.add_argument("--tier", default="quick")
ap.add_argument("--seed")
ap.add_argument("--only")
ap.add_argument("--out", default="/tmp/verif-sweep")
a = ap.parse_args()
props = [c["property_id"] for c in json.loads((V / "MANIFEST.json").read_text())["checks"]]
if a.only:
    props = [p for p in props if p in a.only.split(",")]
kf = json.loads((V / "known_findings.json").read_text())["findings"]
out = Path(a.out)
out.mkdir(parents=True, exist_ok=True)
env = dict(os.environ)
if a.seed:
    env["VERIF_SEED"] = a.seed
bad = 0
for p in props:
    t0 = time.time()
    r = subprocess.run([str(V / "check"), p, "--tier", a.tier], cwd=V, env=env, capture_output=True, text=True)
    txt = r.stdout + r.stderr
    (out / f"{p}.{a.tier}.{a.seed or 0}.out").write_text(txt)
    printed = set(re.findall(rf"^KNOWN-FINDING: property={p} (D\w+)", txt, re.M))
    listed = {f["id"] for f in kf if f["property"] == p and not f.get("fixed")}
    viol = [line for line in txt.splitlines() if line.startswith("VIOLATION") or "CHECK-ERROR" in line]
    status = "OK" if r.returncode == 0 and not viol else "ALARM"
    miss = sorted(listed - printed)
    if status != "OK" or miss:
        bad += 1
    print(f"{p} {status} rc={r.returncode} {time.time() - t0:.0f}s known={sorted(printed)}" + (f" NOT-PRINTED={miss}" if miss else "")
          + ("".join("\n    " + v for v in viol)), flush=True)
sys.exit(1 if bad else 0)
