#!/bin/bash
# maintainer helper: verify and store a seeded change  (usage: collect_seed.sh <prop> <seed-name> <checks...>)
# verifies: unedited suite passes with the change; demo fails with it and passes on /repo; runs the named checks against the changed copy
P=$1; NAME=$2; shift 2
R=${SEEDROOT:-/tmp/seed}; W=$R/$P; O=$R/${P}_out; D=/verif/seeded/$NAME
mkdir -p $D; cp $O/patch.diff $O/demo.py $D/; 
suite=$(cd $W && /venv/bin/python -m pytest -q -p no:cacheprovider --timeout=900 2>&1 | tail -1)
/venv/bin/python -W ignore $O/demo.py /repo > $R/demo_clean.out 2>&1; rc_clean=$?
/venv/bin/python -W ignore $O/demo.py $W > $R/demo_seeded.out 2>&1; rc_seed=$?
res=""
# private copy of the Coq tree: other checks may run against /repo at the same time
CQ=$R/coq_private_$P; rm -rf $CQ; cp -a /verif/coq $CQ
for c in "$@"; do
  out=$(cd /verif && VERIF_COQ=$CQ VERIF_REPO=$W ./check $c 2>&1 | grep -E "VIOLATION|^OK|CHECK-ERROR" | tr '\n' ';')
  res="$res $c: $out"
done
rm -rf $CQ
/venv/bin/python - "$P" "$NAME" "$suite" "$rc_clean" "$rc_seed" "$res" <<'PY'
import json,sys,os
P,NAME,suite,rc_clean,rc_seed,res=sys.argv[1:7]
m=json.load(open(os.environ.get("SEEDROOT","/tmp/seed")+f"/{P}_out/meta.json"))
m.update(property=P, lead_verification=dict(suite_with_change=suite, demo_exit_on_repo=int(rc_clean), demo_exit_with_change=int(rc_seed),
         checks_against_changed_copy=res.strip(), how="worktree of /repo HEAD with the patch applied; checks run with VERIF_REPO=<worktree>"))
json.dump(m,open(f"/verif/seeded/{NAME}/meta.json","w"),indent=1)
print(json.dumps(m["lead_verification"],indent=1))
PY
