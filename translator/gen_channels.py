"""Generated part of the C16 model: gen/ChannelsGen.v.

Reads, from the AST of /repo, every literal the hand-written model coq/model/Channels.v depends on:
  export._unique_sheet_name   : the three occurrences of 31 (slice, length test, suffix budget), range(2, 1000),
                                the suffix format f" ({idx})", the rstrip character, the "Sheet" fallback
  export._sanitize_sheet_name : the regex character class, the replacement, the strip character, the fallback
  wkbook_to_json._normalize_label (nested in _validate_stream_data): "." -> "-", the prefixes "Z" and "S"
Fail-closed: the statement structure of each function (constants masked) must be exactly the one the model was
written against; any other shape raises Untranslatable (reported by the check as a broken tie).
Strings are emitted as lists of character codes (the model turns them into Coq strings), so that no quoting
convention of Coq's string notation is involved.
"""
from __future__ import annotations

import ast
import hashlib
import sys
from pathlib import Path

_m = sys.modules.get("__main__")
if _m is not None and hasattr(_m, "Untranslatable"):
    Untranslatable = _m.Untranslatable            # the class py2coq.main() catches
else:                                             # imported on its own (tests)
    try:
        from py2coq import Untranslatable
    except Exception:                             # pragma: no cover
        class Untranslatable(Exception):
            pass


class _Mask(ast.NodeTransformer):
    """Replace every int/str constant by a placeholder (collected in source order)."""

    def __init__(self):
        self.consts = []

    def visit_Constant(self, node):
        if isinstance(node.value, bool) or node.value is None:
            return node
        if isinstance(node.value, (int, str)):
            self.consts.append(node.value)
            return ast.copy_location(ast.Constant(value="@"), node)
        return node


def _strip_doc(fn: ast.FunctionDef):
    body = list(fn.body)
    if body and isinstance(body[0], ast.Expr) and isinstance(body[0].value, ast.Constant) and isinstance(body[0].value.value, str):
        body = body[1:]
    new = ast.FunctionDef(name=fn.name, args=fn.args, body=body, decorator_list=[], returns=None, type_comment=None)
    try:
        new.type_params = []
    except Exception:
        pass
    return new


def _find(tree, name):
    hits = [n for n in ast.walk(tree) if isinstance(n, ast.FunctionDef) and n.name == name]
    if len(hits) != 1:
        raise Untranslatable(f"expected exactly one function `{name}`, found {len(hits)}")
    return hits[0]


def _skeleton(fn):
    m = _Mask()
    masked = m.visit(ast.fix_missing_locations(_strip_doc(fn)))
    body_dump = "\n".join(ast.dump(s, annotate_fields=True, include_attributes=False) for s in masked.body)
    return hashlib.sha1(body_dump.encode()).hexdigest()[:16], m.consts, body_dump


# skeleton fingerprints of the function bodies the model was written against (constants masked)
EXPECTED = {
    "_unique_sheet_name": "a2fd04ea5dc39c0f",
    "_sanitize_sheet_name": "db6ef3594ed82166",
    "_normalize_label": "692c10a2969d9ba1",
}


def _codes(s: str):
    for ch in s:
        if ord(ch) > 255:
            raise Untranslatable(f"character {ch!r} outside Latin-1 in a source literal")
    return "[" + "; ".join(str(ord(ch)) for ch in s) + "]"


def _parse_class(rx: str):
    """Character class `[...]` of literal or backslash-escaped characters only."""
    if len(rx) < 2 or rx[0] != "[" or rx[-1] != "]":
        raise Untranslatable(f"sheet-name regex is not a single character class: {rx!r}")
    body, out, i = rx[1:-1], [], 0
    if body.startswith("^"):
        raise Untranslatable("negated character class")
    while i < len(body):
        c = body[i]
        if c == "\\":
            if i + 1 >= len(body):
                raise Untranslatable("dangling backslash in character class")
            e = body[i + 1]
            if e.isalnum():
                raise Untranslatable(f"escape class \\{e} not supported")
            out.append(e)
            i += 2
        elif c in "-[]^":
            raise Untranslatable(f"unsupported unescaped {c!r} in character class {rx!r}")
        else:
            out.append(c)
            i += 1
    return out


def gen_channels(repo: Path) -> str:
    exp = ast.parse((repo / "OpenPinch/utils/export.py").read_text())
    wk = ast.parse((repo / "OpenPinch/utils/wkbook_to_json.py").read_text())
    got = {}
    for name, tree in (("_unique_sheet_name", exp), ("_sanitize_sheet_name", exp), ("_normalize_label", wk)):
        h, consts, dump = _skeleton(_find(tree, name))
        if h != EXPECTED[name]:
            raise Untranslatable(f"statement structure of {name} changed (skeleton {h}, expected {EXPECTED[name]}); "
                                 f"the hand-written model coq/model/Channels.v must be revised against:\n{dump[:1500]}")
        got[name] = consts
    u = got["_unique_sheet_name"]
    if len(u) != 10 or not all(isinstance(u[i], int) for i in (0, 3, 4, 7, 8)) or not all(isinstance(u[i], str) for i in (1, 2, 5, 6, 9)):
        raise Untranslatable(f"unexpected literals in _unique_sheet_name: {u!r}")
    trunc, rstrip_c, fb_u, lo, hi, pre, post, limit, budget, _msg = u
    s = got["_sanitize_sheet_name"]
    if len(s) != 4 or not all(isinstance(x, str) for x in s):
        raise Untranslatable(f"unexpected literals in _sanitize_sheet_name: {s!r}")
    rx, repl, strip_c, fb_s = s
    n = got["_normalize_label"]
    if len(n) != 3 or not all(isinstance(x, str) for x in n):
        raise Untranslatable(f"unexpected literals in _normalize_label: {n!r}")
    dot_a, dot_b, dash = n
    if dot_a != dot_b or len(dot_a) != 1 or len(dash) != 1:
        raise Untranslatable(f"_normalize_label replaces {dot_b!r} (tested {dot_a!r}) by {dash!r}: model expects single characters")
    if len(rstrip_c) != 1 or len(strip_c) != 1:
        raise Untranslatable("strip arguments are not single characters")
    # prefixes passed at the two call sites  _normalize_label(zone, "Z") / _normalize_label(name, "S")
    vs = _find(wk, "_validate_stream_data")
    prefixes = {}
    for c in ast.walk(vs):
        if isinstance(c, ast.Call) and isinstance(c.func, ast.Name) and c.func.id == "_normalize_label":
            if len(c.args) != 2 or not isinstance(c.args[0], ast.Name) or not isinstance(c.args[1], ast.Constant) \
                    or not isinstance(c.args[1].value, str):
                raise Untranslatable("unexpected call shape of _normalize_label")
            prefixes[c.args[0].id] = c.args[1].value
    if set(prefixes) != {"zone", "name"}:
        raise Untranslatable(f"_normalize_label call sites changed: {prefixes!r}")
    L = ["(* GENERATED by translator/gen_channels.py from /repo on every check run -- do not edit *)",
         "From Coq Require Import List Arith.", "Import ListNotations.", "",
         "(* export._unique_sheet_name *)",
         f"Definition sheet_trunc : nat := {trunc}.      (* cleaned[:{trunc}] *)",
         f"Definition sheet_limit : nat := {limit}.      (* len(candidate) + len(suffix) > {limit} *)",
         f"Definition sheet_budget : nat := {budget}.     (* candidate[: {budget} - len(suffix)] *)",
         f"Definition sheet_lo : nat := {lo}.",
         f"Definition sheet_hi : nat := {hi}.          (* range({lo}, {hi}) *)",
         f"Definition sheet_rstrip_char : nat := {ord(rstrip_c)}.",
         f"Definition sheet_fallback_u : list nat := {_codes(fb_u)}.",
         f"Definition sheet_sfx_pre : list nat := {_codes(pre)}.",
         f"Definition sheet_sfx_post : list nat := {_codes(post)}.",
         "(* export._sanitize_sheet_name *)",
         f"Definition sheet_class : list nat := {_codes(''.join(_parse_class(rx)))}.   (* the characters of the regex class *)",
         f"Definition sheet_repl : list nat := {_codes(repl)}.",
         f"Definition sheet_strip_char : nat := {ord(strip_c)}.",
         f"Definition sheet_fallback_s : list nat := {_codes(fb_s)}.",
         "(* wkbook_to_json._normalize_label *)",
         f"Definition label_dot : nat := {ord(dot_a)}.",
         f"Definition label_dash : nat := {ord(dash)}.",
         f"Definition label_prefix_zone : list nat := {_codes(prefixes['zone'])}.",
         f"Definition label_prefix_name : list nat := {_codes(prefixes['name'])}.",
         ""]
    return "\n".join(L) + "\n"


GENERATORS = {"ChannelsGen.v": gen_channels}

if __name__ == "__main__":
    r = Path(sys.argv[1] if len(sys.argv) > 1 else "/repo")
    for nm, tree_file in (("_unique_sheet_name", "OpenPinch/utils/export.py"), ("_sanitize_sheet_name", "OpenPinch/utils/export.py"),
                          ("_normalize_label", "OpenPinch/utils/wkbook_to_json.py")):
        print(nm, _skeleton(_find(ast.parse((r / tree_file).read_text()), nm))[:2])
