"""Generated constants of the heat-pump cycle model (C18): literals read from the bodies of
`SimpleHeatPumpCycle._convert_C_to_K`, `_get_metrics`, `solve` and `build_stream_collection._build_streams`.
Fail-closed: any shape other than the one the hand-written model (coq/model/HeatPump.v) mirrors aborts."""
from __future__ import annotations

import ast

from py2coq import Src, Untranslatable, die, num_value, qlit  # noqa: F401

REL = "OpenPinch/classes/simple_heat_pump.py"


def _is_name(n, name):
    return isinstance(n, ast.Name) and n.id == name


def _is_self_attr(n, attr):
    return isinstance(n, ast.Attribute) and _is_name(n.value, "self") and n.attr == attr


def _call_name(n):
    return n.func.id if isinstance(n, ast.Call) and isinstance(n.func, ast.Name) else None


def gen_heatpump_consts(repo) -> str:
    src = Src(repo, REL)
    cls = src.classdef("SimpleHeatPumpCycle")

    # T + 273.15
    f = src.funcdef("_convert_C_to_K", cls)
    ret = [n for n in ast.walk(f) if isinstance(n, ast.Return)]
    if len(ret) != 1 or not (isinstance(ret[0].value, ast.BinOp) and isinstance(ret[0].value.op, ast.Add)
                             and _is_name(ret[0].value.left, "T")):
        die(REL, f, "_convert_C_to_K is not `return T + <literal>`")
    c_to_k = num_value(REL, ret[0].value.right)

    # _get_metrics: three specific quantities `<expr> / 1000`, then m_dot, Q_evap, work
    f = src.funcdef("_get_metrics", cls)
    divs = []
    targets = []
    for st in f.body:
        if not (isinstance(st, ast.Assign) and len(st.targets) == 1 and isinstance(st.targets[0], ast.Attribute)):
            die(REL, st, "unexpected statement in _get_metrics")
        targets.append(st.targets[0].attr)
        if isinstance(st.value, ast.BinOp) and isinstance(st.value.op, ast.Div) and isinstance(st.value.right, ast.Constant):
            divs.append(num_value(REL, st.value.right))
    if targets != ["_w_net", "_q_evap", "_q_cond", "_m_dot", "_Q_evap", "_work"]:
        die(REL, f, f"_get_metrics assigns {targets}, the model mirrors _w_net,_q_evap,_q_cond,_m_dot,_Q_evap,_work")
    if len(divs) != 3 or len(set(divs)) != 1:
        die(REL, f, f"_get_metrics: expected three divisions by one literal, got {divs}")
    kj = divs[0]

    # solve: self._ihx_gas_dt = max(<floor>, min(ihx_gas_dt, Tc - Te - dT_sc - dT_sh - <margin>))
    f = src.funcdef("solve", cls)
    asg = [n for n in ast.walk(f) if isinstance(n, ast.Assign) and len(n.targets) == 1 and _is_self_attr(n.targets[0], "_ihx_gas_dt")]
    if len(asg) != 1:
        die(REL, f, "solve: expected exactly one assignment to self._ihx_gas_dt")
    v = asg[0].value
    if not (_call_name(v) == "max" and len(v.args) == 2 and _call_name(v.args[1]) == "min" and len(v.args[1].args) == 2
            and _is_name(v.args[1].args[0], "ihx_gas_dt")):
        die(REL, asg[0], "solve: self._ihx_gas_dt is not max(<literal>, min(ihx_gas_dt, <lift expression>))")
    floor = num_value(REL, v.args[0])
    e = v.args[1].args[1]
    names = []
    margin = None
    while isinstance(e, ast.BinOp) and isinstance(e.op, ast.Sub):
        if margin is None:
            margin = num_value(REL, e.right)
        elif isinstance(e.right, ast.Name):
            names.append(e.right.id)
        else:
            die(REL, e, "solve: unexpected term in the lift expression")
        e = e.left
    if not isinstance(e, ast.Name):
        die(REL, e, "solve: unexpected head of the lift expression")
    names.append(e.id)
    if names[::-1] != ["Tc", "Te", "dT_sc", "dT_sh"] or margin is None:
        die(REL, asg[0], f"solve: lift expression is {names[::-1]} - {margin}, the model mirrors Tc - Te - dT_sc - dT_sh - <margin>")

    # _build_streams: abs(T1 - T2) < w ; t_target = T2 -/+ nudge
    outer = src.funcdef("build_stream_collection", cls)
    f = src.funcdef("_build_streams", outer)
    cmps = [n for n in ast.walk(f) if isinstance(n, ast.Compare) and _call_name(n.left) == "abs"]
    if len(cmps) != 1 or len(cmps[0].ops) != 1 or not isinstance(cmps[0].ops[0], ast.Lt):
        die(REL, f, "_build_streams: expected exactly one `abs(T1 - T2) < <literal>` test")
    a = cmps[0].left.args[0]
    if not (isinstance(a, ast.BinOp) and isinstance(a.op, ast.Sub) and _is_name(a.left, "T1") and _is_name(a.right, "T2")):
        die(REL, cmps[0], "_build_streams: the phase-change test is not on T1 - T2")
    window = num_value(REL, cmps[0].comparators[0])
    nudges = {}
    for n in ast.walk(f):
        if isinstance(n, ast.Assign) and len(n.targets) == 1 and _is_name(n.targets[0], "t_target") and isinstance(n.value, ast.BinOp):
            if not (_is_name(n.value.left, "T2") and isinstance(n.value.op, (ast.Add, ast.Sub))):
                die(REL, n, "_build_streams: unexpected t_target expression")
            nudges[type(n.value.op).__name__] = num_value(REL, n.value.right)
    if set(nudges) != {"Add", "Sub"} or nudges["Add"] != nudges["Sub"]:
        die(REL, f, f"_build_streams: expected t_target = T2 - d (hot) and T2 + d (cold) with one literal d, got {nudges}")
    # mass flow: self._Q_cond / abs(H[i] - H[j])
    md = [n for n in ast.walk(f) if isinstance(n, ast.Assign) and len(n.targets) == 1 and _is_name(n.targets[0], "m_dot")]
    if len(md) != 1:
        die(REL, f, "_build_streams: expected one local assignment to m_dot (no write to self._m_dot)")
    for n in ast.walk(f):
        if isinstance(n, (ast.Assign, ast.AugAssign)):
            tg = n.targets if isinstance(n, ast.Assign) else [n.target]
            if any(isinstance(t, ast.Attribute) and _is_name(t.value, "self") for t in tg):
                die(REL, n, "_build_streams writes an attribute of self; the model has no state change on a request")

    L = ["(* GENERATED by translator/gen_heatpump.py from /repo on every check run -- do not edit *)",
         "From Coq Require Import QArith.",
         "Local Open Scope Q_scope.",
         "",
         f"Definition hp_C_to_K : Q := {qlit(c_to_k)}.        (* _convert_C_to_K *)",
         f"Definition hp_kJ : Q := {qlit(kj)}.             (* _get_metrics: J/kg -> kJ/kg *)",
         f"Definition hp_ihx_floor : Q := {qlit(floor)}.      (* solve: max(<floor>, ...) *)",
         f"Definition hp_ihx_margin : Q := {qlit(margin)}.     (* solve: lift - dT_sc - dT_sh - <margin> *)",
         f"Definition hp_iso_window : Q := {qlit(window)}.     (* _build_streams: abs(T1 - T2) < <window> *)",
         f"Definition hp_iso_nudge : Q := {qlit(nudges['Sub'])}.      (* _build_streams: t_target = T2 -/+ <nudge> *)",
         ""]
    return "\n".join(L)


GENERATORS = {"HeatPumpConsts.v": gen_heatpump_consts}
