#!/usr/bin/env python3
"""Fail-closed translator: Python `ast` of /repo -> Coq text under coq/gen/.

Regenerated on every check run (DESIGN.md 5.1).  Anything outside the
whitelisted shapes aborts with a non-zero exit status and a `file:line`
message, which the check reports as a broken tie.

Outputs
  Consts.v  - numeric constants as the exact rational of the Python double,
              configuration defaults, literals read from the function bodies
              that the hand-written model mirrors (activity window, latent
              width, sheet-name bounds ...), enumerations, problem-table column
              roles.
  Scalar.v  - real-valued scalar formulas (costing, heat exchanger) over R.
  HxDispatch.v - the arrangement dispatch tables of HX_Eff / HX_NTU.
Files are only rewritten when their content changes (keeps builds incremental).
"""
from __future__ import annotations

import argparse
import ast
import math
import sys
from fractions import Fraction
from pathlib import Path


class Untranslatable(Exception):
    pass


def die(path, node, msg):
    ln = getattr(node, "lineno", "?")
    raise Untranslatable(f"{path}:{ln}: {msg}")


def qlit(x) -> str:
    f = Fraction(x)
    n, d = f.numerator, f.denominator
    return f"({n} # {d})" if n >= 0 else f"((-{-n}) # {d})"


def coq_str(s: str) -> str:
    # non-ASCII characters are rendered as their UTF-8 bytes by Coq's String notation; keep ASCII only
    out = []
    for ch in s:
        if ch == '"':
            out.append('""')
        elif 32 <= ord(ch) < 127:
            out.append(ch)
        else:
            out.append("\\u%04x" % ord(ch))
    return '"' + "".join(out) + '"'


def num_value(path, node):
    """Evaluate a constant numeric expression (literals, unary minus, + - * /)."""
    if isinstance(node, ast.Constant) and isinstance(node.value, (int, float)) and not isinstance(node.value, bool):
        return node.value
    if isinstance(node, ast.UnaryOp) and isinstance(node.op, ast.USub):
        return -num_value(path, node.operand)
    if isinstance(node, ast.BinOp) and isinstance(node.op, (ast.Add, ast.Sub, ast.Mult, ast.Div)):
        a, b = num_value(path, node.left), num_value(path, node.right)
        return {ast.Add: a + b, ast.Sub: a - b, ast.Mult: a * b, ast.Div: a / b}[type(node.op)]
    die(path, node, "expected a numeric literal expression, got " + ast.dump(node)[:80])


class Src:
    def __init__(self, repo: Path, rel: str):
        self.path = repo / rel
        self.rel = rel
        self.tree = ast.parse(self.path.read_text(), filename=str(self.path))

    def module_assign(self, name):
        for n in self.tree.body:
            if isinstance(n, ast.Assign) and len(n.targets) == 1 and isinstance(n.targets[0], ast.Name) and n.targets[0].id == name:
                return n.value
            if isinstance(n, ast.AnnAssign) and isinstance(n.target, ast.Name) and n.target.id == name and n.value is not None:
                return n.value
        die(self.rel, self.tree, f"module-level assignment `{name}` not found")

    def classdef(self, name):
        for n in self.tree.body:
            if isinstance(n, ast.ClassDef) and n.name == name:
                return n
        die(self.rel, self.tree, f"class `{name}` not found")

    def funcdef(self, name, within=None):
        scope = within if within is not None else self.tree
        for n in ast.walk(scope):
            if isinstance(n, (ast.FunctionDef,)) and n.name == name:
                return n
        die(self.rel, scope, f"function `{name}` not found")

    def class_attr(self, cls, name):
        c = self.classdef(cls)
        for n in c.body:
            if isinstance(n, ast.AnnAssign) and isinstance(n.target, ast.Name) and n.target.id == name and n.value is not None:
                return n.value
            if isinstance(n, ast.Assign) and len(n.targets) == 1 and isinstance(n.targets[0], ast.Name) and n.targets[0].id == name:
                return n.value
        die(self.rel, c, f"class attribute `{cls}.{name}` not found")

    def enum_members(self, cls):
        c = self.classdef(cls)
        out = []
        for n in c.body:
            if isinstance(n, ast.Assign) and len(n.targets) == 1 and isinstance(n.targets[0], ast.Name):
                if not isinstance(n.value, ast.Constant):
                    die(self.rel, n, f"enum member {cls}.{n.targets[0].id} is not a literal")
                out.append((n.targets[0].id, n.value.value))
            elif isinstance(n, (ast.Expr, ast.FunctionDef)):
                continue
            else:
                die(self.rel, n, f"unexpected statement in enum {cls}")
        return out


# ---------------------------------------------------------------------------
# Consts.v
# ---------------------------------------------------------------------------
def find_tol_multiples(src: Src, func: ast.AST, what):
    """All literals k in sub-expressions `tol * k` inside func."""
    ks = []
    for n in ast.walk(func):
        if isinstance(n, ast.BinOp) and isinstance(n.op, ast.Mult):
            l, r = n.left, n.right
            if isinstance(l, ast.Name) and l.id == "tol" and isinstance(r, ast.Constant):
                ks.append(r.value)
            elif isinstance(r, ast.Name) and r.id == "tol" and isinstance(l, ast.Constant):
                ks.append(l.value)
    if not ks:
        die(src.rel, func, f"no `tol * k` literal found in {what}")
    if len(set(ks)) != 1:
        die(src.rel, func, f"different `tol * k` factors in {what}: {ks}")
    return ks[0]


def compare_ops(func):
    return [type(o).__name__ for n in ast.walk(func) if isinstance(n, ast.Compare) for o in n.ops]


def gen_consts(repo: Path) -> str:
    cfg = Src(repo, "OpenPinch/lib/config.py")
    enums = Src(repo, "OpenPinch/lib/enums.py")
    pta = Src(repo, "OpenPinch/analysis/problem_table_analysis.py")
    ptab = Src(repo, "OpenPinch/classes/problem_table.py")
    gd = Src(repo, "OpenPinch/analysis/graph_data.py")
    stream = Src(repo, "OpenPinch/classes/stream.py")
    L = ["(* GENERATED by translator/py2coq.py from /repo on every check run -- do not edit *)",
         "From Coq Require Import QArith ZArith List String.", "Import ListNotations.", "Local Open Scope Q_scope.", ""]

    tol = num_value(cfg.rel, cfg.module_assign("tol"))
    L.append(f"Definition tol : Q := {qlit(float(tol))}.  (* exact value of the double {tol!r} *)")
    L.append(f"Definition C_to_K : Q := {qlit(float(num_value(cfg.rel, cfg.module_assign('C_to_K'))))}.")
    for nm in ["DT_CONT", "DT_PHASE_CHANGE", "HTC", "UTILITY_PRICE", "FIXED_COST", "VARIABLE_COST", "COST_EXP",
               "DISCOUNT_RATE", "SERV_LIFE", "ANNUAL_OP_TIME", "T_ENV", "DT_ENV_CONT"]:
        v = num_value(cfg.rel, cfg.class_attr("Configuration", nm))
        L.append(f"Definition cfg_{nm} : Q := {qlit(float(v))}.")
    for nm in ["DO_DIRECT_OPERATION_TARGETING", "DO_DIRECT_SITE_TARGETING", "DO_INDIRECT_PROCESS_TARGETING", "DO_BALANCED_CC",
               "DO_AREA_TARGETING", "DO_VERTICAL_GCC", "DO_ASSITED_HT"]:
        v = cfg.class_attr("Configuration", nm)
        if not (isinstance(v, ast.Constant) and isinstance(v.value, bool)):
            die(cfg.rel, v, f"Configuration.{nm} is not a boolean literal")
        L.append(f"Definition cfg_{nm} : bool := {'true' if v.value else 'false'}.")
    dp = num_value(cfg.rel, cfg.class_attr("Configuration", "DECIMAL_PLACES"))
    L.append(f"Definition cfg_DECIMAL_PLACES : nat := {int(dp)}%nat.")

    # activity window of the cascade:  t_max > lower + tol*k  /\  t_min < upper - tol*k
    f = pta.funcdef("calc_active_matrix")
    k = find_tol_multiples(pta, f, "calc_active_matrix")
    ops = compare_ops(f)
    if ops != ["Gt", "Lt"]:
        die(pta.rel, f, f"activity test comparisons changed: {ops} (model expects strict > and <)")
    L.append(f"Definition act_window_factor : Q := {qlit(k)}.")
    L.append(f"Definition act_window : Q := {qlit(float(tol) * k)}.  (* the double tol*{k} as Python computes it *)")
    # grid rounding: dp = int(-math.log10(tol))
    L.append(f"Definition grid_round_dp : nat := {int(-math.log10(tol))}%nat.")

    # latent stream width in Stream._update_attributes (supply == target)
    upd = stream.funcdef("_update_attributes")
    widths = set()
    for n in ast.walk(upd):
        if isinstance(n, ast.BinOp) and isinstance(n.op, (ast.Add, ast.Sub)) and isinstance(n.right, ast.Constant) \
                and isinstance(n.right.value, float) and isinstance(n.left, ast.Attribute) and n.left.attr == "_t_supply":
            widths.add(n.right.value)
    if len(widths) != 1:
        die(stream.rel, upd, f"expected one latent-width literal in _update_attributes, found {sorted(widths)}")
    L.append(f"Definition latent_dT : Q := {qlit(widths.pop())}.")

    # graph constants
    L.append(f"Definition graph_DECIMAL_PLACES : nat := {int(num_value(gd.rel, gd.module_assign('DECIMAL_PLACES')))}%nat.")
    L.append(f"Definition gcc_vertical_tol : Q := {qlit(float(num_value(gd.rel, gd.module_assign('GCC_VERTICAL_TOL'))))}.")

    # enums
    L.append("")
    L.append("Local Open Scope string_scope.")
    for cls, short in [("ZoneType", "zt"), ("TargetType", "tt"), ("HeatExchangerTypes", "hx"), ("StreamType", "st"),
                       ("ProblemTableLabel", "pt"), ("GraphType", "gt"), ("LegendSeries", "ls")]:
        mem = enums.enum_members(cls)
        L.append(f"Inductive {short} : Set := " + " | ".join(f"{short}_{m}" for m, _ in mem) + ".")
        L.append(f"Definition {short}_all : list {short} := [" + "; ".join(f"{short}_{m}" for m, _ in mem) + "].")
        L.append(f"Definition {short}_value (x : {short}) : string := match x with " +
                 " ".join(f"| {short}_{m} => {coq_str(str(v))}" for m, v in mem) + " end.")
    # problem-table column roles
    def pt_tuple(name):
        v = ptab.module_assign(name)
        if not isinstance(v, ast.Tuple):
            die(ptab.rel, v, f"{name} is not a tuple literal")
        return v.elts

    def pt_member(e):
        # PT.X.value
        if isinstance(e, ast.Attribute) and e.attr == "value" and isinstance(e.value, ast.Attribute) \
                and isinstance(e.value.value, ast.Name) and e.value.value.id == "PT":
            return "pt_" + e.value.attr
        die(ptab.rel, e, "expected PT.<member>.value")

    interp = [pt_member(e) for e in pt_tuple("INTERPOLATION_KEYS")]
    L.append("Definition interpolation_keys : list pt := [" + "; ".join(interp) + "].")
    pairs = []
    for e in pt_tuple("HEAT_CAPACITY_PAIRS"):
        if not (isinstance(e, ast.Tuple) and len(e.elts) == 2):
            die(ptab.rel, e, "HEAT_CAPACITY_PAIRS element is not a pair")
        pairs.append("(" + pt_member(e.elts[0]) + ", " + pt_member(e.elts[1]) + ")")
    L.append("Definition heat_capacity_pairs : list (pt * pt) := [" + "; ".join(pairs) + "].")
    L.append("")
    return "\n".join(L) + "\n"


GENERATORS = {"Consts.v": gen_consts}


def main():
    ap = argparse.ArgumentParser()
    ap.add_argument("--repo", default="/repo")
    ap.add_argument("--out", required=True)
    a = ap.parse_args()
    repo, out = Path(a.repo), Path(a.out)
    out.mkdir(parents=True, exist_ok=True)
    # optional generators living in sibling modules (added as the model grows)
    here = Path(__file__).resolve().parent
    sys.path.insert(0, str(here))
    gens = dict(GENERATORS)
    for extra in sorted(here.glob("gen_*.py")):
        mod = __import__(extra.stem)
        gens.update(mod.GENERATORS)
    rc = 0
    for name, fn in gens.items():
        try:
            txt = fn(repo)
        except Untranslatable as e:
            print(f"UNTRANSLATABLE {name}: {e}")
            rc = 1
            continue
        except SyntaxError as e:
            print(f"UNTRANSLATABLE {name}: python syntax error {e}")
            rc = 1
            continue
        p = out / name
        if not p.exists() or p.read_text() != txt:
            p.write_text(txt)
            print(f"regenerated {name}")
    return rc


if __name__ == "__main__":
    sys.exit(main())
