"""Generated constants for coq/model/ZoneTree.v (property C10), read from /repo with `ast` on every check run.

Emits gen/ZoneTreeConsts.v:
  * the `StreamLoc` enum values used in collection keys (lib/enums.py),
  * the prefix of generated unit-operation zone names (the f-string `f"O{...}"` assigned to `subzone_name`
    in data_preparation._validate_zone_tree_structure; every assignment must use the same prefix),
  * the label separator of `_split_zone_name` (`name.split("/")`) and of the joins in data_preparation,
  * the separator of the keys built by Zone.import_hot_and_cold_streams_from_sub_zones (f"{z.name}.{s.name}"),
  * the suffix of the fallback name in the root-label rule (f"{root_name}_Process").
Fail-closed: anything unexpected raises py2coq.Untranslatable.
"""
from __future__ import annotations

import ast
from pathlib import Path

from py2coq import Src, Untranslatable, coq_str, die


def _fstring_shape(src, node, what):
    """JoinedStr -> list of ('lit', text) / ('val',) parts."""
    if not isinstance(node, ast.JoinedStr):
        die(src.rel, node, f"{what}: expected an f-string")
    parts = []
    for v in node.values:
        if isinstance(v, ast.Constant) and isinstance(v.value, str):
            parts.append(("lit", v.value))
        elif isinstance(v, ast.FormattedValue) and v.format_spec is None and v.conversion == -1:
            parts.append(("val",))
        else:
            die(src.rel, node, f"{what}: unexpected f-string part")
    return parts


def _assigned_fstrings(src, func, var):
    out = []
    for n in ast.walk(func):
        if isinstance(n, ast.Assign) and len(n.targets) == 1 and isinstance(n.targets[0], ast.Name) and n.targets[0].id == var:
            out.append(n.value)
    if not out:
        die(src.rel, func, f"no assignment to `{var}` found")
    return out


def gen_zonetree_consts(repo: Path) -> str:
    enums = Src(repo, "OpenPinch/lib/enums.py")
    loc = dict(enums.enum_members("StreamLoc"))
    for k in ("HotS", "ColdS", "HotU", "ColdU"):
        if k not in loc or not isinstance(loc[k], str):
            die(enums.rel, enums.tree, f"StreamLoc.{k} missing")

    dp = Src(repo, "OpenPinch/analysis/data_preparation.py")
    vz = dp.funcdef("_validate_zone_tree_structure")
    prefixes = set()
    for v in _assigned_fstrings(dp, vz, "subzone_name"):
        sh = _fstring_shape(dp, v, "subzone_name")
        if len(sh) != 2 or sh[0][0] != "lit" or sh[1] != ("val",):
            die(dp.rel, v, "subzone_name is not of the form f\"<prefix>{counter}\"")
        prefixes.add(sh[0][1])
    if len(prefixes) != 1:
        die(dp.rel, vz, f"generated zone names use different prefixes: {sorted(prefixes)}")
    prefix = prefixes.pop()

    # separators: every `.split(<const>)` and `<const>.join(...)` inside the zone functions must use one character
    seps = set()
    for fn in ("_validate_zone_tree_structure", "_rewrite_stream_zones_from_tree", "_get_process_streams_in_each_subzone"):
        f = dp.funcdef(fn)
        for n in ast.walk(f):
            if isinstance(n, ast.Call) and isinstance(n.func, ast.Attribute):
                if n.func.attr == "split" and n.args and isinstance(n.args[0], ast.Constant):
                    seps.add(n.args[0].value)
                if n.func.attr == "join" and isinstance(n.func.value, ast.Constant) and n.func.value.value != ".":
                    seps.add(n.func.value.value)
                if n.func.attr == "join" and isinstance(n.func.value, ast.Name) and n.func.value.id == "delimiter":
                    pass
    if len(seps) != 1 or len(next(iter(seps))) != 1 or not (32 <= ord(next(iter(seps))) < 127):
        die(dp.rel, dp.tree, f"zone path separator is not one printable character: {sorted(seps)}")
    sep = seps.pop()

    rw = dp.funcdef("_rewrite_stream_zones_from_tree")
    suffix = None
    for n in ast.walk(rw):
        if isinstance(n, ast.Assign) and len(n.targets) == 1 and isinstance(n.targets[0], ast.Name) and n.targets[0].id == "base_name":
            v = n.value
            if isinstance(v, ast.BoolOp) and isinstance(v.op, ast.Or) and len(v.values) == 2:
                sh = _fstring_shape(dp, v.values[1], "base_name fallback")
                if len(sh) == 2 and sh[0] == ("val",) and sh[1][0] == "lit":
                    suffix = sh[1][1]
    if suffix is None:
        die(dp.rel, rw, "root-label fallback name f\"{root_name}<suffix>\" not found")

    zn = Src(repo, "OpenPinch/classes/zone.py")
    imp = zn.funcdef("import_hot_and_cold_streams_from_sub_zones")
    ksep = set()
    for v in _assigned_fstrings(zn, imp, "key"):
        sh = _fstring_shape(zn, v, "import key")
        if len(sh) != 3 or sh[0] != ("val",) or sh[1][0] != "lit" or sh[2] != ("val",):
            die(zn.rel, v, "import key is not of the form f\"{zone}<sep>{stream}\"")
        ksep.add(sh[1][1])
    if len(ksep) != 1:
        die(zn.rel, imp, f"import keys use different separators: {sorted(ksep)}")
    key_sep = ksep.pop()

    L = ["(* GENERATED by translator/gen_zonetree.py from /repo on every check run -- do not edit *)",
         "From Coq Require Import String Ascii.",
         "Local Open Scope string_scope.",
         f"Definition sl_HotS : string := {coq_str(loc['HotS'])}.",
         f"Definition sl_ColdS : string := {coq_str(loc['ColdS'])}.",
         f"Definition sl_HotU : string := {coq_str(loc['HotU'])}.",
         f"Definition sl_ColdU : string := {coq_str(loc['ColdU'])}.",
         f"Definition gen_prefix : string := {coq_str(prefix)}.",
         f"Definition label_sep_char : ascii := ascii_of_nat {ord(sep)}.",
         f"Definition import_key_sep : string := {coq_str(key_sep)}.",
         f"Definition root_process_suffix : string := {coq_str(suffix)}."]
    return "\n".join(L) + "\n"


GENERATORS = {"ZoneTreeConsts.v": gen_zonetree_consts}
