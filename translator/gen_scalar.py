"""Fail-closed translation of the scalar (real-valued) code of /repo into Coq `R` definitions.

Loaded by translator/py2coq.py (module exposes GENERATORS).  Produces

  gen/HxDispatch.v  label forms of an exchanger arrangement (enum member / its text), the label
                    normalisation line, the branch selectors of HX_Eff / HX_NTU read from their
                    `if/elif` chains (no real numbers: everything here is decided by vm_compute);
  gen/Scalar.v      one Coq definition over R per Python function / chain branch of
                    utils/heat_exchanger.py and utils/costing.py.

Method: a small symbolic executor over the Python `ast`.  Supported statements: docstring, `x = e`,
`if/elif/else`, `return e`, `raise`, `for v in range(<static>, <static>)` (unrolled), the prologue
`if P == None: P = k`, the normalisation `A = getattr(A, "value", A)`.  Supported expressions:
+ - * / ** unary minus, numeric literals (floats become the exact rational of the double), names,
math.exp/log/factorial, np.log, np.array(x) (identity on scalars), abs, x.round(k).min(), calls of other
translated functions.  Comparisons < <= > >= == != on reals, `and`/`or`, comparisons of the label
with `HX.X` / `HX.X.value`.  ANYTHING ELSE raises Untranslatable (file:line), which the check reports
as a broken tie.  Two functions are not in that subset and are matched statement by statement
against an expected shape, their parameters being read from the source: compute_LMTD_from_dts
(numpy masks) and HX_NTU_Numerical (a `while` loop, rendered as a fuel-indexed Fixpoint).

Faithfulness notes (also in harness ASSUMPTIONS): `a ** b` with a non-integer-literal exponent is
`Rpower a b` (= Python's pow only for a > 0); division is Coq's total `/` (theorems prove the
denominators non-zero from their hypotheses); floats are exact reals (rounding is not modelled).
"""
from __future__ import annotations

import ast
import math
import sys
from fractions import Fraction
from pathlib import Path

_main = sys.modules.get("__main__")
if _main is not None and hasattr(_main, "Untranslatable") and hasattr(_main, "Src"):
    P2C = _main
else:  # imported by a harness module or a test
    sys.path.insert(0, str(Path(__file__).resolve().parent))
    import py2coq as P2C  # type: ignore

Untranslatable = P2C.Untranslatable
Src = P2C.Src
die = P2C.die
coq_str = P2C.coq_str

HXREL = "OpenPinch/utils/heat_exchanger.py"
COSTREL = "OpenPinch/utils/costing.py"
ENUMREL = "OpenPinch/lib/enums.py"


# ---------------------------------------------------------------------------
# values manipulated by the symbolic executor
# ---------------------------------------------------------------------------
import re as _re
_LET = _re.compile(r"^let ([A-Za-z_][A-Za-z0-9_]*) := (.*) in$", _re.S)
RESERVED = {"R", "exp", "ln", "Rabs", "Rpower", "Some", "None", "self_", "pow", "sqrt", "Z", "nat", "bool", "Q", "N", "fun", "let", "in",
            "if", "then", "else", "match", "with", "end", "Type", "Set", "Prop", "IZR", "INR"}


def cname(x: str) -> str:
    return x + "_" if x in RESERVED else x


class V:
    """kind: 'R' (Coq real expression), 'S' (static Python int/float/bool/None known at translation time),
    'L' (label expression), 'B' (Coq bool expression), 'OR' (Coq `option R` expression: result of a partial call)"""

    def __init__(self, kind, val):
        self.kind, self.val = kind, val


def rlit(x) -> str:
    """Real literal: ints as such, floats as the exact rational of the double."""
    if isinstance(x, bool):
        raise ValueError("bool is not a number here")
    if isinstance(x, int):
        return str(x) if x >= 0 else f"(- {-x})"
    f = Fraction(x)
    n, d = f.numerator, f.denominator
    s = f"({abs(n)} / {d})" if d != 1 else str(abs(n))
    return s if n >= 0 else f"(- {s})"


def as_R(path, node, v: V) -> str:
    if v.kind == "R":
        return v.val
    if v.kind == "S" and isinstance(v.val, (int, float)) and not isinstance(v.val, bool):
        return rlit(v.val)
    die(path, node, f"expected a real-valued expression, got kind {v.kind} ({v.val!r})")


class FnSpec:
    def __init__(self, name, params, partial=False, recursive=False):
        self.name = name            # python name
        self.params = params        # list of (pyname, kind) kind in R | L | NONE (fixed to None) ; defaults handled by prologue
        self.partial = partial      # returns option R
        self.recursive = recursive
        self.coq = name + "_R"
        self.defaults = {}          # pyname -> static default substituted when a caller omits it / prologue


class Tr:
    """Translator of one source file's functions."""

    def __init__(self, src: Src, enum_members, specs):
        self.src, self.path = src, src.rel
        self.members = dict(enum_members)          # name -> text
        self.specs = {s.name: s for s in specs}
        self.out = []                              # Scalar.v definitions (text)
        self.dispatch_out = []                     # HxDispatch.v definitions (text)
        self.chains = {}                           # fn name -> chain info

    # ---------------- expressions ----------------
    def expr(self, e, env, ctx) -> V:
        path = self.path
        if isinstance(e, ast.Constant):
            if e.value is None or isinstance(e.value, (int, float)):
                return V("S", e.value)
            die(path, e, f"unsupported literal {e.value!r}")
        if isinstance(e, ast.Name):
            if e.id in env:
                return env[e.id]
            die(path, e, f"name `{e.id}` is not defined on this path (or is not translatable)")
        if isinstance(e, ast.UnaryOp) and isinstance(e.op, ast.USub):
            v = self.expr(e.operand, env, ctx)
            if v.kind == "S":
                return V("S", -v.val)
            return V("R", f"(- {as_R(path, e, v)})")
        if isinstance(e, ast.BinOp):
            a, b = self.expr(e.left, env, ctx), self.expr(e.right, env, ctx)
            op = type(e.op)
            if a.kind == "S" and b.kind == "S" and all(isinstance(x.val, int) and not isinstance(x.val, bool) for x in (a, b)) \
                    and op in (ast.Add, ast.Sub, ast.Mult):
                return V("S", {ast.Add: a.val + b.val, ast.Sub: a.val - b.val, ast.Mult: a.val * b.val}[op])
            if op is ast.Pow:
                base = as_R(path, e, a)
                if b.kind == "S" and isinstance(b.val, int) and not isinstance(b.val, bool):
                    if b.val >= 0:
                        return V("R", f"({base} ^ {b.val})")
                    if b.val == -1:
                        return V("R", f"(/ {base})")
                    return V("R", f"(/ ({base} ^ {-b.val}))")
                return V("R", f"(Rpower {base} {as_R(path, e, b)})")
            if op in (ast.Add, ast.Sub, ast.Mult, ast.Div):
                sym = {ast.Add: "+", ast.Sub: "-", ast.Mult: "*", ast.Div: "/"}[op]
                return V("R", f"({as_R(path, e, a)} {sym} {as_R(path, e, b)})")
            die(path, e, "unsupported binary operator " + op.__name__)
        if isinstance(e, ast.Attribute):
            # HX.X  /  HX.X.value
            if isinstance(e.value, ast.Name) and e.value.id == "HX":
                if e.attr not in self.members:
                    die(path, e, f"HX.{e.attr} is not a member of HeatExchangerTypes")
                return V("L", f"(LMember hx_{e.attr})")
            if e.attr == "value" and isinstance(e.value, ast.Attribute) and isinstance(e.value.value, ast.Name) and e.value.value.id == "HX":
                if e.value.attr not in self.members:
                    die(path, e, f"HX.{e.value.attr} is not a member of HeatExchangerTypes")
                return V("L", f"(LText (hx_value hx_{e.value.attr}))")
            die(path, e, "unsupported attribute access " + ast.unparse(e))
        if isinstance(e, ast.Call):
            return self.call(e, env, ctx)
        die(path, e, "unsupported expression " + ast.dump(e)[:100])

    def call(self, e: ast.Call, env, ctx) -> V:
        path, f = self.path, e.func
        if e.keywords:
            die(path, e, "keyword arguments are not supported in " + ast.unparse(e)[:60])
        if isinstance(f, ast.Attribute) and isinstance(f.value, ast.Name) and f.value.id in ("math", "np"):
            mod, nm = f.value.id, f.attr
            if (mod, nm) in (("math", "exp"), ("np", "exp")) and len(e.args) == 1:
                return V("R", f"(exp {as_R(path, e, self.expr(e.args[0], env, ctx))})")
            if (mod, nm) in (("math", "log"), ("np", "log")) and len(e.args) == 1:
                return V("R", f"(ln {as_R(path, e, self.expr(e.args[0], env, ctx))})")
            if (mod, nm) == ("math", "factorial") and len(e.args) == 1:
                a = self.expr(e.args[0], env, ctx)
                if a.kind == "S" and isinstance(a.val, int) and a.val >= 0:
                    return V("S", math.factorial(a.val))
                die(path, e, "math.factorial of a non-static argument")
            if (mod, nm) == ("np", "array") and len(e.args) == 1:
                return self.expr(e.args[0], env, ctx)      # scalars only: identity
            die(path, e, f"unsupported library call {mod}.{nm}")
        # x.round(k).min()
        if isinstance(f, ast.Attribute) and f.attr == "min" and not e.args and isinstance(f.value, ast.Call) \
                and isinstance(f.value.func, ast.Attribute) and f.value.func.attr == "round" and len(f.value.args) == 1 \
                and isinstance(f.value.args[0], ast.Constant) and isinstance(f.value.args[0].value, int):
            x = self.expr(f.value.func.value, env, ctx)
            return V("R", f"(round_dp {f.value.args[0].value}%nat {as_R(path, e, x)})")
        if isinstance(f, ast.Name) and f.id == "abs" and len(e.args) == 1:
            return V("R", f"(Rabs {as_R(path, e, self.expr(e.args[0], env, ctx))})")
        if isinstance(f, ast.Name) and f.id in self.specs:
            sp = self.specs[f.id]
            args = [self.expr(a, env, ctx) for a in e.args]
            outs = []
            if len(args) > len(sp.params):
                die(path, e, f"too many arguments for {f.id}")
            for i, (pn, kind) in enumerate(sp.params):
                if i < len(args):
                    a = args[i]
                elif pn in sp.defaults:
                    a = V("S", sp.defaults[pn])
                elif kind == "NONE":
                    continue
                else:
                    die(path, e, f"argument `{pn}` of {f.id} missing")
                if kind == "NONE":
                    if not (a.kind == "S" and a.val is None):
                        die(path, e, f"argument `{pn}` of {f.id} is modelled as None only")
                    continue
                if kind == "L":
                    if a.kind != "L":
                        die(path, e, f"argument `{pn}` of {f.id} must be an arrangement label")
                    outs.append(a.val)
                else:
                    outs.append(as_R(path, e, a))
            head = sp.coq
            if sp.recursive and ctx["fn"] is sp:
                head = "self_"
                ctx["uses_self"] = True
            elif sp.recursive:
                head = sp.coq
            return V("OR" if sp.partial else "R", "(" + head + " " + " ".join(outs) + ")")
        die(path, e, "unsupported call " + ast.unparse(e)[:80])

    # ---------------- tests ----------------
    def test(self, t, env, ctx) -> V:
        """-> V('S', bool) or V('B', coq bool) or V('LT', (member, form)) for a label comparison"""
        path = self.path
        if isinstance(t, ast.BoolOp):
            vs = [self.test(x, env, ctx) for x in t.values]
            if any(v.kind == "LT" for v in vs):
                die(path, t, "label comparisons inside and/or are not supported")
            isand = isinstance(t.op, ast.And)
            acc = []
            for v in vs:
                if v.kind == "S":
                    if bool(v.val) != isand:      # absorbing element
                        return V("S", not isand)
                    continue
                acc.append(v.val)
            if not acc:
                return V("S", isand)
            return V("B", "(" + (" && " if isand else " || ").join(acc) + ")")
        if isinstance(t, ast.UnaryOp) and isinstance(t.op, ast.Not):
            v = self.test(t.operand, env, ctx)
            if v.kind == "S":
                return V("S", not v.val)
            if v.kind == "B":
                return V("B", f"(negb {v.val})")
            die(path, t, "unsupported negation")
        if isinstance(t, ast.Compare) and len(t.ops) == 1:
            a, b = self.expr(t.left, env, ctx), self.expr(t.comparators[0], env, ctx)
            op = type(t.ops[0])
            if a.kind == "L" or b.kind == "L":
                if not (a.kind == "L" and b.kind == "L" and op in (ast.Eq, ast.NotEq)):
                    die(path, t, "a label can only be compared with == / != to HX.X or HX.X.value")
                s = f"(labelv_eqb {a.val} {b.val})"
                return V("LT" if op is ast.Eq else "B", (a.val, b.val) if op is ast.Eq else f"(negb {s})")
            if (a.kind == "S" and a.val is None) or (b.kind == "S" and b.val is None):
                if not (a.kind == "S" and b.kind == "S") or op not in (ast.Eq, ast.NotEq, ast.Is, ast.IsNot):
                    die(path, t, "comparison of a number with None is outside the modelled domain")
                eq = (a.val is None) and (b.val is None)
                return V("S", eq if op in (ast.Eq, ast.Is) else not eq)
            if a.kind == "S" and b.kind == "S":
                x, y = a.val, b.val
                res = {ast.Lt: x < y, ast.LtE: x <= y, ast.Gt: x > y, ast.GtE: x >= y, ast.Eq: x == y, ast.NotEq: x != y}.get(op)
                if res is None:
                    die(path, t, "unsupported comparison operator")
                return V("S", res)
            fn = {ast.Lt: "Rltb", ast.LtE: "Rleb", ast.Gt: "Rgtb", ast.GtE: "Rgeb", ast.Eq: "Reqb", ast.NotEq: "Rneqb"}.get(op)
            if fn is None:
                die(path, t, "unsupported comparison operator " + op.__name__)
            return V("B", f"({fn} {as_R(path, t, a)} {as_R(path, t, b)})")
        die(path, t, "unsupported condition " + ast.unparse(t)[:80])

    # ---------------- statements ----------------
    @staticmethod
    def loaded_names(stmts):
        s = set()
        for st in stmts:
            for n in ast.walk(st):
                if isinstance(n, ast.Name) and isinstance(n.ctx, ast.Load):
                    s.add(n.id)
        return s

    @staticmethod
    def assigned_names(stmts):
        s = []
        for st in stmts:
            for n in ast.walk(st):
                if isinstance(n, ast.Name) and isinstance(n.ctx, ast.Store) and n.id not in s:
                    s.append(n.id)
        return s

    def terminates(self, stmts):
        if not stmts:
            return False
        last = stmts[-1]
        if isinstance(last, (ast.Return, ast.Raise)):
            return True
        if isinstance(last, ast.If):
            return bool(last.orelse) and self.terminates(last.body) and self.terminates(last.orelse)
        return False

    def block(self, stmts, env, ctx, yield_vars, live_after):
        """Coq expression for: execute `stmts`; if control falls off the end, the value is the tuple of `yield_vars`
        (None = falling off the end is an error).  ctx['opt'] = option mode."""
        env = dict(env)
        opt = ctx["opt"]
        pre, suf = [], []

        def wrap(res):
            # peephole: `let x := e in x`  ->  e
            if pre and not suf:
                m = _LET.match(pre[-1])
                if m and m.group(1) == res:
                    return wrap2(pre[:-1], m.group(2))
            return wrap2(pre, res)

        def wrap2(pre, res):
            return "(" + " ".join(pre) + (" " if pre else "") + res + (" " if suf else "") + " ".join(reversed(suf)) + ")"

        def final():
            if yield_vars is None:
                die(self.path, stmts[-1] if stmts else ctx["fn_node"], "control reaches the end of the function without `return`")
            vals = []
            for v in yield_vars:
                if v not in env:
                    die(self.path, stmts[-1] if stmts else ctx["fn_node"], f"variable `{v}` is not assigned on every path")
                vals.append(as_R(self.path, stmts[-1] if stmts else ctx["fn_node"], env[v]))
            tup = vals[0] if len(vals) == 1 else "(" + ", ".join(vals) + ")"
            return f"(Some {tup})" if opt else tup

        i = 0
        while i < len(stmts):
            st = stmts[i]
            rest = stmts[i + 1:]
            later = self.loaded_names(rest) | set(yield_vars or []) | set(live_after)
            if isinstance(st, ast.Expr) and isinstance(st.value, ast.Constant) and isinstance(st.value.value, str):
                i += 1
                continue
            if isinstance(st, ast.Return):
                if st.value is None:
                    die(self.path, st, "bare return")
                v = self.expr(st.value, env, ctx)
                if v.kind == "OR":
                    if not opt:
                        die(self.path, st, "partial call in a total function")
                    return wrap(v.val)
                r = as_R(self.path, st, v)
                return wrap(f"(Some {r})" if opt else r)
            if isinstance(st, ast.Raise):
                if not opt:
                    die(self.path, st, "`raise` in a function translated as total")
                return wrap("None")
            if isinstance(st, ast.Assign):
                if len(st.targets) != 1 or not isinstance(st.targets[0], ast.Name):
                    die(self.path, st, "only `name = expr` assignments are supported")
                x = st.targets[0].id
                # label normalisation line
                if self.is_norm_line(st):
                    if x not in env or env[x].kind != "L":
                        die(self.path, st, "normalisation of something that is not the arrangement label")
                    ctx.setdefault("norm_lines", []).append(st.lineno)
                    if ctx.get("chain_seen"):
                        die(self.path, st, "label normalisation after the arrangement chain")
                    ctx["pre_norm"] = ctx.get("pre_norm", 0) + 1
                    pre.append(f"let {cname(x)} := label_norm {env[x].val} in")
                    env[x] = V("L", cname(x))
                    i += 1
                    continue
                v = self.expr(st.value, env, ctx)
                if v.kind == "S":
                    env[x] = v
                elif v.kind == "R":
                    pre.append(f"let {cname(x)} := {v.val} in")
                    env[x] = V("R", cname(x))
                elif v.kind == "OR":
                    if not opt:
                        die(self.path, st, "partial call in a total function")
                    pre.append(f"match {v.val} with None => None | Some {cname(x)} =>")
                    suf.append("end")
                    env[x] = V("R", cname(x))
                else:
                    die(self.path, st, f"assignment of a {v.kind} value is not supported")
                i += 1
                continue
            if isinstance(st, ast.For):
                if st.orelse or not isinstance(st.target, ast.Name) or not (isinstance(st.iter, ast.Call) and isinstance(st.iter.func, ast.Name)
                                                                           and st.iter.func.id == "range" and len(st.iter.args) == 2):
                    die(self.path, st, "only `for v in range(a, b)` is supported")
                lo, hi = (self.expr(a, env, ctx) for a in st.iter.args)
                if not all(v.kind == "S" and isinstance(v.val, int) for v in (lo, hi)):
                    die(self.path, st, "range bounds must be known at translation time")
                if hi.val - lo.val > 64:
                    die(self.path, st, "loop too long to unroll")
                unrolled = []
                for k in range(lo.val, hi.val):
                    unrolled.append((st.target.id, k, st.body))
                # execute iterations in sequence inside this block (bodies must be straight-line assignments / nested for)
                for (var, k, body) in unrolled:
                    env[var] = V("S", k)
                    sub = self.straight(body, env, ctx, pre)
                    env = sub
                i += 1
                continue
            if isinstance(st, ast.If):
                # prologue  `if P == None: P = k`
                d = self.is_default_prologue(st, env)
                if d is not None:
                    i += 1
                    continue
                chain = self.label_chain(st, env, ctx)
                if chain is not None:
                    if ctx.get("chain_seen"):
                        die(self.path, st, "more than one arrangement chain in one function")
                    ctx["chain_seen"] = True
                    V_live = [v for v in self.assigned_names([st]) if v in later]
                    if self.terminates([st]):
                        die(self.path, st, "arrangement chain with return statements is not supported")
                    val = self.emit_chain(st, chain, env, ctx, V_live)
                    self.bind(pre, suf, env, V_live, val, opt_val=ctx["chain_partial"], opt=opt, node=st)
                    i += 1
                    continue
                t = self.test(st.test, env, ctx)
                if t.kind == "LT":
                    die(self.path, st, "internal: label test outside a chain")
                if t.kind == "S":
                    taken = st.body if t.val else st.orelse
                    stmts = stmts[:i] + list(taken) + rest
                    continue
                tA, tB = self.terminates(st.body), self.terminates(st.orelse)
                if tA and tB:
                    a = self.block(st.body, env, ctx, None, later)
                    b = self.block(st.orelse, env, ctx, None, later)
                    return wrap(f"(if {t.val} then {a} else {b})")
                if tA or tB:
                    a = self.block(list(st.body) + ([] if tA else list(rest)), env, ctx, None if tA else yield_vars, live_after)
                    b = self.block(list(st.orelse) + ([] if tB else list(rest)), env, ctx, None if tB else yield_vars, live_after)
                    return wrap(f"(if {t.val} then {a} else {b})")
                V_live = [v for v in self.assigned_names([st]) if v in later]
                if not V_live:
                    i += 1
                    continue
                sub = dict(ctx)
                a = self.block(st.body, env, ctx, V_live, later)
                b = self.block(st.orelse, env, ctx, V_live, later)
                self.bind(pre, suf, env, V_live, f"(if {t.val} then {a} else {b})", opt_val=opt, opt=opt, node=st)
                i += 1
                continue
            die(self.path, st, "unsupported statement " + type(st).__name__)
        return wrap(final())

    def bind(self, pre, suf, env, pynames, val, opt_val, opt, node):
        names = [cname(n) for n in pynames]
        pat = names[0] if len(names) == 1 else "'(" + ", ".join(names) + ")"
        if opt_val:
            if not opt:
                die(self.path, node, "partial value in a total function")
            if len(names) == 1:
                pre.append(f"match {val} with None => None | Some {names[0]} =>")
            else:
                pre.append(f"match {val} with None => None | Some ({', '.join(names)}) =>")
            suf.append("end")
        else:
            pre.append(f"let {pat} := {val} in")
        for n in pynames:
            env[n] = V("R", cname(n))

    def straight(self, body, env, ctx, pre):
        """straight-line body of an unrolled loop: assignments and nested static `for` only."""
        env = dict(env)
        for st in body:
            if isinstance(st, ast.Assign) and len(st.targets) == 1 and isinstance(st.targets[0], ast.Name):
                v = self.expr(st.value, env, ctx)
                x = st.targets[0].id
                if v.kind == "S":
                    env[x] = v
                elif v.kind == "R":
                    pre.append(f"let {cname(x)} := {v.val} in")
                    env[x] = V("R", cname(x))
                else:
                    die(self.path, st, "unsupported value in loop body")
            elif isinstance(st, ast.For):
                if st.orelse or not isinstance(st.target, ast.Name) or not (isinstance(st.iter, ast.Call) and isinstance(st.iter.func, ast.Name)
                                                                           and st.iter.func.id == "range" and len(st.iter.args) == 2):
                    die(self.path, st, "only `for v in range(a, b)` is supported")
                lo, hi = (self.expr(a, env, ctx) for a in st.iter.args)
                if not all(v.kind == "S" and isinstance(v.val, int) for v in (lo, hi)):
                    die(self.path, st, "range bounds must be known at translation time")
                for k in range(lo.val, hi.val):
                    env[st.target.id] = V("S", k)
                    env = self.straight(st.body, env, ctx, pre)
            else:
                die(self.path, st, "unsupported statement in loop body: " + type(st).__name__)
        return env

    # ---------------- special statement shapes ----------------
    @staticmethod
    def is_norm_line(st):
        """A = getattr(A, "value", A)"""
        if not (isinstance(st, ast.Assign) and len(st.targets) == 1 and isinstance(st.targets[0], ast.Name)):
            return False
        v, x = st.value, st.targets[0].id
        return (isinstance(v, ast.Call) and isinstance(v.func, ast.Name) and v.func.id == "getattr" and len(v.args) == 3 and not v.keywords
                and isinstance(v.args[0], ast.Name) and v.args[0].id == x
                and isinstance(v.args[1], ast.Constant) and v.args[1].value == "value"
                and isinstance(v.args[2], ast.Name) and v.args[2].id == x)

    def is_default_prologue(self, st, env):
        """if P == None: P = k   (P a parameter currently holding its call-site value; the Coq parameter is already defaulted)"""
        t = st.test
        if st.orelse or len(st.body) != 1:
            return None
        if not (isinstance(t, ast.Compare) and len(t.ops) == 1 and isinstance(t.ops[0], (ast.Eq, ast.Is)) and isinstance(t.left, ast.Name)
                and isinstance(t.comparators[0], ast.Constant) and t.comparators[0].value is None):
            return None
        b = st.body[0]
        if not (isinstance(b, ast.Assign) and len(b.targets) == 1 and isinstance(b.targets[0], ast.Name) and b.targets[0].id == t.left.id
                and isinstance(b.value, ast.Constant) and isinstance(b.value.value, (int, float))):
            return None
        p = t.left.id
        if p not in env or env[p].kind != "R" or env[p].val != cname(p):
            return None
        return (p, b.value.value)

    def label_chain(self, st, env, ctx):
        """If `st` is `if L == HX.X[.value]: ... elif L == ...: ... else: ...` return [(member, lhs, rhs, body)...], else_body."""
        t = self.test(st.test, env, ctx) if self.mentions_label(st.test, env) else None
        if t is None or t.kind != "LT":
            return None
        arms, node = [], st
        while True:
            tt = self.test(node.test, env, ctx)
            if tt.kind != "LT":
                die(self.path, node, "numeric condition inside the arrangement chain")
            arms.append((tt.val, node.body, node))
            if len(node.orelse) == 1 and isinstance(node.orelse[0], ast.If) and self.mentions_label(node.orelse[0].test, env):
                node = node.orelse[0]
                continue
            return arms, list(node.orelse)

    @staticmethod
    def mentions_label(test, env):
        return any(isinstance(n, ast.Name) and n.id in env and env[n.id].kind == "L" for n in ast.walk(test))

    def emit_chain(self, st, chain, env, ctx, V_live):
        arms, else_body = chain
        fn = ctx["fn"]
        short = ctx["short"]                     # 'eff' / 'ntu'
        if not else_body:
            die(self.path, st, "arrangement chain without a final else")
        # branch names from the member named on the right-hand side of each test
        names = []
        for (lhs, rhs), body, node in arms:
            m = None
            for cand in self.members:
                if rhs in (f"(LMember hx_{cand})", f"(LText (hx_value hx_{cand}))"):
                    m = cand
            if m is None or not lhs.isidentifier():
                die(self.path, node, "chain test must be `<label variable> == HX.X` or `== HX.X.value`")
            if m in names:
                die(self.path, node, f"two branches test HX.{m}")
            names.append(m)
        B = short.upper()[0] + "B"            # EB / NB
        ind = f"{short}_branch"
        lab = arms[0][0][0]
        D = self.dispatch_out
        D.append(f"Inductive {ind} : Set := " + " | ".join(f"{B}_{m}" for m in names) + f" | {B}_else.")
        D.append(f"Scheme Equality for {ind}.")
        sel = [f"Definition {fn.name}_sel ({lab} : labelv) : {ind} :="]
        for ((lhs, rhs), body, node), m in zip(arms, names):
            sel.append(f"  if labelv_eqb {lhs} {rhs} then {B}_{m} else   (* line {node.lineno}: {ast.unparse(node.test)} *)")
        sel.append(f"  {B}_else.")
        D.append("\n".join(sel))
        npre = ctx.get("pre_norm", 0)
        D.append(f"Definition {fn.name}_pre (l : labelv) : labelv := " + "label_norm (" * npre + "l" + ")" * npre + "."
                 + f"   (* {npre} normalisation line(s) `A = getattr(A, \"value\", A)` before the chain *)")
        D.append(f"Definition {short}_dispatch (l : labelv) : {ind} := {fn.name}_sel ({fn.name}_pre l).")
        D.append(f"Definition {short}_own (a : hx) : option {ind} := match a with " +
                 " ".join(f"| hx_{m} => " + (f"Some {B}_{m}" if m in names else "None") for m in self.members) + " end.")
        # branch bodies -> own definitions over the real variables in scope that any body reads
        bodies = [(m, body, node) for (_, body, node), m in zip(arms, names)] + [("else", else_body, st)]
        used = set()
        for _, body, _ in bodies:
            used |= self.loaded_names(body)
        rparams = [k for k, v in env.items() if v.kind == "R" and k in used]
        lparams = [k for k, v in env.items() if v.kind == "L" and k in used]
        any_partial = False
        arms_txt = []
        for m, body, node in bodies:
            sub = dict(ctx)
            sub["uses_self"] = False
            benv = {k: V(env[k].kind, cname(k)) for k in rparams + lparams}
            for k, v in env.items():
                if v.kind == "S":
                    benv[k] = v
            partial = self.body_partial(body)
            sub["opt"] = partial
            val = self.block(body, benv, sub, V_live, set())
            any_partial = any_partial or partial
            ps = ""
            if sub["uses_self"]:
                ctx["uses_self"] = True
                ps += " (self_ : " + ctx["self_type"] + ")"
            uses_l = [k for k in lparams if k in self.loaded_names(body)]
            if uses_l:
                ps += " (" + " ".join(cname(k) for k in uses_l) + " : labelv)"
            ps += " (" + " ".join(cname(k) for k in rparams) + " : R)"
            ty = "R" if len(V_live) == 1 else "(" + " * ".join("R" for _ in V_live) + ")"
            if partial:
                ty = f"option {ty}"
            self.out.append(f"(* {self.path}:{node.lineno}  branch {m} of {fn.name} *)\nDefinition {short}_{m}{ps} : {ty} :=\n  {val}.")
            call = f"{short}_{m}" + (" self_" if sub["uses_self"] else "") + "".join(" " + env[k].val for k in uses_l) + "".join(" " + env[k].val for k in rparams)
            arms_txt.append((m, call, partial))
        ctx["chain_partial"] = any_partial
        txt = f"match {fn.name}_sel {env[lab].val} with " + " ".join(
            f"| {B}_{m} => " + (c if (p or not any_partial) else f"Some ({c})") for m, c, p in arms_txt) + " end"
        self.chains[fn.name] = dict(names=names, short=short, members=list(self.members),
                                    arms=[(m, body[0].lineno, max(getattr(x, "end_lineno", x.lineno) for x in body)) for m, body, _ in bodies])
        return "(" + txt + ")"

    def body_partial(self, body):
        for st in body:
            for n in ast.walk(st):
                if isinstance(n, ast.Raise):
                    return True
                if isinstance(n, ast.Call) and isinstance(n.func, ast.Name) and n.func.id in self.specs and self.specs[n.func.id].partial:
                    return True
        return False

    # ---------------- functions ----------------
    def function(self, name, short=None):
        sp = self.specs[name]
        fn = self.src.funcdef(name)
        a = fn.args
        if a.vararg or a.kwarg or a.kwonlyargs or a.posonlyargs:
            die(self.path, fn, "only plain positional parameters are supported")
        pyparams = [x.arg for x in a.args]
        if pyparams != [p for p, _ in sp.params]:
            die(self.path, fn, f"parameter list of {name} changed: {pyparams} (translator expects {[p for p, _ in sp.params]})")
        ndef = len(a.defaults)
        defaults = dict(zip(pyparams[len(pyparams) - ndef:], a.defaults))
        env = {}
        body = list(fn.body)
        for p, kind in sp.params:
            if kind == "NONE":
                d = defaults.get(p)
                if not (isinstance(d, ast.Constant) and d.value is None):
                    die(self.path, fn, f"parameter `{p}` is modelled at its default None, but the default changed")
                env[p] = V("S", None)
            elif kind == "L":
                env[p] = V("L", cname(p))
            else:
                env[p] = V("R", cname(p))
                if p in defaults:
                    d = defaults[p]
                    if isinstance(d, ast.Constant) and d.value is None:
                        # must be replaced by the prologue
                        found = None
                        for st in body:
                            if isinstance(st, ast.If):
                                r = self.is_default_prologue(st, env)
                                if r and r[0] == p:
                                    found = r[1]
                        if found is None:
                            die(self.path, fn, f"parameter `{p}` defaults to None and no `if {p} == None: {p} = k` prologue was found")
                        sp.defaults[p] = found
                    elif isinstance(d, ast.Constant) and isinstance(d.value, (int, float)):
                        sp.defaults[p] = d.value
                    else:
                        die(self.path, fn, f"unsupported default of `{p}`")
        rty = "option R" if sp.partial else "R"
        coqparams = []
        for p, kind in sp.params:
            if kind == "L":
                coqparams.append(f"({cname(p)} : labelv)")
            elif kind == "R":
                coqparams.append(f"({cname(p)} : R)")
        self_type = " -> ".join(["labelv" if k == "L" else "R" for _, k in sp.params if k != "NONE"] + [rty])
        ctx = dict(fn=sp, fn_node=fn, opt=sp.partial, short=short or name, self_type=self_type, uses_self=False, chain_partial=False)
        val = self.block(body, env, ctx, None, set())
        hdr = f"(* {self.path}:{fn.lineno}  def {name}({', '.join(pyparams)}) *)"
        if sp.recursive:
            self.out.append(f"{hdr}\nDefinition {name}_F (self_ : {self_type}) {' '.join(coqparams)} : {rty} :=\n  {val}.")
            bottom = "fun " + " ".join("_" for _, k in sp.params if k != "NONE") + " => " + ("None" if sp.partial else "0")
            self.out.append(f"(* recursion depth of {name} is 1: its only self-call passes a literal label that selects a non-else branch "
                            f"(checked by `{name}_rec_depth` below) *)\n"
                            f"Definition {sp.coq} := {name}_F ({name}_F ({bottom})).")
        else:
            if ctx["uses_self"]:
                die(self.path, fn, f"{name} calls itself but is not declared recursive")
            self.out.append(f"{hdr}\nDefinition {sp.coq} {' '.join(coqparams)} : {rty} :=\n  {val}.")
        return ctx


# ---------------------------------------------------------------------------
# pattern-matched functions
# ---------------------------------------------------------------------------
def same_shape(path, node, expected_src, what):
    exp = ast.parse(expected_src).body[0]
    if ast.dump(node) != ast.dump(exp):
        die(path, node, f"{what}: statement changed: `{ast.unparse(node)[:90]}` (expected `{expected_src}`)")


def strip_doc(body):
    body = list(body)
    if body and isinstance(body[0], ast.Expr) and isinstance(body[0].value, ast.Constant) and isinstance(body[0].value.value, str):
        body = body[1:]
    return body


def gen_lmtd(tr: Tr):
    """compute_LMTD_from_dts: numpy masks -> scalar semantics of one element."""
    path = tr.path
    fn = tr.src.funcdef("compute_LMTD_from_dts")
    if [a.arg for a in fn.args.args] != ["delta_T1", "delta_T2"]:
        die(path, fn, "compute_LMTD_from_dts parameters changed")
    b = strip_doc(fn.body)
    if len(b) != 9:
        die(path, fn, f"compute_LMTD_from_dts has {len(b)} statements, the translator expects 9")
    same_shape(path, b[0], "delta_T1 = np.array(delta_T1)", "LMTD")
    same_shape(path, b[1], "delta_T2 = np.array(delta_T2)", "LMTD")
    env = {"delta_T1": V("R", "delta_T1"), "delta_T2": V("R", "delta_T2")}
    ctx = dict(fn=None, opt=True, uses_self=False)
    g = b[2]
    if not (isinstance(g, ast.If) and not g.orelse and len(g.body) == 1 and isinstance(g.body[0], ast.Raise)):
        die(path, g, "LMTD: expected `if <guard>: raise ValueError(...)`")
    guard = tr.test(g.test, env, ctx)
    if guard.kind != "B" or "round_dp" not in guard.val:
        die(path, g, "LMTD: guard is not a comparison of rounded minima")
    ic = b[3]
    if not (isinstance(ic, ast.Assign) and len(ic.targets) == 1 and isinstance(ic.targets[0], ast.Name) and ic.targets[0].id == "mask_equal"
            and isinstance(ic.value, ast.Call) and ast.unparse(ic.value.func) == "np.isclose" and len(ic.value.args) == 2):
        die(path, ic, "LMTD: expected `mask_equal = np.isclose(a, b, atol=...)`")
    ia, ib = (as_R(path, ic, tr.expr(x, env, ctx)) for x in ic.value.args)
    kw = {k.arg: k.value for k in ic.value.keywords}
    if set(kw) - {"atol", "rtol"}:
        die(path, ic, "LMTD: unexpected keyword of np.isclose")
    atol = P2C.num_value(path, kw["atol"]) if "atol" in kw else 1e-8      # numpy defaults
    rtol = P2C.num_value(path, kw["rtol"]) if "rtol" in kw else 1e-5
    same_shape(path, b[4], "lmtd = np.empty_like(delta_T1, dtype=float)", "LMTD")
    ar = b[5]
    if not (isinstance(ar, ast.Assign) and len(ar.targets) == 1 and isinstance(ar.targets[0], ast.Name) and ar.targets[0].id == "arithmetic"):
        die(path, ar, "LMTD: expected `arithmetic = ...`")
    arith = as_R(path, ar, tr.expr(ar.value, env, ctx))
    same_shape(path, b[6], "np.copyto(lmtd, arithmetic, where=mask_equal)", "LMTD")
    dv = b[7]
    if not (isinstance(dv, ast.Expr) and isinstance(dv.value, ast.Call) and ast.unparse(dv.value.func) == "np.divide" and len(dv.value.args) == 2
            and {k.arg: ast.unparse(k.value) for k in dv.value.keywords} == {"out": "lmtd", "where": "~mask_equal"}):
        die(path, dv, "LMTD: expected `np.divide(x, y, out=lmtd, where=~mask_equal)`")
    num, den = (as_R(path, dv, tr.expr(x, env, ctx)) for x in dv.value.args)
    same_shape(path, b[8], "return lmtd", "LMTD")
    o = tr.out
    o.append(f"(* {path}:{fn.lineno}  compute_LMTD_from_dts, one array element *)")
    o.append(f"Definition LMTD_refuses (delta_T1 delta_T2 : R) : bool := {guard.val}.   (* line {g.lineno}: {ast.unparse(g.test)} *)")
    o.append(f"Definition LMTD_atol : R := {rlit(float(atol))}.\nDefinition LMTD_rtol : R := {rlit(float(rtol))}."
             + ("" if "rtol" in kw else "   (* numpy's default rtol: the call passes none *)"))
    o.append(f"Definition LMTD_isclose (delta_T1 delta_T2 : R) : bool := Rleb (Rabs ({ia} - {ib})) (LMTD_atol + LMTD_rtol * Rabs ({ib})).")
    o.append(f"Definition LMTD_arith (delta_T1 delta_T2 : R) : R := {arith}.")
    o.append(f"Definition LMTD_log (delta_T1 delta_T2 : R) : R := ({num} / {den}).")
    o.append("Definition compute_LMTD_from_dts_R (delta_T1 delta_T2 : R) : option R :=\n"
             "  if LMTD_refuses delta_T1 delta_T2 then None\n"
             "  else Some (if LMTD_isclose delta_T1 delta_T2 then LMTD_arith delta_T1 delta_T2 else LMTD_log delta_T1 delta_T2).")


SECANT_TEMPLATE = '''def HX_NTU_Numerical(Arrangement, eff, c):
    """doc"""
    NTU1 = 0
    NTU2 = 0
    eps = 0
    f = 0
    count = 0
    F1 = eff - HX_Eff(Arrangement, NTU1, c)
    F2 = eff - HX_Eff(Arrangement, NTU2, c)
    while f > eps:
        a = (F1 - F2) / (NTU1 - NTU2)
        b = F1 - a * NTU1
        NTU3 = -b / a
        F3 = eff - HX_Eff(Arrangement, NTU3, c)
        f = abs(F3)
        NTU1 = NTU2
        F1 = F2
        NTU2 = NTU3
        F2 = F3
        count += 0
        if count > 0:
            raise ValueError('Solution does not converge')
    return NTU3
'''


class _Mask(ast.NodeTransformer):
    def visit_Constant(self, n):
        if isinstance(n.value, (int, float)) and not isinstance(n.value, bool):
            return ast.copy_location(ast.Constant(0), n)
        if isinstance(n.value, str):
            return ast.copy_location(ast.Constant("s"), n)
        return n


def gen_secant(tr: Tr):
    path = tr.path
    fn = tr.src.funcdef("HX_NTU_Numerical")
    masked = ast.dump(_Mask().visit(ast.parse(ast.unparse(fn)).body[0]))
    expect = ast.dump(_Mask().visit(ast.parse(SECANT_TEMPLATE).body[0]))
    if masked != expect:
        die(path, fn, "HX_NTU_Numerical no longer has the shape of the secant loop the model renders (only its numeric constants may change)")
    b = strip_doc(fn.body)
    consts = {}
    for st in b[:5]:
        consts[st.targets[0].id] = P2C.num_value(path, st.value)
    wl = b[7]
    inc = wl.body[9]
    lim = wl.body[10].test.comparators[0]
    step, limit = P2C.num_value(path, inc.value), P2C.num_value(path, lim)
    if step != 1 or not isinstance(limit, int) or not isinstance(consts["count"], int):
        die(path, inc, "secant loop counter must be an integer stepped by 1")
    # the loop body raises at the end of the iteration in which count exceeds `limit`:
    # iterations that can return = limit - count0
    fuel = limit - consts["count"]
    if fuel < 0 or fuel > 10000:
        die(path, lim, "secant iteration limit out of range")
    o = tr.out
    o.append(f"(* {path}:{fn.lineno}  HX_NTU_Numerical: secant iteration on g(n) = HX_Eff(Arrangement, n, c); the `while` loop is a Fixpoint on the\n"
             f"   number of iterations that may still return (count starts at {consts['count']}, an iteration ending with count > {limit} raises);\n"
             "   Python's ZeroDivisionError (equal abscissae or equal residuals) is None as well. *)")
    for k, nm in (("NTU1", "sec_NTU1"), ("NTU2", "sec_NTU2"), ("eps", "sec_eps"), ("f", "sec_f0")):
        o.append(f"Definition {nm} : R := {rlit(consts[k])}.")
    o.append(f"Definition sec_fuel : nat := {fuel}%nat.")
    o.append("""Fixpoint secant_loop (g : R -> R) (eff : R) (fuel : nat) (NTU1 F1 NTU2 F2 : R) : option R :=
  match fuel with
  | O => None
  | S k =>
      if Reqb (NTU1 - NTU2) 0 then None else
      let a := (F1 - F2) / (NTU1 - NTU2) in
      let b := F1 - a * NTU1 in
      if Reqb a 0 then None else
      let NTU3 := - b / a in
      let F3 := eff - g NTU3 in
      let f := Rabs F3 in
      if Rgtb f sec_eps then secant_loop g eff k NTU2 F2 NTU3 F3 else Some NTU3
  end.
Definition secant (g : R -> R) (eff : R) : option R :=
  if Rgtb sec_f0 sec_eps then secant_loop g eff sec_fuel sec_NTU1 (eff - g sec_NTU1) sec_NTU2 (eff - g sec_NTU2)
  else None  (* NTU3 would be unbound *).""")
    dflt = tr.specs["HX_Eff"].defaults.get("Passes")
    if dflt is None:
        die(path, fn, "HX_Eff has no default number of passes")
    o.append(f"Definition HX_NTU_Numerical_R (Arrangement : labelv) (eff c : R) : option R :=\n"
             f"  secant (fun n => HX_Eff_R Arrangement n c {rlit(dflt)}) eff.")


# ---------------------------------------------------------------------------
# files
# ---------------------------------------------------------------------------
PRELUDE_DISPATCH = """(* GENERATED by translator/gen_scalar.py from /repo on every check run -- do not edit *)
From Coq Require Import List String Bool.
From OP Require Import gen.Consts.
Import ListNotations.

(* the two forms in which an arrangement may be passed: the enum member or (any) text *)
Inductive labelv : Set := LMember (a : hx) | LText (s : string).
Scheme Equality for hx.
(* Python: getattr(A, "value", A) -- a member is replaced by its text, a str has no attribute `value` *)
Definition label_norm (l : labelv) : labelv := match l with LMember a => LText (hx_value a) | LText s => LText s end.
(* Python ==  between members (identity), between texts (string equality); a plain Enum member never equals a str *)
Definition labelv_eqb (a b : labelv) : bool :=
  match a, b with LMember x, LMember y => hx_beq x y | LText s, LText t => String.eqb s t | _, _ => false end.
Inductive lform : Set := FMember | FText.
Definition lform_all : list lform := [FMember; FText].
Definition mk_label (a : hx) (f : lform) : labelv := match f with FMember => LMember a | FText => LText (hx_value a) end.
"""

PRELUDE_SCALAR = """(* GENERATED by translator/gen_scalar.py from /repo on every check run -- do not edit *)
From Coq Require Import Reals ZArith Bool String.
From OP Require Import gen.Consts gen.HxDispatch.
Local Open Scope R_scope.

(* decisions of Python's float comparisons, on exact reals *)
Definition Reqb (a b : R) : bool := if Req_EM_T a b then true else false.
Definition Rneqb (a b : R) : bool := negb (Reqb a b).
Definition Rltb (a b : R) : bool := if Rlt_dec a b then true else false.
Definition Rleb (a b : R) : bool := if Rle_dec a b then true else false.
Definition Rgtb (a b : R) : bool := Rltb b a.
Definition Rgeb (a b : R) : bool := Rleb b a.
(* np.round(x, n): round-half-even of x * 10^n, divided by 10^n *)
Definition rnd_half_even (y : R) : Z :=
  let f := Int_part y in let r := y - IZR f in
  if Rltb r (1 / 2) then f else if Rltb (1 / 2) r then (f + 1)%Z else if Z.even f then f else (f + 1)%Z.
Definition round_dp (n : nat) (x : R) : R := IZR (rnd_half_even (x * 10 ^ n)) / 10 ^ n.
"""


_cache = {}


def build(repo: Path):
    key = str(repo)
    if key in _cache:
        return _cache[key]
    enums = Src(repo, ENUMREL)
    members = enums.enum_members("HeatExchangerTypes")
    texts = [v for _, v in members]
    if len(set(texts)) != len(texts) or not all(isinstance(v, str) for v in texts):
        raise Untranslatable(f"{ENUMREL}: HeatExchangerTypes values must be distinct strings")
    bases = [ast.unparse(b) for b in enums.classdef("HeatExchangerTypes").bases]
    if bases != ["Enum"]:
        raise Untranslatable(f"{ENUMREL}: HeatExchangerTypes bases are {bases}; the label model assumes a plain Enum (member != text)")

    # ---- costing ----
    cs = Src(repo, COSTREL)
    cspecs = [FnSpec("compute_capital_recovery_factor", [("interest_rate", "R"), ("years", "R")]),
              FnSpec("compute_capital_cost", [("area", "R"), ("num_units", "R"), ("fixed_cost_factor", "R"), ("variable_cost_factor", "R"),
                                              ("n_exp_factor", "R")]),
              FnSpec("compute_annual_capital_cost", [("capital_cost", "R"), ("discount_rate", "R"), ("service_life", "R")])]
    ct = Tr(cs, members, cspecs)
    for s in cspecs:
        ct.function(s.name)

    # ---- heat exchanger ----
    hs = Src(repo, HXREL)
    imp_ok = any(isinstance(n, ast.ImportFrom) and any(a.name == "HeatExchangerTypes" and a.asname == "HX" for a in n.names) for n in hs.tree.body)
    if not imp_ok:
        raise Untranslatable(f"{HXREL}: `HeatExchangerTypes as HX` import not found")
    specs = [FnSpec("Coth", [("R", "R")]),
             FnSpec("MultiPassEff", [("eff", "R"), ("c", "R"), ("Passes", "R")]),
             FnSpec("MultiPassNTU", [("Eff_p", "R"), ("c", "R"), ("Passes", "R")]),
             FnSpec("CrossflowUnmixedEff1", [("Ntu", "R"), ("c", "R")]),
             FnSpec("HX_Eff", [("Arrangement", "L"), ("Ntu", "R"), ("c", "R"), ("Passes", "R"), ("Rows", "NONE"), ("Cmin_Phase", "NONE")], recursive=True),
             FnSpec("HX_NTU_Numerical", [("Arrangement", "L"), ("eff", "R"), ("c", "R")], partial=True),
             FnSpec("HX_NTU", [("Arrangement", "L"), ("eff", "R"), ("c", "R"), ("Passes", "R")], partial=True),
             FnSpec("compute_LMTD_from_dts", [("delta_T1", "R"), ("delta_T2", "R")], partial=True),
             FnSpec("compute_LMTD_from_ts", [("T_hot_in", "R"), ("T_hot_out", "R"), ("T_cold_in", "R"), ("T_cold_out", "R")], partial=True)]
    ht = Tr(hs, members, specs)
    # CrossflowUnmixedEff2 (finite tube rows) is reached only with Rows and Cmin_Phase given; the property quantifies over
    # arrangement x label x NTU x c x passes, so both are modelled at their default None -- but the callee must still exist
    hs.funcdef("CrossflowUnmixedEff2")
    ht.specs["CrossflowUnmixedEff2"] = FnSpec("CrossflowUnmixedEff2", [("Ntu", "R"), ("c", "R"), ("Rows", "R"), ("Cmin_fluid", "R")])
    for nm in ("Coth", "MultiPassEff", "MultiPassNTU", "CrossflowUnmixedEff1"):
        ht.function(nm)
    ctx_e = ht.function("HX_Eff", short="eff")
    if "HX_Eff" not in ht.chains:
        raise Untranslatable(f"{HXREL}: no arrangement chain found in HX_Eff")
    gen_secant(ht)
    ctx_n = ht.function("HX_NTU", short="ntu")
    if "HX_NTU" not in ht.chains:
        raise Untranslatable(f"{HXREL}: no arrangement chain found in HX_NTU")
    gen_lmtd(ht)
    ht.function("compute_LMTD_from_ts")

    # recursion-depth obligation of HX_Eff: every literal label passed to a self-call selects a non-else branch
    rec = []
    fe = hs.funcdef("HX_Eff")
    for n in ast.walk(fe):
        if isinstance(n, ast.Call) and isinstance(n.func, ast.Name) and n.func.id == "HX_Eff":
            lab = ht.expr(n.args[0], {}, dict(fn=None, opt=False))
            if lab.kind != "L":
                die(HXREL, n, "self-call of HX_Eff with a non-literal label")
            rec.append(lab.val)
    disp = [PRELUDE_DISPATCH] + ht.dispatch_out
    for k, lab in enumerate(rec):
        disp.append(f"Example HX_Eff_rec_depth_{k} : eff_branch_beq (eff_dispatch {lab}) EB_else = false := eq_refl.")
    disp.append("Definition hx_labels : list labelv := flat_map (fun a => map (mk_label a) lform_all) hx_all.")
    disp.append("(* every arrangement, in either label form, reaches its own branch in HX_Eff and in HX_NTU *)\n"
                "Definition opt_branch_eqb {A} (eqb : A -> A -> bool) (x : A) (o : option A) : bool := match o with Some y => eqb x y | None => false end.\n"
                "Definition dispatch_ok_b : bool :=\n"
                "  forallb (fun a => forallb (fun f => opt_branch_eqb eff_branch_beq (eff_dispatch (mk_label a f)) (eff_own a)\n"
                "                                    && opt_branch_eqb ntu_branch_beq (ntu_dispatch (mk_label a f)) (ntu_own a)) lform_all) hx_all.")
    scal = [PRELUDE_SCALAR, "(* ---------------- utils/costing.py ---------------- *)"] + ct.out + \
           ["(* ---------------- utils/heat_exchanger.py ---------------- *)"] + ht.out
    res = {"HxDispatch.v": "\n".join(disp) + "\n", "Scalar.v": "\n".join(scal) + "\n"}
    _cache[key] = res
    _cache[key + "#chains"] = ht.chains
    return res


def chain_info(repo: Path):
    """{'HX_Eff': {names, arms: [(member|'else', first_line, last_line)], members}, 'HX_NTU': ...} -- used by the harness to
    observe (by line tracing) which branch the running implementation takes."""
    build(repo)
    return _cache[str(repo) + "#chains"]


def gen_dispatch(repo: Path) -> str:
    return build(repo)["HxDispatch.v"]


def gen_scalar(repo: Path) -> str:
    return build(repo)["Scalar.v"]


GENERATORS = {"HxDispatch.v": gen_dispatch, "Scalar.v": gen_scalar}

if __name__ == "__main__":
    r = Path(sys.argv[1] if len(sys.argv) > 1 else "/repo")
    for k, v in build(r).items():
        print(f"(* ===== {k} ===== *)")
        print(v)
