#!/bin/bash
# Offline build of the whole Coq development from files on disk (full .vo build, never -vos).
set -e
cd "$(dirname "$0")"
export PYTHONHASHSEED=0 PYTHONDONTWRITEBYTECODE=1
/venv/bin/python -W ignore translator/py2coq.py --repo "${VERIF_REPO:-/repo}" --out coq/gen 2>&1 | grep -v WARNING || true
/venv/bin/python -W ignore - <<'PY' 2>&1 | grep -v WARNING || true
import sys; sys.path.insert(0, '.')
from harness import lib
lib.coq_makefile()
PY
cd coq
timeout 3000 make -f Makefile.coq -j16 2>&1 | tail -15
