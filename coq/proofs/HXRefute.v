(* Clauses of C20 that are FALSE of the code as it is: interval-checked witnesses (open findings D15, D34). *)
From Coq Require Import Reals Lra Psatz Bool.
From Interval Require Import Tactic.
From OP Require Import gen.Consts gen.HxDispatch gen.Scalar proofs.HXBase proofs.HXBranch.
Local Open Scope R_scope.

(* D15: the 20-term series of CrossflowUnmixedEff1 (inner range(1, i) drops the j = i term) exceeds counter-flow *)
Lemma crfuu_witness : eff_CF 2 (1 / 2) + 1 / 50 < eff_CrFUU 2 (1 / 2).
Proof.
  rewrite eff_CF_lt1_form by lra. unfold eff_CrFUU, CrossflowUnmixedEff1_R. cbv zeta. interval with (i_prec 80).
Qed.

Theorem eff_le_cf_CrFUU_refuted : ~ (forall N c, 0 < N -> 0 <= c <= 1 -> eff_CrFUU N c <= eff_CF N c).
Proof. intro H. specialize (H 2 (1 / 2) ltac:(lra) ltac:(lra)). pose proof crfuu_witness. lra. Qed.

(* the value the existing tests pin (0.80 < eps < 0.81), so the series cannot be repaired without editing them *)
Lemma crfuu_pinned : 80 / 100 < eff_CrFUU 2 (1 / 2) < 81 / 100.
Proof. unfold eff_CrFUU, CrossflowUnmixedEff1_R. cbv zeta. split; interval with (i_prec 80). Qed.

(* D34: the both-mixed cross-flow correlation is not monotone in NTU at large NTU *)
Lemma crfmm_witness : eff_CrFMM 10 (1 / 20) + 1 / 20000 < eff_CrFMM 8 (1 / 20).
Proof. unfold eff_CrFMM. interval with (i_prec 80). Qed.

Theorem eff_monotone_CrFMM_refuted : ~ (forall N1 N2 c, 0 < N1 -> N1 < N2 -> 0 <= c <= 1 -> eff_CrFMM N1 c <= eff_CrFMM N2 c).
Proof. intro H. specialize (H 8 10 (1 / 20) ltac:(lra) ltac:(lra) ltac:(lra)). pose proof crfmm_witness. lra. Qed.
