(* C12, order of the input streams, LITERALLY: the code sorts the labelled streams by (zone label, name) before it generates
   the unit-operation names O<k> and by name before it places them.  When the labelled streams have pairwise different
   (label, name) keys the sorted order is unique, so the synthesised tree -- zone listing, generated names, entry order,
   keys -- is THE SAME VALUE for every order of the input.  Without that hypothesis two streams with the same label and the
   same name swap their generated leaves (`same_key_order_refuted`); the tree up to that swap is proofs/ZoneTreeTwin.v. *)
From OP Require Import gen.Consts gen.ZoneTreeConsts model.Base model.Collection model.ZoneTree
  proofs.CollectionRefine proofs.ZoneTreeStrings proofs.ZoneTreeSynth proofs.ZoneTreeImport proofs.ZoneTreeMain proofs.ZoneTreeFinal.
From Coq Require Import String Ascii Lia Permutation Sorted NArith.

(* ---------------------------------------------------------------- String.compare is a strict total order *)
Lemma scmp_lt_trans a : forall b c, String.compare a b = Lt -> String.compare b c = Lt -> String.compare a c = Lt.
Proof.
  induction a as [|x a IH]; intros b c H1 H2; destruct b as [|y b]; destruct c as [|z c]; simpl in *; try discriminate; try reflexivity.
  unfold Ascii.compare in *.
  destruct (N.compare_spec (N_of_ascii x) (N_of_ascii y)) as [E1|L1|G1]; try discriminate;
  destruct (N.compare_spec (N_of_ascii y) (N_of_ascii z)) as [E2|L2|G2]; try discriminate.
  - rewrite E1, E2, N.compare_refl. eapply IH; eassumption.
  - rewrite E1. apply N.compare_lt_iff in L2. rewrite L2. reflexivity.
  - rewrite <- E2. apply N.compare_lt_iff in L1. rewrite L1. reflexivity.
  - assert (L : (N_of_ascii x < N_of_ascii z)%N) by (eapply N.lt_trans; eassumption). apply N.compare_lt_iff in L. rewrite L. reflexivity.
Qed.
Lemma scmp_gt_lt a b : String.compare a b = Gt <-> String.compare b a = Lt.
Proof. rewrite (String.compare_antisym a b). destruct (String.compare b a); simpl; split; congruence. Qed.
Lemma scmp_refl a : String.compare a a = Eq.
Proof. destruct (String.compare a a) eqn:E; [reflexivity| |]; pose proof (String.compare_antisym a a) as K; rewrite E in K; discriminate. Qed.

Lemma str_leb_total a b : str_leb a b = true \/ str_leb b a = true.
Proof. unfold str_leb. rewrite (String.compare_antisym a b). destruct (String.compare b a); simpl; auto. Qed.
Lemma str_leb_trans a b c : str_leb a b = true -> str_leb b c = true -> str_leb a c = true.
Proof.
  unfold str_leb. destruct (String.compare a b) eqn:E1; try discriminate; destruct (String.compare b c) eqn:E2; try discriminate; intros _ _.
  - apply String.compare_eq_iff in E1, E2. subst. rewrite scmp_refl. reflexivity.
  - apply String.compare_eq_iff in E1. subst. rewrite E2. reflexivity.
  - apply String.compare_eq_iff in E2. subst. rewrite E1. reflexivity.
  - rewrite (scmp_lt_trans _ _ _ E1 E2). reflexivity.
Qed.
Lemma str_leb_antisym a b : str_leb a b = true -> str_leb b a = true -> a = b.
Proof.
  unfold str_leb. rewrite (String.compare_antisym b a). destruct (String.compare a b) eqn:E; simpl; try discriminate; intros _ H; try discriminate.
  apply String.compare_eq_iff, E.
Qed.

Lemma key_le_total a b : key_le a b = true \/ key_le b a = true.
Proof.
  unfold key_le. rewrite (String.compare_antisym (slabel b) (slabel a)). destruct (String.compare (slabel a) (slabel b)); simpl; auto. apply str_leb_total.
Qed.
Lemma key_le_trans a b c : key_le a b = true -> key_le b c = true -> key_le a c = true.
Proof.
  unfold key_le. destruct (String.compare (slabel a) (slabel b)) eqn:E1; try discriminate;
  destruct (String.compare (slabel b) (slabel c)) eqn:E2; try discriminate; intros H1 H2.
  - apply String.compare_eq_iff in E1, E2. rewrite E1, E2, scmp_refl. eapply str_leb_trans; eassumption.
  - apply String.compare_eq_iff in E1. rewrite E1, E2. reflexivity.
  - apply String.compare_eq_iff in E2. rewrite <- E2, E1. reflexivity.
  - rewrite (scmp_lt_trans _ _ _ E1 E2). reflexivity.
Qed.
Lemma key_le_antisym a b : key_le a b = true -> key_le b a = true -> slabel a = slabel b /\ sname a = sname b.
Proof.
  unfold key_le. rewrite (String.compare_antisym (slabel b) (slabel a)). destruct (String.compare (slabel a) (slabel b)) eqn:E; simpl; try discriminate; intros H1 H2; try discriminate.
  split; [apply String.compare_eq_iff, E|apply str_leb_antisym; assumption].
Qed.

(* ---------------------------------------------------------------- the stable insertion sort is canonical *)
Section Canon.
Context {A : Type}.
Variable le : A -> A -> bool.
Hypothesis le_total : forall a b, le a b = true \/ le b a = true.
Hypothesis le_trans : forall a b c, le a b = true -> le b c = true -> le a c = true.
Let R (a b : A) : Prop := le a b = true.

Lemma insert_s_sorted x l : StronglySorted R l -> StronglySorted R (insert_s le x l).
Proof.
  induction l as [|y r IH]; intro S; cbn [insert_s]; [constructor; [constructor|constructor]|].
  inversion S as [|? ? Sr Fy]; subst. destruct (le y x) eqn:E.
  - constructor; [apply IH, Sr|]. apply Forall_forall. intros z Hz. apply (Permutation_in _ (insert_s_perm le x r)) in Hz.
    destruct Hz as [Hz|Hz]; [subst; exact E|]. rewrite Forall_forall in Fy. apply Fy, Hz.
  - assert (Lxy : le x y = true) by (destruct (le_total x y) as [K|K]; [exact K|congruence]).
    constructor; [exact S|]. constructor; [exact Lxy|]. rewrite Forall_forall in Fy |- *. intros z Hz. eapply le_trans; [exact Lxy|apply Fy, Hz].
Qed.
Lemma sort_s_sorted l : StronglySorted R (sort_s le l).
Proof.
  unfold sort_s. assert (G : forall acc, StronglySorted R acc -> StronglySorted R (fold_left (fun a x => insert_s le x a) l acc)).
  { induction l as [|x r IH]; intros acc S; cbn [fold_left]; [exact S|]. apply IH, insert_s_sorted, S. }
  apply G. constructor.
Qed.
Lemma sorted_unique l : forall l', StronglySorted R l -> StronglySorted R l' -> Permutation l l' ->
  (forall a b, In a l -> In b l -> le a b = true -> le b a = true -> a = b) -> l = l'.
Proof.
  induction l as [|a t IH]; intros l' S S' P Anti.
  - apply Permutation_nil in P. subst. reflexivity.
  - destruct l' as [|a' t']; [apply Permutation_sym, Permutation_nil in P; discriminate|].
    inversion S as [|? ? St Fa]; inversion S' as [|? ? St' Fa']; subst. rewrite Forall_forall in Fa, Fa'.
    assert (E : a = a').
    { assert (Ha : In a (a' :: t')) by (apply (Permutation_in _ P); left; reflexivity).
      assert (Ha' : In a' (a :: t)) by (apply (Permutation_in _ (Permutation_sym P)); left; reflexivity).
      destruct Ha as [Ha|Ha]; [symmetry; exact Ha|]. destruct Ha' as [Ha'|Ha']; [exact Ha'|].
      apply Anti; [left; reflexivity|right; exact Ha'|apply Fa, Ha'|apply Fa', Ha]. }
    subst a'. f_equal. apply IH; [exact St|exact St'|eapply Permutation_cons_inv; exact P|].
    intros x y Hx Hy. apply Anti; right; assumption.
Qed.
Theorem sort_s_canonical l l' : Permutation l l' ->
  (forall a b, In a l -> In b l -> le a b = true -> le b a = true -> a = b) -> sort_s le l = sort_s le l'.
Proof.
  intros P Anti. apply sorted_unique; try apply sort_s_sorted.
  - eapply Permutation_trans; [apply sort_s_perm|]. eapply Permutation_trans; [exact P|apply Permutation_sym, sort_s_perm].
  - intros a b Ha Hb. apply sort_s_In in Ha, Hb. apply Anti; assumption.
Qed.
End Canon.

(* ---------------------------------------------------------------- front end: labels -> tree and generated names *)
Definition key_of (s : istream) : string * string := (slabel s, sname s).
Definition distinct_keys (ss : list istream) : Prop := NoDup (map key_of (filter labelled ss)).

Lemma synth_order_perm ss ss' : Permutation ss ss' -> distinct_keys ss -> synth_order ss = synth_order ss'.
Proof.
  intros P DK. unfold synth_order. apply sort_s_canonical; [apply key_le_total|apply key_le_trans|apply perm_filter, P|].
  intros a b Ha Hb L1 L2. destruct (key_le_antisym a b L1 L2) as [E1 E2].
  apply (nodup_map_inj key_of (filter labelled ss)); try assumption. unfold key_of. congruence.
Qed.
Theorem synth_front_perm ss ss' : Permutation ss ss' -> distinct_keys ss -> synth_front ss = synth_front ss'.
Proof. intros P DK. unfold synth_front, synth_front_with. rewrite (synth_order_perm ss ss' P DK). reflexivity. Qed.

(* ---------------------------------------------------------------- back end: placement and import *)
Lemma fold_res_ext_in {A B} (f f' : A -> B -> result A) l : (forall a x, In x l -> f a x = f' a x) -> forall a, fold_res f l a = fold_res f' l a.
Proof.
  induction l as [|x r IH]; intros H a; cbn [fold_res]; [reflexivity|]. rewrite (H a x (or_introl eq_refl)).
  destruct (f' a x); cbn [bind]; [|reflexivity]. apply IH. intros b y Hy. apply H. right. exact Hy.
Qed.
Lemma map_res_ext_in {A B} (f f' : A -> result B) l : (forall x, In x l -> f x = f' x) -> map_res f l = map_res f' l.
Proof.
  induction l as [|x r IH]; intro H; cbn [map_res]; [reflexivity|]. rewrite (H x (or_introl eq_refl)), IH; [reflexivity|].
  intros y Hy. apply H. right. exact Hy.
Qed.
(* the bottom-up import asks the placement only about childless zones *)
Lemma zone_items_ext L pl pl' : (forall p, In p L -> kids L p = [] -> pl p = pl' p) ->
  forall fuel is_root p, (is_root = false -> In p L) -> zone_items fuel L pl is_root p = zone_items fuel L pl' is_root p.
Proof.
  intros H fuel. induction fuel as [|f IH]; intros is_root p Hp; cbn [zone_items]; [reflexivity|].
  destruct (negb is_root && Nat.eqb (List.length (kids L p)) 0) eqn:Q.
  - apply Bool.andb_true_iff in Q. destruct Q as [Q1 Q2]. apply Bool.negb_true_iff in Q1. apply Nat.eqb_eq in Q2.
    apply H; [apply Hp, Q1|apply List.length_zero_iff_nil, Q2].
  - apply fold_res_ext_in. intros acc c Hc. rewrite (IH false (p ++ [c])); [reflexivity|]. intros _. apply kids_In, Hc.
Qed.
Lemma perm_le1 {A} (a b : list A) : Permutation a b -> (List.length a <= 1)%nat -> a = b.
Proof.
  intros P Hl. destruct a as [|x [|y a]]; [apply Permutation_nil in P; subst; reflexivity| |simpl in Hl; lia].
  apply Permutation_length_1_inv in P. subst. reflexivity.
Qed.
Lemma filter_le1 {A} (P : A -> bool) l : NoDup l -> (forall a b, In a l -> In b l -> P a = true -> P b = true -> a = b) ->
  (List.length (filter P l) <= 1)%nat.
Proof.
  intros ND U. destruct (filter P l) as [|x [|y r]] eqn:E; simpl; try lia. exfalso.
  assert (NDf : NoDup (filter P l)) by (apply NoDup_filter, ND). rewrite E in NDf.
  assert (Hx : In x (filter P l)) by (rewrite E; left; reflexivity). assert (Hy : In y (filter P l)) by (rewrite E; right; left; reflexivity).
  apply filter_In in Hx, Hy. assert (x = y) by (apply U; tauto). subst y. inversion NDf as [|? ? K _]; subst. apply K. left. reflexivity.
Qed.

Section BackendOrder.
Variable root : string.
Variables ss ss' : list istream.
Variable L : list path.
Variable asg : list (nat * path).
Hypothesis ND : NoDup (map sid ss).
Hypothesis Pm : Permutation ss ss'.
Hypothesis SO : SynthOK ss L asg.

Let zsof (l : list istream) : list zstream :=
  filter (fun z => nonempty (zs_zone z)) (sort_s (fun a b => name_le (zs_s a) (zs_s b)) (map (synth_zone root asg) l)).
Let known : list string := map (pathstr root) ([] :: L).

Lemma in_ss' s : In s ss' -> In s ss. Proof. apply Permutation_in, Permutation_sym, Pm. Qed.
Lemma ND'o : NoDup (map sid ss'). Proof. eapply Permutation_NoDup; [apply Permutation_map, Pm|exact ND]. Qed.

Lemma res_of l : (forall s, In s l -> In s ss) -> forall z, In z (map (synth_zone root asg) l) -> nonempty (zs_zone z) = true ->
  zs_zone z = pathstr root (leaf_fn asg (zsid z)) /\ In (leaf_fn asg (zsid z)) L /\ kids L (leaf_fn asg (zsid z)) = [].
Proof.
  intros Hl z Hz Hn. apply in_map_iff in Hz. destruct Hz as [s [Ez Hs]]. subst z. apply Hl in Hs.
  assert (Hlab : labelled s = true).
  { destruct (labelled s) eqn:Hlab; [reflexivity|]. unfold synth_zone in Hn. cbn [zs_zone] in Hn. rewrite (so_unlab _ _ _ SO s Hs Hlab) in Hn. unfold labelled in Hlab. congruence. }
  destruct (so_leaf _ _ _ SO s Hs Hlab) as [k [A [B [C _]]]]. unfold zsid, synth_zone, leaf_fn. cbn [zs_s zs_zone]. rewrite A. auto.
Qed.
Lemma zsof_perm : Permutation (zsof ss) (zsof ss').
Proof.
  unfold zsof. eapply Permutation_trans; [apply zs_perm|]. eapply Permutation_trans; [|apply Permutation_sym, zs_perm].
  apply perm_filter, Permutation_map, Pm.
Qed.
Lemma zsof_nodup l : NoDup (map sid l) -> NoDup (zsof l).
Proof. intro N. apply (NoDup_map_inv zsid). apply zs_nodup. rewrite map_map. exact N. Qed.

(* a childless zone is the generated leaf of at most one stream *)
Lemma one_per_leaf p a b : In a (zsof ss) -> In b (zsof ss) -> path_eqb (leaf_fn asg (zsid a)) p = true -> path_eqb (leaf_fn asg (zsid b)) p = true -> a = b.
Proof.
  intros Ha Hb Pa Pb. apply path_eqb_eq in Pa, Pb. unfold zsof in Ha, Hb. apply zs_in in Ha, Hb. destruct Ha as [Ha Na], Hb as [Hb Nb].
  apply in_map_iff in Ha, Hb. destruct Ha as [s1 [E1 H1]], Hb as [s2 [E2 H2]]. subst a b.
  assert (Lab : forall s, In s ss -> nonempty (zs_zone (synth_zone root asg s)) = true -> labelled s = true).
  { intros s Hs Hn. destruct (labelled s) eqn:Hlab; [reflexivity|]. unfold synth_zone in Hn. cbn [zs_zone] in Hn. rewrite (so_unlab _ _ _ SO s Hs Hlab) in Hn. unfold labelled in Hlab. congruence. }
  destruct (so_leaf _ _ _ SO s1 H1 (Lab s1 H1 Na)) as [k1 [A1 _]]. destruct (so_leaf _ _ _ SO s2 H2 (Lab s2 H2 Nb)) as [k2 [A2 _]].
  unfold zsid, leaf_fn in Pa, Pb. cbn [zs_s synth_zone] in Pa, Pb. rewrite A1 in Pa. rewrite A2 in Pb.
  f_equal. apply (so_inj _ _ _ SO s1 s2 p); try assumption; [rewrite A1, Pa|rewrite A2, Pb]; reflexivity.
Qed.

Lemma placed_order p : In p L -> placed root known (zsof ss) p = placed root known (zsof ss') p.
Proof.
  intro Hp. unfold placed, known, zsof.
  rewrite (matched_eq root L (map (synth_zone root asg) ss) (leaf_fn asg) (so_nosep _ _ _ SO)); [|rewrite map_map; exact ND|apply res_of; auto|right; exact Hp].
  rewrite (matched_eq root L (map (synth_zone root asg) ss') (leaf_fn asg) (so_nosep _ _ _ SO)); [|rewrite map_map; exact ND'o|apply res_of, in_ss'|right; exact Hp].
  fold (zsof ss) (zsof ss'). f_equal. apply perm_le1; [apply perm_filter, zsof_perm|].
  apply filter_le1; [apply zsof_nodup, ND|]. intros a b. apply one_per_leaf.
Qed.

Theorem backend_perm : backend root L (map (synth_zone root asg) ss) = backend root L (map (synth_zone root asg) ss').
Proof.
  unfold backend, backend_with. fold (zsof ss) (zsof ss') known. apply map_res_ext_in. intros p Hp.
  rewrite (zone_items_ext L (placed root known (zsof ss)) (placed root known (zsof ss'))); [reflexivity| |].
  - intros q Hq _. apply placed_order, Hq.
  - intro E. apply Nat.eqb_neq in E. destruct Hp as [Hp|Hp]; [subst p; simpl in E; congruence|exact Hp].
Qed.
End BackendOrder.

(* the prepared zone tree does not depend on the order of the input streams, provided no two labelled streams share both
   their zone label and their name *)
Theorem model_synth_perm root ss ss' : NoDup (map sid ss) -> distinct_keys ss -> Permutation ss ss' ->
  model_synth root ss = model_synth root ss'.
Proof.
  intros ND DK P. unfold model_synth. rewrite <- (synth_front_perm ss ss' P DK).
  destruct (synth_front_ok ss ND) as [L [asg [E SO]]]. rewrite E. cbn [bind]. apply backend_perm; assumption.
Qed.
(* in particular under the hypothesis "stream names are pairwise different" *)
Corollary model_synth_perm_names root ss ss' : NoDup (map sid ss) -> NoDup (map sname (filter labelled ss)) -> Permutation ss ss' ->
  model_synth root ss = model_synth root ss'.
Proof.
  intros ND NN. apply model_synth_perm; [exact ND|]. unfold distinct_keys. 
  assert (G : forall l, NoDup (map sname l) -> NoDup (map key_of l)).
  { induction l as [|x r IH]; cbn [map]; intro N; [constructor|]. inversion N as [|? ? Hx Hr]; subst. constructor; [|apply IH, Hr].
    intro K. apply Hx. apply in_map_iff in K. destruct K as [y [Ey Hy]]. apply in_map_iff. exists y. split; [|exact Hy]. unfold key_of in Ey. congruence. }
  apply G, NN.
Qed.

(* ---------------------------------------------------------------- REFUTED without the hypothesis *)
Local Open Scope string_scope.
(* two streams of zone "A", both named "S": a hot one (identity 0) and a cold one (identity 1).  Given as [0; 1] the hot
   stream receives the unit operation A/O1 and the cold one A/O2; given as [1; 0] it is the other way round. *)
Definition dup_a : istream := mkIS 0 "A" "S" true 200 1000.
Definition dup_b : istream := mkIS 1 "A" "S" false 50 800.
Definition zone_ids (r : result (list zobs)) (p : path) : list nat * list nat :=
  match r with Ok o => match find_zone o p with Some z => (map fst (zo_hot z), map fst (zo_cold z)) | None => ([], []) end | Err _ => ([], []) end.
Example same_key_order_refuted :
  model_synth "Site" [dup_a; dup_b] <> model_synth "Site" [dup_b; dup_a]
  /\ zone_ids (model_synth "Site" [dup_a; dup_b]) ["A"; "O1"] = ([0%nat], []) /\ zone_ids (model_synth "Site" [dup_a; dup_b]) ["A"; "O2"] = ([], [1%nat])
  /\ zone_ids (model_synth "Site" [dup_b; dup_a]) ["A"; "O1"] = ([], [1%nat]) /\ zone_ids (model_synth "Site" [dup_b; dup_a]) ["A"; "O2"] = ([0%nat], [])
  /\ zone_ids (model_synth "Site" [dup_a; dup_b]) ["A"] = zone_ids (model_synth "Site" [dup_b; dup_a]) ["A"].
Proof. vm_compute. repeat split; try reflexivity. discriminate. Qed.
