(* C08 -- facts about model/Insert.v, part 3: histories of calls (the invariant), and independence of the order of
   the requests inside one call. *)
From OP Require Import gen.Consts model.Base model.Insert proofs.BaseFacts proofs.Insert proofs.InsertCurve.
From Coq Require Import Lqa Lia Permutation.
Local Open Scope Q_scope.

Section Tol.
Variable tolv : Q.
Hypothesis Htol : 0 <= tolv.

Notation WF := (WF tolv).

(* ------------------------------------------------------------------ histories *)
Lemma run_ind (P : table -> nat -> Prop) t : P t 0%nat ->
  (forall t' n reqs, P t' n -> P (fst (insert_t tolv t' reqs)) (n + snd (insert_t tolv t' reqs))%nat) ->
  forall reqss, P (fst (run_t tolv t reqss)) (snd (run_t tolv t reqss)).
Proof.
  intros H0 Hstep reqss. unfold run_t.
  assert (G : forall st, P (fst st) (snd st) ->
    P (fst (fold_left (fun st reqs => let (t', n) := insert_t tolv (fst st) reqs in (t', (snd st + n)%nat)) reqss st))
      (snd (fold_left (fun st reqs => let (t', n) := insert_t tolv (fst st) reqs in (t', (snd st + n)%nat)) reqss st))).
  { induction reqss as [|reqs reqss IH]; intros st Hst; simpl fold_left; [exact Hst|].
    apply IH. specialize (Hstep (fst st) (snd st) reqs Hst). destruct (insert_t tolv (fst st) reqs) as [t' n]. exact Hstep. }
  apply G. exact H0.
Qed.

(* what every history of calls preserves, relative to the initial table t0; n = total of the returned counts *)
Definition history_inv (t0 t : table) (n : nat) : Prop :=
  WF t
  /\ List.length t = (List.length t0 + n)%nat
  /\ (forall j, populated j t0 -> populated j t /\ forall y, pl (pts j t) y == pl (pts j t0) y)
  /\ (forall j, allnan j t0 -> allnan j t)
  /\ (forall r, In r t0 -> exists r', In r' t /\ core r' = core r)
  /\ ((0 < n)%nat \/ (widths_ok t0 /\ dh_ok t0) -> widths_ok t /\ dh_ok t).

Lemma history_step t0 t n reqs : history_inv t0 t n ->
  history_inv t0 (fst (insert_t tolv t reqs)) (n + snd (insert_t tolv t reqs))%nat.
Proof.
  intros [Hwf [Hlen [Hcur [Hnan [Hkeep Hgood]]]]]. repeat split.
  - apply (insert_WF tolv t reqs Hwf).
  - apply (insert_WF tolv t reqs Hwf).
  - rewrite (insert_length tolv t reqs) by (destruct Hwf; assumption). lia.
  - destruct (Hcur j H) as [Hp _]. apply (insert_curves tolv Htol j t reqs Hwf Hp).
  - intro y. destruct (Hcur j H) as [Hp He]. destruct (insert_curves tolv Htol j t reqs Hwf Hp) as [_ He2].
    rewrite He2. apply He.
  - intros j Hj. apply insert_allnan. apply Hnan. exact Hj.
  - intros r Hr. destruct (Hkeep r Hr) as [r' [H1 H2]]. destruct (insert_keeps tolv t reqs r' H1) as [r'' [H3 H4]].
    exists r''. split; [exact H3|congruence].
  - destruct (snd (insert_t tolv t reqs)) as [|k] eqn:E.
    + rewrite (insert_zero tolv t reqs E). apply Hgood. destruct H as [H|H]; [left; lia|right; exact H].
    + apply insert_widths. left. lia.
  - destruct (snd (insert_t tolv t reqs)) as [|k] eqn:E.
    + rewrite (insert_zero tolv t reqs E). apply Hgood. destruct H as [H|H]; [left; lia|right; exact H].
    + apply insert_dh. left. lia.
Qed.

Lemma history_invariant t0 reqss : WF t0 -> history_inv t0 (fst (run_t tolv t0 reqss)) (snd (run_t tolv t0 reqss)).
Proof.
  intro Hwf. apply run_ind.
  - split; [exact Hwf|]. split; [lia|]. split; [|split; [|split]].
    + intros j Hj. split; [exact Hj|reflexivity].
    + intros j Hj. exact Hj.
    + intros r Hr. exists r. split; [exact Hr|reflexivity].
    + intros [H|H]; [lia|exact H].
  - intros t' n reqs H. apply history_step. exact H.
Qed.

(* ------------------------------------------------------------------ order of the requests inside one call *)
Fixpoint distinct (l : list Q) : Prop := match l with [] => True | a :: r => Forall (fun b => ~ a == b) r /\ distinct r end.

Lemma distinct_perm l l' : Permutation l l' -> distinct l -> distinct l'.
Proof.
  induction 1 as [|x l l' Hp IH|x y l|l l' l'' H1 IH1 H2 IH2]; intro H.
  - exact I.
  - destruct H as [H1 H2]. split; [eapply Permutation_Forall; eassumption|apply IH; exact H2].
  - destruct H as [H1 [H2 H3]]. inversion H1 as [|a b Hxy H1']; subst. repeat split; try assumption.
    constructor; [intro E; apply Hxy; symmetry; exact E|exact H2].
  - apply IH2. apply IH1. exact H.
Qed.
Lemma filter_perm (f : Q -> bool) l l' : Permutation l l' -> Permutation (filter f l) (filter f l').
Proof.
  induction 1 as [|x l l' Hp IH|x y l|l l' l'' H1 IH1 H2 IH2]; simpl.
  - constructor.
  - destruct (f x); [constructor; exact IH|exact IH].
  - destruct (f x), (f y); try apply Permutation_refl. apply perm_swap.
  - eapply Permutation_trans; eassumption.
Qed.
Lemma distinct_filter (f : Q -> bool) l : distinct l -> distinct (filter f l).
Proof.
  induction l as [|a l IH]; simpl; [tauto|]. intros [H1 H2]. destruct (f a); [|apply IH; exact H2].
  split; [|apply IH; exact H2]. rewrite Forall_forall in *. intros b Hb. apply filter_In in Hb. apply H1. tauto.
Qed.
Lemma ins_desc_perm x l : Permutation (x :: l) (ins_desc x l).
Proof.
  induction l as [|a l IH]; simpl; [apply Permutation_refl|]. destruct (qleb a x); [apply Permutation_refl|].
  eapply Permutation_trans; [apply perm_swap|]. constructor. exact IH.
Qed.
Lemma sort_desc_perm l : Permutation l (sort_desc l).
Proof.
  induction l as [|a l IH]; simpl; [constructor|]. eapply Permutation_trans; [|apply ins_desc_perm]. constructor. exact IH.
Qed.

Fixpoint gt_from (a : Q) (l : list Q) : Prop := match l with [] => True | b :: r => b < a /\ gt_from b r end.
Lemma gt_from_all l : forall a, gt_from a l -> Forall (fun b => b < a) l.
Proof.
  induction l as [|b l IH]; intros a H; constructor; destruct H as [H1 H2]; [exact H1|].
  apply IH in H2. eapply Forall_impl; [|exact H2]. simpl. intros; lra.
Qed.
Lemma strict_of_sorted l : forall a, ge_from a l -> distinct (a :: l) -> gt_from a l.
Proof.
  induction l as [|b l IH]; intros a H D; simpl; [exact I|]. destruct H as [H1 H2]. destruct D as [D1 D2].
  inversion D1 as [|b' l' Hab D1']; subst. split.
  - destruct (Qlt_le_dec b a) as [L|L]; [exact L|]. exfalso. apply Hab. lra.
  - apply IH; assumption.
Qed.
Lemma strict_perm_eq l1 : forall l2, sorted_ge l1 -> sorted_ge l2 -> distinct l1 -> distinct l2 -> Permutation l1 l2 -> l1 = l2.
Proof.
  induction l1 as [|a l1 IH]; intros l2 S1 S2 D1 D2 P.
  - apply Permutation_nil in P. subst. reflexivity.
  - destruct l2 as [|b l2]; [apply Permutation_sym, Permutation_nil in P; discriminate|].
    assert (G1 := gt_from_all _ _ (strict_of_sorted _ _ S1 D1)). assert (G2 := gt_from_all _ _ (strict_of_sorted _ _ S2 D2)).
    rewrite Forall_forall in G1, G2.
    assert (Eab : a = b).
    { assert (Ha : In a (b :: l2)) by (eapply Permutation_in; [exact P|left; reflexivity]).
      assert (Hb : In b (a :: l1)) by (eapply Permutation_in; [apply Permutation_sym; exact P|left; reflexivity]).
      destruct Ha as [Ha|Ha]; [symmetry; exact Ha|]. destruct Hb as [Hb|Hb]; [exact Hb|].
      apply G2 in Ha. apply G1 in Hb. lra. }
    subst b. f_equal. apply IH.
    + destruct l1; simpl in *; [exact I|tauto].
    + destruct l2; simpl in *; [exact I|tauto].
    + destruct D1; assumption.
    + destruct D2; assumption.
    + eapply Permutation_cons_inv. exact P.
Qed.

Lemma plan_perm t r1 r2 : Permutation r1 r2 -> distinct r1 -> plan tolv t r1 = plan tolv t r2.
Proof.
  intros P D. unfold plan. f_equal.
  assert (P' := filter_perm (far tolv t) _ _ P). assert (D1 := distinct_filter (far tolv t) _ D).
  assert (D2 : distinct (filter (far tolv t) r2)) by (eapply distinct_perm; eassumption).
  apply strict_perm_eq; try apply sort_desc_sorted.
  - eapply distinct_perm; [apply sort_desc_perm|exact D1].
  - eapply distinct_perm; [apply sort_desc_perm|exact D2].
  - eapply Permutation_trans; [apply Permutation_sym, sort_desc_perm|]. eapply Permutation_trans; [exact P'|apply sort_desc_perm].
Qed.
Lemma insert_perm t r1 r2 : Permutation r1 r2 -> distinct r1 -> insert_t tolv t r1 = insert_t tolv t r2.
Proof. intros P D. unfold insert_t. rewrite (plan_perm t r1 r2 P D). reflexivity. Qed.

(* requests more than 2*tolv apart are in particular distinct *)
Fixpoint apart (l : list Q) : Prop :=
  match l with [] => True | a :: r => Forall (fun b => 2 * tolv < Qabs (a - b)) r /\ apart r end.
Lemma apart_distinct l : apart l -> distinct l.
Proof.
  induction l as [|a l IH]; cbn [apart distinct]; [tauto|]. intros [H1 H2]. split; [|apply IH; exact H2].
  eapply Forall_impl; [|exact H1]. cbv beta. intros b Hb E. assert (Z : Qabs (a - b) == 0) by (rewrite E; apply Qabs_self). lra.
Qed.

Lemma insert_new_requested t reqs z : t <> [] ->
  In z (map rT (fst (insert_t tolv t reqs))) -> In z (map rT t) \/ In z reqs.
Proof.
  intros Hne H. rewrite (insert_T_In tolv t reqs z Hne) in H. destruct H as [H|H]; [left; exact H|right].
  apply plan_In in H. tauto.
Qed.

Lemma WF_b_complete t : WF t -> sepd_b tolv (map rT t) = true.
Proof. intros [_ H]. apply sepd_b_true. exact H. Qed.

End Tol.

(* ------------------------------------------------------------------ the tolerance of the source *)
Lemma tol_nonneg : 0 <= tol.
Proof. unfold tol, Qle. simpl. lia. Qed.

(* ------------------------------------------------------------------ non-vacuity: a table in the domain, an effective history *)
Definition ex_t : table :=
  [ mkRow 100 (Some 0) [Some 130; None] [Some 0] [Some 0] [None];
    mkRow 60 (Some 40) [Some 50; None] [Some 2] [Some 80] [None];
    mkRow 20 (Some 40) [Some 10; None] [Some 1] [Some 40] [None];
    mkRow 0 (Some 20) [Some 0; None] [Some (1 # 2)] [Some 10] [None] ].
Example ex_wf : WF tol ex_t.
Proof. split; [discriminate|]. apply sepd_b_true. vm_compute. reflexivity. Qed.
Example ex_populated : populated 0 ex_t /\ allnan 1 ex_t /\ widths_ok ex_t /\ dh_ok ex_t.
Proof.
  split; [|split; [|split]].
  - intros r Hr. simpl in Hr. repeat (destruct Hr as [Hr|Hr]; [subst r; eexists; reflexivity|]). destruct Hr.
  - intros r Hr. simpl in Hr. repeat (destruct Hr as [Hr|Hr]; [subst r; reflexivity|]). destruct Hr.
  - simpl. repeat split; eexists; (split; [reflexivity|]); reflexivity.
  - simpl. repeat constructor.
Qed.
(* one call: duplicate, above, off-centre inside, two below, one present within tol -- 6 requested, 4 inserted;
   the widths are the gaps to the row above (the D3 witness: 60 keeps 40, the new row 50 gets 10, 20 gets 30) *)
Example ex_insert :
  let r := insert ex_t [50; 120; 50; -10; -30; 60 + (1 # 2097152)] in
  map rT (fst r) = [120; 100; 60; 50; 20; 0; -10; -30] /\ snd r = 4%nat
  /\ map rDT (fst r) = [Some 20; Some 20; Some 40; Some 10; Some 30; Some 20; Some 10; Some 20]
  /\ map (hcell 0) (fst r) = [Some 130; Some 130; Some 50; Some 40; Some 10; Some 0; Some 0; Some 0].
Proof. vm_compute. repeat split; reflexivity. Qed.
Example ex_apart : apart tol [50; 120; -10; -30] /\ Permutation [50; 120; -10; -30] [-30; 120; 50; -10].
Proof.
  split.
  - simpl. repeat split; repeat constructor; vm_compute; reflexivity.
  - apply (Permutation_trans (l' := [120; 50; -10; -30])).
    + apply perm_swap.
    + apply (Permutation_trans (l' := [120; 50; -30; -10])); [repeat constructor|].
      apply (Permutation_trans (l' := [120; -30; 50; -10])); [constructor; apply perm_swap|apply perm_swap].
Qed.

(* why order-irrelevance across calls is only partial: splitting a request list into two calls changes a heat-capacity
   cell when the old first row carries a non-zero heat capacity (105 is an edge row in one call, an inside row -- copying
   the lower neighbour -- when 110 was added by an earlier call) *)
Definition ex_t2 : table :=
  [ mkRow 100 (Some 0) [Some 130] [Some 2] [Some 0] []; mkRow 60 (Some 40) [Some 50] [Some 2] [Some 80] [] ].
Example ex_split_calls_differ :
  map rCP (fst (run ex_t2 [[110]; [105]])) = [[Some 0]; [Some 2]; [Some 2]; [Some 2]]
  /\ map rCP (fst (run ex_t2 [[110; 105]])) = [[Some 0]; [Some 0]; [Some 2]; [Some 2]].
Proof. vm_compute. split; reflexivity. Qed.
