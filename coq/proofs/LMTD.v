(* compute_LMTD_from_dts_R (gen/Scalar.v): bounds, symmetry, equal-difference branch, refusal. *)
From Coq Require Import Reals Lra Psatz Bool ZArith Lia.
From OP Require Import gen.Consts gen.HxDispatch gen.Scalar proofs.HXBase proofs.LMTDLn.
Local Open Scope R_scope.

(* ------------------------------------------------------------------ the logarithmic formula *)
Lemma LMTD_log_bounds_gt a b : 0 < b -> b < a -> b <= LMTD_log a b <= (a + b) / 2.
Proof.
  intros Hb Hab. unfold LMTD_log.
  set (x := a / b). assert (Hx : 1 < x). { unfold x. apply (Rmult_lt_reg_r b); [lra|]. unfold Rdiv. rewrite Rmult_assoc, Rinv_l by lra. lra. }
  assert (Hln : 0 < ln x) by (apply ln_gt0; exact Hx). split.
  - pose proof (ln_upper x ltac:(lra)) as Hup.
    apply (Rmult_le_reg_r (ln x)); [exact Hln|]. unfold Rdiv at 1. rewrite Rmult_assoc, Rinv_l, Rmult_1_r by lra.
    apply (Rmult_le_compat_l b) in Hup; [|lra].
    replace (b * (x - 1)) with (a - b) in Hup by (unfold x; field; lra). exact Hup.
  - pose proof (ln_lower x ltac:(lra)) as L.
    apply (Rmult_le_reg_r (ln x)); [exact Hln|]. unfold Rdiv at 1. rewrite Rmult_assoc, Rinv_l, Rmult_1_r by lra.
    assert (E : 2 * (x - 1) / (x + 1) = 2 * (a - b) / (a + b)). { unfold x. field. split; lra. }
    rewrite E in L. apply (Rmult_le_compat_l ((a + b) / 2)) in L; [|lra].
    replace ((a + b) / 2 * (2 * (a - b) / (a + b))) with (a - b) in L by (field; lra). exact L.
Qed.

Lemma LMTD_log_sym a b : 0 < a -> 0 < b -> LMTD_log a b = LMTD_log b a.
Proof.
  intros Ha Hb. unfold LMTD_log. replace (b / a) with (/ (a / b)) by (field; lra).
  rewrite ln_Rinv by (apply Rdiv_lt_0_compat; lra).
  destruct (Req_dec a b) as [->|NE].
  - replace (b - b) with 0 by ring. unfold Rdiv. rewrite !Rmult_0_l. reflexivity.
  - assert (ln (a / b) <> 0).
    { intro K. rewrite <- ln_1 in K. apply ln_inv in K; [|apply Rdiv_lt_0_compat; lra|lra].
      apply NE. apply (Rmult_eq_reg_r (/ b)); [|apply Rinv_neq_0_compat; lra]. rewrite Rinv_r by lra. exact K. }
    field. exact H.
Qed.

Lemma LMTD_log_bounds a b : 0 < a -> 0 < b -> a <> b -> Rmin a b <= LMTD_log a b <= (a + b) / 2.
Proof.
  intros Ha Hb NE. destruct (Rlt_dec b a) as [L|L].
  - rewrite Rmin_right by lra. apply LMTD_log_bounds_gt; assumption.
  - assert (a < b) by lra. rewrite Rmin_left by lra. rewrite (LMTD_log_sym a b Ha Hb). replace ((a + b) / 2) with ((b + a) / 2) by field.
    apply LMTD_log_bounds_gt; assumption.
Qed.

Lemma LMTD_arith_sym a b : LMTD_arith a b = LMTD_arith b a.
Proof. unfold LMTD_arith. field. Qed.
Lemma LMTD_arith_bounds a b : Rmin a b <= LMTD_arith a b <= (a + b) / 2.
Proof. unfold LMTD_arith. split; [|lra]. unfold Rmin. destruct (Rle_dec a b); lra. Qed.

(* ------------------------------------------------------------------ rounding and the refusal guard *)
Lemma LMTD_refuses_sym a b : LMTD_refuses a b = LMTD_refuses b a.
Proof. unfold LMTD_refuses. apply orb_comm. Qed.

Lemma LMTD_not_refused_pos a b : LMTD_refuses a b = false -> 0 < a /\ 0 < b.
Proof.
  unfold LMTD_refuses. intro H. apply orb_false_iff in H. destruct H as [H1 H2]. apply Rleb_false in H1, H2. split.
  - destruct (Rlt_dec 0 a); [assumption|]. pose proof (round_dp_nonpos 6 a ltac:(lra)). lra.
  - destruct (Rlt_dec 0 b); [assumption|]. pose proof (round_dp_nonpos 6 b ltac:(lra)). lra.
Qed.

(* "is refused for non-positive differences" *)
Theorem lmtd_refuses a b : a <= 0 \/ b <= 0 -> compute_LMTD_from_dts_R a b = None.
Proof.
  intro H. unfold compute_LMTD_from_dts_R. destruct (LMTD_refuses a b) eqn:E; [reflexivity|].
  apply LMTD_not_refused_pos in E. lra.
Qed.

Lemma isclose_refl a : LMTD_isclose a a = true.
Proof.
  unfold LMTD_isclose. apply Rleb_true. replace (a - a) with 0 by ring. rewrite Rabs_R0.
  pose proof (Rabs_pos a). unfold LMTD_atol, LMTD_rtol. nra.
Qed.

(* "lies between the smaller end difference and the arithmetic mean" -- for every accepted pair, whichever branch *)
Theorem lmtd_bounds a b m : compute_LMTD_from_dts_R a b = Some m -> 0 < a /\ 0 < b /\ Rmin a b <= m <= (a + b) / 2.
Proof.
  unfold compute_LMTD_from_dts_R. destruct (LMTD_refuses a b) eqn:E; [discriminate|]. intro K. injection K as <-.
  destruct (LMTD_not_refused_pos a b E) as [Ha Hb]. split; [exact Ha|]. split; [exact Hb|].
  destruct (LMTD_isclose a b) eqn:C.
  - apply LMTD_arith_bounds.
  - apply LMTD_log_bounds; try assumption. intro K. subst b. rewrite isclose_refl in C. discriminate.
Qed.

(* equal differences: the arithmetic branch, value = the common difference *)
Theorem lmtd_equal_branch a m : compute_LMTD_from_dts_R a a = Some m -> m = a.
Proof.
  unfold compute_LMTD_from_dts_R. destruct (LMTD_refuses a a); [discriminate|]. rewrite isclose_refl. intro K. injection K as <-.
  unfold LMTD_arith. field.
Qed.

(* symmetry: acceptance is symmetric; the value is symmetric whenever both orders take the same branch; np.isclose is
   not symmetric (rtol * |second argument|), so in the sliver where the two orders take different branches the two
   results are the arithmetic and the logarithmic mean of the same pair, which differ by at most |a - b| / 2 *)
Theorem lmtd_sym_accept a b : (compute_LMTD_from_dts_R a b = None) <-> (compute_LMTD_from_dts_R b a = None).
Proof. unfold compute_LMTD_from_dts_R. rewrite (LMTD_refuses_sym a b). destruct (LMTD_refuses b a); split; intro; try reflexivity; discriminate. Qed.

Theorem lmtd_sym a b m m' : compute_LMTD_from_dts_R a b = Some m -> compute_LMTD_from_dts_R b a = Some m' ->
  LMTD_isclose a b = LMTD_isclose b a -> m = m'.
Proof.
  unfold compute_LMTD_from_dts_R. rewrite (LMTD_refuses_sym a b). destruct (LMTD_refuses b a) eqn:E; [discriminate|].
  rewrite LMTD_refuses_sym in E. destruct (LMTD_not_refused_pos a b E) as [Ha Hb].
  intros K K' C. injection K as <-. injection K' as <-. rewrite C. destruct (LMTD_isclose b a).
  apply LMTD_arith_sym. apply LMTD_log_sym; assumption.
Qed.

Theorem lmtd_sym_any a b m m' : compute_LMTD_from_dts_R a b = Some m -> compute_LMTD_from_dts_R b a = Some m' ->
  Rabs (m - m') <= Rabs (a - b) / 2.
Proof.
  intros K K'. destruct (lmtd_bounds _ _ _ K) as (_ & _ & B). destruct (lmtd_bounds _ _ _ K') as (_ & _ & B').
  rewrite (Rmin_comm b a) in B'. replace ((b + a) / 2) with ((a + b) / 2) in B' by field.
  assert (Hd : (a + b) / 2 - Rmin a b = Rabs (a - b) / 2).
  { unfold Rmin, Rabs. destruct (Rle_dec a b); destruct (Rcase_abs (a - b)); lra. }
  unfold Rabs at 1. destruct (Rcase_abs (m - m')); lra.
Qed.

Theorem lmtd_sym_all a b :
  (compute_LMTD_from_dts_R a b = None <-> compute_LMTD_from_dts_R b a = None) /\
  (forall m m', compute_LMTD_from_dts_R a b = Some m -> compute_LMTD_from_dts_R b a = Some m' ->
     (LMTD_isclose a b = LMTD_isclose b a -> m = m') /\ Rabs (m - m') <= Rabs (a - b) / 2).
Proof. split. apply lmtd_sym_accept. intros m m' K K'. split. apply (lmtd_sym a b m m' K K'). apply (lmtd_sym_any a b m m' K K'). Qed.
