(* C07: why the specification deserves its name.  The running minimum (filter form used by spec_np) is a lower bound
   of the curve on the whole stretch from x to the far end of the side, hence monotone and under the curve; and every
   monotone function under the curve is under it: it is the GREATEST monotone curve under the GCC. *)
From OP Require Import gen.Consts model.Base model.Pockets proofs.BaseFacts proofs.PocketsPL proofs.PocketsSpec.
From Coq Require Import Lia Lqa.
Local Open Scope Q_scope.

Lemma seg_between_min (a b : pt) x x' : ~ fst b == fst a ->
  (fst b <= x <= fst a \/ fst a <= x <= fst b) -> (x <= x' <= fst a \/ fst a <= x' <= x) ->
  Qmin (snd a) (seg a b x) <= seg a b x'.
Proof.
  intros Hn Hx Hx'.
  (* x' lies between x and a on the same line: its value is between seg x and snd a *)
  assert (Hne : ~ fst a == x \/ fst a == x) by (destruct (Qeq_dec (fst a) x); auto).
  destruct Hne as [Hne|He].
  - set (c := (x, seg a b x)).
    assert (Hc : snd c == seg a b (fst c)) by reflexivity.
    assert (E : seg a b x' == seg a c x') by (symmetry; apply seg_split_l; [exact Hn|simpl; lra|exact Hc]).
    rewrite E. destruct (Q.min_spec (snd a) (seg a b x)) as [[H1 H2]|[H1 H2]]; rewrite H2.
    + apply seg_ge; simpl; [lra|lra|lra|lra].
    + apply seg_ge; simpl; [lra|lra|lra|lra].
  - assert (Ex' : x' == fst a) by lra.
    rewrite (seg_at_a a b x' Hn Ex'). apply Q.le_min_l.
Qed.

Lemma rmw_lower_bound d tq : 0 <= tq -> forall rest a M x x', mono d tq (a :: rest) -> in_range d (a :: rest) x ->
  sleP d x x' -> sleP d x' (fst a) -> M <= snd a ->
  rmw d M (a :: rest) x <= plw d (a :: rest) x'.
Proof.
  intros Ht. induction rest as [|b r IH]; intros a M x x' Hm Hr Hxx Hx'a HM.
  - simpl. exact HM.
  - pose proof Hm as [G Hm']. pose proof (sgap_ne d tq a b Ht G) as Hne. pose proof (sgap_lt d tq a b Ht G) as Hlt.
    destruct Hr as [Hr1 Hr2]. rewrite last_cons2 in Hr2. simpl fst in Hr1.
    rewrite rmw_cons2, plw_cons2.
    destruct (sle d (fst b) x) eqn:Eb.
    + apply sle_true in Eb.
      assert (Eb' : sle d (fst b) x' = true) by (apply sle_true; destruct d; simpl in *; lra). rewrite Eb'.
      destruct (sle d (fst a) x') eqn:Ea.
      * qmin.
      * pose proof (seg_between_min a b x x' Hne) as Hs.
        assert (H1 : fst b <= x <= fst a \/ fst a <= x <= fst b) by (destruct d; simpl in *; lra).
        assert (H2 : x <= x' <= fst a \/ fst a <= x' <= x) by (destruct d; simpl in *; lra).
        specialize (Hs H1 H2). qmin.
    + apply sle_false in Eb.
      assert (Hin : in_range d (b :: r) x).
      { split; [simpl; destruct d; simpl in *; lra|rewrite (last_dflt (b :: r) b a) by discriminate; exact Hr2]. }
      destruct (sle d (fst a) x') eqn:Ea.
      * pose proof (rmw_le_M d (Qmin M (snd b)) (b :: r) x). qmin.
      * destruct (sle d (fst b) x') eqn:Eb'.
        -- apply sle_true in Eb'. apply sle_false in Ea.
           assert (Hge : Qmin (snd a) (snd b) <= seg a b x').
           { destruct (Q.min_spec (snd a) (snd b)) as [[H1 H2]|[H1 H2]]; rewrite H2; apply seg_ge; try lra; destruct d; simpl in *; lra. }
           pose proof (rmw_le_M d (Qmin M (snd b)) (b :: r) x). qmin.
        -- apply sle_false in Eb'. apply IH; try assumption; [destruct d; simpl in *; lra|qmin].
Qed.

Lemma qmin_list_glb z dflt l : z <= dflt -> Forall (fun v => z <= v) l -> z <= qmin_list dflt l.
Proof. intros Hd. induction 1 as [|v l Hv _ IH]; [exact Hd|]. change (qmin_list dflt (v :: l)) with (Qmin v (qmin_list dflt l)). qmin. Qed.
Lemma qmin_list_le_dflt dflt l : qmin_list dflt l <= dflt.
Proof. induction l as [|v l IH]; [simpl; lra|]. change (qmin_list dflt (v :: l)) with (Qmin v (qmin_list dflt l)). qmin. Qed.

Section Greatest.
Variables (tq : Q) (Ts Hs : list Q).
Hypothesis Ht : 0 <= tq.
Hypothesis Hlen : List.length Ts = List.length Hs.
Hypothesis Hdesc : mono true tq (combine Ts Hs).

(* the running minimum towards the hot end bounds the curve from below on [x, T_top] ... *)
Theorem runmin_above_lower_bound x x' : last Ts 0 <= x -> x <= x' -> x' <= hd 0 Ts ->
  runmin_above Ts Hs x <= gcc_at Ts Hs x'.
Proof.
  intros H1 H2 H3. destruct (combine Ts Hs) as [|a rest] eqn:Ec.
  - destruct Ts as [|t ts]; destruct Hs as [|h hs]; simpl in *; try discriminate; try lia;
      try (unfold runmin_above, gcc_at; simpl; lra).
  - assert (Ea : fst a = hd 0 Ts) by (rewrite <- (combine_fst Ts Hs Hlen), Ec; reflexivity).
    assert (El : fst (last (a :: rest) a) = last Ts 0).
    { transitivity (last (map fst (a :: rest)) (fst a)); [symmetry; apply (last_map fst (a :: rest) a)|].
      rewrite <- (combine_fst Ts Hs Hlen), Ec. apply last_dflt. discriminate. }
    assert (Hr : in_range true (a :: rest) x).
    { split; [simpl; rewrite Ea; lra|]. change (fst (last (a :: rest) a) <= x). rewrite El. exact H1. }
    rewrite (gcc_at_plw Ts Hs x' Hlen). rewrite Ec.
    apply Qle_trans with (rmw true (snd a) (a :: rest) x).
    + rewrite (rmw_runmin true tq a rest x Ht); [|first [exact Hdesc|rewrite <- Ec; exact Hdesc]|exact Hr].
      unfold runmin_above. change (vals_where (fun t => qleb x t) Ts Hs) with (vals_w true x (combine Ts Hs)). rewrite Ec.
      rewrite (qmin_list_dflt_eq _ _ (vals_w true x (a :: rest)) (gcc_at_plw Ts Hs x Hlen)). rewrite Ec. apply Qle_refl.
    + apply (rmw_lower_bound true tq Ht rest a (snd a) x x'); try assumption; try (rewrite <- Ec; exact Hdesc); try (simpl; rewrite ?Ea; lra).
Qed.
(* ... in particular it is under the curve and monotone *)
Corollary runmin_above_monotone x x' : last Ts 0 <= x -> x <= x' -> x' <= hd 0 Ts ->
  runmin_above Ts Hs x <= runmin_above Ts Hs x'.
Proof.
  intros H1 H2 H3. unfold runmin_above at 2. apply qmin_list_glb.
  - apply runmin_above_lower_bound; assumption.
  - rewrite Forall_forall. intros v Hv. unfold vals_where in Hv. apply in_map_iff in Hv. destruct Hv as [[t h] [E Hin]]. simpl in E. subst v.
    apply filter_In in Hin. destruct Hin as [Hin Hq]. simpl in Hq. apply qleb_true in Hq.
    unfold runmin_above.
    assert (Hin' : In h (vals_where (fun t0 => qleb x t0) Ts Hs)).
    { unfold vals_where. apply in_map_iff. exists (t, h). split; [reflexivity|]. apply filter_In. split; [exact Hin|]. simpl. apply qleb_true. lra. }
    clear -Hin'. induction (vals_where (fun t0 => qleb x t0) Ts Hs) as [|v l IH]; [destruct Hin'|].
    change (qmin_list (gcc_at Ts Hs x) (v :: l)) with (Qmin v (qmin_list (gcc_at Ts Hs x) l)).
    destruct Hin' as [E|Hin']; [subst; apply Q.le_min_l|]. specialize (IH Hin'). qmin.
Qed.

(* and it is the greatest such function: every g that does not decrease with temperature and stays under the curve
   stays under the running minimum *)
Theorem runmin_above_greatest (g : Q -> Q) x :
  (forall u v, u <= v -> g u <= g v) -> (forall u, last Ts 0 <= u <= hd 0 Ts -> g u <= gcc_at Ts Hs u) ->
  last Ts 0 <= x <= hd 0 Ts -> g x <= runmin_above Ts Hs x.
Proof.
  intros Hmono Hunder Hx. unfold runmin_above. apply qmin_list_glb; [apply Hunder; exact Hx|].
  rewrite Forall_forall. intros v Hv. unfold vals_where in Hv. apply in_map_iff in Hv. destruct Hv as [[t h] [E Hin]]. simpl in E. subst v.
  apply filter_In in Hin. destruct Hin as [Hin Hq]. simpl in Hq. apply qleb_true in Hq.
  (* the curve passes through the row (t, h) *)
  apply in_split in Hin. destruct Hin as [l1 [l2 Ec]].
  assert (Hrow : gcc_at Ts Hs t == h).
  { rewrite (gcc_at_plw Ts Hs t Hlen), Ec. apply (plw_at_point true tq l1 (t, h) l2 Ht). pose proof Hdesc as Hd2. rewrite Ec in Hd2. exact Hd2. }
  assert (Hrange : last Ts 0 <= t <= hd 0 Ts).
  { pose proof Hdesc as Hd3. pose proof (combine_fst Ts Hs Hlen) as Hcf.
    destruct (combine Ts Hs) as [|a rest] eqn:Ec0; [destruct l1; discriminate|].
    assert (Hin2 : In (t, h) (a :: rest)) by (rewrite Ec; apply in_or_app; right; left; reflexivity).
    pose proof (mono_bounds tq a rest Ht Hd3 (t, h) Hin2) as Hb. cbn [fst] in Hb.
    assert (Ea : fst a = hd 0 Ts) by (rewrite <- Hcf; reflexivity).
    assert (El : fst (last (a :: rest) a) = last Ts 0).
    { transitivity (last (map fst (a :: rest)) (fst a)); [symmetry; apply (last_map fst (a :: rest) a)|].
      rewrite <- Hcf. apply last_dflt. discriminate. }
    rewrite <- El, <- Ea. exact Hb. }
  rewrite <- Hrow. apply Qle_trans with (g t); [apply Hmono; exact Hq|apply Hunder; exact Hrange].
Qed.
End Greatest.

(* ---------- the same below the pinch: mirror image ---------- *)
Section GreatestBelow.
Variables (tq : Q) (Ts Hs : list Q).
Hypothesis Ht : 0 <= tq.
Hypothesis Hlen : List.length Ts = List.length Hs.
Hypothesis Hdesc : mono true tq (combine Ts Hs).

Lemma below_as_reversed x : last Ts 0 <= x <= hd 0 Ts -> combine Ts Hs <> [] ->
  exists a rest, rev (combine Ts Hs) = a :: rest /\ mono false tq (a :: rest) /\ in_range false (a :: rest) x
  /\ fst a = last Ts 0 /\ runmin_below Ts Hs x == rmw false (snd a) (a :: rest) x
  /\ (forall x', last Ts 0 <= x' <= hd 0 Ts -> gcc_at Ts Hs x' == plw false (a :: rest) x').
Proof.
  intros Hx Hne. pose proof (combine_fst Ts Hs Hlen) as Hcf.
  destruct (combine Ts Hs) as [|c0 cr] eqn:Ec; [congruence|].
  assert (Hr : rev (c0 :: cr) <> []) by (intro Z; apply (f_equal (@List.length _)) in Z; rewrite rev_length in Z; simpl in Z; lia).
  destruct (rev (c0 :: cr)) as [|a rest] eqn:Er; [congruence|]. exists a, rest. split; [reflexivity|].
  assert (Hm : mono false tq (a :: rest)) by (rewrite <- Er; apply (mono_rev true); exact Hdesc).
  assert (Ela : last (c0 :: cr) c0 = a).
  { rewrite <- (rev_involutive (c0 :: cr)), Er. cbn [rev]. apply last_last. }
  assert (Ea : fst a = last Ts 0).
  { rewrite <- Hcf. rewrite <- Ela. transitivity (last (map fst (c0 :: cr)) (fst c0)); [symmetry; apply (last_map fst (c0 :: cr) c0)|].
    apply last_dflt. discriminate. }
  assert (E0 : fst c0 = hd 0 Ts) by (rewrite <- Hcf; reflexivity).
  assert (Elr : last (a :: rest) a = c0).
  { rewrite <- Er. cbn [rev]. apply last_last. }
  assert (Hrange : forall x', last Ts 0 <= x' <= hd 0 Ts -> in_range false (a :: rest) x').
  { intros x' Hx'. split; [simpl; rewrite Ea; lra|]. change (x' <= fst (last (a :: rest) a)). rewrite Elr, E0. lra. }
  assert (Hrange' : forall x', last Ts 0 <= x' <= hd 0 Ts -> in_range true (c0 :: cr) x').
  { intros x' Hx'. split; [simpl; rewrite E0; lra|]. change (fst (last (c0 :: cr) c0) <= x'). rewrite Ela, Ea. lra. }
  assert (Hpl : forall x', last Ts 0 <= x' <= hd 0 Ts -> gcc_at Ts Hs x' == plw false (a :: rest) x').
  { intros x' Hx'. rewrite (gcc_at_plw Ts Hs x' Hlen), Ec. rewrite <- Er.
    symmetry. apply (plw_rev true tq (c0 :: cr) x' Ht Hdesc (Hrange' x' Hx')). }
  split; [exact Hm|]. split; [apply Hrange; exact Hx|]. split; [exact Ea|]. split; [|exact Hpl].
  rewrite (rmw_runmin false tq a rest x Ht Hm (Hrange x Hx)).
  unfold runmin_below. change (vals_where (fun t => qleb t x) Ts Hs) with (vals_w false x (combine Ts Hs)). rewrite Ec.
  unfold pt in *. rewrite <- Er. unfold vals_w at 2. rewrite filter_rev', map_rev, qmin_list_rev.
  apply qmin_list_dflt_eq. rewrite Er. apply Hpl. exact Hx.
Qed.

Theorem runmin_below_lower_bound x x' : last Ts 0 <= x' -> x' <= x -> x <= hd 0 Ts ->
  runmin_below Ts Hs x <= gcc_at Ts Hs x'.
Proof.
  intros H1 H2 H3.
  assert (Hcase : combine Ts Hs = [] \/ combine Ts Hs <> []) by (destruct (combine Ts Hs); [left; reflexivity|right; discriminate]).
  destruct Hcase as [Hemp|Hne].
  - assert (ET : Ts = []) by (rewrite <- (combine_fst Ts Hs Hlen), Hemp; reflexivity).
    assert (EHs : Hs = []) by (rewrite <- (combine_snd Ts Hs Hlen), Hemp; reflexivity).
    rewrite ET, EHs. unfold runmin_below, gcc_at. simpl. lra.
  - destruct (below_as_reversed x ltac:(lra) Hne) as [a [rest [Er [Hm [Hr [Ea [E1 E2]]]]]]].
    rewrite E1, (E2 x' ltac:(lra)).
    apply (rmw_lower_bound false tq Ht rest a (snd a) x x' Hm Hr); [simpl; lra|simpl; rewrite Ea; lra|lra].
Qed.
Theorem runmin_below_greatest (g : Q -> Q) x :
  (forall u v, u <= v -> g v <= g u) -> (forall u, last Ts 0 <= u <= hd 0 Ts -> g u <= gcc_at Ts Hs u) ->
  last Ts 0 <= x <= hd 0 Ts -> g x <= runmin_below Ts Hs x.
Proof.
  intros Hmono Hunder Hx. unfold runmin_below. apply qmin_list_glb; [apply Hunder; exact Hx|].
  rewrite Forall_forall. intros v Hv. unfold vals_where in Hv. apply in_map_iff in Hv. destruct Hv as [[t h] [E Hin]]. simpl in E. subst v.
  apply filter_In in Hin. destruct Hin as [Hin Hq]. simpl in Hq. apply qleb_true in Hq.
  apply in_split in Hin. destruct Hin as [l1 [l2 Ec]].
  assert (Hrow : gcc_at Ts Hs t == h).
  { rewrite (gcc_at_plw Ts Hs t Hlen), Ec. apply (plw_at_point true tq l1 (t, h) l2 Ht). pose proof Hdesc as Hd2. rewrite Ec in Hd2. exact Hd2. }
  assert (Hrange : last Ts 0 <= t <= hd 0 Ts).
  { pose proof Hdesc as Hd3. pose proof (combine_fst Ts Hs Hlen) as Hcf.
    destruct (combine Ts Hs) as [|a rest] eqn:Ec0; [destruct l1; discriminate|].
    assert (Hin2 : In (t, h) (a :: rest)) by (rewrite Ec; apply in_or_app; right; left; reflexivity).
    pose proof (mono_bounds tq a rest Ht Hd3 (t, h) Hin2) as Hb. cbn [fst] in Hb.
    assert (Ea : fst a = hd 0 Ts) by (rewrite <- Hcf; reflexivity).
    assert (El : fst (last (a :: rest) a) = last Ts 0).
    { transitivity (last (map fst (a :: rest)) (fst a)); [symmetry; apply (last_map fst (a :: rest) a)|].
      rewrite <- Hcf. apply last_dflt. discriminate. }
    rewrite <- El, <- Ea. exact Hb. }
  rewrite <- Hrow. apply Qle_trans with (g t); [apply Hmono; exact Hq|apply Hunder; exact Hrange].
Qed.
End GreatestBelow.

(* both statements bundled, as quoted by props/C07.v *)
Lemma greatest_above tq : 0 <= tq -> forall Ts Hs, List.length Ts = List.length Hs -> mono true tq (combine Ts Hs) ->
  (forall x x', last Ts 0 <= x -> x <= x' -> x' <= hd 0 Ts -> runmin_above Ts Hs x <= gcc_at Ts Hs x')
  /\ (forall x x', last Ts 0 <= x -> x <= x' -> x' <= hd 0 Ts -> runmin_above Ts Hs x <= runmin_above Ts Hs x')
  /\ (forall (g : Q -> Q) x, (forall u v, u <= v -> g u <= g v) ->
       (forall u, last Ts 0 <= u <= hd 0 Ts -> g u <= gcc_at Ts Hs u) ->
       last Ts 0 <= x <= hd 0 Ts -> g x <= runmin_above Ts Hs x).
Proof.
  intros Ht Ts Hs E H. split; [|split].
  - exact (runmin_above_lower_bound tq Ts Hs Ht E H).
  - exact (runmin_above_monotone tq Ts Hs Ht E H).
  - exact (runmin_above_greatest tq Ts Hs Ht E H).
Qed.
Lemma greatest_below tq : 0 <= tq -> forall Ts Hs, List.length Ts = List.length Hs -> mono true tq (combine Ts Hs) ->
  (forall x x', last Ts 0 <= x' -> x' <= x -> x <= hd 0 Ts -> runmin_below Ts Hs x <= gcc_at Ts Hs x')
  /\ (forall (g : Q -> Q) x, (forall u v, u <= v -> g v <= g u) ->
       (forall u, last Ts 0 <= u <= hd 0 Ts -> g u <= gcc_at Ts Hs u) ->
       last Ts 0 <= x <= hd 0 Ts -> g x <= runmin_below Ts Hs x).
Proof.
  intros Ht Ts Hs E H. split.
  - exact (runmin_below_lower_bound tq Ts Hs Ht E H).
  - exact (runmin_below_greatest tq Ts Hs Ht E H).
Qed.
