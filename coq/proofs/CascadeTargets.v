(* From exact rows to exact targets and curves: C01 and C05 on the model. *)
From OP Require Import model.Base model.Cascade proofs.BaseFacts proofs.CascadeSpec proofs.CascadeExact.
From Coq Require Import Lqa Lia.
Local Open Scope Q_scope.
Local Arguments Qred : simpl never.

(* ---------- minimum / maximum of a list ---------- *)
Lemma qmin_list_le_acc l x : qmin_list x l <= x.
Proof. revert x. induction l as [|y l IH]; intros x; simpl; [lra|]. eapply Qle_trans; [apply IH|apply Q.le_min_l]. Qed.
Lemma qmin_list_le l x y : In y l -> qmin_list x l <= y.
Proof.
  revert x. induction l as [|z l IH]; intros x Hin; [destruct Hin|]. simpl. destruct Hin as [E|Hin].
  - subst. eapply Qle_trans; [apply qmin_list_le_acc|apply Q.le_min_r].
  - apply IH; exact Hin.
Qed.
Lemma qmin_list_attained l x : qmin_list x l == x \/ exists y, In y l /\ qmin_list x l == y.
Proof.
  revert x. induction l as [|z l IH]; intros x; simpl; [left; reflexivity|].
  destruct (IH (Qmin x z)) as [E|[y [Hy E]]].
  - destruct (Q.min_spec x z) as [[_ M]|[_ M]].
    + left. rewrite E, M. reflexivity.
    + right. exists z. split; [left; reflexivity|]. rewrite E, M. reflexivity.
  - right. exists y. split; [right; exact Hy|exact E].
Qed.
Lemma qmax_list_ge_acc l x : x <= qmax_list x l.
Proof. revert x. induction l as [|y l IH]; intros x; simpl; [lra|]. eapply Qle_trans; [apply Q.le_max_l|apply IH]. Qed.
Lemma qmax_list_ge l x y : In y l -> y <= qmax_list x l.
Proof.
  revert x. induction l as [|z l IH]; intros x Hin; [destruct Hin|]. simpl. destruct Hin as [E|Hin].
  - subst. eapply Qle_trans; [apply Q.le_max_r|apply qmax_list_ge_acc].
  - apply IH; exact Hin.
Qed.
Lemma qmax_list_attained l x : qmax_list x l == x \/ exists y, In y l /\ qmax_list x l == y.
Proof.
  revert x. induction l as [|z l IH]; intros x; simpl; [left; reflexivity|].
  destruct (IH (Qmax x z)) as [E|[y [Hy E]]].
  - destruct (Q.max_spec x z) as [[_ M]|[_ M]].
    + right. exists z. split; [left; reflexivity|]. rewrite E, M. reflexivity.
    + left. rewrite E, M. reflexivity.
  - right. exists y. split; [right; exact Hy|exact E].
Qed.

Lemma last_map_ne {A} (f : A -> Q) (l : list A) (d : A) : l <> [] -> lastq (map f l) = f (last l d).
Proof.
  unfold lastq. induction l as [|a t IH]; intro N; [contradiction|]. destruct t as [|b t']; [reflexivity|].
  change (last (map f (a :: b :: t')) 0) with (last (map f (b :: t')) 0).
  change (last (a :: b :: t') d) with (last (b :: t') d). apply IH. discriminate.
Qed.
Lemma last_map_gen {A B} (f : A -> B) (l : list A) (d : A) (e : B) : l <> [] -> last (map f l) e = f (last l d).
Proof.
  induction l as [|a t IH]; intro N; [contradiction|]. destruct t as [|b t']; [reflexivity|].
  change (last (map f (a :: b :: t')) e) with (last (map f (b :: t')) e).
  change (last (a :: b :: t') d) with (last (b :: t') d). apply IH. discriminate.
Qed.

Lemma min_of_map {A} (f : A -> Q) (l : list A) :
  let m := match map f l with [] => 0 | x :: t => qmin_list x t end in
  l <> [] -> (forall r, In r l -> m <= f r) /\ (exists r, In r l /\ m == f r).
Proof.
  intros m N. destruct l as [|a t]; [contradiction|]. subst m. simpl. split.
  - intros r [E|H]; [subst; apply qmin_list_le_acc|]. apply qmin_list_le. apply in_map. exact H.
  - destruct (qmin_list_attained (map f t) (f a)) as [K|[y [Hy K]]].
    + exists a. split; [left; reflexivity|exact K].
    + apply in_map_iff in Hy. destruct Hy as [r [Er Hr]]. exists r. split; [right; exact Hr|]. rewrite K, Er. reflexivity.
Qed.

Section Targets.
Variable w : Q.
Variable d : Q.
Hypothesis d_nonneg : 0 <= d.
Hypothesis d_lt_w : d < w.
(* hot/cold: the streams as the code's activity test sees them; hotR/coldR: the same streams aligned with the grid *)
Variables hot cold hotR coldR : list view.
Hypothesis Fh : Forall2 (nearv d) hot hotR.
Hypothesis Fc : Forall2 (nearv d) cold coldR.
Hypothesis Wh : wfs hotR.
Hypothesis Wc : wfs coldR.
Variable g : list Q.
Hypothesis Hd : desc g.
Hypothesis Hne : g <> [].
Hypothesis Hcov : covers g (eps_all hotR coldR).
Hypothesis Hgap : gaps_ok w d g.

Let D := Dnet hotR coldR.
Let rs := raw_rows w hot cold g.
Let p := pta w hot cold g.
Let r0 : rrow := mkR 0 0 0 0 0 0 0 0.

Lemma rs_exact : Forall (row_exact hotR coldR) rs.
Proof. apply (raw_rows_exact w d d_nonneg d_lt_w hot cold hotR coldR Fh Fc Wh Wc); assumption. Qed.
Lemma rs_T : map rT rs = g.
Proof. apply raw_rows_T. Qed.
Lemma rs_ne : rs <> [].
Proof. intro E. pose proof rs_T as H. rewrite E in H. simpl in H. symmetry in H. contradiction. Qed.
Lemma rs_in_T r : In r rs -> In (rT r) g.
Proof. intro H. rewrite <- rs_T. apply in_map. exact H. Qed.
Lemma rs_of_T T : In T g -> exists r, In r rs /\ rT r = T.
Proof. intro H. rewrite <- rs_T in H. apply in_map_iff in H. destruct H as [r [E Hr]]. exists r. split; assumption. Qed.

Lemma last_row_T : rT (last rs r0) = last g 0.
Proof. rewrite <- rs_T. symmetry. apply last_map_gen. apply rs_ne. Qed.
Lemma last_row_in : In (last rs r0) rs.
Proof. pose proof rs_ne as N. clear - N. induction rs as [|a t IH]; [contradiction|]. destruct t as [|b t']; [left; reflexivity|]. right. apply IH. discriminate. Qed.
Lemma row_ex r : In r rs -> row_exact hotR coldR r.
Proof. intro H. pose proof rs_exact as F. rewrite Forall_forall in F. apply F; exact H. Qed.

Lemma total_hot : lastq (map rch rs) == duty hotR.
Proof.
  rewrite (last_map_ne rch rs r0 rs_ne). destruct (row_ex _ last_row_in) as [E _]. rewrite E, last_row_T.
  destruct (covers_split hotR coldR g Hcov) as [Ch _]. apply heat_above_last; assumption.
Qed.
Lemma total_cold : lastq (map rcc rs) == duty coldR.
Proof.
  rewrite (last_map_ne rcc rs r0 rs_ne). destruct (row_ex _ last_row_in) as [_ E]. rewrite E, last_row_T.
  destruct (covers_split hotR coldR g Hcov) as [_ Cc]. apply heat_above_last; assumption.
Qed.

Definition nraw : list Q := map (fun r => rsub (rch r) (rcc r)) rs.
Definition mn : Q := match nraw with [] => 0 | x :: l => qmin_list x l end.
Lemma nraw_D r : In r rs -> rsub (rch r) (rcc r) == - D (rT r).
Proof. intro H. destruct (row_ex r H) as [A B]. rewrite rsub_eq, A, B. unfold D, Dnet. ring. Qed.

Lemma mn_le r : In r rs -> mn <= - D (rT r).
Proof.
  intro H. rewrite <- (nraw_D r H). unfold mn, nraw.
  exact (proj1 (min_of_map (fun r => rsub (rch r) (rcc r)) rs rs_ne) r H).
Qed.
Lemma mn_attained : exists r, In r rs /\ mn == - D (rT r).
Proof.
  destruct (proj2 (min_of_map (fun r => rsub (rch r) (rcc r)) rs rs_ne)) as [r [Hr E]].
  exists r. split; [exact Hr|]. unfold mn, nraw. rewrite E. apply nraw_D; exact Hr.
Qed.

(* Qh, Qc, Qr of the model table in closed form *)
Lemma first_row : exists t0 g' rest, g = t0 :: g' /\ rs = mkR t0 0 0 0 0 0 0 0 :: rest.
Proof. unfold rs. destruct g as [|t0 g']; [contradiction|]. exists t0, g'. simpl. eexists. split; reflexivity. Qed.

Lemma Qh_closed : Qh_of p == - mn.
Proof.
  unfold Qh_of, p, pta. cbn [pHn]. fold rs. fold nraw. fold mn.
  destruct first_row as [t0 [g' [rest [Eg E0]]]]. unfold nraw. rewrite E0. cbn [map hd rch rcc].
  rewrite !rsub_eq. ring.
Qed.
Lemma Qc_closed : Qc_of p == duty hotR - duty coldR - mn.
Proof.
  unfold Qc_of, p, pta. cbn [pHn]. fold rs. fold nraw. fold mn. unfold nraw. rewrite map_map.
  rewrite (last_map_ne (fun r => rsub (rsub (rch r) (rcc r)) mn) rs r0 rs_ne).
  rewrite rsub_eq, (nraw_D _ last_row_in), last_row_T. unfold D, Dnet.
  destruct (covers_split hotR coldR g Hcov) as [Ch Cc].
  rewrite (heat_above_last g hotR Wh Hd Ch), (heat_above_last g coldR Wc Hd Cc). ring.
Qed.
Lemma Qr_closed : Qr_of p == duty hotR - Qc_of p.
Proof.
  unfold Qr_of. rewrite rsub_eq. fold (Qc_of p). apply Qplus_inj_r.
  unfold p, pta. cbn [pHh]. fold rs. rewrite map_map.
  pose proof total_hot as TH. destruct first_row as [t0 [g' [rest [Eg E0]]]]. rewrite E0 in *. cbn [map hd rch].
  rewrite rsub_eq. cbn [map] in TH. rewrite TH. ring.
Qed.

(* C01 *)
Theorem Qh_is_sup : (forall T, D T <= Qh_of p) /\ (exists T, In T g /\ D T == Qh_of p).
Proof.
  split.
  - intro T. rewrite Qh_closed. destruct (sup_on_grid hotR coldR Wh Wc g Hd Hne Hcov T) as [K|[T' [HT' K]]].
    + destruct first_row as [t0 [g' [rest [Eg E0]]]].
      assert (Hin : In (mkR t0 0 0 0 0 0 0 0) rs) by (rewrite E0; left; reflexivity).
      pose proof (mn_le _ Hin) as M. simpl in M.
      pose proof (D_top hotR coldR g Hd Hne Hcov) as Dt. rewrite Eg in Dt. simpl in Dt. fold D in Dt. fold D in K. lra.
    + destruct (rs_of_T T' HT') as [r [Hr Er]]. pose proof (mn_le r Hr) as M. rewrite Er in M. fold D in K. lra.
  - destruct mn_attained as [r [Hr E]]. exists (rT r). split; [apply rs_in_T; exact Hr|]. rewrite Qh_closed, E. ring.
Qed.
Theorem Qc_balance : Qc_of p == Qh_of p - duty coldR + duty hotR.
Proof. rewrite Qc_closed, Qh_closed. ring. Qed.
Theorem Qr_balance : Qr_of p == duty hotR - Qc_of p.
Proof. exact Qr_closed. Qed.
Theorem targets_nonneg : 0 <= Qh_of p /\ 0 <= Qc_of p /\ 0 <= Qr_of p.
Proof.
  destruct Qh_is_sup as [S [T [HT ET]]].
  assert (H0 : 0 <= Qh_of p).
  { destruct first_row as [t0 [g' [rest [Eg _]]]]. pose proof (D_top hotR coldR g Hd Hne Hcov) as Dt. rewrite Eg in Dt. simpl in Dt.
    fold D in Dt. specialize (S t0). lra. }
  assert (Hb : D (last g 0) == duty coldR - duty hotR).
  { unfold D, Dnet. destruct (covers_split hotR coldR g Hcov) as [Ch Cc].
    rewrite (heat_above_last g hotR Wh Hd Ch), (heat_above_last g coldR Wc Hd Cc). reflexivity. }
  split; [exact H0|]. split.
  - rewrite Qc_balance. specialize (S (last g 0)). lra.
  - rewrite Qr_balance, Qc_balance. rewrite <- ET. unfold D, Dnet.
    pose proof (heat_above_le_duty coldR T Wc). pose proof (heat_above_nonneg hotR T Wh). lra.
Qed.

(* the independent reference value (maximum over the streams' own end points) is the same number *)
Theorem Qh_star_eq : Qh_star hotR coldR == Qh_of p.
Proof.
  unfold Qh_star. rewrite Qred_correct. destruct Qh_is_sup as [S [T [HT ET]]]. destruct targets_nonneg as [H0 _].
  apply Qle_antisym.
  - destruct (qmax_list_attained (map (Dnet hotR coldR) (endpoints hotR ++ endpoints coldR)) 0) as [E|[y [Hy E]]]; rewrite E; [exact H0|].
    apply in_map_iff in Hy. destruct Hy as [e [Ee _]]. rewrite <- Ee. apply S.
  - rewrite <- ET. fold D.
    (* D T is bounded by the maximum over the end points: apply sup_on_grid to the grid made of the end points themselves *)
    set (es := endpoints hotR ++ endpoints coldR).
    assert (B : forall T, D T <= qmax_list 0 (map D es)).
    { intro T1. destruct (sorted_of es) as [|a0 t0] eqn:Eg2.
      - (* no end points: no streams *)
        assert (Hes : es = []).
        { destruct es as [|e0 es']; [reflexivity|]. destruct (sorted_of_has (e0 :: es') e0 ltac:(left; reflexivity)) as [z [Hz _]].
          rewrite Eg2 in Hz. destruct Hz. }
        assert (hotR = [] /\ coldR = []).
        { unfold es in Hes. destruct hotR as [|s ?]; destruct coldR as [|s' ?]; simpl in Hes; try discriminate; auto. }
        destruct H as [Eh Ec]. rewrite Hes. unfold D, Dnet. rewrite Eh, Ec. simpl. lra.
      - assert (Hdesc : desc (sorted_of es)) by apply sorted_of_desc.
        assert (N2 : sorted_of es <> []) by (rewrite Eg2; discriminate).
        assert (C2 : covers (sorted_of es) (eps_all hotR coldR)) by (intros e He; apply sorted_of_has; exact He).
        destruct (sup_on_grid hotR coldR Wh Wc (sorted_of es) Hdesc N2 C2 T1) as [K|[T' [HT' K]]].
        + fold D in K. pose proof (qmax_list_ge_acc (map D es) 0). lra.
        + fold D in K. pose proof (qmax_list_ge (map D es) 0 (D T') ltac:(apply in_map; apply sorted_of_only; exact HT')). lra. }
    apply B.
Qed.
Theorem Qc_star_eq : Qc_star hotR coldR == Qc_of p.
Proof. unfold Qc_star. rewrite Qred_correct, Qh_star_eq, Qc_balance. reflexivity. Qed.
Theorem Qr_star_eq : Qr_star hotR coldR == Qr_of p.
Proof. unfold Qr_star. rewrite Qred_correct, Qc_star_eq, Qr_balance. reflexivity. Qed.

(* C05 on the model: every row of the table carries the exact heat contents *)
Lemma shift_is_Qc : rsub (lastq nraw) mn == Qc_of p.
Proof. unfold Qc_of, p, pta. cbn [pHn]. fold rs. fold nraw. fold mn. unfold nraw. rewrite map_map.
  rewrite (last_map_ne (fun r => rsub (rsub (rch r) (rcc r)) mn) rs r0 rs_ne).
  rewrite (last_map_ne (fun r => rsub (rch r) (rcc r)) rs r0 rs_ne). reflexivity. Qed.

Theorem curves_exact i T hh hc hn :
  nth_error (pT p) i = Some T -> nth_error (pHh p) i = Some hh -> nth_error (pHc p) i = Some hc -> nth_error (pHn p) i = Some hn ->
  hh == heat_below hotR T /\ hc == Qc_of p + heat_below coldR T /\ hn == hc - hh /\ hn == Qh_of p - D T /\ 0 <= hn.
Proof.
  intros ET Eh Ec En.
  unfold p, pta in ET, Eh, Ec, En. cbn [pT pHh pHc pHn] in ET, Eh, Ec, En. fold rs in ET, Eh, Ec, En.
  repeat rewrite nth_error_map in ET. repeat rewrite nth_error_map in Eh. repeat rewrite nth_error_map in Ec. repeat rewrite nth_error_map in En.
  destruct (nth_error rs i) as [r|] eqn:E; simpl in ET, Eh, Ec, En; [|discriminate].
  inversion ET; inversion Eh; inversion Ec; inversion En; subst T hh hc hn. clear ET Eh Ec En.
  pose proof (nth_error_In _ _ E) as Hr. destruct (row_ex r Hr) as [A B].
  pose proof (heat_above_below hotR (rT r) Wh) as Ph. pose proof (heat_above_below coldR (rT r) Wc) as Pc.
  pose proof total_hot as TH. pose proof total_cold as TC. pose proof shift_is_Qc as SQ. unfold nraw, mn in SQ. unfold nraw in SQ.
  pose proof (nraw_D r Hr) as ND. pose proof Qh_closed as QH. pose proof Qc_closed as QC. pose proof (mn_le r Hr) as ML.
  unfold mn, nraw in *. 
  set (m := match map (fun r1 : rrow => rsub (rch r1) (rcc r1)) rs with [] => 0 | x :: l => qmin_list x l end) in *.
  rewrite ?rsub_eq, ?radd_eq in SQ. rewrite ?rsub_eq in ND. rewrite ?rsub_eq, ?radd_eq. rewrite ?rsub_eq.
  unfold D, Dnet in *. repeat split; lra.
Qed.
Theorem net_touches_zero : exists i hn, nth_error (pHn p) i = Some hn /\ hn == 0.
Proof.
  destruct mn_attained as [r [Hr E]]. destruct (In_nth_error _ _ Hr) as [i Hi].
  exists i, (rsub (rsub (rch r) (rcc r)) mn). split.
  - unfold p, pta. cbn [pHn]. fold rs. rewrite map_map, nth_error_map, Hi. reflexivity.
  - rewrite rsub_eq, (nraw_D r Hr), E. ring.
Qed.
Theorem spans_exact : hd 0 (pHh p) == duty hotR /\ lastq (pHh p) == 0 /\ hd 0 (pHc p) - lastq (pHc p) == duty coldR.
Proof.
  unfold p, pta. cbn [pHh pHc]. fold rs. fold nraw. fold mn. rewrite !map_map.
  rewrite (last_map_ne (fun r => rsub (lastq (map rch rs)) (rch r)) rs r0 rs_ne).
  rewrite (last_map_ne (fun r => rsub (radd (lastq (map rcc rs)) (rsub (lastq nraw) mn)) (rcc r)) rs r0 rs_ne).
  pose proof total_hot as TH. pose proof total_cold as TC.
  rewrite (last_map_ne rch rs r0 rs_ne) in *. rewrite (last_map_ne rcc rs r0 rs_ne) in *.
  destruct first_row as [t0 [g' [rest [Eg E0]]]]. rewrite E0 in *. cbn [map hd rch rcc].
  rewrite !rsub_eq, !radd_eq. repeat split; lra.
Qed.
End Targets.
