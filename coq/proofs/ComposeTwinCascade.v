(* C12, zone renaming and stream reordering carried to the numbers: a problem and its twin (zone-name components renamed by
   an injective map onto clean names, streams renamed at will and given in any order; identities and numeric data kept)
   have corresponding zones (proofs/ZoneTreeTwin.v) whose cascades run on permuted stream sets, hence -- the stage model
   being invariant under permutation (proofs/InvarianceModel.v) -- every zone's problem table and targets are IDENTICAL.
   No Robust / lattice hypothesis: the statement is about the model as it is, exact or not. *)
From OP Require Import gen.Consts gen.ZoneTreeConsts model.Base model.Stream model.Collection model.Cascade model.CascadeE2E model.ZoneTree
  proofs.InvarianceModel proofs.ZoneTreeStrings proofs.ZoneTreeSynth proofs.ZoneTreeMain proofs.ZoneTreeFinal proofs.ZoneTreeTwin
  proofs.ComposeZonesCascade.
From Coq Require Import String Permutation Lia.

Section TwinData.
Variables xs xs' : list zin.
Variable f : string -> string.
Variable r : zin -> zin.                      (* a stream of the original problem |-> the same stream in the twin *)
Hypothesis ND : NoDup (map z_id xs).
Hypothesis Pm : Permutation xs' (map r xs).
Hypothesis r_id : forall x, In x xs -> z_id (r x) = z_id x.
Hypothesis r_data : forall x, In x xs -> z_data (r x) = z_data x.
Hypothesis r_label : forall x, In x xs -> z_label (r x) = rename_label f (z_label x).

Lemma ids_twin : map z_id (map r xs) = map z_id xs.
Proof. rewrite map_map. apply map_ext_in. exact r_id. Qed.
Lemma ND'x : NoDup (map z_id xs').
Proof. eapply Permutation_NoDup; [apply Permutation_sym, Permutation_map, Pm|]. rewrite ids_twin. exact ND. Qed.

(* looking an identity up in the twin finds the twin of the stream *)
Lemma lookup_twin i : lookup xs' i = option_map r (lookup xs i).
Proof.
  destruct (lookup xs i) as [x|] eqn:E; cbn [option_map].
  - unfold lookup in E. apply find_some in E. destruct E as [Hx Ei]. apply Nat.eqb_eq in Ei. subst i.
    rewrite <- (r_id x Hx). apply lookup_in; [exact ND'x|]. apply (Permutation_in _ (Permutation_sym Pm)). apply in_map, Hx.
  - destruct (lookup xs' i) as [y|] eqn:E'; [exfalso|reflexivity]. unfold lookup in E'. apply find_some in E'. destruct E' as [Hy Ei]. apply Nat.eqb_eq in Ei.
    apply (Permutation_in _ Pm) in Hy. apply in_map_iff in Hy. destruct Hy as [x [Ey Hx]]. subst y. rewrite (r_id x Hx) in Ei.
    unfold lookup in E. pose proof (find_none _ _ E x Hx) as K. cbn beta in K. rewrite Ei, Nat.eqb_refl in K. discriminate.
Qed.
Lemma held_data_twin ids : map z_data (held xs' ids) = map z_data (held xs ids).
Proof.
  unfold held. induction ids as [|i ids IH]; [reflexivity|]. cbn [flat_map]. rewrite !map_app, IH, lookup_twin. f_equal.
  destruct (lookup xs i) as [x|] eqn:E; [|reflexivity]. cbn [option_map map]. unfold lookup in E. apply find_some in E. rewrite (r_data x (proj1 E)). reflexivity.
Qed.
Lemma views_twin ids ids' : Permutation ids ids' ->
  Permutation (map shifted_view (map z_data (held xs ids))) (map shifted_view (map z_data (held xs' ids'))).
Proof. intro P. rewrite held_data_twin. do 2 apply Permutation_map. apply held_perm, P. Qed.

Lemma istreams_twin : Permutation (map to_istream xs') (map (fun s => to_istream (r s)) xs).
Proof. rewrite <- (map_map r to_istream). apply Permutation_map, Pm. Qed.

Variables root root' : string.
Variables out out' : list zobs.
Hypothesis f_clean : forall c, occurs (map to_istream xs) c -> clean_name (f c).
Hypothesis f_inj : forall a b, occurs (map to_istream xs) a -> occurs (map to_istream xs) b -> f a = f b -> a = b.
Hypothesis Hout : model_synth root (map to_istream xs) = Ok out.
Hypothesis Hout' : model_synth root' (map to_istream xs') = Ok out'.

Lemma corr_tables z z' : zone_corr f out out' z z' -> forall w extra,
  stage_model w (zone_hot_views xs z) (zone_cold_views xs z) extra = stage_model w (zone_hot_views xs' z') (zone_cold_views xs' z') extra.
Proof.
  intros [_ [Ph Pc]] w extra. apply stage_model_perm; [apply views_twin, Ph|apply views_twin, Pc|apply Permutation_refl].
Qed.

Let NDS : NoDup (map sid (map to_istream xs)).
Proof. rewrite sid_to_istream. exact ND. Qed.

Definition twin_g (s : istream) : istream := match lookup xs (sid s) with Some x => to_istream (r x) | None => s end.
Lemma twin_hyps : let g := twin_g in
  Permutation (map to_istream xs') (map g (map to_istream xs))
  /\ (forall s, In s (map to_istream xs) -> sid (g s) = sid s) /\ (forall s, In s (map to_istream xs) -> shot (g s) = shot s)
  /\ (forall s, In s (map to_istream xs) -> slabel (g s) = rename_label f (slabel s)).
Proof.
  intro g.
  assert (G : forall x, In x xs -> g (to_istream x) = to_istream (r x)).
  { intros x Hx. unfold g, twin_g. cbn [sid to_istream]. rewrite (lookup_in xs x ND Hx). reflexivity. }
  split; [|repeat split]; try (intros s Hs; apply in_map_iff in Hs; destruct Hs as [x [E Hx]]; subst s; rewrite (G x Hx); cbn [sid shot slabel to_istream]).
  - rewrite map_map. eapply Permutation_trans; [exact istreams_twin|]. erewrite map_ext_in; [apply Permutation_refl|]. intros x Hx. symmetry. apply G, Hx.
  - apply r_id, Hx.
  - rewrite (r_data x Hx). reflexivity.
  - apply r_label, Hx.
Qed.

(* every zone of the original has a counterpart in the twin with the identical problem table (all columns) and targets,
   and the twin has no other zones *)
Theorem twin_zone_tables :
  (forall z, In z out -> exists z', In z' out' /\ zone_corr f out out' z z' /\ forall w extra,
     stage_model w (zone_hot_views xs z) (zone_cold_views xs z) extra = stage_model w (zone_hot_views xs' z') (zone_cold_views xs' z') extra)
  /\ (forall z', In z' out' -> exists z, In z out /\ zone_corr f out out' z z' /\ forall w extra,
     stage_model w (zone_hot_views xs z) (zone_cold_views xs z) extra = stage_model w (zone_hot_views xs' z') (zone_cold_views xs' z') extra).
Proof.
  destruct twin_hyps as [P [Gi [Gs Gl]]]. set (g := twin_g) in *.
  set (ss := map to_istream xs) in *.
  assert (Gc : forall s, In s ss -> labelled s = true -> forall c, In c (split_label (slabel s)) -> clean_name (f c)).
  { intros s Hs Hl c Hc. apply f_clean. exists s. auto. }
  assert (g_lab : forall s, In s ss -> labelled (g s) = labelled s).
  { intros s Hs. unfold labelled. rewrite (Gl s Hs). destruct (nonempty (slabel s)) eqn:Hl.
    - destruct (rename_label_ok f (slabel s) (Gc s Hs Hl)) as [A _]. rewrite A. exact Hl.
    - unfold rename_label. rewrite Hl. exact Hl. }
  assert (g_comps : forall s, In s ss -> labelled s = true -> comps (g s) = map f (comps s)).
  { intros s Hs Hl. unfold comps. rewrite (Gl s Hs). destruct (rename_label_ok f (slabel s) (Gc s Hs Hl)) as [_ B]. apply B, Hl. }
  split.
  - intros z Hz. destruct (twin_forward root root' ss (map to_istream xs') f g NDS P Gi Gs g_lab g_comps f_inj out out' Hout Hout' z Hz) as [z' [Hz' C]].
    exists z'. split; [exact Hz'|]. split; [exact C|]. apply corr_tables, C.
  - intros z' Hz'. destruct (twin_backward root root' ss (map to_istream xs') f g NDS P Gi Gs g_lab g_comps f_inj out out' Hout Hout' z' Hz') as [z [Hz C]].
    exists z. split; [exact Hz|]. split; [exact C|]. apply corr_tables, C.
Qed.
End TwinData.

(* the twin obtained by renaming zone-name components only *)
Definition rename_zin (f : string -> string) (x : zin) : zin := mkZin (z_id x) (rename_label f (z_label x)) (z_name x) (z_data x).

(* instance: only the ORDER of the input streams differs -- same zone paths, identical tables *)
Theorem reorder_zone_tables root xs xs' out out' : NoDup (map z_id xs) -> Permutation xs' xs ->
  model_synth root (map to_istream xs) = Ok out -> model_synth root (map to_istream xs') = Ok out' ->
  forall z, In z out -> exists z', In z' out' /\ zone_corr (fun c => c) out out' z z' /\ forall w extra,
    stage_model w (zone_hot_views xs z) (zone_cold_views xs z) extra = stage_model w (zone_hot_views xs' z') (zone_cold_views xs' z') extra.
Proof.
  intros ND Pm Ho Ho' z Hz.
  assert (Pi : Permutation (map to_istream xs') (map (fun s => s) (map to_istream xs))) by (rewrite map_id; apply Permutation_map, Pm).
  assert (NDS : NoDup (map sid (map to_istream xs))) by (rewrite sid_to_istream; exact ND).
  destruct (twin_forward root root (map to_istream xs) (map to_istream xs') (fun c => c) (fun s => s) NDS Pi
              (fun _ _ => eq_refl) (fun _ _ => eq_refl) (fun _ _ => eq_refl) (fun s _ _ => eq_sym (map_id (comps s))) (fun a b _ _ E => E)
              out out' Ho Ho' z Hz) as [z' [Hz' C]].
  exists z'. split; [exact Hz'|]. split; [exact C|]. intros w extra. destruct C as [_ [Ph Pc]].
  assert (V : forall ids ids', Permutation ids ids' ->
              Permutation (map shifted_view (map z_data (held xs ids))) (map shifted_view (map z_data (held xs' ids')))).
  { intros ids ids' P. apply (views_twin xs xs' (fun x => x) ND); [rewrite map_id; exact Pm|reflexivity|reflexivity|exact P]. }
  apply stage_model_perm; [apply V, Ph|apply V, Pc|apply Permutation_refl].
Qed.
