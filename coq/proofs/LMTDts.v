(* C20 -- the four-temperature entry point compute_LMTD_from_ts (generated in gen/Scalar.v): what it accepts and what it
   returns, from the theorems about compute_LMTD_from_dts. *)
From Coq Require Import Reals Lra Bool.
From OP Require Import gen.Consts gen.HxDispatch gen.Scalar proofs.HXBase proofs.LMTD.
Local Open Scope R_scope.

Lemma Rltb_true_iff a b : Rltb a b = true <-> a < b.
Proof. unfold Rltb. destruct (Rlt_dec a b); split; intro; try assumption; try reflexivity; try discriminate; contradiction. Qed.

Lemma lmtd_ts_unfold Thi Tho Tci Tco :
  compute_LMTD_from_ts_R Thi Tho Tci Tco =
  if Rltb Thi Tho then None else if Rltb Tco Tci then None else compute_LMTD_from_dts_R (Thi - Tco) (Tho - Tci).
Proof. reflexivity. Qed.

(* accepted exchangers: the hot side does not heat up, the cold side does not cool down, both end differences of the
   counter-current arrangement are positive, and the value lies between the smaller end difference and their mean *)
Theorem lmtd_ts_bounds Thi Tho Tci Tco m : compute_LMTD_from_ts_R Thi Tho Tci Tco = Some m ->
  Tho <= Thi /\ Tci <= Tco /\ 0 < Thi - Tco /\ 0 < Tho - Tci /\
  Rmin (Thi - Tco) (Tho - Tci) <= m <= ((Thi - Tco) + (Tho - Tci)) / 2.
Proof.
  rewrite lmtd_ts_unfold. destruct (Rltb Thi Tho) eqn:E1; [discriminate|]. destruct (Rltb Tco Tci) eqn:E2; [discriminate|].
  intro H. destruct (lmtd_bounds _ _ _ H) as (Ha & Hb & Hm).
  assert (~ Thi < Tho) by (intro K; apply Rltb_true_iff in K; congruence).
  assert (~ Tco < Tci) by (intro K; apply Rltb_true_iff in K; congruence).
  repeat split; try lra; apply Hm.
Qed.

(* refused: a hot side that heats up, a cold side that cools down, or a temperature cross at either end *)
Theorem lmtd_ts_refuses Thi Tho Tci Tco : Thi < Tho \/ Tco < Tci \/ Thi <= Tco \/ Tho <= Tci ->
  compute_LMTD_from_ts_R Thi Tho Tci Tco = None.
Proof.
  intro H. rewrite lmtd_ts_unfold. destruct (Rltb Thi Tho) eqn:E1; [reflexivity|]. destruct (Rltb Tco Tci) eqn:E2; [reflexivity|].
  destruct H as [H|[H|H]].
  - apply Rltb_true_iff in H. congruence.
  - apply Rltb_true_iff in H. congruence.
  - apply lmtd_refuses. lra.
Qed.

(* the four-temperature form is the two-difference form on every exchanger it does not refuse outright *)
Theorem lmtd_ts_is_dts Thi Tho Tci Tco : Tho <= Thi -> Tci <= Tco ->
  compute_LMTD_from_ts_R Thi Tho Tci Tco = compute_LMTD_from_dts_R (Thi - Tco) (Tho - Tci).
Proof.
  intros H1 H2. rewrite lmtd_ts_unfold.
  destruct (Rltb Thi Tho) eqn:E1; [apply Rltb_true_iff in E1; lra|]. destruct (Rltb Tco Tci) eqn:E2; [apply Rltb_true_iff in E2; lra|].
  reflexivity.
Qed.

(* translation of all four temperatures changes nothing *)
Theorem lmtd_ts_translate Thi Tho Tci Tco d :
  compute_LMTD_from_ts_R (Thi + d) (Tho + d) (Tci + d) (Tco + d) = compute_LMTD_from_ts_R Thi Tho Tci Tco.
Proof.
  rewrite !lmtd_ts_unfold.
  assert (A : Rltb (Thi + d) (Tho + d) = Rltb Thi Tho).
  { destruct (Rltb Thi Tho) eqn:E; [apply Rltb_true_iff in E; apply Rltb_true_iff; lra|].
    destruct (Rltb (Thi + d) (Tho + d)) eqn:E'; [apply Rltb_true_iff in E'|reflexivity].
    assert (Thi < Tho) by lra. apply Rltb_true_iff in H. congruence. }
  assert (B : Rltb (Tco + d) (Tci + d) = Rltb Tco Tci).
  { destruct (Rltb Tco Tci) eqn:E; [apply Rltb_true_iff in E; apply Rltb_true_iff; lra|].
    destruct (Rltb (Tco + d) (Tci + d)) eqn:E'; [apply Rltb_true_iff in E'|reflexivity].
    assert (Tco < Tci) by lra. apply Rltb_true_iff in H. congruence. }
  rewrite A, B. replace (Thi + d - (Tco + d)) with (Thi - Tco) by ring. replace (Tho + d - (Tci + d)) with (Tho - Tci) by ring.
  reflexivity.
Qed.
