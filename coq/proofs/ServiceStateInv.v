(* C11 -- proofs about model/ServiceState.v: an invariant over ALL call histories
   ("no graph set survives in a function default, the caller's objects are as the caller built them, the
    PinchProblem objects hold what the history loaded and their caches are coherent")
   and its consequences; refutation of the same statements for the pre-repair machines. *)
From OP Require Import gen.Consts model.Base model.ServiceState.
From Coq Require Import Arith PeanoNat Lia.
Local Open Scope nat_scope.

Section Proofs.

Variable input : Type.
Variable tout : Type.
Variable gkey gset : Type.
Variable gkey_eqb : gkey -> gkey -> bool.
Variable core : nat -> input -> tout.
Variable graphs : nat -> input -> list (gkey * gset).
Variable prep : nat -> input -> input.
Variable raises : nat -> input -> bool.

Notation State := (state input tout gkey gset).
Notation Step := (step input tout gkey gset gkey_eqb core graphs prep raises).
Notation Run := (run input tout gkey gset gkey_eqb core graphs prep raises).
Notation Service := (service input tout gkey gset gkey_eqb core graphs).
Notation PS := (pinch_service input tout gkey gset gkey_eqb core graphs prep raises).
Notation PTargetGen := (p_target_gen input tout gkey gset).

(* ------------------------------------------------------------------ lists *)
Lemma nth_error_app_last : forall (A : Type) (l : list A) (x : A), nth_error (l ++ [x]) (List.length l) = Some x.
Proof. induction l as [|a l IH]; intro x; simpl; auto. Qed.

Lemma nth_error_app_keep : forall (A : Type) (l m : list A) (n : nat) (x : A),
  nth_error l n = Some x -> nth_error (l ++ m) n = Some x.
Proof.
  intros A l m n x H. rewrite nth_error_app1; auto.
  apply nth_error_Some. rewrite H. discriminate.
Qed.

(* ------------------------------------------------------------------ one service call *)
Definition arg_content (st : list input) (a : arg input) : option input :=
  match a with ADict x => Some x | AModel l => nth_error st l end.

(* The repaired service never touches the function default, the caller's objects or the wrappers; it adds
   exactly one result object whose content is the stateless service of the argument's content. *)
Lemma pinch_service_spec : forall (s : State) (pn : nat) (a : arg input),
  match arg_content (cstore s) a with
  | None => PS s pn a = (s, RErr)
  | Some x =>
      exists ts',
        PS s pn a =
        (mkSt (gdef s) (cstore s) ts' (if raises pn x then results s else results s ++ [Service pn x]) (pps s),
         if raises pn x then RErr else RResult (List.length (results s)))
  end.
Proof.
  intros s pn a. destruct a as [x | l]; simpl.
  - unfold pinch_service, service_gen. simpl.
    unfold service_body. simpl. rewrite nth_error_app_last. simpl.
    destruct (raises pn x); eexists; reflexivity.
  - unfold pinch_service, service_gen. simpl.
    destruct (nth_error (cstore s) l) as [x|] eqn:E; [|reflexivity].
    simpl. rewrite Nat.eqb_refl. simpl. unfold deep_copy. simpl. rewrite E.
    unfold service_body. simpl. rewrite nth_error_app_last. simpl.
    destruct (raises pn x); eexists; reflexivity.
Qed.

(* ------------------------------------------------------------------ the invariant *)
Definition cache_ok (st0 : list input) (v : lview input) (s : State) : Prop :=
  forall pid r, pp_cache (pps s pid) = Some r ->
    exists pn x, expected_v st0 v (PTarget pid) = Some (pn, x) /\ raises pn x = false /\ nth_error (results s) r = Some (Service pn x).

Record Inv (st0 : list input) (v : lview input) (s : State) : Prop := mkInv {
  inv_g : gdef s = [];
  inv_c : cstore s = st0;
  inv_view : forall pid, (pp_data (pps s pid), pp_name (pps s pid)) = v pid;
  inv_cache : cache_ok st0 v s
}.

Lemma inv_init : forall st0, Inv st0 view0 (init st0).
Proof.
  intro st0. split; simpl; auto.
  intros pid r H. discriminate H.
Qed.

(* what a reply says, in terms of the specification only *)
Definition reply_ok (st0 : list input) (v : lview input) (c : call input) (s' : State) (rp : reply) : Prop :=
  match rp with
  | RResult r => exists pn x, expected_v st0 v c = Some (pn, x) /\ raises pn x = false
                              /\ nth_error (results s') r = Some (Service pn x)
  | RNone => expected_v st0 v c = None
  | RErr => match expected_v st0 v c with None => True | Some (pn, x) => raises pn x = true end
  end.

Lemma arg_content_src : forall st0 sr, arg_content st0 (src_arg input sr) = src_input st0 sr.
Proof. intros st0 [l | n x]; reflexivity. Qed.

Lemma service_call_ok : forall st0 v (s : State) pn a s' rp,
  Inv st0 v s -> PS s pn a = (s', rp) ->
  Inv st0 v s' /\ (exists new, results s' = results s ++ new) /\ pps s' = pps s /\
  match rp with
  | RResult r => exists x, arg_content st0 a = Some x /\ raises pn x = false
                           /\ nth_error (results s') r = Some (Service pn x) /\ r = List.length (results s)
  | RNone => False
  | RErr => match arg_content st0 a with None => True | Some x => raises pn x = true end
  end.
Proof.
  intros st0 v s pn a s' rp I H.
  pose proof (pinch_service_spec s pn a) as SP. rewrite (inv_c _ _ _ I) in SP.
  destruct (arg_content st0 a) as [x|] eqn:E.
  - destruct SP as [ts' SP]. rewrite SP in H. clear SP.
    destruct (raises pn x) eqn:R; inversion H; subst; clear H.
    + split; [|split; [|split]].
      * destruct I as [Ig Ic Iv Ica]. split; simpl; auto.
      * exists []. simpl. rewrite app_nil_r. reflexivity.
      * reflexivity.
      * exact eq_refl.
    + split; [|split; [|split]].
      * destruct I as [Ig Ic Iv Ica]. split; simpl; auto.
        intros pid r Hc. destruct (Ica pid r Hc) as [pn' [x' [He [Hr Hn]]]].
        exists pn', x'. split; auto. split; auto. simpl. apply nth_error_app_keep. exact Hn.
      * eexists. simpl. reflexivity.
      * reflexivity.
      * exists x. simpl. repeat split; auto. apply nth_error_app_last.
  - rewrite SP in H. inversion H; subst. split; [exact I|split; [|split]].
    + exists []. rewrite app_nil_r. reflexivity.
    + reflexivity.
    + exact Logic.I.
Qed.

(* ------------------------------------------------------------------ one step of the machine *)
Lemma target_ok : forall st0 v (s : State) pid s' rp,
  Inv st0 v s -> PTargetGen PS s pid = (s', rp) ->
  Inv st0 v s' /\ (exists new, results s' = results s ++ new) /\ reply_ok st0 v (PTarget pid) s' rp.
Proof.
  intros st0 v s pid s' rp I H. unfold p_target_gen in H.
  pose proof (inv_view _ _ _ I pid) as Hv.
  destruct (pp_data (pps s pid)) as [sr|] eqn:Ed.
  - destruct (pp_cache (pps s pid)) as [r|] eqn:Ec.
    + inversion H; subst. split; [exact I|split].
      * exists []. rewrite app_nil_r. reflexivity.
      * destruct (inv_cache _ _ _ I pid r Ec) as [pn [x [He [Hr Hn]]]].
        exists pn, x. auto.
    + destruct (PS s (pp_name (pps s pid)) (src_arg input sr)) as [s1 rp1] eqn:EP.
      destruct (service_call_ok st0 v s _ _ s1 rp1 I EP) as [I1 [Hext [Hpps R]]].
      assert (EXP : expected_v st0 v (PTarget pid)
                    = option_map (pair (pp_name (pps s pid))) (arg_content st0 (src_arg input sr))).
      { simpl. rewrite <- Hv. rewrite arg_content_src. reflexivity. }
      destruct rp1 as [r | | ].
      * inversion H; subst; clear H.
        destruct R as [x [Ea [Rf [Hn Hr]]]].
        assert (EXPx : expected_v st0 v (PTarget pid) = Some (pp_name (pps s pid), x)).
        { rewrite EXP, Ea. reflexivity. }
        split; [|split].
        -- destruct I1 as [Ig Ic Iv Ica]. split; simpl; auto.
           ++ intro q. destruct (Nat.eqb q pid) eqn:Eq.
              ** apply Nat.eqb_eq in Eq. subst q. simpl. rewrite <- Hv. reflexivity.
              ** apply Iv.
           ++ intros q r' Hc. simpl in Hc. destruct (Nat.eqb q pid) eqn:Eq.
              ** apply Nat.eqb_eq in Eq. subst q. simpl in Hc. inversion Hc; subst r'.
                 exists (pp_name (pps s pid)), x. simpl results. auto.
              ** apply (Ica q r' Hc).
        -- exact Hext.
        -- exists (pp_name (pps s pid)), x. simpl results. auto.
      * destruct R.
      * inversion H; subst; clear H. split; [exact I1|split; [exact Hext|]].
        unfold reply_ok. rewrite EXP.
        destruct (arg_content st0 (src_arg input sr)); simpl; auto.
  - inversion H; subst. split; [exact I|split].
    + exists []. rewrite app_nil_r. reflexivity.
    + simpl. rewrite <- Hv. exact Logic.I.
Qed.

Lemma step_ok : forall st0 v (s : State) c s' rp,
  Inv st0 v s -> Step s c = (s', rp) ->
  Inv st0 (view_step v c) s' /\ (exists new, results s' = results s ++ new) /\ reply_ok st0 v c s' rp.
Proof.
  intros st0 v s c s' rp I H.
  destruct c as [pn x | pn l | q sr | pid | pid]; simpl view_step.
  - (* CallDict *)
    unfold step, step_gen in H.
    destruct (service_call_ok st0 v s pn (ADict x) s' rp I H) as [I1 [Hext [_ R]]].
    split; [exact I1|split; [exact Hext|]].
    destruct rp as [r | | ]; simpl in *.
    + destruct R as [x' [Ea [Rf [Hn _]]]]. inversion Ea; subst x'. exists pn, x. auto.
    + destruct R.
    + exact R.
  - (* CallModel *)
    unfold step, step_gen in H.
    destruct (service_call_ok st0 v s pn (AModel l) s' rp I H) as [I1 [Hext [_ R]]].
    split; [exact I1|split; [exact Hext|]].
    destruct rp as [r | | ]; simpl in *.
    + destruct R as [x' [Ea [Rf [Hn _]]]]. exists pn, x'. rewrite Ea. auto.
    + destruct R.
    + destruct (nth_error st0 l); simpl; exact R.
  - (* PLoad *)
    unfold step, step_gen, p_load_gen in H. inversion H; subst; clear H.
    destruct I as [Ig Ic Iv Ica].
    split; [|split].
    + split; simpl; auto.
      * intro pid. destruct (Nat.eqb pid q) eqn:Eq.
        -- simpl. destruct sr as [l | n x]; reflexivity.
        -- apply Iv.
      * intros pid r Hc. simpl in Hc. destruct (Nat.eqb pid q) eqn:Eq.
        -- simpl in Hc. discriminate Hc.
        -- destruct (Ica pid r Hc) as [pn [x [He Hn]]]. exists pn, x. split; [|exact Hn].
           simpl. simpl in He. rewrite Eq. exact He.
    + exists []. simpl. rewrite app_nil_r. reflexivity.
    + reflexivity.
  - (* PTarget *)
    unfold step, step_gen in H. exact (target_ok st0 v s pid s' rp I H).
  - (* PExport: target() if nothing is cached; the workbook is outside the model *)
    unfold step, step_gen in H. exact (target_ok st0 v s pid s' rp I H).
Qed.

(* ------------------------------------------------------------------ all histories *)
Lemma run_cons : forall (s : State) c h, Run s (c :: h) = Run (fst (Step s c)) h.
Proof. reflexivity. Qed.

Lemma run_app : forall (s : State) h h2, Run s (h ++ h2) = Run (Run s h) h2.
Proof. intros. unfold run, run_gen. apply fold_left_app. Qed.

Lemma run_ok : forall st0 h v (s : State),
  Inv st0 v s -> Inv st0 (fold_left view_step h v) (Run s h) /\ exists new, results (Run s h) = results s ++ new.
Proof.
  intros st0 h. induction h as [|c h IH]; intros v s I.
  - simpl. split; [exact I|]. exists []. rewrite app_nil_r. reflexivity.
  - rewrite run_cons. simpl fold_left.
    destruct (Step s c) as [s1 rp] eqn:E. simpl fst.
    destruct (step_ok st0 v s c s1 rp I E) as [I1 [[n1 H1] _]].
    destruct (IH _ _ I1) as [I2 [n2 H2]]. split; [exact I2|].
    exists (n1 ++ n2). rewrite H2, H1, app_assoc. reflexivity.
Qed.

Lemma reach_inv : forall st0 h, Inv st0 (view_of h) (Run (init st0) h).
Proof. intros st0 h. exact (proj1 (run_ok st0 h view0 (init st0) (inv_init st0))). Qed.

(* ------------------------------------------------------------------ the theorems of C11 *)

Theorem history_independent : forall st0 h c s' r,
  Step (Run (init st0) h) c = (s', RResult r) ->
  exists pn x, expected st0 h c = Some (pn, x) /\ raises pn x = false
               /\ nth_error (results s') r = Some (Service pn x).
Proof.
  intros st0 h c s' r H.
  destruct (step_ok st0 (view_of h) _ c s' (RResult r) (reach_inv st0 h) H) as [_ [_ R]].
  exact R.
Qed.

Theorem history_total : forall st0 h c pn x,
  expected st0 h c = Some (pn, x) -> raises pn x = false ->
  exists s' r, Step (Run (init st0) h) c = (s', RResult r) /\ nth_error (results s') r = Some (Service pn x).
Proof.
  intros st0 h c pn x He Hr.
  destruct (Step (Run (init st0) h) c) as [s' rp] eqn:E.
  destruct (step_ok st0 (view_of h) _ c s' rp (reach_inv st0 h) E) as [_ [_ R]].
  unfold expected in He. destruct rp as [r | | ]; simpl in R.
  - destruct R as [pn' [x' [He' [_ Hn]]]]. rewrite He in He'. inversion He'; subst.
    exists s', r. auto.
  - rewrite He in R. discriminate R.
  - rewrite He in R. rewrite Hr in R. discriminate R.
Qed.

Theorem errors_are_stateless : forall st0 h c s',
  Step (Run (init st0) h) c = (s', RErr) ->
  match expected st0 h c with None => True | Some (pn, x) => raises pn x = true end.
Proof.
  intros st0 h c s' H.
  destruct (step_ok st0 (view_of h) _ c s' RErr (reach_inv st0 h) H) as [_ [_ R]].
  exact R.
Qed.

Theorem input_unchanged : forall st0 h, cstore (Run (init st0) h) = st0.
Proof. intros st0 h. exact (inv_c _ _ _ (reach_inv st0 h)). Qed.

Theorem module_state_unchanged : forall st0 h, gdef (Run (init st0) h) = [].
Proof. intros st0 h. exact (inv_g _ _ _ (reach_inv st0 h)). Qed.

Theorem earlier_results_unchanged : forall st0 h h2 r o,
  nth_error (results (Run (init st0) h)) r = Some o ->
  nth_error (results (Run (init st0) (h ++ h2))) r = Some o.
Proof.
  intros st0 h h2 r o H. rewrite run_app.
  destruct (run_ok st0 h2 (view_of h) _ (reach_inv st0 h)) as [_ [new Hn]].
  rewrite Hn. apply nth_error_app_keep. exact H.
Qed.

Lemma view_of_snoc : forall (h : list (call input)) c, view_of (h ++ [c]) = view_step (view_of h) c.
Proof. intros. unfold view_of. rewrite fold_left_app. reflexivity. Qed.

Theorem wrapper_refines : forall st0 h pid sr x,
  src_input st0 sr = Some x ->
  let pn := src_name sr in
  raises pn x = false ->
  let s := Run (init st0) (h ++ [PLoad pid sr]) in
  exists s1 r,
    Step s (PTarget pid) = (s1, RResult r)
    /\ nth_error (results s1) r = Some (Service pn x)
    /\ r = List.length (results s)                       (* a NEW object, never one cached before the load *)
    /\ Step s1 (PTarget pid) = (s1, RResult r)           (* the second target() returns the same object, state untouched *)
    /\ Step s1 (PExport pid) = (s1, RResult r).
Proof.
  intros st0 h pid sr x Hx pn Hr s.
  pose proof (reach_inv st0 (h ++ [PLoad pid sr])) as I. fold s in I.
  assert (PP : pps s pid = mkPP (Some sr) pn None).
  { unfold s. rewrite run_app. simpl. unfold p_load_gen. simpl. rewrite Nat.eqb_refl.
    unfold pn. destruct sr as [l | n y]; reflexivity. }
  pose proof (pinch_service_spec s pn (src_arg input sr)) as SP.
  rewrite (inv_c _ _ _ I), arg_content_src, Hx, Hr in SP. destruct SP as [ts' SP].
  eexists. exists (List.length (results s)).
  assert (ST : Step s (PTarget pid) =
               (set_pp input tout gkey gset
                  (mkSt (gdef s) st0 ts' (results s ++ [Service pn x]) (pps s)) pid
                  (mkPP (Some sr) pn (Some (List.length (results s)))), RResult (List.length (results s)))).
  { unfold step, step_gen, p_target_gen. rewrite PP. simpl. rewrite SP. reflexivity. }
  split; [exact ST|]. split; [simpl; apply nth_error_app_last|]. split; [reflexivity|].
  split; unfold step, step_gen, p_target_gen; simpl; rewrite Nat.eqb_refl; reflexivity.
Qed.

Corollary wrapper_model_load_uses_default_name : forall st0 h pid l x,
  nth_error st0 l = Some x -> raises 0 x = false ->
  exists s1 r,
    Step (Run (init st0) (h ++ [PLoad pid (SModel l)])) (PTarget pid) = (s1, RResult r)
    /\ nth_error (results s1) r = Some (Service 0 x).
Proof.
  intros st0 h pid l x Hx Hr.
  destruct (wrapper_refines st0 h pid (SModel l) x Hx Hr) as [s1 [r [H1 [H2 _]]]].
  exists s1, r. split; assumption.
Qed.

End Proofs.

(* ====================================================================== refutations for the pre-repair machines
   Concrete instance: contents are integers, the pipeline is the table below, preparation rewrites 1 to -2
   (j_prep).  Each witness is two service calls (or two load/target pairs) long. *)
Local Open Scope Z_scope.

Definition T0 : list tblrow :=
  [ ((0%nat, 1), (0, (11, [(101, 201)])));
    ((0%nat, 2), (0, (12, [(102, 202)])));
    ((0%nat, -2), (0, (13, [(103, 203)])));
    ((7%nat, 1), (0, (71, [(107, 207)]))) ].

Definition run_j (stp : jstate -> call Z -> jstate * reply) := run_gen Z Z Z Z stp.

(* D5 (b4ad51d): with the shared default dict, B after A returns A's graph sets as well ... *)
Example history_independent_D5_prefix_refuted :
  exists s' r, j_step_D5 T0 (run_j (j_step_D5 T0) (init []) [CallDict 0%nat 1]) (CallDict 0%nat 2) = (s', RResult r)
    /\ expected [] [CallDict 0%nat 1] (CallDict 0%nat 2) = Some (0%nat, 2)
    /\ nth_error (results s') r = Some (12, [(101, 201); (102, 202)])
    /\ j_service T0 0%nat 2 = (12, [(102, 202)]).
Proof. eexists. eexists. vm_compute. repeat split. Qed.

(* ... the function default is no longer empty after the first call ... *)
Example module_state_unchanged_D5_prefix_refuted :
  gdef (run_j (j_step_D5 T0) (init []) [CallDict 0%nat 1]) = [(101, 201)].
Proof. reflexivity. Qed.

(* ... and the result object returned for A is altered by the later call for B. *)
Example earlier_results_unchanged_D5_prefix_refuted :
  nth_error (results (run_j (j_step_D5 T0) (init []) [CallDict 0%nat 1])) 0 = Some (11, [(101, 201)])
  /\ nth_error (results (run_j (j_step_D5 T0) (init []) [CallDict 0%nat 1; CallDict 0%nat 2])) 0
     = Some (11, [(101, 201); (102, 202)]).
Proof. split; reflexivity. Qed.

(* D6 (ce0dc5c): without the deep copy the caller's model object is rewritten by the first call ... *)
Example input_unchanged_D6_prefix_refuted :
  cstore (run_j (j_step_D6 T0) (init [1]) [CallModel 0%nat 0%nat]) = [-2].
Proof. reflexivity. Qed.

(* ... and the second call on the same object analyses the rewritten problem. *)
Example history_independent_D6_prefix_refuted :
  exists s' r, j_step_D6 T0 (run_j (j_step_D6 T0) (init [1]) [CallModel 0%nat 0%nat]) (CallModel 0%nat 0%nat) = (s', RResult r)
    /\ expected [1] [CallModel 0%nat 0%nat] (CallModel 0%nat 0%nat) = Some (0%nat, 1)
    /\ nth_error (results s') r = Some (13, [(103, 203)])
    /\ j_service T0 0%nat 1 = (11, [(101, 201)]).
Proof. eexists. eexists. vm_compute. repeat split. Qed.

(* D11 (c560ce5): when load keeps the cache, load A; target; load B; target returns A's result object. *)
Example wrapper_refines_D11_prefix_refuted :
  let h := [PLoad 0%nat (SFile 0%nat 1); PTarget 0%nat; PLoad 0%nat (SFile 0%nat 2)] in
  exists s', j_step_D11 T0 (run_j (j_step_D11 T0) (init []) h) (PTarget 0%nat) = (s', RResult 0%nat)
    /\ expected [] h (PTarget 0%nat) = Some (0%nat, 2)
    /\ nth_error (results s') 0 = Some (j_service T0 0%nat 1)
    /\ j_service T0 0%nat 1 <> j_service T0 0%nat 2.
Proof. eexists. vm_compute. repeat split. intro H. discriminate H. Qed.

(* the same three histories on the machine of the code as it is *)
Example repaired_machine_on_the_witnesses :
  replies_gen Z Z Z Z (j_step T0) (init [1]) [CallDict 0%nat 1; CallDict 0%nat 2; CallModel 0%nat 0%nat; CallModel 0%nat 0%nat]
    = [RResult 0%nat; RResult 1%nat; RResult 2%nat; RResult 3%nat]
  /\ results (run_j (j_step T0) (init [1]) [CallDict 0%nat 1; CallDict 0%nat 2; CallModel 0%nat 0%nat; CallModel 0%nat 0%nat])
    = [(11, [(101, 201)]); (12, [(102, 202)]); (11, [(101, 201)]); (11, [(101, 201)])]
  /\ replies_gen Z Z Z Z (j_step T0) (init []) [PLoad 0%nat (SFile 0%nat 1); PTarget 0%nat; PLoad 0%nat (SFile 0%nat 2); PTarget 0%nat]
    = [RNone; RResult 0%nat; RNone; RResult 1%nat].
Proof. repeat split. Qed.

(* The judge of the check accepts what the repaired machine does and rejects what each pre-repair machine does
   on these witnesses, naming the first offending call and flag. *)
Example judge_on_the_witnesses :
  let hA := [CallDict 0%nat 1; CallDict 0%nat 2] in
  let hM := [CallModel 0%nat 0%nat; CallModel 0%nat 0%nat] in
  let hW := [PLoad 0%nat (SFile 0%nat 1); PTarget 0%nat; PLoad 0%nat (SFile 0%nat 2); PTarget 0%nat] in
  judge_history T0 [1] hA (simulate (j_step T0) (init [1]) hA) = [V_AGREE]
  /\ judge_history T0 [1] hM (simulate (j_step T0) (init [1]) hM) = [V_AGREE]
  /\ judge_history T0 [1] hW (simulate (j_step T0) (init [1]) hW) = [V_AGREE]
  /\ judge_history T0 [1] hA (simulate (j_step_D5 T0) (init [1]) hA) = [V_PROP_FALSE; 0; F_DEFAULTS]
  /\ judge_history T0 [1] hM (simulate (j_step_D6 T0) (init [1]) hM) = [V_PROP_FALSE; 0; F_INPUT]
  /\ judge_history T0 [1] hW (simulate (j_step_D11 T0) (init [1]) hW) = [V_PROP_FALSE; 3; F_RESULT].
Proof. vm_compute. repeat split. Qed.

(* D51 (29d391b): when load(TargetInput) keeps the project name, [load file 'Project'(7) B; load model mA; target]
   analyses mA under the name 7 instead of the default name 0 ... *)
Example wrapper_refines_D51_prefix_refuted :
  let h := [PLoad 0%nat (SFile 7%nat 2); PLoad 0%nat (SModel 0%nat)] in
  exists s' r, j_step_D51 T0 (run_j (j_step_D51 T0) (init [1]) h) (PTarget 0%nat) = (s', RResult r)
    /\ expected [1] h (PTarget 0%nat) = Some (0%nat, 1)
    /\ nth_error (results s') r = Some (j_service T0 7%nat 1)
    /\ j_service T0 7%nat 1 <> j_service T0 0%nat 1.
Proof. eexists. eexists. vm_compute. repeat split. intro H. discriminate H. Qed.

(* ... while the machine of the code as it is returns the analysis under the default name 0 on the same history. *)
Example repaired_machine_on_the_D51_witness :
  let h := [PLoad 0%nat (SFile 7%nat 2); PLoad 0%nat (SModel 0%nat)] in
  exists s' r, j_step T0 (run_j (j_step T0) (init [1]) h) (PTarget 0%nat) = (s', RResult r)
    /\ nth_error (results s') r = Some (j_service T0 0%nat 1)
    /\ pp_name (pps s' 0%nat) = 0%nat.
Proof. eexists. eexists. vm_compute. repeat split. Qed.

(* the judge rejects the observations of the D51 machine on that history at the target call *)
Example judge_on_the_D51_witness :
  let h := [PLoad 0%nat (SFile 7%nat 2); PLoad 0%nat (SModel 0%nat); PTarget 0%nat] in
  judge_history T0 [1] h (simulate (j_step T0) (init [1]) h) = [V_AGREE]
  /\ judge_history T0 [1] h (simulate (j_step_D51 T0) (init [1]) h) = [V_PROP_FALSE; 2; F_RESULT].
Proof. vm_compute. repeat split. Qed.
