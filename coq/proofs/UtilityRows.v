(* C04, row layer: the utility grand composite column the model computes with the utility cascade (`hut_model`, the
   model of get_utility_heat_cascade: H_NET_UT = max - h) is, at EVERY row, the step profile `hut_step` of the duties,
   for ladders whose utilities are "gridded": isothermal (0.1 K) utilities clear of the grid whose two end points are
   rows of the grid (create_problem_table_with_t_int puts every utility's shifted end points into the grid).
   Combined with the level feasibility theorems of UtilityProfile.v this gives the row-by-row statement
   0 <= H_ut(T_i) <= H_np(T_i) on a pocket-free segment.  All by induction over the rows / the ladder: no size bound. *)
From OP Require Import gen.Consts model.Base model.Stream model.Utility
  proofs.BaseFacts proofs.UtilityLadder proofs.UtilityDuty proofs.UtilityProfile.
From Coq Require Import Lqa Lia.
Local Open Scope Q_scope.
Local Arguments Qred : simpl never.

Ltac bprop :=
  repeat match goal with
  | H : qleb _ _ = true |- _ => apply qleb_true in H
  | H : qleb _ _ = false |- _ => apply qleb_false in H
  | H : qltb _ _ = true |- _ => apply qltb_true in H
  | H : qltb _ _ = false |- _ => apply qltb_false in H
  end;
  repeat match goal with
  | H : context [radd _ _] |- _ => rewrite radd_eq in H
  | H : context [rsub _ _] |- _ => rewrite rsub_eq in H
  end.

Lemma act_window_pos : 0 < act_window. Proof. reflexivity. Qed.

(* ---- generic list facts ---- *)
Lemma Forall2_rev_gen {A B} (R : A -> B -> Prop) l1 l2 : Forall2 R l1 l2 -> Forall2 R (rev l1) (rev l2).
Proof.
  induction 1 as [|x y l l' Hxy Hl IH]; [constructor|]. cbn [rev].
  apply Forall2_app; [exact IH|constructor; [exact Hxy|constructor]].
Qed.
Lemma Forall2_imp {A B} (R R' : A -> B -> Prop) l1 l2 : (forall a b, R a b -> R' a b) -> Forall2 R l1 l2 -> Forall2 R' l1 l2.
Proof. intros H HF. induction HF; constructor; auto. Qed.
Lemma Forall2_flip {A B} (R : A -> B -> Prop) l1 l2 : Forall2 R l1 l2 -> Forall2 (fun b a => R a b) l2 l1.
Proof. induction 1; constructor; auto. Qed.
Lemma Forall2_map_r_eq (f : Q -> Q) (P : Q -> Q -> Prop) :
  (forall a b x, a == b -> P b x -> P a x) -> (forall x, P (f x) x) ->
  forall T L, Forall2 Qeq L (map f T) -> Forall2 P L T.
Proof.
  intros Hc Hf. induction T as [|t Tr IH]; intros L E; inversion E; subst; constructor.
  - eapply Hc; [eassumption|apply Hf].
  - apply IH. assumption.
Qed.
Lemma Forall2_map_inv {A B C} (R : B -> C -> Prop) (g : A -> B) : forall l X,
  Forall2 R (map g l) X -> Forall2 (fun a q => R (g a) q) l X.
Proof.
  induction l as [|a l IH]; intros X H; inversion H; subst; constructor; auto.
Qed.
Lemma Forall2_combine_in {A B} (R : A -> B -> Prop) l1 l2 p :
  Forall2 R l1 l2 -> In p (combine l1 l2) -> R (fst p) (snd p).
Proof.
  induction 1 as [|x y l l' Hxy Hl IH]; intro Hin; [inversion Hin|].
  cbn [combine] in Hin. destruct Hin as [<-|Hin]; [exact Hxy|exact (IH Hin)].
Qed.
Lemma Forall2_in_r {A B} (R : A -> B -> Prop) l1 l2 y :
  Forall2 R l1 l2 -> In y l2 -> exists x, In x l1 /\ R x y.
Proof.
  induction 1 as [|a b l l' Hab Hl IH]; intro Hin; [inversion Hin|].
  destruct Hin as [<-|Hin]; [exists a; split; [left; reflexivity|exact Hab]|].
  destruct (IH Hin) as [x [H1 H2]]. exists x. split; [right; exact H1|exact H2].
Qed.
Lemma Forall_combine_snd {A} (P : Q -> Prop) (l1 : list A) l2 p : Forall P l2 -> In p (combine l1 l2) -> P (snd p).
Proof. intros H Hin. destruct p as [a b]. apply in_combine_r in Hin. rewrite Forall_forall in H. exact (H b Hin). Qed.

Lemma maxl_eq l : forall x M, x <= M -> (forall y, In y l -> y <= M) -> (x == M \/ exists y, In y l /\ y == M) -> maxl x l == M.
Proof.
  intros x M Hx Hl Ha. apply Qle_antisym; [apply maxl_le; assumption|].
  destruct Ha as [E|[y [Hy E]]]; [rewrite <- E; apply maxl_ge_hd|rewrite <- E; apply maxl_ge; exact Hy].
Qed.

(* ---- a property of every pair of consecutive rows ---- *)
Fixpoint adj (P : Q -> Q -> Prop) (T : list Q) : Prop :=
  match T with up :: ((lo :: _) as r) => P up lo /\ adj P r | _ => True end.
Lemma adj_cons P up lo r : adj P (up :: lo :: r) <-> P up lo /\ adj P (lo :: r).
Proof. reflexivity. Qed.
Lemma adj_and P1 P2 T : adj P1 T -> adj P2 T -> adj (fun a b => P1 a b /\ P2 a b) T.
Proof.
  induction T as [|up [|lo r] IH]; intros H1 H2; try exact I.
  rewrite adj_cons in *. destruct H1, H2. split; [split; assumption|apply IH; assumption].
Qed.
Lemma adj_forall (P1 : Q -> Prop) T : (forall x, In x T -> P1 x) -> adj (fun a b => P1 b /\ P1 a) T.
Proof.
  induction T as [|up [|lo r] IH]; intro H; try exact I.
  rewrite adj_cons. split; [split; apply H; [right; left|left]; reflexivity|].
  apply IH. intros x Hx. apply H. right. exact Hx.
Qed.
Lemma adj_skipn P k : forall T, adj P T -> adj P (skipn k T).
Proof.
  induction k as [|k IH]; intros T H; [exact H|]. destruct T as [|up [|lo r]]; try exact I.
  - cbn [skipn]. destruct k; exact I.
  - cbn [skipn]. apply IH. rewrite adj_cons in H. apply H.
Qed.
(* a row of a strictly descending grid (or a value above its first row) never lies strictly between two consecutive rows *)
Lemma adj_between y : forall T, strict_desc T = true ->
  (In y T \/ match T with t0 :: _ => t0 < y | [] => True end) -> adj (fun up lo => y <= lo \/ up <= y) T.
Proof.
  induction T as [|up [|lo r] IH]; intros Hs Hy; try exact I.
  rewrite adj_cons.
  assert (Hlt : lo < up) by (apply (strict_desc_lt up (lo :: r) lo Hs); left; reflexivity).
  assert (Hs' := strict_desc_tail _ _ Hs).
  destruct Hy as [[<-|Hy]|Hy].
  - split; [right; lra|]. apply IH; [exact Hs'|right; exact Hlt].
  - split; [|apply IH; [exact Hs'|left; exact Hy]].
    left. destruct Hy as [<-|Hy]; [lra|]. pose proof (strict_desc_lt lo r y Hs' Hy). lra.
  - split; [right; lra|]. apply IH; [exact Hs'|right; lra].
Qed.

Lemma strict_desc_last_le T : forall x, strict_desc T = true -> In x T -> lastq T <= x.
Proof.
  induction T as [|t0 [|t1 r] IH]; intros x Hs Hx; [inversion Hx| |].
  - destruct Hx as [<-|[]]. unfold lastq; simpl. lra.
  - rewrite lastq_cons. destruct Hx as [<-|Hx]; [|apply IH; [exact (strict_desc_tail _ _ Hs)|exact Hx]].
    assert (In (lastq (t1 :: r)) (t1 :: r)) by (destruct (lastq_in t1 r) as [E|E]; [left; symmetry; exact E|right; exact E]).
    pose proof (strict_desc_lt t0 (t1 :: r) _ Hs H). lra.
Qed.
Lemma strict_desc_hd_ge t0 T x : strict_desc (t0 :: T) = true -> In x (t0 :: T) -> x <= t0.
Proof. intros Hs [<-|Hx]; [lra|]. pose proof (strict_desc_lt t0 T x Hs Hx). lra. Qed.
Lemma in_firstn {A} n : forall (l : list A) x, In x (firstn n l) -> In x l.
Proof. induction n as [|n IH]; intros [|a l] x H; try (inversion H; fail). destruct H as [<-|H]; [left; reflexivity|right; apply IH; exact H]. Qed.
Lemma in_skipn {A} n : forall (l : list A) x, In x (skipn n l) -> In x l.
Proof. induction n as [|n IH]; intros [|a l] x H; try exact H. right. apply IH. exact H. Qed.
Lemma strict_desc_skipn k : forall T, strict_desc T = true -> strict_desc (skipn k T) = true.
Proof. induction k as [|k IH]; intros [|a l] H; try exact H; try reflexivity. cbn [skipn]. apply IH. exact (strict_desc_tail _ _ H). Qed.

(* ---- step sums ---- *)
(* duty of the utilities of l lying wholly at or above x / wholly at or below x *)
Definition above (x : Q) (l : list (ustar * Q)) : Q := qsum (map (fun p => if qleb x (u_tmins (fst p)) then snd p else 0) l).
Definition below (x : Q) (l : list (ustar * Q)) : Q := qsum (map (fun p => if qleb (u_tmaxs (fst p)) x then snd p else 0) l).
Definition total (l : list (ustar * Q)) : Q := qsum (map snd l).

Lemma hut_step_eq x hus cus dh dc : hut_step x hus cus dh dc = below x (combine hus dh) + above x (combine cus dc).
Proof. reflexivity. Qed.
Lemma above_cons x p l : above x (p :: l) == (if qleb x (u_tmins (fst p)) then snd p else 0) + above x l.
Proof. unfold above. cbn [map]. apply qsum_cons. Qed.
Lemma below_cons x p l : below x (p :: l) == (if qleb (u_tmaxs (fst p)) x then snd p else 0) + below x l.
Proof. unfold below. cbn [map]. apply qsum_cons. Qed.
Lemma total_cons p l : total (p :: l) == snd p + total l.
Proof. unfold total. cbn [map]. apply qsum_cons. Qed.

Lemma above_bounds x l : (forall p, In p l -> 0 <= snd p) -> 0 <= above x l /\ above x l <= total l.
Proof.
  induction l as [|p l IH]; intro H; [unfold above, total; simpl; split; lra|].
  rewrite above_cons, total_cons. destruct IH as [I1 I2]; [intros q Hq; apply H; right; exact Hq|].
  pose proof (H p (or_introl eq_refl)). destruct (qleb x (u_tmins (fst p))); split; lra.
Qed.
Lemma below_nonneg x l : (forall p, In p l -> 0 <= snd p) -> 0 <= below x l.
Proof.
  induction l as [|p l IH]; intro H; [unfold below; simpl; lra|].
  rewrite below_cons. assert (0 <= below x l) by (apply IH; intros q Hq; apply H; right; exact Hq).
  pose proof (H p (or_introl eq_refl)). destruct (qleb (u_tmaxs (fst p)) x); lra.
Qed.
(* a row is either wholly above or wholly below every gridded utility: the two step sums add up to the total *)
Lemma below_above x l :
  (forall p, In p l -> u_tmins (fst p) < u_tmaxs (fst p) /\ (x <= u_tmins (fst p) \/ u_tmaxs (fst p) <= x)) ->
  below x l + above x l == total l.
Proof.
  induction l as [|p l IH]; intro H; [unfold below, above, total; simpl; lra|].
  rewrite below_cons, above_cons, total_cons.
  assert (I0 : below x l + above x l == total l) by (apply IH; intros q Hq; apply H; right; exact Hq).
  destruct (H p (or_introl eq_refl)) as [H1 H2].
  destruct (qleb (u_tmaxs (fst p)) x) eqn:E1; destruct (qleb x (u_tmins (fst p))) eqn:E2; bprop; destruct H2; lra.
Qed.
Lemma above_all x l : (forall p, In p l -> snd p == 0 \/ x <= u_tmins (fst p)) -> above x l == total l.
Proof.
  induction l as [|p l IH]; intro H; [reflexivity|]. rewrite above_cons, total_cons.
  rewrite IH by (intros q Hq; apply H; right; exact Hq).
  destruct (H p (or_introl eq_refl)) as [E|E]; destruct (qleb x (u_tmins (fst p))) eqn:E1; bprop; lra.
Qed.
Lemma above_none x l : (forall p, In p l -> snd p == 0 \/ u_tmins (fst p) < x) -> above x l == 0.
Proof.
  induction l as [|p l IH]; intro H; [reflexivity|]. rewrite above_cons.
  rewrite IH by (intros q Hq; apply H; right; exact Hq).
  destruct (H p (or_introl eq_refl)) as [E|E]; destruct (qleb x (u_tmins (fst p))) eqn:E1; bprop; lra.
Qed.

(* ---- one utility, one interval of the grid ---- *)
(* position of a utility relative to the consecutive rows up > lo: neither end point strictly between them, neither
   row strictly inside the utility *)
Definition loc (u : ustar) (up lo : Q) : Prop :=
  (u_tmins u <= lo \/ up <= u_tmins u) /\ (u_tmaxs u <= lo \/ up <= u_tmaxs u) /\
  (lo <= u_tmins u \/ u_tmaxs u <= lo) /\ (up <= u_tmins u \/ u_tmaxs u <= up).
Definition iso (u : ustar) : Prop :=
  u_tmins u < u_tmaxs u /\ u_span u == u_tmaxs u - u_tmins u /\ act_window < u_span u.

(* the heat the cascade moves across the interval for this utility is its whole duty when the interval IS the utility,
   nothing otherwise *)
Lemma term_step u q up lo : lo < up -> iso u -> loc u up lo ->
  (up - lo) * (if active lo up u then cp_of u q else 0)
  == (if qleb lo (u_tmins u) then q else 0) - (if qleb up (u_tmins u) then q else 0).
Proof.
  intros Hlt [I1 [I2 I3]] [L1 [L2 [L3 L4]]]. pose proof act_window_pos as Hw.
  unfold active, cp_of.
  destruct (qleb lo (u_tmins u)) eqn:E1; destruct (qleb up (u_tmins u)) eqn:E2;
  destruct (qltb (radd lo act_window) (u_tmaxs u)) eqn:E3; destruct (qltb (u_tmins u) (rsub up act_window)) eqn:E4;
  destruct (qltb 0 (u_span u)) eqn:E5; cbn [andb]; bprop;
  try (destruct L1, L2, L3, L4; lra).
  (* the interval is the utility *)
  assert (Hs : u_span u == up - lo) by (destruct L1, L2, L3, L4; lra).
  rewrite rdiv_eq, Hs. field. lra.
Qed.

Lemma cp_sum_step l up lo : lo < up -> (forall p, In p l -> iso (fst p) /\ loc (fst p) up lo) ->
  (up - lo) * cp_sum lo up l == above lo l - above up l.
Proof.
  intros Hlt. induction l as [|p l IH]; intro H.
  - unfold cp_sum, above. simpl. lra.
  - unfold cp_sum. cbn [map]. rewrite qsum_cons. fold (cp_sum lo up l). rewrite !above_cons.
    rewrite Qmult_plus_distr_r. rewrite IH by (intros q Hq; apply H; right; exact Hq).
    destruct (H p (or_introl eq_refl)) as [Hi Hl]. rewrite (term_step (fst p) (snd p) up lo Hlt Hi Hl). lra.
Qed.

(* ---- the cascade, row by row: raw_i = acc + D(T_i) - D(T_0),  D = (hot wholly above) - (cold wholly above) ---- *)
Lemma ut_raw_rows T : forall acc hot cold, strict_desc T = true ->
  (forall p, In p hot -> iso (fst p) /\ adj (loc (fst p)) T) ->
  (forall p, In p cold -> iso (fst p) /\ adj (loc (fst p)) T) ->
  Forall2 (fun r x => r == acc + ((above x hot - above x cold) - (above (List.hd 0 T) hot - above (List.hd 0 T) cold)))
          (ut_raw acc T hot cold) (List.tl T).
Proof.
  induction T as [|up T IH]; intros acc hot cold Hs Hh Hc; [constructor|].
  destruct T as [|lo r]; [constructor|].
  assert (Hlt : lo < up) by (apply (strict_desc_lt up (lo :: r) lo Hs); left; reflexivity).
  assert (Ea : rsub acc (rmul (rsub up lo) (rsub (cp_sum lo up cold) (cp_sum lo up hot)))
               == acc + ((above lo hot - above lo cold) - (above up hot - above up cold))).
  { rewrite rsub_eq, rmul_eq, !rsub_eq.
    assert (E1 : (up - lo) * cp_sum lo up cold == above lo cold - above up cold).
    { apply cp_sum_step; [exact Hlt|]. intros p Hp. destruct (Hc p Hp) as [A B]. rewrite adj_cons in B. split; [exact A|apply B]. }
    assert (E2 : (up - lo) * cp_sum lo up hot == above lo hot - above up hot).
    { apply cp_sum_step; [exact Hlt|]. intros p Hp. destruct (Hh p Hp) as [A B]. rewrite adj_cons in B. split; [exact A|apply B]. }
    setoid_replace ((up - lo) * (cp_sum lo up cold - cp_sum lo up hot))
      with ((up - lo) * cp_sum lo up cold - (up - lo) * cp_sum lo up hot) by ring.
    rewrite E1, E2. ring. }
  cbn [ut_raw]. constructor.
  - cbn [List.hd List.tl] in *. exact Ea.
  - cbn [List.tl]. cbn [List.hd].
    assert (IH' := IH (rsub acc (rmul (rsub up lo) (rsub (cp_sum lo up cold) (cp_sum lo up hot)))) hot cold
                      (strict_desc_tail _ _ Hs)
                      (fun p Hp => conj (proj1 (Hh p Hp)) (proj2 (proj1 (adj_cons _ _ _ _) (proj2 (Hh p Hp)))))
                      (fun p Hp => conj (proj1 (Hc p Hp)) (proj2 (proj1 (adj_cons _ _ _ _) (proj2 (Hc p Hp)))))).
    cbn [List.hd List.tl] in IH'.
    eapply Forall2_imp; [|exact IH']. intros a b Hab. cbv beta in Hab. rewrite Hab, Ea. ring.
Qed.

(* ---- gridded utilities ---- *)
(* isothermal (0.1 K) utility whose two shifted end points are rows of the grid and with no row strictly inside it *)
Definition gridded (T : list Q) (u : ustar) : Prop :=
  iso u /\ In (u_tmins u) T /\ In (u_tmaxs u) T /\ (forall x, In x T -> x <= u_tmins u \/ u_tmaxs u <= x).

Lemma gridded_adj T u : strict_desc T = true -> gridded T u -> adj (loc u) T.
Proof.
  intros Hs [_ [H1 [H2 H3]]]. unfold loc.
  apply adj_and; [exact (adj_between (u_tmins u) T Hs (or_introl H1))|].
  apply adj_and; [exact (adj_between (u_tmaxs u) T Hs (or_introl H2))|].
  pose proof (adj_forall (fun x => x <= u_tmins u \/ u_tmaxs u <= x) T H3) as G.
  revert G. clear. induction T as [|up [|lo r] IH]; intro G; try exact I.
  rewrite adj_cons in *. destruct G as [[G1 G2] G3]. split; [split; assumption|apply IH; exact G3].
Qed.

Lemma clear_hot_rows tolv T u : clear_hot tolv T u = true -> forall x, In x T -> x <= u_tmins u \/ u_tmaxs u <= x.
Proof.
  unfold clear_hot. rewrite forallb_forall. intros H x Hx.
  destruct (clear_row_spec tolv _ _ _ (H x Hx)) as [A|[A _]]; [left|right]; exact A.
Qed.
Lemma clear_cold_rows tolv T u : clear_cold tolv T u = true -> forall x, In x T -> x <= u_tmins u \/ u_tmaxs u <= x.
Proof.
  unfold clear_cold. rewrite forallb_forall. intros H x Hx.
  destruct (clear_row_spec tolv _ _ _ (H x Hx)) as [A|[A _]]; [right|left]; lra.
Qed.

(* ================= the cascade column is the step profile at every row ================= *)
(* duties non-negative; some row xp of the grid separates the hot utilities that carry duty (wholly at or above xp)
   from the cold utilities that carry duty (wholly below xp... their lower end is below xp) *)
Theorem hut_model_step_sep T hus cus dh dc xp :
  strict_desc T = true ->
  (forall u, In u hus -> gridded T u) -> (forall u, In u cus -> gridded T u) ->
  Forall (fun q => 0 <= q) dh -> Forall (fun q => 0 <= q) dc ->
  In xp T ->
  (forall p, In p (combine hus dh) -> snd p == 0 \/ xp <= u_tmins (fst p)) ->
  (forall p, In p (combine cus dc) -> snd p == 0 \/ u_tmins (fst p) < xp) ->
  Forall2 Qeq (hut_model T hus cus dh dc) (map (fun x => hut_step x hus cus dh dc) T).
Proof.
  intros Hs Hgh Hgc Hnh Hnc Hxp Hsh Hsc.
  destruct T as [|t0 Tr]; [constructor|].
  set (hot := combine hus dh) in *. set (cold := combine cus dc) in *.
  assert (Hh : forall p, In p hot -> iso (fst p) /\ adj (loc (fst p)) (t0 :: Tr)).
  { intros [u q] Hp. cbn [fst]. apply in_combine_l in Hp. pose proof (Hgh u Hp) as G. split; [apply G|apply gridded_adj; assumption]. }
  assert (Hc : forall p, In p cold -> iso (fst p) /\ adj (loc (fst p)) (t0 :: Tr)).
  { intros [u q] Hp. cbn [fst]. apply in_combine_l in Hp. pose proof (Hgc u Hp) as G. split; [apply G|apply gridded_adj; assumption]. }
  assert (Hqh : forall p, In p hot -> 0 <= snd p) by (intros p Hp; exact (Forall_combine_snd _ hus dh p Hnh Hp)).
  assert (Hqc : forall p, In p cold -> 0 <= snd p) by (intros p Hp; exact (Forall_combine_snd _ cus dc p Hnc Hp)).
  set (D := fun x => above x hot - above x cold).
  pose proof (ut_raw_rows (t0 :: Tr) 0 hot cold Hs Hh Hc) as Hraw. cbn [List.hd List.tl] in Hraw. fold (D t0) in Hraw.
  assert (HR : Forall2 (fun r x => r == D x - D t0) (0 :: ut_raw 0 (t0 :: Tr) hot cold) (t0 :: Tr)).
  { constructor; [lra|]. eapply Forall2_imp; [|exact Hraw]. intros a b Hab. cbv beta in Hab. rewrite Hab. unfold D. lra. }
  (* the maximum of the raw cascade is reached at the separating row *)
  assert (HM : lmax 0 (0 :: ut_raw 0 (t0 :: Tr) hot cold) == total hot - D t0).
  { cbn [lmax].
    assert (Hub : forall y x, y == D x - D t0 -> y <= total hot - D t0).
    { intros y x E. rewrite E. unfold D. pose proof (above_bounds x hot Hqh). pose proof (above_bounds x cold Hqc). lra. }
    assert (Hxp' : D xp == total hot).
    { unfold D. rewrite (above_all xp hot Hsh), (above_none xp cold Hsc). lra. }
    inversion HR as [|a b la lb Hab Hl]; subst.
    apply maxl_eq.
    - exact (Hub _ _ Hab).
    - intros y Hy. destruct (Forall2_in_r _ _ _ y (Forall2_flip _ _ _ Hl) Hy) as [x [_ E]]. exact (Hub _ _ E).
    - destruct Hxp as [<-|Hxp]; [left; lra|right].
      destruct (Forall2_in_r _ _ _ xp Hl Hxp) as [y [Y1 Y2]]. exists y. split; [exact Y1|]. cbv beta in Y2. lra. }
  unfold hut_model. fold hot cold. cbv zeta.
  set (m := lmax 0 (0 :: ut_raw 0 (t0 :: Tr) hot cold)) in *.
  assert (Hrows : forall x, In x (t0 :: Tr) -> hut_step x hus cus dh dc == total hot - D x).
  { intros x Hx. rewrite hut_step_eq. fold hot cold. unfold D.
    assert (E := below_above x hot). rewrite <- E; [lra|].
    intros [u q] Hp. cbn [fst]. apply in_combine_l in Hp. destruct (Hgh u Hp) as [[I1 _] [_ [_ G]]]. split; [exact I1|apply G; exact Hx]. }
  revert HR Hrows. generalize (0 :: ut_raw 0 (t0 :: Tr) hot cold) (t0 :: Tr). intros L T' HR.
  induction HR as [|a b la lb Hab Hl IHl]; intro Hrows; cbn [map]; constructor.
  - rewrite rsub_eq, HM, Hab, (Hrows b (or_introl eq_refl)). lra.
  - apply IHl. intros x Hx. apply Hrows. right. exact Hx.
Qed.

Section Rows.
Variable tolv : Q.
Hypothesis tol_pos : 0 < tolv.

(* ---- where the utilities that receive duty lie ---- *)
(* HOT: a utility clear of the grid that receives duty lies wholly at or above the last row of the heating segment *)
Lemma hot_duty_above T H rh hus : let Ts := firstn (S rh) T in let Hs := firstn (S rh) H in
  strict_desc Ts = true ->
  (forall u, In u hus -> u_tmins u < u_tmaxs u /\ clear_hot tolv T u = true) ->
  forall p, In p (combine hus (assign_hot tolv T H rh hus)) -> snd p == 0 \/ lastq Ts <= u_tmins (fst p).
Proof.
  intros Ts Hs Hsd Hcl p Hp. unfold assign_hot in Hp. fold Ts Hs in Hp.
  pose proof (assign_reach tolv tol_pos (ivs_hot Ts Hs) (headq Hs) (map (fun u => mkU (u_tmaxs u) (u_tmins u)) (rev hus)) 0 (Qle_refl 0)) as R.
  apply Forall2_rev_gen in R. rewrite <- map_rev, rev_involutive in R. apply Forall2_map_inv in R.
  pose proof (Forall2_combine_in _ _ _ p R Hp) as Rp. cbn [us] in Rp.
  pose proof (assign_nonneg tolv tol_pos (ivs_hot Ts Hs) (headq Hs) (map (fun u => mkU (u_tmaxs u) (u_tmins u)) (rev hus)) 0) as Hn.
  apply Forall_rev in Hn. pose proof (Forall_combine_snd _ _ _ p Hn Hp) as Hq. cbv beta in Hq.
  destruct (Qlt_le_dec 0 (snd p)) as [Hpos|Hz]; [right|left; lra].
  destruct (Rp Hpos) as [v [Hv [Hr _]]].
  destruct (ivs_hot_in Ts Hs v Hv Hsd) as [A1 [A2 [A3 _]]].
  assert (Hu : In (fst p) hus) by (destruct p; eapply in_combine_l; exact Hp).
  destruct (Hcl _ Hu) as [Hlt Hc]. unfold clear_hot in Hc. rewrite forallb_forall in Hc.
  unfold reachv, dsup in Hr. apply andb_true_iff in Hr. destruct Hr as [_ Hr]. apply qleb_true in Hr. rewrite rsub_eq in Hr.
  pose proof (strict_desc_last_le Ts (ib v) Hsd A2) as Hlast.
  destruct (clear_row_spec tolv _ _ _ (Hc _ (in_firstn _ _ _ A1))) as [Ha|[Ha1 Ha2]];
  destruct (clear_row_spec tolv _ _ _ (Hc _ (in_firstn _ _ _ A2))) as [Hb|[Hb1 Hb2]]; lra.
Qed.

(* intervals of the cooling segment with the facts known about their rows *)
Lemma ivs_cold_adj (P : Q -> Q -> Prop) (R : Q -> Q -> Prop) T : forall H v, In v (ivs_cold T H) ->
  adj P T -> Forall2 R T H ->
  exists t0 t1 h0 h1, v = mkIv (- t1) (- t0) h1 h0 /\ P t0 t1 /\ R t1 h1 /\ In t0 T /\ In t1 T.
Proof.
  induction T as [|t0 Tr IH]; intros H v Hv Ha HR; [destruct H; inversion Hv|].
  destruct Tr as [|t1 Tr']; [destruct H as [|? [|? ?]]; inversion Hv|].
  destruct H as [|h0 [|h1 Hr]]; try (inversion Hv; fail).
  cbn [ivs_cold] in Hv. rewrite adj_cons in Ha. destruct Ha as [Ha1 Ha2].
  inversion HR as [|a b la lb Hab Hl]; subst. destruct Hv as [<-|Hv].
  - exists t0, t1, h0, h1. inversion Hl; subst. repeat split; auto; [left; reflexivity|right; left; reflexivity].
  - destruct (IH (h1 :: Hr) v Hv Ha2 Hl) as [x0 [x1 [y0 [y1 [E [HP [HRR [I0 I1]]]]]]]].
    exists x0, x1, y0, y1. repeat split; auto; right; assumption.
Qed.

(* COLD: if the cooling demand is zero on every row of its segment at or above xp (a row of the grid), a utility clear of
   the grid that receives duty lies wholly at or below xp *)
Lemma cold_duty_below T H rc cus xp : let k := Nat.max (rc - 1) 0 in let Ts := skipn k T in let Hs := skipn k H in
  strict_desc T = true -> In xp T ->
  Forall2 (fun t h => xp <= t -> h <= tolv) Ts Hs ->
  (forall u, In u cus -> u_tmins u < u_tmaxs u /\ clear_cold tolv T u = true) ->
  forall p, In p (combine cus (assign_cold tolv T H rc cus)) -> snd p == 0 \/ u_tmaxs (fst p) <= xp.
Proof.
  intros k Ts Hs Hsd Hxp Hq Hcl p Hp. unfold assign_cold in Hp. fold k Ts Hs in Hp.
  pose proof (assign_reach tolv tol_pos (ivs_cold Ts Hs) (lastq Hs) (map (fun u => mkU (- u_tmins u) (- u_tmaxs u)) cus) 0 (Qle_refl 0)) as R.
  apply Forall2_map_inv in R.
  pose proof (Forall2_combine_in _ _ _ p R Hp) as Rp. cbn [us] in Rp.
  pose proof (assign_nonneg tolv tol_pos (ivs_cold Ts Hs) (lastq Hs) (map (fun u => mkU (- u_tmins u) (- u_tmaxs u)) cus) 0) as Hn.
  pose proof (Forall_combine_snd _ _ _ p Hn Hp) as Hq0. cbv beta in Hq0.
  destruct (Qlt_le_dec 0 (snd p)) as [Hpos|Hz]; [right|left; lra].
  destruct (Rp Hpos) as [v [Hv [Hr Hh]]].
  pose proof (adj_skipn _ k T (adj_between xp T Hsd (or_introl Hxp))) as Hadj. fold Ts in Hadj.
  destruct (ivs_cold_adj _ _ Ts Hs v Hv Hadj Hq) as [t0 [t1 [h0 [h1 [-> [HP [HR [I0 I1]]]]]]]].
  cbn [hadj] in Hh.
  assert (Hu : In (fst p) cus) by (destruct p; eapply in_combine_l; exact Hp).
  destruct (Hcl _ Hu) as [Hlt Hc]. unfold clear_cold in Hc. rewrite forallb_forall in Hc.
  unfold reachv, dsup in Hr. cbn [ia] in Hr. apply andb_true_iff in Hr. destruct Hr as [_ Hr]. apply qleb_true in Hr. rewrite rsub_eq in Hr.
  assert (Hlt01 : t1 < t0).
  { pose proof (strict_desc_skipn k T Hsd) as Hs'. fold Ts in Hs'.
    destruct (ivs_cold_in Ts Hs _ Hv Hs') as [xa [xb [_ [_ [Ea [Eb [Hab _]]]]]]]. cbn [ia ib] in Ea, Eb.
    assert (- t1 == - xa) by (rewrite Ea; reflexivity). assert (- t0 == - xb) by (rewrite Eb; reflexivity). lra. }
  assert (Ht1 : t1 < xp) by (destruct (Qlt_le_dec t1 xp) as [L|L]; [exact L|specialize (HR L); lra]).
  destruct (clear_row_spec tolv _ _ _ (Hc _ (in_skipn _ _ _ I1))) as [Ha|[Ha1 Ha2]];
  destruct (clear_row_spec tolv _ _ _ (Hc _ (in_skipn _ _ _ I0))) as [Hb|[Hb1 Hb2]]; destruct HP; lra.
Qed.

Definition gridded_hot (T : list Q) (u : ustar) : Prop :=
  iso u /\ In (u_tmins u) T /\ In (u_tmaxs u) T /\ clear_hot tolv T u = true.
Definition gridded_cold (T : list Q) (u : ustar) : Prop :=
  iso u /\ In (u_tmins u) T /\ In (u_tmaxs u) T /\ clear_cold tolv T u = true.

(* ================= the model's own entry points: cascade column = step profile of the assigned duties ================= *)
Theorem assigned_hut_is_step T Hh Hc rh rc hus cus :
  let k := Nat.max (rc - 1) 0 in
  let dh := assign_hot tolv T Hh rh hus in let dc := assign_cold tolv T Hc rc cus in
  strict_desc T = true -> (rh < List.length T)%nat ->
  Forall2 (fun t h => nth rh T 0 <= t -> h <= tolv) (skipn k T) (skipn k Hc) ->
  (forall u, In u hus -> gridded_hot T u) -> (forall u, In u cus -> gridded_cold T u) ->
  Forall2 Qeq (hut_model T hus cus dh dc) (map (fun x => hut_step x hus cus dh dc) T).
Proof.
  intros k dh dc Hsd Hrh Hq Hgh Hgc.
  assert (Hfs : strict_desc (firstn (S rh) T) = true).
  { clear - Hsd. revert T Hsd. generalize (S rh). induction n as [|n IH]; intros [|a [|b l]] H; try reflexivity.
    - destruct n; reflexivity.
    - destruct n as [|n']; [reflexivity|]. specialize (IH (b :: l) (strict_desc_tail _ _ H)).
      change (firstn (S (S n')) (a :: b :: l)) with (a :: firstn (S n') (b :: l)).
      change (firstn (S n') (b :: l)) with (b :: firstn n' l) in *.
      cbn [strict_desc] in *. apply andb_true_iff in H. destruct H as [H1 _]. rewrite H1. exact IH. }
  assert (Elast : lastq (firstn (S rh) T) = nth rh T 0).
  { clear - Hrh. revert T Hrh. induction rh as [|n IH]; intros [|a l] H; simpl in H; try lia.
    - destruct l; reflexivity.
    - destruct l as [|b l']; [simpl in H; lia|].
      change (firstn (S (S n)) (a :: b :: l')) with (a :: firstn (S n) (b :: l')).
      change (firstn (S n) (b :: l')) with (b :: firstn n l'). rewrite lastq_cons.
      change (b :: firstn n l') with (firstn (S n) (b :: l')). rewrite IH by (simpl in *; lia). reflexivity. }
  apply hut_model_step_sep with (xp := nth rh T 0).
  - exact Hsd.
  - intros u Hu. destruct (Hgh u Hu) as [A [B [C D]]]. repeat split; try assumption; try apply A. exact (clear_hot_rows tolv T u D).
  - intros u Hu. destruct (Hgc u Hu) as [A [B [C D]]]. repeat split; try assumption; try apply A. exact (clear_cold_rows tolv T u D).
  - apply assign_hot_nonneg. exact tol_pos.
  - apply assign_cold_nonneg. exact tol_pos.
  - apply nth_In. exact Hrh.
  - intros p Hp. rewrite <- Elast. apply (hot_duty_above T Hh rh hus Hfs); [|exact Hp].
    intros u Hu. destruct (Hgh u Hu) as [[A _] [_ [_ D]]]. split; assumption.
  - intros p Hp.
    assert (Hu : In (fst p) cus) by (destruct p; eapply in_combine_l; exact Hp).
    destruct (cold_duty_below T Hc rc cus (nth rh T 0) Hsd (nth_In _ _ Hrh) Hq
                (fun u Hu => conj (proj1 (proj1 (Hgc u Hu))) (proj2 (proj2 (proj2 (Hgc u Hu))))) p Hp) as [E|E]; [left; exact E|right].
    destruct (Hgc _ Hu) as [[A _] _]. lra.
Qed.

(* ================= ROW-BY-ROW FEASIBILITY ================= *)
(* pocket-free demand profiles on the two segments; every utility gridded; then at EVERY row of the grid the utility grand
   composite column is non-negative and at most (heating demand at the row) + (cooling demand at the row) *)
Theorem utility_rows_feasible T Hh Hc rh rc hus cus :
  let k := Nat.max (rc - 1) 0 in
  let Ths := firstn (S rh) T in let Hhs := firstn (S rh) Hh in let Tcs := skipn k T in let Hcs := skipn k Hc in
  let dh := assign_hot tolv T Hh rh hus in let dc := assign_cold tolv T Hc rc cus in
  strict_desc T = true -> (rh < List.length T)%nat ->
  noninc Hhs = true -> List.length Ths = List.length Hhs -> 0 <= lastq Hhs ->
  noninc (rev Hcs) = true -> 0 <= headq Hcs ->
  Forall2 (fun t h => nth rh T 0 <= t -> h <= tolv) Tcs Hcs ->
  (forall u, In u hus -> gridded_hot T u) -> (forall u, In u cus -> gridded_cold T u) ->
  Forall2 (fun hut x => 0 <= hut /\ hut <= prow tolv Ths Hhs x + prow_cold tolv Tcs Hcs x) (hut_model T hus cus dh dc) T.
Proof.
  intros k Ths Hhs Tcs Hcs dh dc Hsd Hrh Hn1 Hl1 H01 Hn2 H02 Hq Hgh Hgc.
  pose proof (assigned_hut_is_step T Hh Hc rh rc hus cus Hsd Hrh Hq Hgh Hgc) as E. fold k dh dc in E.
  assert (Hfs : strict_desc Ths = true).
  { unfold Ths. clear - Hsd. revert T Hsd. generalize (S rh). induction n as [|n IH]; intros [|a [|b l]] H; try reflexivity.
    - destruct n; reflexivity.
    - destruct n as [|n']; [reflexivity|]. specialize (IH (b :: l) (strict_desc_tail _ _ H)).
      change (firstn (S (S n')) (a :: b :: l)) with (a :: firstn (S n') (b :: l)).
      change (firstn (S n') (b :: l)) with (b :: firstn n' l) in *.
      cbn [strict_desc] in *. apply andb_true_iff in H. destruct H as [H1 _]. rewrite H1. exact IH. }
  assert (Hss : strict_desc Tcs = true) by (apply strict_desc_skipn; exact Hsd).
  assert (Hl2 : List.length Tcs = List.length Hcs) by (clear - Hq; induction Hq; simpl; congruence).
  assert (Hrow : forall x, 0 <= hut_step x hus cus dh dc /\ hut_step x hus cus dh dc <= prow tolv Ths Hhs x + prow_cold tolv Tcs Hcs x).
  { intro x. rewrite hut_step_eq. split.
    - assert (0 <= below x (combine hus dh)).
      { apply below_nonneg. intros p Hp. exact (Forall_combine_snd _ _ _ p (assign_hot_nonneg tolv tol_pos T Hh rh hus) Hp). }
      assert (0 <= above x (combine cus dc)).
      { apply above_bounds. intros p Hp. exact (Forall_combine_snd _ _ _ p (assign_cold_nonneg tolv tol_pos T Hc rc cus) Hp). }
      lra.
    - pose proof (hot_level_feasible tolv tol_pos T Hh rh hus x Hfs Hn1 Hl1 H01) as F1.
      pose proof (cold_level_feasible tolv tol_pos T Hc rc cus x Hss Hn2 Hl2 H02) as F2.
      fold dh in F1. fold dc in F2. fold Ths Hhs in F1. fold k Tcs Hcs in F2.
      assert (M1 : forall (l : list ustar) (d : list Q), below x (combine l d) == msum (map (fun u => qleb (u_tmaxs u) x) l) d).
      { induction l as [|u l IH]; intros [|q d]; try reflexivity.
        cbn [combine map msum]. rewrite below_cons, IH. cbn [fst snd]. reflexivity. }
      assert (M2 : forall (l : list ustar) (d : list Q), above x (combine l d) == msum (map (fun u => qleb x (u_tmins u)) l) d).
      { induction l as [|u l IH]; intros [|q d]; try reflexivity.
        cbn [combine map msum]. rewrite above_cons, IH. cbn [fst snd]. reflexivity. }
      assert (M3 : forall (m : list bool) (d : list Q), List.length m = List.length d -> msum (rev m) (rev d) == msum m d).
      { assert (App : forall (m1 : list bool) (d1 : list Q) m2 d2, List.length m1 = List.length d1 ->
                        msum (m1 ++ m2) (d1 ++ d2) == msum m1 d1 + msum m2 d2).
        { induction m1 as [|b m1 IH]; intros [|q d1] m2 d2 Hl; try discriminate; cbn [app msum]; [lra|].
          rewrite IH by (simpl in Hl; lia). lra. }
        induction m as [|b m IH]; intros [|q d] Hl; try discriminate; [reflexivity|].
        cbn [rev]. rewrite App by (rewrite !rev_length; simpl in Hl; lia). rewrite IH by (simpl in Hl; lia). cbn [msum]. lra. }
      rewrite M1, M2.
      assert (Hlen : List.length dh = List.length hus).
      { unfold dh, assign_hot. rewrite rev_length.
        pose proof (assign_alloc tolv tol_pos (ivs_hot (firstn (S rh) T) (firstn (S rh) Hh)) (headq (firstn (S rh) Hh)) (fun _ => false)) as A.
        clear A. generalize (ivs_hot (firstn (S rh) T) (firstn (S rh) Hh)) (headq (firstn (S rh) Hh)). intros ivs lim.
        rewrite <- (rev_length hus), <- (map_length (fun u => mkU (u_tmaxs u) (u_tmins u)) (rev hus)).
        generalize (map (fun u => mkU (u_tmaxs u) (u_tmins u)) (rev hus)) 0. clear.
        induction l as [|u l IH]; intro qa; [reflexivity|]. cbn [assign_loop List.length]. f_equal.
        destruct (qltb _ tolv); [unfold zeros; apply map_length|apply IH]. }
      rewrite <- (M3 (map (fun u => qleb (u_tmaxs u) x) hus) dh) by (rewrite map_length; symmetry; exact Hlen).
      rewrite <- map_rev. lra. }
  apply (Forall2_map_r_eq (fun x => hut_step x hus cus dh dc)); [|exact Hrow|exact E].
  intros a b x Hab Hb. rewrite Hab. exact Hb.
Qed.

(* ---- the demand at a ROW: when consecutive rows are more than tol apart (the grid is rounded to the 6 decimals of tol),
        the level demands `prow` / `prow_cold` taken at a row's own temperature are the profile's value in that row ---- *)
Fixpoint gapped (l : list Q) : bool :=
  match l with a :: ((b :: _) as r) => qltb (b + tolv) a && gapped r | _ => true end.
Lemma gapped_tail a l : gapped (a :: l) = true -> gapped l = true.
Proof. destruct l as [|b r]; [reflexivity|]. cbn [gapped]. intro H. apply andb_true_iff in H. apply H. Qed.
Lemma gapped_lt a l x : gapped (a :: l) = true -> In x l -> x + tolv < a.
Proof.
  revert a. induction l as [|b r IH]; intros a H Hx; [inversion Hx|].
  cbn [gapped] in H. apply andb_true_iff in H. destruct H as [H1 H2]. apply qltb_true in H1.
  destruct Hx as [<-|Hx]; [exact H1|]. specialize (IH b H2 Hx). lra.
Qed.
Lemma gapped_strict l : gapped l = true -> strict_desc l = true.
Proof.
  induction l as [|a [|b r] IH]; intro H; try reflexivity.
  cbn [gapped] in H. apply andb_true_iff in H. destruct H as [H1 H2]. apply qltb_true in H1.
  cbn [strict_desc]. apply andb_true_iff. split; [apply qltb_true; lra|apply IH; exact H2].
Qed.

Lemma prow_firstn_row T : forall H n i, gapped T = true -> List.length T = List.length H -> (i < List.length T)%nat ->
  prow tolv (firstn n T) (firstn n H) (nth i T 0) = if (i <? n)%nat then nth i H 0 else 0.
Proof.
  induction T as [|t0 Tr IH]; intros H n i Hg Hl Hi; [simpl in Hi; lia|].
  destruct H as [|h0 Hr]; [discriminate|]. destruct n as [|n]; [reflexivity|].
  cbn [firstn prow]. destruct i as [|i].
  - cbn [nth]. assert (E : qleb (- tolv) (rsub t0 t0) = true) by (apply qleb_true; rewrite rsub_eq; lra). rewrite E. reflexivity.
  - cbn [nth]. assert (Hin : In (nth i Tr 0) Tr) by (apply nth_In; simpl in Hi; lia).
    pose proof (gapped_lt t0 Tr _ Hg Hin) as Hlt.
    assert (E : qleb (- tolv) (rsub (nth i Tr 0) t0) = false) by (apply qleb_false; rewrite rsub_eq; lra). rewrite E.
    rewrite (IH Hr n i (gapped_tail _ _ Hg)) by (simpl in *; lia). reflexivity.
Qed.

Lemma prow_cold_row T : forall H i, gapped T = true -> List.length T = List.length H -> (i < List.length T)%nat ->
  prow_cold tolv T H (nth i T 0) = nth i H 0.
Proof.
  induction T as [|t0 Tr IH]; intros H i Hg Hl Hi; [simpl in Hi; lia|].
  destruct H as [|h0 Hr]; [discriminate|]. destruct i as [|i].
  - cbn [nth]. assert (E : qleb (- tolv) (rsub t0 t0) = true) by (apply qleb_true; rewrite rsub_eq; lra).
    destruct Tr as [|t1 Tr']; destruct Hr as [|h1 Hr']; try discriminate.
    + rewrite prow_cold_one, E. reflexivity.
    + rewrite prow_cold_cons, E. pose proof (gapped_lt t0 (t1 :: Tr') t1 Hg (or_introl eq_refl)) as Hlt.
      assert (E1 : qleb (- tolv) (rsub t1 t0) = false) by (apply qleb_false; rewrite rsub_eq; lra). rewrite E1. reflexivity.
  - cbn [nth]. destruct Tr as [|t1 Tr']; [simpl in Hi; lia|]. destruct Hr as [|h1 Hr']; [discriminate|].
    assert (Hin : In (nth i (t1 :: Tr') 0) (t1 :: Tr')) by (apply nth_In; simpl in *; lia).
    set (x := nth i (t1 :: Tr') 0) in *.
    pose proof (gapped_lt t0 _ x Hg Hin) as Hlt.
    assert (Hx1 : x <= t1) by (apply (strict_desc_hd_ge t1 Tr' x); [apply gapped_strict; exact (gapped_tail _ _ Hg)|exact Hin]).
    rewrite prow_cold_cons.
    assert (E : qleb (- tolv) (rsub t0 x) = true) by (apply qleb_true; rewrite rsub_eq; lra).
    assert (E1 : qleb (- tolv) (rsub t1 x) = true) by (apply qleb_true; rewrite rsub_eq; lra).
    rewrite E, E1. apply IH; [exact (gapped_tail _ _ Hg)|simpl in *; lia|simpl in *; lia].
Qed.

Lemma prow_cold_skipn_row T : forall H k i, gapped T = true -> List.length T = List.length H -> (i < List.length T)%nat ->
  prow_cold tolv (skipn k T) (skipn k H) (nth i T 0) = if (k <=? i)%nat then nth i H 0 else 0.
Proof.
  induction T as [|t0 Tr IH]; intros H k i Hg Hl Hi; [simpl in Hi; lia|].
  destruct H as [|h0 Hr]; [discriminate|]. destruct k as [|k].
  - cbn [skipn Nat.leb]. apply prow_cold_row; assumption.
  - cbn [skipn]. destruct i as [|i].
    + cbn [nth Nat.leb]. apply prow_cold_unreach. destruct (skipn k Tr) as [|y r] eqn:E; [exact I|].
      assert (Hy : In y Tr) by (apply (in_skipn k); rewrite E; left; reflexivity).
      pose proof (gapped_lt t0 Tr y Hg Hy). lra.
    + cbn [nth]. rewrite (IH Hr k i (gapped_tail _ _ Hg)) by (simpl in *; lia). reflexivity.
Qed.

Lemma Forall2_nth_Q (P : Q -> Q -> Prop) : forall l1 l2, Forall2 P l1 l2 ->
  forall i, (i < List.length l2)%nat -> P (nth i l1 0) (nth i l2 0).
Proof. induction 1 as [|a b la lb Hab Hl IH]; intros i Hi; [simpl in Hi; lia|]. destruct i; [exact Hab|apply IH; simpl in Hi; lia]. Qed.

(* ROW-BY-ROW, index form: 0 <= H_ut[i] <= H_np[i], where H_np[i] is the heating demand in row i on the heating segment
   (rows 0..rh) plus the cooling demand in row i on the cooling segment (rows k..) *)
Theorem utility_rows_feasible_nth T Hh Hc rh rc hus cus :
  let k := Nat.max (rc - 1) 0 in
  let dh := assign_hot tolv T Hh rh hus in let dc := assign_cold tolv T Hc rc cus in
  gapped T = true -> (rh < List.length T)%nat -> List.length T = List.length Hh -> List.length T = List.length Hc ->
  noninc (firstn (S rh) Hh) = true -> 0 <= lastq (firstn (S rh) Hh) ->
  noninc (rev (skipn k Hc)) = true -> 0 <= headq (skipn k Hc) ->
  Forall2 (fun t h => nth rh T 0 <= t -> h <= tolv) (skipn k T) (skipn k Hc) ->
  (forall u, In u hus -> gridded_hot T u) -> (forall u, In u cus -> gridded_cold T u) ->
  forall i, (i < List.length T)%nat ->
  0 <= nth i (hut_model T hus cus dh dc) 0 /\
  nth i (hut_model T hus cus dh dc) 0
    <= (if (i <=? rh)%nat then nth i Hh 0 else 0) + (if (k <=? i)%nat then nth i Hc 0 else 0).
Proof.
  intros k dh dc Hg Hrh Hl1 Hl2 Hn1 H01 Hn2 H02 Hq Hgh Hgc i Hi.
  assert (Hlf : List.length (firstn (S rh) T) = List.length (firstn (S rh) Hh)) by (rewrite !firstn_length, Hl1; reflexivity).
  pose proof (utility_rows_feasible T Hh Hc rh rc hus cus (gapped_strict T Hg) Hrh Hn1 Hlf H01 Hn2 H02 Hq Hgh Hgc) as F.
  pose proof (Forall2_nth_Q _ _ _ F i Hi) as Fi. cbv beta in Fi. fold k dh dc in Fi.
  rewrite (prow_firstn_row T Hh (S rh) i Hg Hl1 Hi), (prow_cold_skipn_row T Hc k i Hg Hl2 Hi) in Fi.
  change (i <? S rh)%nat with (i <=? rh)%nat in Fi. exact Fi.
Qed.
End Rows.

From OP Require Import proofs.UtilityWitness.

(* boolean form of the `no cooling demand at or above the heating pinch row` hypothesis *)
Lemma quiet_reflect tolv x Ts Hs : forallb2 (fun t h => qltb t x || qleb h tolv) Ts Hs = true -> Forall2 (fun t h => x <= t -> h <= tolv) Ts Hs.
Proof.
  revert Hs. induction Ts as [|t Tr IH]; intros [|h Hr] H; try discriminate; constructor.
  - cbn [forallb2] in H. apply andb_true_iff in H. destruct H as [H _]. intro L. apply orb_true_iff in H. destruct H as [H|H].
    + apply qltb_true in H. lra.
    + apply qleb_true in H. exact H.
  - apply IH. cbn [forallb2] in H. apply andb_true_iff in H. apply H.
Qed.

(* ---- non-vacuity: the classic four-stream problem with its three 0.1 K levels a side satisfies every hypothesis ---- *)
Example classic_rows_feasible :
  forall i, (i < 19)%nat ->
  0 <= nth i (hut_model Tc husc cusc [45; 30; 0] [80; 20; 0]) 0 /\
  nth i (hut_model Tc husc cusc [45; 30; 0] [80; 20; 0]) 0
    <= (if (i <=? 8)%nat then nth i HAc 0 else 0) + (if (7 <=? i)%nat then nth i (cold_demand HAc 8) 0 else 0).
Proof.
  pose proof classic_closed_form as [_ [_ [Eh Ec]]].
  pose proof (utility_rows_feasible_nth tol tol_pos Tc HAc (cold_demand HAc 8) 8 8 husc cusc) as G.
  cbv zeta in G. rewrite Eh, Ec in G. 
  assert (H1 : gapped tol Tc = true) by (vm_compute; reflexivity).
  assert (H2 : (8 < List.length Tc)%nat) by (vm_compute; lia).
  assert (H3 : List.length Tc = List.length HAc) by (vm_compute; reflexivity).
  assert (H4 : List.length Tc = List.length (cold_demand HAc 8)) by (vm_compute; reflexivity).
  assert (H5 : noninc (firstn 9 HAc) = true) by (vm_compute; reflexivity).
  assert (H6 : 0 <= lastq (firstn 9 HAc)) by (vm_compute; discriminate).
  assert (H7 : noninc (rev (skipn (Nat.max (8 - 1) 0) (cold_demand HAc 8))) = true) by (vm_compute; reflexivity).
  assert (H8 : 0 <= headq (skipn (Nat.max (8 - 1) 0) (cold_demand HAc 8))) by (vm_compute; discriminate).
  specialize (G H1 H2 H3 H4 H5 H6 H7 H8).
  assert (H9 : Forall2 (fun t h : Q => nth 8 Tc 0 <= t -> h <= tol) (skipn (Nat.max (8 - 1) 0) Tc) (skipn (Nat.max (8 - 1) 0) (cold_demand HAc 8))).
  { apply quiet_reflect. vm_compute. reflexivity. }
  assert (InTc : forall x, existsb (fun y => Qeq_bool x y && Z.eqb (Qnum x) (Qnum y) && Pos.eqb (Qden x) (Qden y)) Tc = true -> In x Tc).
  { intros x Hx. apply existsb_exists in Hx. destruct Hx as [y [Hy E]]. apply andb_true_iff in E. destruct E as [E E3]. apply andb_true_iff in E. destruct E as [_ E2].
    apply Z.eqb_eq in E2. apply Pos.eqb_eq in E3. destruct x, y. simpl in *. subst. exact Hy. }
  assert (H10 : forall u : ustar, In u husc -> gridded_hot tol Tc u).
  { intros u [<-|[<-|[<-|[]]]]; unfold gridded_hot, iso; cbn [u_tmins u_tmaxs u_span];
      (split; [split; [vm_compute; reflexivity|split; [vm_compute; reflexivity|vm_compute; reflexivity]]|
       split; [apply InTc; vm_compute; reflexivity|split; [apply InTc; vm_compute; reflexivity|vm_compute; reflexivity]]]). }
  assert (H11 : forall u : ustar, In u cusc -> gridded_cold tol Tc u).
  { intros u [<-|[<-|[<-|[]]]]; unfold gridded_cold, iso; cbn [u_tmins u_tmaxs u_span];
      (split; [split; [vm_compute; reflexivity|split; [vm_compute; reflexivity|vm_compute; reflexivity]]|
       split; [apply InTc; vm_compute; reflexivity|split; [apply InTc; vm_compute; reflexivity|vm_compute; reflexivity]]]). }
  exact (G H9 H10 H11).
Qed.

(* ---- the default utilities (data_preparation.py, after the D23 repair) are of the gridded kind: 0.1 K wide, and they sit
        wholly outside the process range -- the default hot utility's lower shifted end is exactly the hottest process row x,
        the default cold utility's upper shifted end exactly the coldest one.  (That both ends are rows and that no row lies
        inside them is a fact about the grid, which is an input of this model: create_problem_table_with_t_int puts the
        shifted end points of every stream, utilities included, into the grid.) ---- *)
Lemma default_hu_iso x :
  let u := default_hu x in
  let s := star_of true (mkUcr (uc_id u) (Qmax (uc_ts u) (uc_tt u)) (Qmin (uc_ts u) (uc_tt u)) (uc_dt u)) in
  iso s /\ u_tmins s == x.
Proof.
  cbv zeta. unfold default_hu, star_of, iso. cbn [uc_id uc_ts uc_tt uc_dt cr_ts cr_tt cr_dt u_tmins u_tmaxs u_span].
  pose proof phase_pos as Hp.
  assert (Hw : act_window < cfg_DT_PHASE_CHANGE) by reflexivity.
  set (ts := radd x (radd cfg_DT_CONT cfg_DT_PHASE_CHANGE)). set (tt := radd x cfg_DT_CONT).
  assert (E1 : ts == x + cfg_DT_CONT + cfg_DT_PHASE_CHANGE) by (unfold ts; rewrite !radd_eq; ring).
  assert (E2 : tt == x + cfg_DT_CONT) by (unfold tt; rewrite radd_eq; ring).
  assert (Ea : Qabs (Qmax ts tt - Qmin ts tt) == Qmax ts tt - Qmin ts tt).
  { apply Qabs_pos. destruct (qmax_cases ts tt) as [[? Em]|[? Em]], (qmin_cases ts tt) as [[? En]|[? En]]; lra. }
  rewrite Ea, !rsub_eq.
  destruct (qmax_cases ts tt) as [[? Em]|[? Em]], (qmin_cases ts tt) as [[? En]|[? En]]; repeat split; lra.
Qed.
Lemma default_cu_iso x :
  let u := default_cu x in
  let s := star_of false (mkUcr (uc_id u) (Qmin (uc_ts u) (uc_tt u)) (Qmax (uc_ts u) (uc_tt u)) (uc_dt u)) in
  iso s /\ u_tmaxs s == x.
Proof.
  cbv zeta. unfold default_cu, star_of, iso. cbn [uc_id uc_ts uc_tt uc_dt cr_ts cr_tt cr_dt u_tmins u_tmaxs u_span].
  pose proof phase_pos as Hp.
  assert (Hw : act_window < cfg_DT_PHASE_CHANGE) by reflexivity.
  set (ts := radd x (- radd cfg_DT_CONT cfg_DT_PHASE_CHANGE)). set (tt := radd x (- cfg_DT_CONT)).
  assert (E1 : ts == x - cfg_DT_CONT - cfg_DT_PHASE_CHANGE) by (unfold ts; rewrite !radd_eq; ring).
  assert (E2 : tt == x - cfg_DT_CONT) by (unfold tt; rewrite radd_eq; ring).
  assert (Ea : Qabs (Qmin ts tt - Qmax ts tt) == Qmax ts tt - Qmin ts tt).
  { rewrite <- Qabs_opp. setoid_replace (- (Qmin ts tt - Qmax ts tt)) with (Qmax ts tt - Qmin ts tt) by ring.
    apply Qabs_pos. destruct (qmax_cases ts tt) as [[? Em]|[? Em]], (qmin_cases ts tt) as [[? En]|[? En]]; lra. }
  rewrite Ea, !radd_eq.
  destruct (qmax_cases ts tt) as [[? Em]|[? Em]], (qmin_cases ts tt) as [[? En]|[? En]]; repeat split; lra.
Qed.
