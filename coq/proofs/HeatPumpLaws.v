(* Second-law, throttle and saturation clauses of C18 for the state-point sequence of `solve`,
   for EVERY property library that satisfies the hypotheses listed in [LibHyps] (each is a thermodynamic
   identity or a read-back consistency of the library; the harness checks their instances numerically on
   every sampled state).  No equation of state is modelled. *)
From OP Require Import gen.Consts gen.HeatPumpConsts model.Base model.HeatPump proofs.BaseFacts proofs.HeatPump.
From Coq Require Import Lqa Lia.
Local Open Scope Q_scope.

Definition feq (a b : fstate) : Prop := fh a == fh b /\ fs a == fs b /\ fp a == fp b /\ fT a == fT b.

(* hypotheses about the property library *)
Record LibHyps (L : lib) : Prop := mkLibHyps {
  (* the library's answers depend on the VALUE of a rational argument, not on its representation *)
  pT_proper_T : forall q p T T', T == T' -> feq (l_pT L q p T) (l_pT L q p T');
  ph_proper_h : forall p h h', h == h' -> feq (l_ph L p h) (l_ph L p h');
  (* read-back: the state reports the pressure / enthalpy it was given *)
  pT_readback_p : forall q p T, fp (l_pT L q p T) == p;
  ph_readback_p : forall p h, fp (l_ph L p h) == p;
  ph_readback_h : forall p h, fh (l_ph L p h) == h;
  (* consistency between the flash routines: the same state reached through other inputs *)
  ps_own : forall q p T, fh (l_ps L p (fs (l_pT L q p T))) == fh (l_pT L q p T);
  ph_of_ps : forall p s, fs (l_ph L p (fh (l_ps L p s))) == s;
  ph_own : forall q p T, fs (l_ph L p (fh (l_pT L q p T))) == fs (l_pT L q p T);
  (* thermodynamics: (ds/dh)_p = 1/T > 0, (dh/dp)_s = v > 0, (ds/dp)_h = -v/T < 0 *)
  s_incr_h : forall p h h', h <= h' -> fs (l_ph L p h) <= fs (l_ph L p h');
  h_incr_p : forall s p p', p <= p' -> fh (l_ps L p s) <= fh (l_ps L p' s);
  s_decr_p : forall h p p', p <= p' -> fs (l_ph L p' h) <= fs (l_ph L p h) }.

(* strict forms, used only for strictly positive work *)
Definition h_strict_p (L : lib) : Prop := forall s p p', p < p' -> fh (l_ps L p s) < fh (l_ps L p' s).
Definition psat_strict (L : lib) : Prop := forall T T', T < T' -> l_psat L T < l_psat L T'.

Section Laws.
Variable L : lib.
Hypothesis HL : LibHyps L.
Variables Te Tc sh sc eta : Q.
Variable c : cycle.
(* nothing requested from the internal exchanger; by [ihx_none_requested] none is used, whatever the lift *)
Hypothesis Hsolve : solve L Te Tc sh sc eta 0 = Ok c.

Let TeK := radd Te hp_C_to_K.
Let TcK := radd Tc hp_C_to_K.
Let p0 := l_psat L TeK.
Let p2 := l_psat L TcK.
Let T0 := radd TeK sh.
Let T2 := rsub TcK sc.
Let ihx := ihx_dt 0 Te Tc sh sc.
Let st0 := l_pT L 1 p0 T0.
Let stc := l_pT L 1 p0 (radd T0 ihx).
Let sis := l_ps L p2 (fs stc).
Let h1 := radd (fh stc) (rdiv (rsub (fh sis) (fh stc)) eta).

Lemma solve_shape :
  p0 <= p2 /\ ~ eta == 0 /\ c0 c = st0 /\ c1 c = l_ph L p2 h1 /\
  (exists q T, c2 c = l_pT L q p2 T) /\ c3 c = l_ph L p0 (rsub (fh (c2 c)) (rsub (fh stc) (fh st0))).
Proof.
  pose proof Hsolve as E. unfold solve, solve_with in E.
  fold TeK TcK in E. fold p0 p2 in E. fold T0 T2 in E. fold ihx in E. fold st0 stc in E. fold sis in E. fold h1 in E.
  destruct (qltb p2 p0) eqn:Bp; [discriminate|]. apply qltb_false in Bp.
  destruct (is_zero eta) eqn:Ze; [discriminate|]. apply is_zero_false in Ze.
  inversion E; subst c; clear E. simpl.
  repeat split; try assumption.
  destruct (qltb (fh st0) (fh (l_pT L 0 p2 T2))); eauto.
Qed.

Lemma stc_is_st0 : feq stc st0.
Proof.
  unfold stc, st0. apply (pT_proper_T L HL).
  rewrite radd_eq. unfold ihx. rewrite ihx_none_requested. ring.
Qed.

(* pressures are the saturation pressures of the requested temperatures *)
Lemma pressures_are_psat :
  fp (c0 c) == l_psat L (radd Te hp_C_to_K) /\ fp (c3 c) == l_psat L (radd Te hp_C_to_K) /\
  fp (c1 c) == l_psat L (radd Tc hp_C_to_K) /\ fp (c2 c) == l_psat L (radd Tc hp_C_to_K).
Proof.
  destruct solve_shape as (_ & _ & E0 & E1 & (q & T & E2) & E3).
  rewrite E0, E1, E2, E3. unfold st0.
  rewrite (pT_readback_p L HL), !(ph_readback_p L HL), (pT_readback_p L HL).
  repeat split; reflexivity.
Qed.

(* throttling conserves enthalpy *)
Lemma throttle_isenthalpic : fh (c3 c) == fh (c2 c).
Proof.
  destruct solve_shape as (_ & _ & _ & _ & _ & E3).
  destruct stc_is_st0 as (Hh & _).
  rewrite E3, (ph_readback_h L HL), !rsub_eq, Hh. ring.
Qed.

(* throttling does not decrease entropy *)
Lemma throttle_entropy : fs (c2 c) <= fs (c3 c).
Proof.
  destruct solve_shape as (Hp & _ & _ & _ & (q & T & E2) & E3).
  destruct stc_is_st0 as (Hh & _).
  assert (Hx : rsub (fh (c2 c)) (rsub (fh stc) (fh st0)) == fh (c2 c)) by (rewrite !rsub_eq, Hh; ring).
  destruct (ph_proper_h L HL p0 _ _ Hx) as (_ & Hs & _).
  rewrite E3, Hs.
  apply Qle_trans with (fs (l_ph L p2 (fh (c2 c)))).
  - rewrite E2, (ph_own L HL). apply Qle_refl.
  - apply (s_decr_p L HL). exact Hp.
Qed.

Lemma his_ge_hin : fh stc <= fh sis.
Proof.
  destruct solve_shape as (Hp & _).
  pose proof (ps_own L HL 1 p0 (radd T0 ihx)) as K. fold stc in K.
  apply Qle_trans with (fh (l_ps L p0 (fs stc))).
  - rewrite K. apply Qle_refl.
  - unfold sis. apply (h_incr_p L HL). exact Hp.
Qed.

Lemma h1_ge_his : 0 < eta -> eta <= 1 -> fh sis <= h1.
Proof.
  intros He He1. pose proof his_ge_hin as K.
  unfold h1. rewrite radd_eq, rdiv_eq, rsub_eq.
  pose proof (div_eta_ge (fh sis - fh stc) eta) as D.
  assert (0 <= fh sis - fh stc) by lra. specialize (D H He He1). lra.
Qed.

(* compression does not decrease entropy, for every isentropic efficiency in (0, 1] *)
Lemma compression_entropy : 0 < eta -> eta <= 1 -> fs (c0 c) <= fs (c1 c).
Proof.
  intros He He1.
  destruct solve_shape as (_ & _ & E0 & E1 & _).
  destruct stc_is_st0 as (_ & Hs & _).
  rewrite E0, E1, <- Hs.
  apply Qle_trans with (fs (l_ph L p2 (fh sis))).
  - unfold sis at 1. rewrite (ph_of_ps L HL). apply Qle_refl.
  - apply (s_incr_h L HL). apply h1_ge_his; assumption.
Qed.

(* the compressor raises the enthalpy; strictly when the pressures differ and h(p, s) is strictly increasing in p *)
Lemma compression_raises_h : 0 < eta -> eta <= 1 -> fh (c0 c) <= fh (c1 c).
Proof.
  intros He He1.
  destruct solve_shape as (_ & _ & E0 & E1 & _).
  destruct stc_is_st0 as (Hh & _).
  rewrite E0, E1, (ph_readback_h L HL), <- Hh.
  apply Qle_trans with (fh sis); [apply his_ge_hin | apply h1_ge_his; assumption].
Qed.

Lemma compression_raises_h_strict :
  h_strict_p L -> p0 < p2 -> 0 < eta -> eta <= 1 -> fh (c0 c) < fh (c1 c).
Proof.
  intros Hst Hp He He1.
  destruct solve_shape as (_ & _ & E0 & E1 & _).
  destruct stc_is_st0 as (Hh & _).
  rewrite E0, E1, (ph_readback_h L HL), <- Hh.
  apply Qlt_le_trans with (fh sis); [|apply h1_ge_his; assumption].
  pose proof (ps_own L HL 1 p0 (radd T0 ihx)) as K. fold stc in K.
  apply Qle_lt_trans with (fh (l_ps L p0 (fs stc))).
  - rewrite K. apply Qle_refl.
  - unfold sis. apply Hst. exact Hp.
Qed.

(* positive work and the first law for the solved cycle *)
Lemma cycle_work_positive Qh m :
  h_strict_p L -> psat_strict L -> Te < Tc -> 0 < eta -> eta <= 1 -> 0 < Qh ->
  fh (c2 c) <= fh (c0 c) ->                       (* the condenser outlet is not hotter (in enthalpy) than the evaporator outlet *)
  cycle_metrics Qh c = Ok m ->
  0 < m_W m /\ Qh == m_Qe m + m_W m /\ m_qc m == m_qe m + m_w m.
Proof.
  intros Hst Hps Hlift He He1 HQ H20 Em.
  assert (Hp : p0 < p2).
  { unfold p0, p2, TeK, TcK. apply Hps. rewrite !radd_eq. lra. }
  pose proof (compression_raises_h_strict Hst Hp He He1) as H01.
  pose proof throttle_isenthalpic as H32.
  unfold cycle_metrics in Em.
  assert (H30 : fh (c3 c) <= fh (c0 c)) by lra.
  destruct (work_positive _ _ _ _ _ Em HQ H30 H01) as (_ & _ & PW).
  destruct (first_law _ _ _ _ _ Em H30) as [F1 F2].
  repeat split; assumption.
Qed.

End Laws.

(* non-vacuity: a library satisfying every hypothesis (ideal-gas-like toy: h = T, s = h - p, psat = T), and a cycle it solves *)
Definition toy2 : lib :=
  mkLib 1000 (fun T => T) (fun _ p T => mkF T (T - p) p T) (fun p s => mkF (s + p) s p (s + p))
        (fun p h => mkF h (h - p) p h) (fun p q => mkF p 0 p p).
Lemma toy2_hyps : LibHyps toy2.
Proof.
  constructor; unfold feq; simpl; intros; try repeat split; try lra; try reflexivity.
Qed.
Lemma toy2_strict : h_strict_p toy2 /\ psat_strict toy2.
Proof. split; unfold h_strict_p, psat_strict; simpl; intros; lra. Qed.
Example toy2_solves : exists c, solve toy2 10 13 0 0 (1 # 2) 0 = Ok c.
Proof. eexists. vm_compute. reflexivity. Qed.
