(* C12 on the zone-tree model: the synthesised tree of a problem and of its TWIN (zone names renamed component-wise by an
   injective map, input streams given in another order) have the same shape and hold the same stream identities.
   `g` maps a stream to its twin (same identity, same hot/cold kind, label components mapped by f), the twin list is any
   permutation of the mapped list.  The correspondence is stated on what the tree means (paths of the zones created for
   labels, the generated leaf of every stream, the identities in every zone's hot / cold collection as multisets): the
   ORDER in which zones are listed, the order of the entries inside a collection and the number k in a generated name O<k>
   follow the sort order of the label strings and are not preserved by a renaming (see `rename_listing_order_refuted`). *)
From OP Require Import gen.Consts gen.ZoneTreeConsts model.Base model.Collection model.ZoneTree
  proofs.CollectionRefine proofs.ZoneTreeStrings proofs.ZoneTreeSynth proofs.ZoneTreeImport proofs.ZoneTreeMain proofs.ZoneTreeFinal.
From Coq Require Import String Ascii Lia Permutation.

(* ---------------------------------------------------------------- prefixes under an injective map *)
Lemma is_prefix_cons a p b q : is_prefix (a :: p) (b :: q) = String.eqb a b && is_prefix p q.
Proof. unfold is_prefix. cbn [strip_prefix]. destruct (String.eqb a b); reflexivity. Qed.
Lemma is_prefix_map_inj (f : string -> string) p : forall q,
  (forall a b, In a p -> In b q -> f a = f b -> a = b) -> is_prefix (map f p) (map f q) = is_prefix p q.
Proof.
  induction p as [|a p IH]; intros q Inj; [reflexivity|]. destruct q as [|b q]; [reflexivity|]. cbn [map].
  rewrite !is_prefix_cons, IH by (intros x y Hx Hy; apply Inj; right; assumption). f_equal.
  destruct (String.eqb a b) eqn:E.
  - apply String.eqb_eq in E. subst. apply String.eqb_refl.
  - apply String.eqb_neq. intro K. apply String.eqb_neq in E. apply E. apply Inj; [left; reflexivity|left; reflexivity|exact K].
Qed.
Lemma prefixes_ne_map (f : string -> string) c q' :
  In q' (prefixes_ne (map f c)) <-> exists q, q' = map f q /\ In q (prefixes_ne c).
Proof.
  rewrite prefixes_ne_spec. split.
  - intros [Hne Hp]. apply is_prefix_spec in Hp. destruct Hp as [r Hp]. apply map_eq_app in Hp. destruct Hp as [q [r0 [E [Eq Er]]]].
    exists q. split; [symmetry; exact Eq|]. apply prefixes_ne_spec. split; [intro K; subst q; apply Hne; symmetry; exact Eq|].
    apply is_prefix_spec. exists r0. exact E.
  - intros [q [E Hq]]. apply prefixes_ne_spec in Hq. destruct Hq as [Hne Hp]. subst q'. split; [destruct q; [congruence|discriminate]|].
    apply is_prefix_spec in Hp. destruct Hp as [r Hp]. apply is_prefix_spec. exists (map f r). rewrite Hp, map_app. reflexivity.
Qed.

(* ================================================================ one tree: zones created for labels, generated leaves *)
Section One.
Variable root : string.
Variable ss : list istream.
Variable L : list path.
Variable asg : list (nat * path).
Variable out : list zobs.
Hypothesis NDS : NoDup (map sid ss).
Hypothesis SO : SynthOK ss L asg.
Hypothesis Hout : backend root L (map (synth_zone root asg) ss) = Ok out.
Let it := synth_order ss.
Let leaf := leaf_fn asg.

Lemma label_path_has_kid q : label_path it q -> kids L q <> [].
Proof.
  intros [s [Hs Hq]]. apply prefixes_ne_spec in Hq. destruct Hq as [Hne Hp]. apply synth_order_In in Hs. destruct Hs as [Hs Hl].
  destruct (so_leaf _ _ _ SO s Hs Hl) as [k [_ [B _]]].
  assert (P : is_prefix q (comps s ++ [oname k]) = true) by (eapply is_prefix_trans; [exact Hp|apply is_prefix_app]).
  apply prefix_cases in P. destruct P as [P|[c [r P]]].
  - exfalso. apply is_prefix_spec in Hp. destruct Hp as [r Hp]. rewrite Hp in P. rewrite <- app_assoc in P.
    assert (K : List.length (q ++ []) = List.length (q ++ r ++ [oname k])) by (rewrite app_nil_r; f_equal; exact P).
    rewrite !app_length in K. simpl in K. lia.
  - assert (K : In (q ++ [c]) L).
    { apply (so_closed _ _ _ SO (comps s ++ [oname k])); [exact B|destruct q; discriminate|]. apply is_prefix_spec. exists r. rewrite P, <- app_assoc. reflexivity. }
    apply kids_In in K. intro E. rewrite E in K. exact K.
Qed.

(* the zones that have subzones (and the root) are exactly the zones created for the labels *)
Lemma internal_char z : In z out ->
  (is_leaf out z = false \/ zo_path z = []) <-> (zo_path z = [] \/ label_path it (zo_path z)).
Proof.
  intro Hz. split.
  - intros [Lf|E]; [|left; exact E]. destruct (out_path_in root ss L asg out NDS SO Hout z Hz) as [E|K]; [left; exact E|right].
    destruct (so_src _ _ _ SO _ K) as [LP|AS]; [exact LP|exfalso].
    destruct (so_own _ _ _ SO _ AS) as [s [Hs [Hl G]]]. destruct (so_leaf _ _ _ SO s Hs Hl) as [k [A [_ [C _]]]].
    rewrite A in G. inversion G as [G']. rewrite G' in C.
    assert (T : is_leaf out z = true) by (apply (is_leaf_kids root ss L asg out NDS SO Hout z Hz); exact C). congruence.
  - intros [E|LP]; [right; exact E|left]. destruct (is_leaf out z) eqn:Lf; [exfalso|reflexivity].
    apply (is_leaf_kids root ss L asg out NDS SO Hout z Hz) in Lf. exact (label_path_has_kid _ LP Lf).
Qed.
Lemma zone_of_label_path q : q = [] \/ label_path it q -> exists z, In z out /\ zo_path z = q.
Proof. intros [E|LP]; apply (out_zone_of root ss L asg out NDS SO Hout); [left; exact E|right; apply (so_lab _ _ _ SO), LP]. Qed.

(* a zone whose only member is s keeps it in the hot collection iff s is hot *)
Lemma single_split z s : In z out -> In s ss -> members z = [sid s] ->
  map fst (zo_hot z) = (if shot s then [sid s] else []) /\ map fst (zo_cold z) = (if shot s then [] else [sid s]).
Proof.
  intros Hz Hs Hm. destruct (synth_chars root ss L asg out NDS SO Hout) as [_ Q]. destruct (Q z Hz) as [Qh Qc]. clear Q.
  assert (Kh : In (sid s) (map fst (zo_hot z)) -> shot s = true).
  { intro Hi. apply (Permutation_in _ Qh) in Hi. apply in_map_iff in Hi. destruct Hi as [y [Ey Hy]]. apply filter_In in Hy. destruct Hy as [Hy Py].
    assert (y = s) by (eapply sid_inj; eauto). subst y.
    apply Bool.andb_true_iff in Py. destruct Py as [Py _]. apply Bool.andb_true_iff in Py. tauto. }
  assert (Kc : In (sid s) (map fst (zo_cold z)) -> shot s = false).
  { intro Hi. apply (Permutation_in _ Qc) in Hi. apply in_map_iff in Hi. destruct Hi as [y [Ey Hy]]. apply filter_In in Hy. destruct Hy as [Hy Py].
    assert (y = s) by (eapply sid_inj; eauto). subst y.
    apply Bool.andb_true_iff in Py. destruct Py as [Py _]. apply Bool.andb_true_iff in Py. destruct Py as [_ Py]. apply Bool.negb_true_iff in Py. exact Py. }
  unfold members in Hm. apply app_eq_unit in Hm. destruct Hm as [[Eh Ec]|[Eh Ec]]; rewrite Eh, Ec in *.
  - rewrite (Kc (or_introl eq_refl)). split; reflexivity.
  - rewrite (Kh (or_introl eq_refl)). split; reflexivity.
Qed.

(* every labelled stream has a generated leaf of its own, directly below the zone its label names, holding it alone *)
Lemma own_leaf s : In s ss -> labelled s = true ->
  exists z, In z out /\ is_leaf out z = true /\ zo_path z <> [] /\ removelast (zo_path z) = comps s
    /\ map fst (zo_hot z) = (if shot s then [sid s] else []) /\ map fst (zo_cold z) = (if shot s then [] else [sid s]).
Proof.
  intros Hs Hl. destruct (so_leaf _ _ _ SO s Hs Hl) as [k [A [B [C _]]]].
  destruct (out_zone_of root ss L asg out NDS SO Hout _ (or_intror B)) as [z [Hz Ez]].
  assert (Lz : is_leaf out z = true) by (apply (is_leaf_kids root ss L asg out NDS SO Hout z Hz); rewrite Ez; exact C).
  assert (Hne : zo_path z <> []) by (rewrite Ez; destruct (comps s); discriminate).
  exists z. split; [exact Hz|]. split; [exact Lz|]. split; [exact Hne|]. split; [rewrite Ez, removelast_last; reflexivity|].
  destruct (leaf_single root ss L asg out NDS SO Hout z Hz Lz Hne) as [s2 [Hs2 [Hl2 [Hm _]]]].
  assert (O : occ s z = 1%nat).
  { rewrite (occ_char root ss L asg out NDS SO Hout s z Hs Hz), Hl. unfold leaf_fn. rewrite A, Ez, is_prefix_refl. reflexivity. }
  assert (Hi : In (sid s) (members z)) by (apply count_nat_pos_in; fold (occ s z); lia).
  rewrite Hm in Hi. destruct Hi as [Hi|[]]. assert (s2 = s) by (eapply sid_inj; eauto). subst s2.
  apply single_split; assumption.
Qed.
(* and every generated leaf is the own leaf of one labelled stream *)
Lemma leaf_owner z : In z out -> is_leaf out z = true -> zo_path z <> [] ->
  exists s, In s ss /\ labelled s = true /\ removelast (zo_path z) = comps s
    /\ map fst (zo_hot z) = (if shot s then [sid s] else []) /\ map fst (zo_cold z) = (if shot s then [] else [sid s]).
Proof.
  intros Hz Lz Hne. destruct (leaf_single root ss L asg out NDS SO Hout z Hz Lz Hne) as [s [Hs [Hl [Hm Hr]]]].
  exists s. split; [exact Hs|]. split; [exact Hl|]. split; [exact Hr|]. apply single_split; assumption.
Qed.
End One.

(* ================================================================ a problem and its twin *)
(* z' is the counterpart of z: both were created for labels (or are the roots) and the path of z' is the f-image of the path
   of z, or both are generated leaves below corresponding parents; they hold the same identities, hot and cold *)
Definition zone_corr (f : string -> string) (out out' : list zobs) (z z' : zobs) : Prop :=
  (((is_leaf out z = false \/ zo_path z = []) /\ (is_leaf out' z' = false \/ zo_path z' = []) /\ zo_path z' = map f (zo_path z))
   \/ (is_leaf out z = true /\ zo_path z <> [] /\ is_leaf out' z' = true /\ zo_path z' <> []
       /\ removelast (zo_path z') = map f (removelast (zo_path z))))
  /\ Permutation (map fst (zo_hot z)) (map fst (zo_hot z')) /\ Permutation (map fst (zo_cold z)) (map fst (zo_cold z')).

(* the definition spelled out *)
Lemma zone_corr_means f out out' z z' : zone_corr f out out' z z' <->
  (((is_leaf out z = false \/ zo_path z = []) /\ (is_leaf out' z' = false \/ zo_path z' = []) /\ zo_path z' = map f (zo_path z))
   \/ (is_leaf out z = true /\ zo_path z <> [] /\ is_leaf out' z' = true /\ zo_path z' <> []
       /\ removelast (zo_path z') = map f (removelast (zo_path z))))
  /\ Permutation (map fst (zo_hot z)) (map fst (zo_hot z')) /\ Permutation (map fst (zo_cold z)) (map fst (zo_cold z')).
Proof. reflexivity. Qed.

Section Twin.
Variables root root' : string.
Variables ss ss' : list istream.
Variable f : string -> string.
Variable g : istream -> istream.
Hypothesis ND : NoDup (map sid ss).
Hypothesis Pm : Permutation ss' (map g ss).
Hypothesis g_sid : forall s, In s ss -> sid (g s) = sid s.
Hypothesis g_shot : forall s, In s ss -> shot (g s) = shot s.
Hypothesis g_lab : forall s, In s ss -> labelled (g s) = labelled s.
Hypothesis g_comps : forall s, In s ss -> labelled s = true -> comps (g s) = map f (comps s).
(* the components that occur in the labels *)
Definition occurs (c : string) : Prop := exists s, In s ss /\ labelled s = true /\ In c (comps s).
Hypothesis f_inj : forall a b, occurs a -> occurs b -> f a = f b -> a = b.
Variables out out' : list zobs.
Hypothesis Hout : model_synth root ss = Ok out.
Hypothesis Hout' : model_synth root' ss' = Ok out'.

Lemma sid_twin : map sid (map g ss) = map sid ss.
Proof. rewrite map_map. apply map_ext_in. exact g_sid. Qed.
Lemma ND' : NoDup (map sid ss').
Proof. eapply Permutation_NoDup; [apply Permutation_sym, Permutation_map, Pm|]. rewrite sid_twin. exact ND. Qed.
Lemma in_twin s' : In s' ss' <-> exists s, In s ss /\ s' = g s.
Proof.
  split.
  - intro H. apply (Permutation_in _ Pm) in H. apply in_map_iff in H. destruct H as [s [E H]]. exists s. auto.
  - intros [s [H E]]. subst. apply (Permutation_in _ (Permutation_sym Pm)). apply in_map, H.
Qed.

Lemma label_path_occurs q c : label_path (synth_order ss) q -> In c q -> occurs c.
Proof.
  intros [s [Hs Hq]] Hc. apply synth_order_In in Hs. destruct Hs as [Hs Hl]. exists s. split; [exact Hs|]. split; [exact Hl|].
  apply prefixes_ne_spec in Hq. destruct Hq as [_ Hp]. apply is_prefix_spec in Hp. destruct Hp as [r Hp]. rewrite Hp. apply in_or_app. left. exact Hc.
Qed.

(* the zones created for labels in the twin are the f-images of those of the original *)
Lemma label_path_twin q' : label_path (synth_order ss') q' <-> exists q, q' = map f q /\ label_path (synth_order ss) q.
Proof.
  split.
  - intros [s' [Hs' Hq']]. apply synth_order_In in Hs'. destruct Hs' as [Hs' Hl']. apply in_twin in Hs'. destruct Hs' as [s [Hs E]]. subst s'.
    rewrite (g_lab s Hs) in Hl'. rewrite (g_comps s Hs Hl') in Hq'. apply prefixes_ne_map in Hq'. destruct Hq' as [q [E Hq]].
    exists q. split; [exact E|]. exists s. split; [apply synth_order_In; auto|exact Hq].
  - intros [q [E [s [Hs Hq]]]]. apply synth_order_In in Hs. destruct Hs as [Hs Hl]. exists (g s). split.
    + apply synth_order_In. split; [apply in_twin; eauto|rewrite (g_lab s Hs); exact Hl].
    + rewrite (g_comps s Hs Hl). apply prefixes_ne_map. eauto.
Qed.

(* the streams whose label passes through q in the original = those whose label passes through (map f q) in the twin *)
Lemma through_twin q s : q = [] \/ label_path (synth_order ss) q -> In s ss -> through (map f q) (g s) = through q s.
Proof.
  intros Hq Hs. unfold through. rewrite (g_lab s Hs). destruct (labelled s) eqn:Hl; [|reflexivity]. cbn [andb].
  fold (comps (g s)) (comps s). rewrite (g_comps s Hs Hl). apply is_prefix_map_inj.
  intros a b Ha Hb. apply f_inj.
  - destruct Hq as [Hq|Hq]; [subst q; contradiction|]. eapply label_path_occurs; eauto.
  - exists s. auto.
Qed.
Lemma selected_twin q (P : istream -> bool) : q = [] \/ label_path (synth_order ss) q -> (forall s, In s ss -> P (g s) = P s) ->
  Permutation (map sid (filter (fun s => through q s && P s) ss)) (map sid (filter (fun s => through (map f q) s && P s) ss')).
Proof.
  intros Hq HP. apply Permutation_sym. eapply Permutation_trans; [apply Permutation_map, perm_filter, Pm|].
  rewrite filter_map_comm, map_map.
  assert (E : filter (fun x => through (map f q) (g x) && P (g x)) ss = filter (fun s => through q s && P s) ss).
  { apply filter_ext_in. intros s Hs. rewrite (through_twin q s Hq Hs), (HP s Hs). reflexivity. }
  rewrite E. erewrite map_ext_in; [apply Permutation_refl|]. intros s Hs. apply filter_In in Hs. apply g_sid. tauto.
Qed.

Lemma internal_pair z z' : In z out -> In z' out' -> zo_path z = [] \/ label_path (synth_order ss) (zo_path z) ->
  zo_path z' = map f (zo_path z) -> zone_corr f out out' z z'.
Proof.
  intros Hz Hz' Hq E.
  destruct (model_synth_inv _ _ _ ND Hout) as [L [asg [SO Hb]]]. destruct (model_synth_inv _ _ _ ND' Hout') as [L' [asg' [SO' Hb']]].
  assert (I : is_leaf out z = false \/ zo_path z = []) by (apply (internal_char root ss L asg out ND SO Hb z Hz); exact Hq).
  assert (I' : is_leaf out' z' = false \/ zo_path z' = []).
  { apply (internal_char root' ss' L' asg' out' ND' SO' Hb' z' Hz'). rewrite E. destruct Hq as [Hq|Hq]; [left; rewrite Hq; reflexivity|right].
    apply label_path_twin. eauto. }
  destruct (conservation_thm root ss out ND Hout z Hz I) as [Ch Cc]. destruct (conservation_thm root' ss' out' ND' Hout' z' Hz' I') as [Ch' Cc']. rewrite E in Ch', Cc'.
  split; [left; auto|]. split.
  - eapply Permutation_trans; [exact Ch|]. eapply Permutation_trans; [|apply Permutation_sym, Ch']. apply (selected_twin _ shot Hq g_shot).
  - eapply Permutation_trans; [exact Cc|]. eapply Permutation_trans; [|apply Permutation_sym, Cc'].
    apply (selected_twin _ (fun s => negb (shot s)) Hq). intros s Hs. rewrite (g_shot s Hs). reflexivity.
Qed.

Lemma leaf_pair s z z' : In s ss -> labelled s = true ->
  is_leaf out z = true -> zo_path z <> [] -> removelast (zo_path z) = comps s ->
  map fst (zo_hot z) = (if shot s then [sid s] else []) -> map fst (zo_cold z) = (if shot s then [] else [sid s]) ->
  is_leaf out' z' = true -> zo_path z' <> [] -> removelast (zo_path z') = comps (g s) ->
  map fst (zo_hot z') = (if shot (g s) then [sid (g s)] else []) -> map fst (zo_cold z') = (if shot (g s) then [] else [sid (g s)]) ->
  zone_corr f out out' z z'.
Proof.
  intros Hs Hl Lz Nz Rz Hh Hc Lz' Nz' Rz' Hh' Hc'. rewrite (g_shot s Hs), (g_sid s Hs) in Hh', Hc'. rewrite (g_comps s Hs Hl) in Rz'.
  split; [right; repeat split; try assumption; rewrite Rz', Rz; reflexivity|]. rewrite Hh, Hc, Hh', Hc'. split; apply Permutation_refl.
Qed.

(* every zone of the original tree has its counterpart in the tree of the twin, ... *)
Theorem twin_forward z : In z out -> exists z', In z' out' /\ zone_corr f out out' z z'.
Proof.
  intro Hz. destruct (model_synth_inv _ _ _ ND Hout) as [L [asg [SO Hb]]]. destruct (model_synth_inv _ _ _ ND' Hout') as [L' [asg' [SO' Hb']]].
  destruct (is_leaf out z) eqn:Lz; [destruct (zo_path z) as [|c0 r0] eqn:Ep|].
  - (* the root without any zone below it *)
    destruct (zone_of_label_path root' ss' L' asg' out' ND' SO' Hb' [] (or_introl eq_refl)) as [z' [Hz' Ez']]. exists z'. split; [exact Hz'|].
    apply internal_pair; try assumption; [left; exact Ep|rewrite Ep; exact Ez'].
  - assert (Nz : zo_path z <> []) by (rewrite Ep; discriminate).
    destruct (leaf_owner root ss L asg out ND SO Hb z Hz Lz Nz) as [s [Hs [Hl [Rz [Hh Hc]]]]].
    assert (Hs' : In (g s) ss') by (apply in_twin; eauto). assert (Hl' : labelled (g s) = true) by (rewrite (g_lab s Hs); exact Hl).
    destruct (own_leaf root' ss' L' asg' out' ND' SO' Hb' (g s) Hs' Hl') as [z' [Hz' [Lz' [Nz' [Rz' [Hh' Hc']]]]]].
    exists z'. split; [exact Hz'|]. eapply leaf_pair; eauto.
  - assert (Hq : zo_path z = [] \/ label_path (synth_order ss) (zo_path z)) by (apply (internal_char root ss L asg out ND SO Hb z Hz); left; assumption).
    destruct (zone_of_label_path root' ss' L' asg' out' ND' SO' Hb' (map f (zo_path z))) as [z' [Hz' Ez']].
    { destruct Hq as [Hq|Hq]; [left; rewrite Hq; reflexivity|right; apply label_path_twin; eauto]. }
    exists z'. split; [exact Hz'|]. apply internal_pair; assumption.
Qed.

(* ... and the tree of the twin has no other zones *)
Theorem twin_backward z' : In z' out' -> exists z, In z out /\ zone_corr f out out' z z'.
Proof.
  intro Hz'. destruct (model_synth_inv _ _ _ ND Hout) as [L [asg [SO Hb]]]. destruct (model_synth_inv _ _ _ ND' Hout') as [L' [asg' [SO' Hb']]].
  destruct (is_leaf out' z') eqn:Lz'; [destruct (zo_path z') as [|c0 r0] eqn:Ep|].
  - destruct (zone_of_label_path root ss L asg out ND SO Hb [] (or_introl eq_refl)) as [z [Hz Ez]]. exists z. split; [exact Hz|].
    apply internal_pair; try assumption; [left; exact Ez|rewrite Ez, Ep; reflexivity].
  - assert (Nz' : zo_path z' <> []) by (rewrite Ep; discriminate).
    destruct (leaf_owner root' ss' L' asg' out' ND' SO' Hb' z' Hz' Lz' Nz') as [s' [Hs' [Hl' [Rz' [Hh' Hc']]]]].
    apply in_twin in Hs'. destruct Hs' as [s [Hs E]]. subst s'. assert (Hl : labelled s = true) by (rewrite <- (g_lab s Hs); exact Hl').
    destruct (own_leaf root ss L asg out ND SO Hb s Hs Hl) as [z [Hz [Lz [Nz [Rz [Hh Hc]]]]]].
    exists z. split; [exact Hz|]. eapply leaf_pair; eauto.
  - assert (Hq' : zo_path z' = [] \/ label_path (synth_order ss') (zo_path z')) by (apply (internal_char root' ss' L' asg' out' ND' SO' Hb' z' Hz'); left; assumption).
    assert (Hq : exists q, zo_path z' = map f q /\ (q = [] \/ label_path (synth_order ss) q)).
    { destruct Hq' as [Hq'|Hq']; [exists []; split; [exact Hq'|left; reflexivity]|]. apply label_path_twin in Hq'. destruct Hq' as [q [E Hq]]. exists q. auto. }
    destruct Hq as [q [E Hq]]. destruct (zone_of_label_path root ss L asg out ND SO Hb q Hq) as [z [Hz Ez]].
    exists z. split; [exact Hz|]. apply internal_pair; try assumption; rewrite Ez; assumption.
Qed.
End Twin.

(* ================================================================ renaming of zone-name components *)
(* the label with every component c replaced by f c (an empty label, and a label without any component, stay as they are) *)
Definition rename_label (f : string -> string) (l : string) : string :=
  if nonempty l then match split_label l with [] => l | cs => join (map f cs) end else l.
Definition rename_is (f : string -> string) (s : istream) : istream :=
  mkIS (sid s) (rename_label f (slabel s)) (sname s) (shot s) (sts s) (sduty s).
(* what a new name must satisfy so that the label cleaning of the code (split at "/", strip, drop blanks) reads it back:
   no separator inside, no leading / trailing white space, not empty *)
Definition clean_name (x : string) : Prop := nosep x /\ strip x = x /\ nonempty x = true.
Definition clean_name_b (x : string) : bool := negb (has_char sepc x) && String.eqb (strip x) x && nonempty x.
Lemma clean_name_b_ok x : clean_name_b x = true -> clean_name x.
Proof.
  unfold clean_name_b, clean_name, nosep. rewrite !Bool.andb_true_iff, Bool.negb_true_iff, String.eqb_eq. tauto.
Qed.

Lemma split_on_nosep a : nosep a -> split_on sepc a = [a].
Proof.
  unfold nosep. induction a as [|x a IH]; intro H; [reflexivity|]. cbn [has_char] in H. apply Bool.orb_false_iff in H. destruct H as [H1 H2].
  cbn [split_on]. rewrite H1, (IH H2). reflexivity.
Qed.
Lemma split_on_app_sep a rest : nosep a -> split_on sepc (a ++ String sepc rest) = a :: split_on sepc rest.
Proof.
  unfold nosep. induction a as [|x a IH]; intro H.
  - cbn [append split_on]. rewrite Ascii.eqb_refl. reflexivity.
  - cbn [has_char] in H. apply Bool.orb_false_iff in H. destruct H as [H1 H2]. cbn [append split_on]. rewrite H1, (IH H2). reflexivity.
Qed.
Lemma split_on_join l : l <> [] -> Forall nosep l -> split_on sepc (join l) = l.
Proof.
  induction l as [|a l IH]; intros Hne F; [congruence|]. inversion F as [|? ? Ha Fl]; subst. rewrite join_cons.
  destruct l as [|b l].
  - cbn [tl_str]. replace (a ++ "")%string with a by (clear; induction a; simpl; congruence). apply split_on_nosep, Ha.
  - unfold tl_str, seps. cbn [append]. rewrite (split_on_app_sep a _ Ha), IH; [reflexivity|discriminate|exact Fl].
Qed.
Lemma has_char_join2 a b l : has_char sepc (join (a :: b :: l)) = true.
Proof. rewrite join_cons. unfold tl_str, seps. rewrite has_char_app. cbn [append has_char]. rewrite Ascii.eqb_refl. apply Bool.orb_true_r. Qed.
Lemma nonempty_app_l a b : nonempty a = true -> nonempty (a ++ b) = true.
Proof. destruct a; [discriminate|reflexivity]. Qed.

Lemma split_label_join l : l <> [] -> Forall clean_name l -> split_label (join l) = l /\ nonempty (join l) = true.
Proof.
  intros Hne F. assert (Fn : Forall nosep l) by (eapply Forall_impl; [|exact F]; intros x [H _]; exact H). split.
  - unfold split_label. destruct l as [|a [|b l]]; [congruence| |].
    + inversion F as [|? ? [Ha _] _]; subst. unfold join. cbn [String.concat]. unfold nosep in Ha. rewrite Ha. reflexivity.
    + rewrite has_char_join2. unfold clean_parts. rewrite (split_on_join _ Hne Fn).
      clear Hne Fn. induction F as [|x r [_ [Hs Hn]] F IH]; [reflexivity|]. cbn [map filter]. rewrite Hs, Hn, IH. reflexivity.
  - destruct l as [|a l]; [congruence|]. rewrite join_cons. inversion F as [|? ? [_ [_ Hn]] _]; subst. apply nonempty_app_l, Hn.
Qed.

Lemma rename_label_ok f l : (forall c, In c (split_label l) -> clean_name (f c)) ->
  nonempty (rename_label f l) = nonempty l /\ (nonempty l = true -> split_label (rename_label f l) = map f (split_label l)).
Proof.
  intro G. unfold rename_label. destruct (nonempty l) eqn:Hn; [|split; [exact Hn|discriminate]].
  destruct (split_label l) as [|c cs] eqn:E; [split; [exact Hn|intros _; rewrite E; reflexivity]|].
  destruct (split_label_join (map f (c :: cs))) as [A B]; [discriminate| |split; [exact B|intros _; exact A]].
  apply Forall_forall. intros x Hx. apply in_map_iff in Hx. destruct Hx as [y [Ey Hy]]. subst x. apply G, Hy.
Qed.

(* a problem, and the same problem with the zone names renamed and the streams given in any other order:
   the two trees correspond zone by zone *)
Theorem rename_reorder_tree root root' ss ss' f out out' :
  NoDup (map sid ss) -> Permutation ss' (map (rename_is f) ss) ->
  (forall c, occurs ss c -> clean_name (f c)) -> (forall a b, occurs ss a -> occurs ss b -> f a = f b -> a = b) ->
  model_synth root ss = Ok out -> model_synth root' ss' = Ok out' ->
  (forall z, In z out -> exists z', In z' out' /\ zone_corr f out out' z z')
  /\ (forall z', In z' out' -> exists z, In z out /\ zone_corr f out out' z z').
Proof.
  intros ND Pm G Inj Ho Ho'.
  assert (Gs : forall s, In s ss -> labelled s = true -> forall c, In c (split_label (slabel s)) -> clean_name (f c)).
  { intros s Hs Hl c Hc. apply G. exists s. auto. }
  assert (g_lab : forall s, In s ss -> labelled (rename_is f s) = labelled s).
  { intros s Hs. unfold labelled. cbn [slabel rename_is]. destruct (nonempty (slabel s)) eqn:Hl.
    - destruct (rename_label_ok f (slabel s) (Gs s Hs Hl)) as [A _]. rewrite A. exact Hl.
    - unfold rename_label. rewrite Hl. exact Hl. }
  assert (g_comps : forall s, In s ss -> labelled s = true -> comps (rename_is f s) = map f (comps s)).
  { intros s Hs Hl. unfold comps. cbn [slabel rename_is]. destruct (rename_label_ok f (slabel s) (Gs s Hs Hl)) as [_ B]. apply B, Hl. }
  split; [intros z Hz; eapply (twin_forward root root' ss ss' f (rename_is f)); eauto
         |intros z' Hz'; eapply (twin_backward root root' ss ss' f (rename_is f)); eauto].
Qed.

(* the same problem with its streams in another order: the same zones (same paths for the zones created for labels, a
   generated leaf below the same parent for every stream) holding the same stream identities *)
Theorem reorder_tree root ss ss' out out' :
  NoDup (map sid ss) -> Permutation ss' ss -> model_synth root ss = Ok out -> model_synth root ss' = Ok out' ->
  (forall z, In z out -> exists z', In z' out' /\ zone_corr (fun c => c) out out' z z')
  /\ (forall z', In z' out' -> exists z, In z out /\ zone_corr (fun c => c) out out' z z').
Proof.
  intros ND Pm Ho Ho'. assert (Pm' : Permutation ss' (map (fun s => s) ss)) by (rewrite map_id; exact Pm).
  assert (C : forall s, In s ss -> labelled s = true -> comps s = map (fun c => c) (comps s)) by (intros; rewrite map_id; reflexivity).
  split; [intros z Hz; eapply (twin_forward root root ss ss' (fun c => c) (fun s => s)); eauto
         |intros z' Hz'; eapply (twin_backward root root ss ss' (fun c => c) (fun s => s)); eauto].
Qed.

(* ---------------------------------------------------------------- a plain renaming meets the side conditions *)
Local Open Scope string_scope.
Definition ex_f (c : string) : string := if String.eqb c "A" then "Plant1" else if String.eqb c "B" then "Unit 7" else c.
Definition ex_ss : list istream :=
  [mkIS 0 "A" "H1" true 200 1000; mkIS 1 "A/B" "C1" false 50 800; mkIS 2 "B" "H2" true 180 600; mkIS 3 "" "C9" false 20 100].
Example ex_rename_conditions :
  map (fun s => slabel (rename_is ex_f s)) ex_ss = ["Plant1"; "Plant1/Unit 7"; "Unit 7"; ""]
  /\ (forall c, occurs ex_ss c -> clean_name (ex_f c))
  /\ (forall a b, occurs ex_ss a -> occurs ex_ss b -> ex_f a = ex_f b -> a = b).
Proof.
  assert (O : forall c, occurs ex_ss c -> c = "A" \/ c = "B").
  { intros c [s [Hs [Hl Hc]]]. unfold ex_ss in Hs. cbn [In] in Hs.
    destruct Hs as [Hs|[Hs|[Hs|[Hs|[]]]]]; subst s; vm_compute in Hc; vm_compute in Hl; try discriminate; intuition. }
  split; [vm_compute; reflexivity|]. split.
  - intros c Hc. apply clean_name_b_ok. destruct (O c Hc); subst c; vm_compute; reflexivity.
  - intros a b Ha Hb. destruct (O a Ha), (O b Hb); subst a b; vm_compute; intro E; try reflexivity; discriminate.
Qed.
(* the listing ORDER of the zones follows the sort order of the label strings, which a renaming does not respect:
   "A" < "B" but "Plant1" < "Unit 7" happens to agree, so take the renaming A -> Z, B -> Y *)
Definition ex_f2 (c : string) : string := if String.eqb c "A" then "Z" else if String.eqb c "B" then "Y" else c.
Definition zpaths (r : result (list zobs)) : list path := match r with Ok o => map zo_path o | Err _ => [] end.
Example rename_listing_order_refuted :
  zpaths (model_synth "Site" ex_ss) = [[]; ["A"]; ["A"; "B"]; ["B"]; ["A"; "O1"]; ["A"; "B"; "O1"]; ["B"; "O1"]]
  /\ zpaths (model_synth "Site" (map (rename_is ex_f2) ex_ss)) = [[]; ["Y"]; ["Z"]; ["Z"; "Y"]; ["Y"; "O1"]; ["Z"; "O1"]; ["Z"; "Y"; "O1"]]
  /\ zpaths (model_synth "Site" (map (rename_is ex_f2) ex_ss)) <> map (map ex_f2) (zpaths (model_synth "Site" ex_ss)).
Proof. vm_compute. repeat split; try reflexivity. discriminate. Qed.

(* the NUMBER in a generated name is not preserved either when a renamed component looks like a generated name: labels "A"
   and "A/O1" -- the stream labelled "A" receives A/O2 because O1 is taken by a label; after O1 -> X it receives A/O1.
   (Its counterpart in the sense of zone_corr is that leaf: same parent, same stream.) *)
Definition ex_ss3 : list istream := [mkIS 0 "A" "H1" true 200 1000; mkIS 1 "A/O1" "C1" false 50 800].
Definition ex_f3 (c : string) : string := if String.eqb c "O1" then "X" else c.
Definition leaf_path_of (r : result (list zobs)) (i : nat) : list path :=
  match r with Ok o => map zo_path (filter (fun z => is_leaf o z && existsb (Nat.eqb i) (members z)) o) | Err _ => [] end.
Example rename_generated_number_refuted :
  leaf_path_of (model_synth "Site" ex_ss3) 0 = [["A"; "O2"]]
  /\ leaf_path_of (model_synth "Site" (map (rename_is ex_f3) ex_ss3)) 0 = [["A"; "O1"]]
  /\ leaf_path_of (model_synth "Site" ex_ss3) 1 = [["A"; "O1"; "O1"]]
  /\ leaf_path_of (model_synth "Site" (map (rename_is ex_f3) ex_ss3)) 1 = [["A"; "X"; "O1"]].
Proof. vm_compute. repeat split; reflexivity. Qed.
