(* Placement + bottom-up import (data_preparation._get_process_streams_in_each_subzone, repaired a2806c0, and
   Zone.import_hot_and_cold_streams_from_sub_zones): when every non-empty stream label is the full path of a leaf zone,
   every zone ends up holding exactly (as a multiset of stream identities, hot and cold separately) the streams whose
   leaf lies at or below it.  No stream is matched by relative suffix, no add_items call fails. *)
From OP Require Import gen.Consts gen.ZoneTreeConsts model.Base model.Collection model.ZoneTree
  proofs.CollectionRefine proofs.ZoneTreeStrings proofs.ZoneTreeSynth.
From Coq Require Import String Ascii Lia Permutation.

(* ---------------------------------------------------------------- generic list facts *)
Lemma filter_or_disjoint {A} (a b : A -> bool) l :
  (forall x, In x l -> a x = true -> b x = true -> False) ->
  Permutation (filter (fun x => a x || b x) l) (filter a l ++ filter b l).
Proof.
  induction l as [|x r IH]; intro D; simpl; [constructor|].
  assert (D' : forall y, In y r -> a y = true -> b y = true -> False) by (intros y Hy; apply D; right; exact Hy).
  specialize (IH D'). destruct (a x) eqn:Ea; simpl.
  - destruct (b x) eqn:Eb; [exfalso; eapply D; eauto; left; reflexivity|]. constructor. exact IH.
  - destruct (b x) eqn:Eb; [|exact IH]. eapply Permutation_trans; [apply perm_skip, IH|apply Permutation_middle].
Qed.

Lemma filter_partition {A K} (part : K -> A -> bool) (l : list A) (ks : list K) :
  NoDup ks ->
  (forall x k1 k2, In x l -> In k1 ks -> In k2 ks -> part k1 x = true -> part k2 x = true -> k1 = k2) ->
  Permutation (filter (fun x => existsb (fun k => part k x) ks) l) (flat_map (fun k => filter (part k) l) ks).
Proof.
  induction ks as [|k r IH]; intros ND D; simpl.
  - clear D. induction l; simpl; [constructor|assumption].
  - inversion ND as [|? ? Hk Hr]; subst.
    assert (D1 : forall x, In x l -> part k x = true -> existsb (fun k' => part k' x) r = true -> False).
    { intros x Hx H1 H2. apply existsb_exists in H2. destruct H2 as [k2 [Hk2 H2]].
      assert (k = k2) by (eapply D; eauto; [left; reflexivity|right; exact Hk2]). subst. contradiction. }
    eapply Permutation_trans; [apply (filter_or_disjoint _ _ _ D1)|]. apply Permutation_app_head, IH; [exact Hr|].
    intros x k1 k2 Hx H1 H2. apply D; [exact Hx|right; exact H1|right; exact H2].
Qed.

Lemma filter_filter {A} (f g : A -> bool) l : filter f (filter g l) = filter (fun x => g x && f x) l.
Proof. induction l as [|x r IH]; simpl; [reflexivity|]. destruct (g x); simpl; [destruct (f x); rewrite IH; reflexivity|exact IH]. Qed.
Lemma filter_false {A} (f : A -> bool) l : (forall x, In x l -> f x = false) -> filter f l = [].
Proof. induction l as [|x r IH]; intro H; simpl; [reflexivity|]. rewrite (H x (or_introl eq_refl)). apply IH. intros y Hy. apply H. right. exact Hy. Qed.
Lemma perm_filter {A} (f : A -> bool) l l' : Permutation l l' -> Permutation (filter f l) (filter f l').
Proof. induction 1; simpl; try constructor; auto.
  - destruct (f x); [constructor|]; assumption.
  - destruct (f x), (f y); try constructor; apply Permutation_refl.
  - eapply Permutation_trans; eassumption. Qed.

Lemma existsb_const_false {A} (l : list A) : existsb (fun _ => false) l = false.
Proof. induction l; simpl; auto. Qed.

Lemma max_len_ge L p : In p L -> (List.length p <= max_len L)%nat.
Proof. induction L as [|q r IH]; simpl; intros []; [subst; lia|]. specialize (IH H). lia. Qed.

Lemma map_res_ok {A B} (f : A -> result B) (R : A -> B -> Prop) l :
  (forall x, In x l -> exists y, f x = Ok y /\ R x y) -> exists ys, map_res f l = Ok ys /\ Forall2 R l ys.
Proof.
  induction l as [|x r IH]; intro H; simpl; [exists []; split; [reflexivity|constructor]|].
  destruct (H x (or_introl eq_refl)) as [y [E Ry]]. rewrite E. simpl.
  destruct (IH (fun z Hz => H z (or_intror Hz))) as [ys [E2 F]]. rewrite E2. simpl. exists (y :: ys). split; [reflexivity|constructor; assumption].
Qed.

Definition zsid (z : zstream) : nat := sid (zs_s z).
Definition mids (it : citems) : list nat := map mid (vals it).

(* ---------------------------------------------------------------- collections never fail and never lose a member *)
Lemma place_fold_ok l : forall h c, NoDup (keys h) -> NoDup (keys c) ->
  exists h' c', fold_res place_one l (h, c) = Ok (h', c') /\ NoDup (keys h') /\ NoDup (keys c')
    /\ mids h' = mids h ++ map zsid (filter (fun z => shot (zs_s z)) l)
    /\ mids c' = mids c ++ map zsid (filter (fun z => negb (shot (zs_s z))) l).
Proof.
  induction l as [|z r IH]; intros h c Nh Nc; simpl.
  - exists h, c. rewrite !app_nil_r. auto.
  - unfold place_one at 1. cbn [fst snd]. destruct (shot (zs_s z)) eqn:Eh; cbn [negb].
    + destruct (add_no_loss h (mem_of (zs_s z)) (Some (hot_key z)) Nh) as [h1 [E [V [N1 _]]]]. rewrite E. cbn [bind].
      destruct (IH h1 c N1 Nc) as [h' [c' [E2 [A [B [C D]]]]]]. exists h', c'. split; [exact E2|]. split; [exact A|]. split; [exact B|].
      split; [|exact D]. rewrite C. unfold mids. rewrite V, map_app. cbn [map app]. rewrite <- app_assoc. reflexivity.
    + destruct (add_no_loss c (mem_of (zs_s z)) None Nc) as [c1 [E [V [N1 _]]]]. rewrite E. cbn [bind].
      destruct (IH h c1 Nh N1) as [h' [c' [E2 [A [B [C D]]]]]]. exists h', c'. split; [exact E2|]. split; [exact A|]. split; [exact B|].
      split; [exact C|]. rewrite D. unfold mids. rewrite V, map_app. cbn [map app]. rewrite <- app_assoc. reflexivity.
Qed.

Lemma import_fold_ok zname ms : forall dst, NoDup (keys dst) ->
  exists dst', fold_res (fun d m => add_items d m (Some (zname ++ import_key_sep ++ mname m)%string) true) ms dst = Ok dst'
               /\ NoDup (keys dst') /\ vals dst' = vals dst ++ ms.
Proof.
  induction ms as [|m r IH]; intros dst ND; cbn [fold_res].
  - exists dst. rewrite app_nil_r. auto.
  - destruct (add_no_loss dst m (Some (zname ++ import_key_sep ++ mname m)%string) ND) as [d1 [E [V [N1 _]]]]. rewrite E. cbn [bind].
    destruct (IH d1 N1) as [d' [E2 [N2 V2]]]. exists d'. split; [exact E2|]. split; [exact N2|]. rewrite V2, V, <- app_assoc. reflexivity.
Qed.
Lemma import_from_ok zname dst src : NoDup (keys dst) ->
  exists dst', import_from zname dst src = Ok dst' /\ NoDup (keys dst') /\ Permutation (mids dst') (mids dst ++ mids src).
Proof.
  intro ND. unfold import_from. destruct (import_fold_ok zname (iter_items src) dst ND) as [d' [E [N V]]].
  exists d'. split; [exact E|]. split; [exact N|]. unfold mids. rewrite V, map_app. apply Permutation_app_head, Permutation_map.
  unfold iter_items. apply sort_by_perm.
Qed.

Lemma dedup_sid_id l : forall seen, NoDup (map zsid l) -> (forall z, In z l -> ~ In (zsid z) seen) -> dedup_sid seen l = l.
Proof.
  induction l as [|z r IH]; intros seen ND F; simpl; [reflexivity|].
  inversion ND as [|? ? Hz Hr]; subst.
  destruct (existsb (Nat.eqb (sid (zs_s z))) seen) eqn:E.
  - exfalso. apply existsb_exists in E. destruct E as [x [Hx E]]. apply Nat.eqb_eq in E. subst. apply (F z (or_introl eq_refl)). exact Hx.
  - f_equal. apply IH; [exact Hr|]. intros y Hy [K|K]; [|apply (F y (or_intror Hy)), K].
    apply Hz. unfold zsid in *. rewrite K. apply (in_map (fun z => sid (zs_s z))), Hy.
Qed.

(* ================================================================ the resolved situation *)
Section Backend.
Variable root : string.
Variable L : list path.
Variable zs0 : list zstream.
Variable leaf : nat -> path.
Hypothesis HND : NoDup L.
Hypothesis Hclosed : prefix_closed L.
Hypothesis Hnonil : ~ In [] L.
Hypothesis Hnosep : Forall (Forall nosep) L.
Hypothesis Hsid : NoDup (map zsid zs0).
(* every stream whose zone attribute is non-empty carries the full path string of a childless zone *)
Hypothesis Hres : forall z, In z zs0 -> nonempty (zs_zone z) = true ->
  zs_zone z = pathstr root (leaf (zsid z)) /\ In (leaf (zsid z)) L /\ kids L (leaf (zsid z)) = [].

Let lf (z : zstream) : path := leaf (zsid z).
Let zs : list zstream := filter (fun z => nonempty (zs_zone z)) (sort_s (fun a b => name_le (zs_s a) (zs_s b)) zs0).
Let known : list string := map (pathstr root) ([] :: L).

Lemma zs_perm : Permutation zs (filter (fun z => nonempty (zs_zone z)) zs0).
Proof. apply perm_filter, sort_s_perm. Qed.
Lemma zs_in z : In z zs -> In z zs0 /\ nonempty (zs_zone z) = true.
Proof. intro H. apply (Permutation_in _ zs_perm) in H. apply filter_In in H. exact H. Qed.
Lemma nodup_map_filter {A B} (f : A -> B) (g : A -> bool) l : NoDup (map f l) -> NoDup (map f (filter g l)).
Proof.
  induction l as [|x r IH]; simpl; intro ND; [constructor|]. inversion ND as [|? ? Hx Hr]; subst.
  destruct (g x); simpl; [constructor|]; auto. intro K. apply Hx. apply in_map_iff in K. destruct K as [y [E K]].
  apply filter_In in K. apply in_map_iff. exists y. tauto.
Qed.
Lemma zs_nodup : NoDup (map zsid zs).
Proof.
  eapply Permutation_NoDup; [apply Permutation_sym, Permutation_map, zs_perm|]. apply nodup_map_filter, Hsid.
Qed.

Lemma zone_nosep p : In p ([] :: L) -> Forall nosep p.
Proof. intros [H|H]; [subst; constructor|]. rewrite Forall_forall in Hnosep. apply Hnosep, H. Qed.

Lemma zone_str_eq z p : In z zs -> In p ([] :: L) -> String.eqb (zs_zone z) (pathstr root p) = path_eqb (lf z) p.
Proof.
  intros Hz Hp. apply zs_in in Hz. destruct Hz as [Hz Hn]. destruct (Hres z Hz Hn) as [E [Hl _]]. rewrite E.
  destruct (path_eqb (lf z) p) eqn:Q.
  - apply path_eqb_eq in Q. unfold lf in Q. rewrite Q. apply String.eqb_refl.
  - apply String.eqb_neq. intro K. apply pathstr_inj in K; [|apply zone_nosep; right; exact Hl|apply zone_nosep, Hp].
    apply path_eqb_neq in Q. apply Q. exact K.
Qed.

Lemma matched_eq p : In p ([] :: L) -> matched root known zs p = filter (fun z => path_eqb (lf z) p) zs.
Proof.
  intro Hp. unfold matched.
  rewrite (filter_false (fun z => negb (mem_str (zs_zone z) known) && _)).
  - rewrite app_nil_r. rewrite dedup_sid_id.
    + apply filter_ext_in. intros z Hz. apply zone_str_eq; assumption.
    + apply nodup_map_filter, zs_nodup.
    + intros z _ [].
  - intros z Hz. apply zs_in in Hz. destruct Hz as [Hz Hn]. destruct (Hres z Hz Hn) as [E [Hl _]].
    assert (M : mem_str (zs_zone z) known = true).
    { apply mem_str_In. unfold known. rewrite E. apply in_map. right. exact Hl. }
    rewrite M. reflexivity.
Qed.

Definition selh (p : path) : list nat := map zsid (filter (fun z => shot (zs_s z) && is_prefix p (lf z)) zs).
Definition selc (p : path) : list nat := map zsid (filter (fun z => negb (shot (zs_s z)) && is_prefix p (lf z)) zs).

(* a childless zone (not the root): prefix of a leaf path = that leaf path *)
Lemma leaf_prefix_eq p z : In p L -> kids L p = [] -> In z zs -> is_prefix p (lf z) = path_eqb (lf z) p.
Proof.
  intros Hp Hk Hz. apply zs_in in Hz. destruct Hz as [Hz Hn]. destruct (Hres z Hz Hn) as [_ [Hl _]].
  destruct (path_eqb (lf z) p) eqn:Q.
  - apply path_eqb_eq in Q. rewrite Q. apply is_prefix_refl.
  - destruct (is_prefix p (lf z)) eqn:P; [|reflexivity]. exfalso. apply prefix_cases in P. destruct P as [P|[c [r P]]].
    + apply path_eqb_neq in Q. apply Q. symmetry. exact P.
    + assert (K : In (p ++ [c]) L).
      { apply (Hclosed (lf z)); [exact Hl|destruct p; discriminate|]. apply is_prefix_spec. exists r. rewrite P, <- app_assoc. reflexivity. }
      apply kids_In in K. rewrite Hk in K. contradiction.
Qed.

Lemma placed_ok p : In p L -> kids L p = [] ->
  exists h c, placed root known zs p = Ok (h, c) /\ NoDup (keys h) /\ NoDup (keys c) /\ mids h = selh p /\ mids c = selc p.
Proof.
  intros Hp Hk. unfold placed. rewrite matched_eq by (right; exact Hp).
  destruct (place_fold_ok (filter (fun z => path_eqb (lf z) p) zs) [] [] (NoDup_nil _) (NoDup_nil _)) as [h [c [E [A [B [C D]]]]]].
  exists h, c. split; [exact E|]. split; [exact A|]. split; [exact B|]. simpl in C, D. rewrite C, D. unfold selh, selc. rewrite !filter_filter.
  split; f_equal; apply filter_ext_in; intros z Hz; rewrite (leaf_prefix_eq p z Hp Hk Hz); apply Bool.andb_comm.
Qed.

(* a zone with subzones (or the root): the streams below it are split among its children *)
Lemma split_among_kids p (f : zstream -> bool) : (In p L /\ kids L p <> []) \/ p = [] ->
  Permutation (map zsid (filter (fun z => f z && is_prefix p (lf z)) zs))
              (flat_map (fun c => map zsid (filter (fun z => f z && is_prefix (p ++ [c]) (lf z)) zs)) (kids L p)).
Proof.
  intro Hp.
  assert (Q : forall z, In z zs -> (f z && is_prefix p (lf z)) = existsb (fun c => f z && is_prefix (p ++ [c]) (lf z)) (kids L p)).
  { intros z Hz. apply zs_in in Hz. destruct Hz as [Hz Hn]. destruct (Hres z Hz Hn) as [_ [Hl Hkz]].
    destruct (f z); cbn [andb]; [|symmetry; apply existsb_const_false].
    destruct (is_prefix p (lf z)) eqn:P.
    - symmetry. apply existsb_exists. apply prefix_cases in P. destruct P as [P|[c [r P]]].
      + exfalso. destruct Hp as [[_ Hk]|Hp]; [apply Hk; rewrite P; exact Hkz|]. subst p. apply Hnonil. rewrite P. exact Hl.
      + exists c. assert (Pc : is_prefix (p ++ [c]) (lf z) = true) by (apply is_prefix_spec; exists r; rewrite P, <- app_assoc; reflexivity).
        split; [|exact Pc]. apply kids_In. apply (Hclosed (lf z)); [exact Hl|destruct p; discriminate|exact Pc].
    - symmetry. apply Bool.not_true_is_false. intro K. apply existsb_exists in K. destruct K as [c [_ K]].
      assert (is_prefix p (lf z) = true); [|congruence]. eapply is_prefix_trans; [apply is_prefix_app|exact K]. }
  rewrite (filter_ext_in _ _ _ Q).
  eapply Permutation_trans; [apply Permutation_map, (filter_partition (fun c z => f z && is_prefix (p ++ [c]) (lf z)))|].
  - apply kids_nodup, HND.
  - intros z c1 c2 _ _ _ H1 H2. apply Bool.andb_true_iff in H1, H2. destruct H1 as [_ H1], H2 as [_ H2].
    apply is_prefix_spec in H1, H2. destruct H1 as [r1 H1], H2 as [r2 H2]. rewrite H1 in H2. rewrite <- !app_assoc in H2.
    apply app_inv_head in H2. inversion H2. reflexivity.
  - clear. induction (kids L p) as [|c r IH]; simpl; [constructor|]. rewrite map_app. apply Permutation_app_head, IH.
Qed.

Definition pl := placed root known zs.

Lemma kids_fold_ok fuel p ks :
  (forall c, In c ks -> exists h c', zone_items fuel L pl false (p ++ [c]) = Ok (h, c') /\
                         Permutation (mids h) (selh (p ++ [c])) /\ Permutation (mids c') (selc (p ++ [c]))) ->
  forall acc : citems * citems, NoDup (keys (fst acc)) -> NoDup (keys (snd acc)) ->
  exists h c', fold_res (fun acc c =>
             bind (zone_items fuel L pl false (p ++ [c])) (fun sub =>
             bind (import_from c (fst acc) (fst sub)) (fun h =>
             bind (import_from c (snd acc) (snd sub)) (fun cc => Ok (h, cc))))) ks acc = Ok (h, c')
    /\ NoDup (keys h) /\ NoDup (keys c')
    /\ Permutation (mids h) (mids (fst acc) ++ flat_map (fun c => selh (p ++ [c])) ks)
    /\ Permutation (mids c') (mids (snd acc) ++ flat_map (fun c => selc (p ++ [c])) ks).
Proof.
  induction ks as [|c r IH]; intros Hk acc Nh Nc; cbn [fold_res flat_map].
  - exists (fst acc), (snd acc). rewrite !app_nil_r. destruct acc. simpl. repeat split; auto.
  - destruct (Hk c (or_introl eq_refl)) as [sh [sc [E [Ph Pc]]]]. rewrite E. cbn [bind fst snd].
    destruct (import_from_ok c (fst acc) sh Nh) as [h1 [E1 [N1 P1]]]. rewrite E1. cbn [bind].
    destruct (import_from_ok c (snd acc) sc Nc) as [c1 [E2 [N2 P2]]]. rewrite E2. cbn [bind].
    destruct (IH (fun x Hx => Hk x (or_intror Hx)) (h1, c1) N1 N2) as [h' [c' [E3 [A [B [C D]]]]]].
    exists h', c'. split; [exact E3|]. split; [exact A|]. split; [exact B|]. cbn [fst snd] in C, D. split.
    + eapply Permutation_trans; [exact C|]. rewrite app_assoc. apply Permutation_app_tail.
      eapply Permutation_trans; [exact P1|]. apply Permutation_app_head, Ph.
    + eapply Permutation_trans; [exact D|]. rewrite app_assoc. apply Permutation_app_tail.
      eapply Permutation_trans; [exact P2|]. apply Permutation_app_head, Pc.
Qed.

Lemma zone_items_ok fuel : forall p is_root, In p ([] :: L) -> (is_root = true <-> p = []) -> (max_len L < fuel + List.length p)%nat ->
  exists h c, zone_items fuel L pl is_root p = Ok (h, c) /\ Permutation (mids h) (selh p) /\ Permutation (mids c) (selc p).
Proof.
  induction fuel as [|f IH]; intros p is_root Hp Hr Hf.
  - exfalso. destruct Hp as [Hp|Hp]; [subst; simpl in Hf; lia|]. apply max_len_ge in Hp. lia.
  - cbn [zone_items]. destruct (negb is_root && Nat.eqb (List.length (kids L p)) 0) eqn:Q.
    + apply Bool.andb_true_iff in Q. destruct Q as [Q1 Q2]. apply Nat.eqb_eq in Q2. apply List.length_zero_iff_nil in Q2.
      assert (Hp' : In p L). { destruct Hp as [Hp|Hp]; [|exact Hp]. subst. destruct is_root; [discriminate|]. exfalso. destruct Hr as [_ Hr]. specialize (Hr eq_refl). discriminate. }
      destruct (placed_ok p Hp' Q2) as [h [c [E [_ [_ [A B]]]]]]. exists h, c. split; [exact E|]. rewrite A, B. split; apply Permutation_refl.
    + assert (Hint : (In p L /\ kids L p <> []) \/ p = []).
      { destruct is_root eqn:R; [right; apply Hr; reflexivity|left]. simpl in Q. apply Nat.eqb_neq in Q.
        split; [destruct Hp as [Hp|Hp]; [subst; exfalso; destruct Hr as [_ Hr]; specialize (Hr eq_refl); discriminate|exact Hp]|].
        intro K. rewrite K in Q. simpl in Q. lia. }
      destruct (kids_fold_ok f p (kids L p)) with (acc := (@nil (string * member), @nil (string * member))) as [h [c [E [_ [_ [A B]]]]]].
      * intros c Hc. apply kids_In in Hc. apply IH; [right; exact Hc|split; [discriminate|intro K; destruct p; discriminate]|].
        rewrite app_length. simpl. lia.
      * constructor.
      * constructor.
      * exists h, c. split; [exact E|]. cbn [fst snd mids vals map app] in A, B. split.
        -- eapply Permutation_trans; [exact A|]. apply Permutation_sym. unfold selh. apply (split_among_kids p (fun z => shot (zs_s z))), Hint.
        -- eapply Permutation_trans; [exact B|]. apply Permutation_sym. unfold selc. apply (split_among_kids p (fun z => negb (shot (zs_s z)))), Hint.
Qed.

(* stated over the caller's stream list (any order) *)
Definition below_h (p : path) : list nat :=
  map zsid (filter (fun z => nonempty (zs_zone z) && shot (zs_s z) && is_prefix p (lf z)) zs0).
Definition below_c (p : path) : list nat :=
  map zsid (filter (fun z => nonempty (zs_zone z) && negb (shot (zs_s z)) && is_prefix p (lf z)) zs0).
Lemma sel_below f : Permutation (map zsid (filter f zs)) (map zsid (filter (fun z => nonempty (zs_zone z) && f z) zs0)).
Proof.
  apply Permutation_map. eapply Permutation_trans; [apply perm_filter, zs_perm|]. rewrite filter_filter. apply Permutation_refl.
Qed.

Theorem backend_ok : exists out, backend root L zs0 = Ok out /\ map zo_path out = [] :: L /\
  forall z, In z out -> Permutation (map fst (zo_hot z)) (below_h (zo_path z)) /\ Permutation (map fst (zo_cold z)) (below_c (zo_path z)).
Proof.
  unfold backend, backend_with. fold zs. fold known. fold pl.
  destruct (map_res_ok (fun p => bind (zone_items (S (max_len L)) L pl (Nat.eqb (List.length p) 0) p)
                                      (fun hc => Ok (mkZO p (entries (fst hc)) (entries (snd hc)))))
             (fun p z => zo_path z = p /\ Permutation (map fst (zo_hot z)) (below_h p) /\ Permutation (map fst (zo_cold z)) (below_c p))
             ([] :: L)) as [out [E F]].
  - intros p Hp. destruct (zone_items_ok (S (max_len L)) p (Nat.eqb (List.length p) 0) Hp) as [h [c [E [A B]]]].
    + rewrite Nat.eqb_eq. split; [apply List.length_zero_iff_nil|intro K; subst; reflexivity].
    + lia.
    + rewrite E. cbn [bind fst snd]. eexists. split; [reflexivity|]. cbn [zo_path zo_hot zo_cold]. split; [reflexivity|].
      assert (Me : forall it, map fst (entries it) = mids it) by (intro it; unfold entries, mids, vals; rewrite !map_map; reflexivity).
      rewrite !Me. split.
      * eapply Permutation_trans; [exact A|]. unfold selh, below_h. eapply Permutation_trans; [apply sel_below|].
        apply Permutation_map. erewrite filter_ext; [apply Permutation_refl|]. intro z. apply Bool.andb_assoc.
      * eapply Permutation_trans; [exact B|]. unfold selc, below_c. eapply Permutation_trans; [apply sel_below|].
        apply Permutation_map. erewrite filter_ext; [apply Permutation_refl|]. intro z. apply Bool.andb_assoc.
  - exists out. split; [exact E|]. split.
    + clear E. induction F as [|p z ps zs' [Hz _] _ IH]; simpl; [reflexivity|]. rewrite Hz, IH. reflexivity.
    + intros z Hz. clear E. induction F as [|p z' ps zs' [Hp [A B]] _ IH]; [contradiction|].
      destruct Hz as [Hz|Hz]; [subst z'; rewrite Hp; split; assumption|apply IH, Hz].
Qed.
End Backend.
