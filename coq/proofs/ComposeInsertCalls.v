(* C08 -- across calls.  props/C08.v had: the order of the requests inside ONE call is irrelevant (partial), and a witness that
   splitting a request list into two calls changes a heat-capacity cell.  Here the strongest statements about histories that ARE
   true of the model of insert_temperature_interval:

   1. `run_T_one_call`: if the requests that are not within tolv of an original row are pairwise more than tolv apart, then ANY
      split of them into calls, in any order, produces the same temperature column and the same total count as ONE call with
      all of them (requests within tolv of an original row are dropped in either case and need no condition);
      `split_needs_spacing`: without that condition the temperature column does depend on the split (witness);
   2. `histories_agree_on_cells`: with NO side condition: two arbitrary histories from the same table agree (==) on every
      populated interpolated cell of rows that have the same temperature, and all-NaN columns are NaN in both;
      together (`calls_vs_one_call`): same T column, row by row == cells in every populated interpolated column.
      What does differ across calls is confined to the heat-capacity / "other" columns (copied from the lower neighbour inside,
      zeroed at the edges: the witness of props/C08.v) and to the width of the FIRST row:
   3. `insert_first_row_cases` / `history_first_width`: the first row's DELTA_T after one call / after any history. *)
From OP Require Import gen.Consts model.Base model.Insert proofs.BaseFacts proofs.Insert proofs.InsertCurve proofs.InsertSeq proofs.InsertPL.
From Coq Require Import Lqa Lia.
Local Open Scope Q_scope.
Local Arguments Qred : simpl never.

Section Tol.
Variable tolv : Q.
Hypothesis Htol : 0 <= tolv.

Notation WF := (WF tolv).
Notation sepd := (sepd tolv).
Notation sep_from := (sep_from tolv).

(* ------------------------------------------------------------------ pairwise more than tolv apart *)
Fixpoint spaced (l : list Q) : Prop :=
  match l with [] => True | a :: r => Forall (fun b => tolv < Qabs (a - b)) r /\ spaced r end.

Lemma spaced_In l : spaced l -> forall a b, In a l -> In b l -> a = b \/ tolv < Qabs (a - b).
Proof.
  induction l as [|x l IH]; intros S a b Ha Hb; [destruct Ha|]. destruct S as [F S]. rewrite Forall_forall in F.
  destruct Ha as [Ha|Ha]; destruct Hb as [Hb|Hb].
  - left. congruence.
  - right. subst a. apply F. exact Hb.
  - right. subst b. rewrite Qabs_Qminus. apply F. exact Ha.
  - apply IH; assumption.
Qed.
Lemma spaced_app_l l1 l2 : spaced (l1 ++ l2) -> spaced l1.
Proof.
  induction l1 as [|a l1 IH]; cbn [app spaced]; [tauto|]. intros [F S]. split; [|apply IH; exact S].
  rewrite Forall_forall in *. intros b Hb. apply F. apply in_or_app. left. exact Hb.
Qed.
Lemma spaced_app_r l1 l2 : spaced (l1 ++ l2) -> spaced l2.
Proof. induction l1 as [|a l1 IH]; cbn [app spaced]; [tauto|]. intros [_ S]. apply IH. exact S. Qed.
Lemma spaced_filter f l : spaced l -> spaced (filter f l).
Proof.
  induction l as [|a l IH]; cbn [filter spaced]; [tauto|]. intros [F S]. destruct (f a); [|apply IH; exact S].
  cbn [spaced]. split; [|apply IH; exact S]. rewrite Forall_forall in *. intros b Hb. apply filter_In in Hb. apply F. tauto.
Qed.
Lemma filter_filter_impl (f g : Q -> bool) l : (forall x, f x = true -> g x = true) -> filter f l = filter f (filter g l).
Proof.
  intro H. induction l as [|a l IH]; simpl; [reflexivity|]. destruct (g a) eqn:G; simpl.
  - destruct (f a); rewrite IH; reflexivity.
  - destruct (f a) eqn:F; [rewrite (H a F) in G; discriminate|exact IH].
Qed.

(* ------------------------------------------------------------------ far depends on the temperature column only *)
Lemma far_T t x : far tolv t x = true <-> forall z, In z (map rT t) -> tolv < Qabs (z - x).
Proof.
  rewrite far_true. split; intro H.
  - intros z Hz. apply in_map_iff in Hz. destruct Hz as [r [E Hr]]. subst z. apply H. exact Hr.
  - intros r Hr. apply H. apply in_map. exact Hr.
Qed.
Lemma far_mono t t' x : (forall z, In z (map rT t) -> In z (map rT t')) -> far tolv t' x = true -> far tolv t x = true.
Proof. intros M H. apply far_T. intros z Hz. apply (proj1 (far_T t' x) H). apply M. exact Hz. Qed.

Lemma plan_In_spaced t reqs x : spaced (filter (far tolv t) reqs) ->
  (In x (plan tolv t reqs) <-> In x reqs /\ far tolv t x = true).
Proof.
  intro S. split; [apply plan_In|]. intros [H1 H2].
  destruct (plan_cover tolv Htol t reqs x H1 H2) as [k [K1 K2]]. destruct (plan_In tolv t reqs k K1) as [K3 K4].
  destruct (spaced_In _ S k x) as [E|E]; try (apply filter_In; split; assumption).
  - subst k. exact K1.
  - lra.
Qed.
Lemma insert_T_In_spaced t reqs z : t <> [] -> spaced (filter (far tolv t) reqs) ->
  (In z (map rT (fst (insert_t tolv t reqs))) <-> In z (map rT t) \/ (In z reqs /\ far tolv t z = true)).
Proof. intros N S. rewrite (insert_T_In tolv t reqs z N), (plan_In_spaced t reqs z S). tauto. Qed.

(* ------------------------------------------------------------------ unfolding histories *)
Notation step := (fun (st : table * nat) (reqs : list Q) => let (t', n) := insert_t tolv (fst st) reqs in (t', (snd st + n)%nat)).
Lemma run_acc l : forall t n m, fst (fold_left step l (t, n)) = fst (fold_left step l (t, m)).
Proof.
  induction l as [|reqs l IH]; intros t n m; [reflexivity|]. simpl fold_left.
  destruct (insert_t tolv t reqs) as [t' k]. apply IH.
Qed.
Lemma run_cons t reqs rest : fst (run_t tolv t (reqs :: rest)) = fst (run_t tolv (fst (insert_t tolv t reqs)) rest).
Proof. unfold run_t. simpl fold_left. destruct (insert_t tolv t reqs) as [t' k]. apply run_acc. Qed.
Lemma run_single t reqs : fst (run_t tolv t [reqs]) = fst (insert_t tolv t reqs).
Proof. rewrite run_cons. reflexivity. Qed.

(* ------------------------------------------------------------------ 1. the temperature column of a history *)
Lemma run_T_In reqss : forall t z, WF t -> spaced (filter (far tolv t) (concat reqss)) ->
  (In z (map rT (fst (run_t tolv t reqss))) <-> In z (map rT t) \/ (In z (concat reqss) /\ far tolv t z = true)).
Proof.
  induction reqss as [|reqs rest IH]; intros t z W S.
  - unfold run_t. cbn [fold_left fst concat]. split.
    + intro H. left. exact H.
    + intros [H|[H _]].
      * exact H.
      * destruct H.
  - rewrite run_cons. set (t1 := fst (insert_t tolv t reqs)).
    assert (N : t <> []) by (destruct W; assumption).
    cbn [concat] in S. rewrite filter_app in S.
    pose proof (spaced_app_l _ _ S) as S1. pose proof (spaced_app_r _ _ S) as S2.
    assert (W1 : WF t1) by (apply insert_WF; assumption).
    assert (M : forall y, In y (map rT t) -> In y (map rT t1)).
    { intros y Hy. apply (insert_T_In tolv t reqs y N). left. exact Hy. }
    assert (S2' : spaced (filter (far tolv t1) (concat rest))).
    { rewrite (filter_filter_impl (far tolv t1) (far tolv t)); [apply spaced_filter; exact S2|].
      intros x Hx. apply (far_mono t t1 x M Hx). }
    rewrite (IH t1 z W1 S2'). unfold t1 at 1. rewrite (insert_T_In_spaced t reqs z N S1). cbn [concat]. split.
    + intros [[A|[A B]]|[A B]].
      * left. exact A.
      * right. split; [apply in_or_app; left; exact A|exact B].
      * right. split; [apply in_or_app; right; exact A|apply (far_mono t t1 z M B)].
    + intros [A|[A B]]; [left; left; exact A|]. apply in_app_or in A. destruct A as [A|A].
      * left. right. split; assumption.
      * destruct (far tolv t1 z) eqn:F; [right; split; [exact A|reflexivity]|].
        destruct (far_false tolv t1 z F) as [r [R1 R2]].
        assert (Hin : In (rT r) (map rT t1)) by (apply in_map; exact R1). pose proof Hin as Hin0.
        apply (insert_T_In_spaced t reqs (rT r) N S1) in Hin. destruct Hin as [Hin|[Hin Hf]].
        -- pose proof (proj1 (far_T t z) B (rT r) Hin). lra.
        -- assert (SS : spaced (filter (far tolv t) reqs ++ filter (far tolv t) (concat rest))) by exact S.
           destruct (spaced_In _ SS (rT r) z) as [E|E].
           ++ apply in_or_app. left. apply filter_In. split; assumption.
           ++ apply in_or_app. right. apply filter_In. split; assumption.
           ++ left. rewrite <- E. right. split; assumption.
           ++ lra.
Qed.

Lemma sep_from_sepd a l : sep_from a l -> sepd l.
Proof. destruct l as [|b l]; simpl; [tauto|]. intros [_ H]. exact H. Qed.
(* two separated descending lists with the same elements are the same list *)
Lemma sepd_ext l1 : forall l2, sepd l1 -> sepd l2 -> (forall z, In z l1 <-> In z l2) -> l1 = l2.
Proof.
  induction l1 as [|a l1 IH]; intros l2 D1 D2 E.
  - destruct l2 as [|b l2]; [reflexivity|]. exfalso. apply (proj2 (E b)). left. reflexivity.
  - destruct l2 as [|b l2]; [exfalso; apply (proj1 (E a)); left; reflexivity|].
    simpl in D1, D2. pose proof (sep_from_lt tolv Htol l1 a D1) as F1. pose proof (sep_from_lt tolv Htol l2 b D2) as F2.
    rewrite Forall_forall in F1, F2.
    assert (Eab : a = b).
    { destruct (proj1 (E a) (or_introl eq_refl)) as [X|X]; [symmetry; exact X|].
      destruct (proj2 (E b) (or_introl eq_refl)) as [Y|Y]; [exact Y|].
      pose proof (F2 a X). pose proof (F1 b Y). lra. }
    subst b. f_equal. apply IH; [eapply sep_from_sepd; exact D1|eapply sep_from_sepd; exact D2|].
    intro z. split; intro Hz.
    + destruct (proj1 (E z) (or_intror Hz)) as [X|X]; [|exact X]. subst z. pose proof (F1 a Hz). lra.
    + destruct (proj2 (E z) (or_intror Hz)) as [X|X]; [|exact X]. subst z. pose proof (F2 a Hz). lra.
Qed.

(* ANY split into calls = ONE call, for the temperature column and the count *)
Theorem run_T_one_call t reqss : WF t -> spaced (filter (far tolv t) (concat reqss)) ->
  map rT (fst (run_t tolv t reqss)) = map rT (fst (insert_t tolv t (concat reqss)))
  /\ snd (run_t tolv t reqss) = snd (insert_t tolv t (concat reqss)).
Proof.
  intros W S. assert (N : t <> []) by (destruct W; assumption).
  destruct (history_invariant tolv Htol t reqss W) as [W1 [L1 _]]. pose proof (insert_WF tolv t (concat reqss) W) as W2.
  assert (E : map rT (fst (run_t tolv t reqss)) = map rT (fst (insert_t tolv t (concat reqss)))).
  { apply sepd_ext; [destruct W1; assumption|destruct W2; assumption|].
    intro z. rewrite (run_T_In reqss t z W S), (insert_T_In_spaced t (concat reqss) z N S). tauto. }
  split; [exact E|]. pose proof (insert_length tolv t (concat reqss) N) as L2.
  apply (f_equal (@List.length Q)) in E. rewrite !map_length in E. lia.
Qed.

(* ------------------------------------------------------------------ 2. interpolated cells do not depend on the history at all *)
Theorem histories_agree_on_cells j t0 A B rA rB : WF t0 ->
  In rA (fst (run_t tolv t0 A)) -> In rB (fst (run_t tolv t0 B)) -> rT rA = rT rB ->
  (populated j t0 -> exists qa qb, hcell j rA = Some qa /\ hcell j rB = Some qb /\ qa == qb)
  /\ (allnan j t0 -> hcell j rA = None /\ hcell j rB = None).
Proof.
  intros W HA HB E. split.
  - intro P. destruct (history_row_on_pl tolv Htol j t0 A rA W P HA) as [qa [A1 A2]].
    destruct (history_row_on_pl tolv Htol j t0 B rB W P HB) as [qb [B1 B2]].
    exists qa, qb. split; [exact A1|]. split; [exact B1|]. rewrite A2, B2, E. reflexivity.
  - intro P. destruct (history_invariant tolv Htol t0 A W) as [_ [_ [_ [NA _]]]].
    destruct (history_invariant tolv Htol t0 B W) as [_ [_ [_ [NB _]]]]. split; [apply (NA j P); exact HA|apply (NB j P); exact HB].
Qed.

Definition cells_agree (t0 : table) (a b : row) : Prop :=
  rT a = rT b
  /\ (forall j, populated j t0 -> exists qa qb, hcell j a = Some qa /\ hcell j b = Some qb /\ qa == qb)
  /\ (forall j, allnan j t0 -> hcell j a = None /\ hcell j b = None).

Lemma Forall2_of_map_eq (P : row -> row -> Prop) : forall a b, map rT a = map rT b ->
  (forall x y, In x a -> In y b -> rT x = rT y -> P x y) -> Forall2 P a b.
Proof.
  induction a as [|x a IH]; intros [|y b] E H; try discriminate; [constructor|]. simpl in E. inversion E as [[E1 E2]].
  constructor; [apply H; [left; reflexivity|left; reflexivity|exact E1]|].
  apply IH; [exact E2|]. intros x' y' Hx Hy. apply H; right; assumption.
Qed.

(* any split into calls against one call: same rows (temperatures), == interpolated cells row by row *)
Theorem calls_vs_one_call t reqss : WF t -> spaced (filter (far tolv t) (concat reqss)) ->
  Forall2 (cells_agree t) (fst (run_t tolv t reqss)) (fst (insert_t tolv t (concat reqss)))
  /\ snd (run_t tolv t reqss) = snd (insert_t tolv t (concat reqss)).
Proof.
  intros W S. destruct (run_T_one_call t reqss W S) as [E C]. split; [|exact C].
  apply Forall2_of_map_eq; [exact E|]. intros x y Hx Hy Exy. rewrite <- run_single in Hy.
  split; [exact Exy|]. split; intros j Pj; apply (histories_agree_on_cells j t reqss [concat reqss] x y W Hx Hy Exy); exact Pj.
Qed.

(* ------------------------------------------------------------------ 3. the width of the first row *)
Definition T2 (t : table) : option Q := match t with _ :: r1 :: _ => Some (rT r1) | _ => None end.

(* one call, by cases on where rows were added relative to the first row r0:
   A nothing above and nothing directly below it: the first row keeps temperature and width, the second row its temperature;
   B exactly one row above: it is the new first row, its width is its distance to the old first row (now the second row);
   C two or more rows above: the new first row has width 0;
   D none above, at least one directly below (and the table had a second row): the first row's width becomes its
     distance to the new second row. *)
Definition first_row_cases (r0 : row) (rs t' : table) : Prop :=
  (exists a rest, t' = a :: rest /\ rT a = rT r0 /\ rDT a = rDT r0 /\ (rs <> [] -> T2 t' = T2 (r0 :: rs)))
  \/ (exists a rest d, t' = a :: rest /\ rT r0 < rT a /\ T2 t' = Some (rT r0) /\ rDT a = Some d /\ d == rT a - rT r0)
  \/ (exists a b rest, t' = a :: b :: rest /\ rT r0 < rT b /\ rDT a = Some 0)
  \/ (exists a b rest d, t' = a :: b :: rest /\ rs <> [] /\ rT a = rT r0 /\ rT b < rT r0 /\ rDT a = Some d /\ d == rT r0 - rT b).

Lemma rederive_cons p r l : rederive p (r :: l) =
  mkRow (rT r) (Some (rsub p (rT r))) (rH r) (rCP r) (map (omul (Some (rsub p (rT r)))) (rCP r)) (rX r) :: rederive (rT r) l.
Proof. reflexivity. Qed.

Theorem insert_first_row_cases r0 rs reqs : first_row_cases r0 rs (fst (insert_t tolv (r0 :: rs) reqs)).
Proof.
  pose proof (plan_far tolv (r0 :: rs) reqs) as PF.
  unfold insert_t. remember (plan tolv (r0 :: rs) reqs) as ys eqn:Ep. destruct ys as [|x xs]; cbn [fst].
  { left. exists r0, rs. split; [reflexivity|]. split; [reflexivity|]. split; [reflexivity|]. intros _. reflexivity. }
  set (ys := x :: xs) in *. clearbody ys. unfold build.
  destruct (span (fun y => qltb (rT r0) y) ys) as [tops others] eqn:Es.
  pose proof (span_fst_all _ _ _ _ Es) as Hall.
  destruct tops as [|t1 trest].
  - (* nothing above *)
    destruct rs as [|r1 rs'].
    + left. eexists r0, _. split; [reflexivity|]. split; [reflexivity|]. split; [reflexivity|]. intro X. congruence.
    + cbn [walk]. destruct (span (fun y => qleb (rT r1) y) others) as [here below] eqn:Eh. cbn [fst].
      pose proof (span_fst_all _ _ _ _ Eh) as Hh.
      destruct here as [|x1 here'].
      * left. cbn [map app]. rewrite rederive_cons. eexists r0, _. split; [reflexivity|]. split; [reflexivity|]. split; [reflexivity|]. intros _. reflexivity.
      * right. right. right. cbn [map app]. rewrite rederive_cons.
        eexists _, _, _, (rsub (rT r0) x1). split; [reflexivity|]. split; [discriminate|]. split; [reflexivity|].
        split.
        { cbn [rT mid_row]. pose proof (span_app _ _ _ _ Es) as Ea. cbn [app] in Ea.
          pose proof (span_snd_head _ _ _ _ Es) as Hd. pose proof (span_app _ _ _ _ Eh) as Eb.
          rewrite Eb in Hd, Ea. cbn [app] in Hd, Ea. apply qltb_false in Hd.
          (* x1 <= T0 from the split; x1 is a planned temperature, hence more than tolv away from T0 *)
          assert (Hin : In x1 ys) by (rewrite Ea; left; reflexivity).
          pose proof (PF x1 Hin r0 (or_introl eq_refl)) as Hf. rewrite Qabs_diff_le in Hf by exact Hd. lra. }
        split; [reflexivity|]. cbn [rT mid_row]. apply rsub_eq.
  - (* rows above *)
    inversion Hall as [|y l Ht1 Hrest]; subst. apply qltb_true in Ht1.
    destruct trest as [|t2 trest'].
    + right. left. cbn [map app]. rewrite rederive_cons.
      eexists _, _, (rsub t1 (rT r0)). split; [reflexivity|]. split; [exact Ht1|]. split; [reflexivity|].
      split; [reflexivity|]. cbn [rT set_dt edge_row]. apply rsub_eq.
    + right. right. left. cbn [map app]. rewrite rederive_cons.
      eexists _, _, _. split; [reflexivity|]. split; [|reflexivity].
      cbn [rT edge_row]. inversion Hrest as [|y l Ht2 _]; subst. apply qltb_true in Ht2. exact Ht2.
Qed.

(* after ANY history: the first row's width is the value the ORIGINAL first row had (never recomputed as long as nothing is
   added above or directly below it -- whatever that value was), or 0 (two or more rows were added above in one call), or the
   distance from the first row to the row directly below it *)
Definition first_width_inv (v0 : cell) (t : table) : Prop :=
  match t with
  | [] => True
  | r0 :: rs => rDT r0 = v0 \/ rDT r0 = Some 0
                \/ (exists r1 rest d, rs = r1 :: rest /\ rDT r0 = Some d /\ d == rT r0 - rT r1)
  end.
Lemma first_width_step v0 t reqs : first_width_inv v0 t -> first_width_inv v0 (fst (insert_t tolv t reqs)).
Proof.
  destruct t as [|r0 rs]; intro H.
  { unfold insert_t. destruct (plan tolv [] reqs); exact I. }
  destruct (insert_first_row_cases r0 rs reqs) as [A|[B|[C|D]]].
  - destruct A as [a [rest [E [A1 [A2 A3]]]]]. rewrite E. cbn [first_width_inv]. cbn [first_width_inv] in H.
    destruct H as [H|[H|[r1 [rest0 [d [H1 [H2 H3]]]]]]].
    + left. congruence.
    + right. left. congruence.
    + right. right. subst rs. assert (X : T2 (fst (insert_t tolv (r0 :: r1 :: rest0) reqs)) = Some (rT r1)) by (apply A3; discriminate).
      rewrite E in X. destruct rest as [|b rest']; [discriminate|]. cbn [T2] in X. inversion X as [X1].
      exists b, rest', d. split; [reflexivity|]. split; [congruence|]. rewrite A1, X1. exact H3.
  - destruct B as [a [rest [d [E [B1 [B2 [B3 B4]]]]]]]. rewrite E in *. cbn [first_width_inv]. right. right.
    destruct rest as [|b rest']; [discriminate|]. cbn [T2] in B2. inversion B2 as [X1].
    exists b, rest', d. split; [reflexivity|]. split; [exact B3|]. rewrite X1. exact B4.
  - destruct C as [a [b [rest [E [C1 C2]]]]]. rewrite E. cbn [first_width_inv]. right. left. exact C2.
  - destruct D as [a [b [rest [d [E [D1 [D2 [D3 [D4 D5]]]]]]]]]. rewrite E. cbn [first_width_inv]. right. right.
    exists b, rest, d. split; [reflexivity|]. split; [exact D4|]. rewrite D2. exact D5.
Qed.
Theorem history_first_width t0 reqss :
  first_width_inv (match t0 with r0 :: _ => rDT r0 | [] => None end) (fst (run_t tolv t0 reqss)).
Proof.
  apply (run_ind tolv (fun t _ => first_width_inv (match t0 with r0 :: _ => rDT r0 | [] => None end) t)).
  - destruct t0 as [|r0 rs]; [exact I|]. left. reflexivity.
  - intros t' n reqs H. apply first_width_step. exact H.
Qed.
End Tol.

(* ------------------------------------------------------------------ witnesses (tolerance of the source) *)
(* the spacing condition of run_T_one_call is needed: two requests 2.4e-7 apart, the first call's one survives when they come
   in two calls, the hotter one when they come in one call *)
Example split_needs_spacing :
  map rT (fst (run ex_t2 [[80]; [80 + (1 # 4194304)]])) = [100; 80; 60]
  /\ map rT (fst (insert ex_t2 [80; 80 + (1 # 4194304)])) = [100; 335544321 # 4194304; 60].
Proof. vm_compute. split; reflexivity. Qed.
(* the four cases of the first row's width: a table whose first row carries a width (7) that is NOT a temperature difference *)
Definition ex_t3 : table :=
  [ mkRow 100 (Some 7) [Some 130] [Some 2] [Some 0] []; mkRow 60 (Some 40) [Some 50] [Some 2] [Some 80] [] ].
Example first_width_witnesses :
  map rDT (fst (insert ex_t3 [50; 30])) = [Some 7; Some 40; Some 10; Some 20]      (* A: nothing above / directly below: kept *)
  /\ map rDT (fst (insert ex_t3 [120])) = [Some 20; Some 20; Some 40]               (* B: one above: its distance to the old top *)
  /\ map rDT (fst (insert ex_t3 [120; 130])) = [Some 0; Some 10; Some 20; Some 40]   (* C: two above: 0 *)
  /\ map rDT (fst (insert ex_t3 [80; 90])) = [Some 10; Some 10; Some 10; Some 20]    (* D: directly below: distance to the new second row *)
  /\ map rDT (fst (run ex_t3 [[90]; [95]; [20]])) = [Some 5; Some 5; Some 5; Some 30; Some 40].
Proof. vm_compute. repeat split; reflexivity. Qed.
