(* Tactics that prove  |f(x) - <value returned by the Python function>| <= 1e-9  for the GENERATED real functions at
   concrete sample points (translator validation, DESIGN 5.1): resolve the label dispatch by computation, decide every
   boolean guard with lra / interval, finish with interval. *)
From Coq Require Import Reals Lra Bool String.
From Interval Require Import Tactic.
From OP Require Import gen.Consts gen.HxDispatch gen.Scalar proofs.HXBase.
Local Open Scope R_scope.

Ltac r_lt := first [ lra | interval with (i_prec 64) ].
Ltac r_ne := first [ lra | apply Rlt_not_eq; interval with (i_prec 64) | apply Rgt_not_eq; interval with (i_prec 64) ].
Ltac r_eq := first [ reflexivity | lra | field; lra ].

Ltac dec_one :=
  match goal with
  | |- context [HX_Eff_sel ?l] => let v := eval vm_compute in (HX_Eff_sel l) in change (HX_Eff_sel l) with v
  | |- context [HX_NTU_sel ?l] => let v := eval vm_compute in (HX_NTU_sel l) in change (HX_NTU_sel l) with v
  | |- context [Rleb (round_dp ?n ?x) 0] =>
      first [ rewrite (proj2 (Rleb_false (round_dp n x) 0)) by (apply round_dp_pos; r_lt)
            | rewrite (proj2 (Rleb_true (round_dp n x) 0)) by (apply round_dp_nonpos; r_lt)
            | rewrite (proj2 (Rleb_true (round_dp n x) 0)) by (rewrite round_dp_small by (split; r_lt); lra) ]
  | |- context [Rltb (round_dp ?n ?x) 0] =>
      rewrite (proj2 (Rltb_false (round_dp n x) 0)) by (left; apply round_dp_pos; r_lt)
  | |- context [Reqb ?a ?b] => first [ rewrite (proj2 (Reqb_true a b)) by r_eq | rewrite (proj2 (Reqb_false a b)) by r_ne ]
  | |- context [Rneqb ?a ?b] => first [ rewrite (proj2 (Rneqb_false a b)) by r_eq | rewrite (proj2 (Rneqb_true a b)) by r_ne ]
  | |- context [Rltb ?a ?b] => first [ rewrite (proj2 (Rltb_true a b)) by r_lt | rewrite (proj2 (Rltb_false a b)) by r_lt ]
  | |- context [Rleb ?a ?b] => first [ rewrite (proj2 (Rleb_true a b)) by r_lt | rewrite (proj2 (Rleb_false a b)) by r_lt ]
  end.

Ltac unfold_gen :=
  unfold HX_Eff_R, HX_Eff_F, HX_NTU_R, compute_LMTD_from_ts_R, compute_LMTD_from_dts_R, LMTD_refuses, LMTD_isclose, LMTD_arith, LMTD_log,
         LMTD_atol, LMTD_rtol, compute_annual_capital_cost_R, compute_capital_recovery_factor_R, compute_capital_cost_R,
         Rgtb, Rgeb;
  cbv beta zeta.

Ltac unfold_leaves :=
  unfold eff_CF, eff_PF, eff_CrFUU, eff_CrFMM, eff_CrFMUmax, eff_CrFMUmin, eff_ShellTube, eff_CondEvap,
         ntu_CF, ntu_PF, ntu_CrFMUmax, ntu_CrFMUmin, ntu_ShellTube, ntu_CondEvap, ntu_else,
         MultiPassEff_R, MultiPassNTU_R, Coth_R, CrossflowUnmixedEff1_R, Rgtb, Rgeb;
  cbv beta zeta.

Ltac sample :=
  unfold_gen; simpl label_norm;
  repeat (dec_one; cbv beta iota zeta delta [andb orb negb]);
  (* the else branch of HX_Eff calls the function itself once more with a literal label *)
  try (unfold eff_else; unfold_gen; simpl label_norm; repeat (dec_one; cbv beta iota zeta delta [andb orb negb]));
  unfold_leaves;
  repeat (dec_one; cbv beta iota zeta delta [andb orb negb]);
  try reflexivity;
  interval with (i_prec 64).
