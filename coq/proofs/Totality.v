(* C14: guards of the partial operations met on the way to a direct-integration record return Ok under the stated
   hypotheses (no totalised default makes anything true: Err is a distinct outcome in model/Totality.v). *)
From OP Require Import gen.Consts model.Base model.Stream model.Totality proofs.BaseFacts proofs.StreamInv.
From Coq Require Import Lqa Lia String.
Local Open Scope Q_scope.

(* ------------------------------------------------------------------ CP = duty / span *)
Lemma cp_guarded_ok s : tmin s < tmax s -> exists x, cp_guarded s = Ok x.
Proof.
  intro H. unfold cp_guarded. cbv zeta.
  destruct (is_zero (rsub (tmax s) (tmin s))) eqn:E.
  - apply is_zero_true in E. rewrite rsub_eq in E. lra.
  - eexists; reflexivity.
Qed.
(* every stream the constructor and any sequence of setters can produce has a defined heat-capacity flow rate *)
Theorem cp_total a b c d e f ops : exists x, cp_guarded (run_ops (mk_stream a b c d e f) ops) = Ok x.
Proof. apply cp_guarded_ok. destruct (inv_reachable a b c d e f ops) as [_ [[H _] _]]. exact H. Qed.
(* ... and the only way to Err is a zero span *)
Lemma cp_guarded_err s e : cp_guarded s = Err e -> e = EZeroDiv /\ tmax s == tmin s.
Proof.
  unfold cp_guarded. cbv zeta. destruct (is_zero (rsub (tmax s) (tmin s))) eqn:E; [|discriminate].
  intro H. inversion H. split; [reflexivity|]. apply is_zero_true in E. rewrite rsub_eq in E. lra.
Qed.

(* ------------------------------------------------------------------ linear_interpolation *)
Lemma lin_interp_ok xi x1 x2 y1 y2 : ~ x1 == x2 -> exists y, lin_interp xi x1 x2 y1 y2 = Ok y.
Proof. intro H. unfold lin_interp. apply qeqb_false in H. rewrite H. eexists; reflexivity. Qed.
Lemma lin_interp_err xi x1 x2 y1 y2 : x1 == x2 -> lin_interp xi x1 x2 y1 y2 = Err EValue.
Proof. intro H. unfold lin_interp. apply qeqb_true in H. rewrite H. reflexivity. Qed.
(* the value is the one on the line through the two points *)
Lemma lin_interp_value xi x1 x2 y1 y2 y : ~ x1 == x2 -> lin_interp xi x1 x2 y1 y2 = Ok y ->
  y * (x1 - x2) == y1 * (xi - x2) + y2 * (x1 - xi).
Proof.
  intros H E. unfold lin_interp in E. apply qeqb_false in H. rewrite H in E. cbv zeta in E.
  set (z := Qred _) in E. assert (Ey : z = y) by congruence. subst y. unfold z.
  apply qeqb_false in H. rewrite Qred_correct. field. lra.
Qed.

(* transitions: every reported index i has temp[i] >= tolv and temp[i+1] <= -tolv *)
Lemma transitions_spec tolv : forall temp i idx, In idx (transitions tolv temp i) ->
  exists a b, (i <= idx)%nat /\ nth_error temp (idx - i) = Some a /\ nth_error temp (S (idx - i)) = Some b /\ tolv <= a /\ b <= - tolv.
Proof.
  induction temp as [|a r IH]; intros i idx H; [contradiction|].
  destruct r as [|b r']; [contradiction|].
  cbn [transitions] in H. apply in_app_or in H. destruct H as [H|H].
  - destruct (qleb tolv a && qleb b (- tolv)) eqn:E; [|contradiction].
    destruct H as [H|[]]. subst idx. apply andb_prop in E. destruct E as [E1 E2].
    apply qleb_true in E1. apply qleb_true in E2.
    exists a, b. rewrite Nat.sub_diag. repeat split; try reflexivity; try assumption; lia.
  - destruct (IH (S i) idx H) as [a' [b' [Hi [N1 [N2 [L1 L2]]]]]].
    exists a', b'. split; [lia|].
    replace (idx - i)%nat with (S (idx - S i)) by lia.
    repeat split; assumption.
Qed.

Lemma nth_error_map_some {A B} (f : A -> B) l n y : nth_error (map f l) n = Some y -> exists x, nth_error l n = Some x /\ y = f x.
Proof.
  revert n. induction l as [|a l IH]; intros [|n] H; simpl in *; try discriminate.
  - inversion H. eexists; split; reflexivity.
  - apply IH; exact H.
Qed.
Lemma nth_error_same_length {A B} (l1 : list A) (l2 : list B) n x : List.length l1 = List.length l2 -> nth_error l1 n = Some x -> exists y, nth_error l2 n = Some y.
Proof.
  intros L H. assert (n < List.length l1)%nat by (apply nth_error_Some; congruence).
  destruct (nth_error l2 n) eqn:E; [eexists; reflexivity|]. apply nth_error_None in E. lia.
Qed.

(* _get_T_start_on_opposite_cc never raises on two columns of one table: the interpolation is only reached across a strict
   sign change of (cc - h0), where the two abscissae differ by at least 2*tolv *)
Theorem t_start_total tolv cc Ts h0 : 0 < tolv -> List.length Ts = List.length cc ->
  exists r, t_start_on_opposite tolv cc Ts h0 = Ok r.
Proof.
  intros Htol L. unfold t_start_on_opposite. cbv zeta.
  destruct (Nat.ltb _ 2); [eexists; reflexivity|].
  destruct (existsb _ _); [eexists; reflexivity|].
  destruct (transitions tolv (map (fun c => c - h0) cc) 0) as [|idx [|? ?]] eqn:T; try (eexists; reflexivity).
  assert (Hin : In idx (transitions tolv (map (fun c => c - h0) cc) 0)) by (rewrite T; left; reflexivity).
  destruct (transitions_spec _ _ _ _ Hin) as [a [b [_ [N1 [N2 [L1 L2]]]]]].
  rewrite Nat.sub_0_r in N1, N2.
  destruct (nth_error_map_some _ _ _ _ N1) as [c0 [C0 Ea]].
  destruct (nth_error_map_some _ _ _ _ N2) as [c1 [C1 Eb]].
  rewrite C0, C1.
  destruct (nth_error_same_length cc Ts idx c0 (eq_sym L) C0) as [t0 T0].
  destruct (nth_error_same_length cc Ts (S idx) c1 (eq_sym L) C1) as [t1 T1].
  rewrite T0, T1.
  assert (Hne : ~ c0 == c1) by (subst a b; lra).
  destruct (lin_interp_ok h0 c0 c1 t0 t1 Hne) as [y Ey]. rewrite Ey. simpl. eexists; reflexivity.
Qed.

(* ------------------------------------------------------------------ option sanitiser, utility completion *)
Lemma phase_fallback_pos : 0 < phase_fallback. Proof. reflexivity. Qed.
Theorem sanitize_cfg_ok x y : 0 <= sanitize_dt_cont x /\ 0 < sanitize_dt_phase y.
Proof.
  split.
  - unfold sanitize_dt_cont. destruct (qltb x 0) eqn:E; [lra|]. apply qltb_false in E. exact E.
  - unfold sanitize_dt_phase. destruct (qleb y 0) eqn:E; [exact phase_fallback_pos|]. apply qleb_false in E. exact E.
Qed.
(* a utility always has a non-zero temperature span after completion, so its CP division is defined *)
Theorem complete_utility_span hot dp ts0 tt0 : 0 < dp -> ~ complete_utility_tt hot dp ts0 tt0 == ts0.
Proof.
  intro H. unfold complete_utility_tt. destruct (qeqb tt0 ts0) eqn:E.
  - destruct hot; [rewrite rsub_eq|rewrite radd_eq]; lra.
  - apply qeqb_false in E. exact E.
Qed.

(* ------------------------------------------------------------------ extreme temperatures, sentinels, default utilities *)
Lemma fold_max_ge l : forall a, a <= fold_left (fun a t => if qltb a t then t else a) l a
  /\ (forall t, In t l -> t <= fold_left (fun a t => if qltb a t then t else a) l a)
  /\ (fold_left (fun a t => if qltb a t then t else a) l a = a \/ In (fold_left (fun a t => if qltb a t then t else a) l a) l).
Proof.
  induction l as [|x l IH]; intro a; simpl.
  - repeat split; [lra|intros t []|left; reflexivity].
  - destruct (qltb a x) eqn:E.
    + apply qltb_true in E. destruct (IH x) as [H1 [H2 H3]]. repeat split.
      * lra.
      * intros t [Ht|Ht]; [subst; exact H1|apply H2; exact Ht].
      * destruct H3 as [H3|H3]; [right; left; symmetry; exact H3|right; right; exact H3].
    + apply qltb_false in E. destruct (IH a) as [H1 [H2 H3]]. repeat split.
      * exact H1.
      * intros t [Ht|Ht]; [subst; lra|apply H2; exact Ht].
      * destruct H3 as [H3|H3]; [left; exact H3|right; right; exact H3].
Qed.
Lemma fold_min_le l : forall a, fold_left (fun a t => if qltb t a then t else a) l a <= a
  /\ (forall t, In t l -> fold_left (fun a t => if qltb t a then t else a) l a <= t)
  /\ (fold_left (fun a t => if qltb t a then t else a) l a = a \/ In (fold_left (fun a t => if qltb t a then t else a) l a) l).
Proof.
  induction l as [|x l IH]; intro a; simpl.
  - repeat split; [lra|intros t []|left; reflexivity].
  - destruct (qltb x a) eqn:E.
    + apply qltb_true in E. destruct (IH x) as [H1 [H2 H3]]. repeat split.
      * lra.
      * intros t [Ht|Ht]; [subst; exact H1|apply H2; exact Ht].
      * destruct H3 as [H3|H3]; [right; left; symmetry; exact H3|right; right; exact H3].
    + apply qltb_false in E. destruct (IH a) as [H1 [H2 H3]]. repeat split.
      * exact H1.
      * intros t [Ht|Ht]; [subst; lra|apply H2; exact Ht].
      * destruct H3 as [H3|H3]; [left; exact H3|right; right; exact H3].
Qed.

(* the sentinel is used exactly when the side is empty (for temperatures inside (-1e9, 1e9)); otherwise the extreme is a real
   stream temperature that bounds the whole side *)
Theorem hu_t_min_spec l : (forall t, In t l -> - sentinel < t) ->
  (l = [] -> hu_t_min l = - sentinel)
  /\ (l <> [] -> In (hu_t_min l) l /\ forall t, In t l -> t <= hu_t_min l).
Proof.
  intro B. split; [intro E; subst; reflexivity|]. intro NE. unfold hu_t_min.
  destruct (fold_max_ge l (- sentinel)) as [H1 [H2 H3]]. split; [|exact H2].
  destruct H3 as [H3|H3]; [|exact H3]. exfalso.
  destruct l as [|x l]; [congruence|]. specialize (H2 x (or_introl eq_refl)). specialize (B x (or_introl eq_refl)).
  rewrite H3 in H2. lra.
Qed.
Theorem cu_t_max_spec l : (forall t, In t l -> t < sentinel) ->
  (l = [] -> cu_t_max l = sentinel)
  /\ (l <> [] -> In (cu_t_max l) l /\ forall t, In t l -> cu_t_max l <= t).
Proof.
  intro B. split; [intro E; subst; reflexivity|]. intro NE. unfold cu_t_max.
  destruct (fold_min_le l sentinel) as [H1 [H2 H3]]. split; [|exact H2].
  destruct H3 as [H3|H3]; [|exact H3]. exfalso.
  destruct l as [|x l]; [congruence|]. specialize (H2 x (or_introl eq_refl)). specialize (B x (or_introl eq_refl)).
  rewrite H3 in H2. lra.
Qed.
(* the default utilities are placed wholly outside the process range (so they always reach it) and have a non-zero span *)
Theorem default_hu_outside dc dp l : 0 <= dc -> 0 < dp ->
  let '(s, t) := default_hu dc dp (hu_t_min l) in t < s /\ forall x, In x l -> x <= t.
Proof.
  intros Hc Hp. unfold default_hu. cbv beta iota zeta. split; [rewrite !radd_eq; lra|].
  intros x Hx. destruct (fold_max_ge l (- sentinel)) as [_ [H2 _]]. specialize (H2 x Hx). unfold hu_t_min. rewrite radd_eq. lra.
Qed.
Theorem default_cu_outside dc dp l : 0 <= dc -> 0 < dp ->
  let '(s, t) := default_cu dc dp (cu_t_max l) in s < t /\ forall x, In x l -> t <= x.
Proof.
  intros Hc Hp. unfold default_cu. cbv beta iota zeta. split; [rewrite !rsub_eq, !radd_eq; lra|].
  intros x Hx. destruct (fold_min_le l sentinel) as [_ [H2 _]]. specialize (H2 x Hx). unfold cu_t_max. rewrite rsub_eq. lra.
Qed.
(* when the side is not empty the default utility stays inside the envelope of that side widened by the two contributions and the glide *)
Theorem default_hu_in_envelope dc dp l Tmax ds : l <> [] -> (forall t, In t l -> - sentinel < t) -> (forall t, In t l -> t <= Tmax + ds) ->
  fst (default_hu dc dp (hu_t_min l)) <= Tmax + (ds + dc + dp).
Proof.
  intros NE B H. destruct (hu_t_min_spec l B) as [_ K]. destruct (K NE) as [Hin _]. specialize (H _ Hin).
  unfold default_hu. simpl. rewrite !radd_eq. lra.
Qed.
Theorem default_cu_in_envelope dc dp l Tmin ds : l <> [] -> (forall t, In t l -> t < sentinel) -> (forall t, In t l -> Tmin - ds <= t) ->
  Tmin - (ds + dc + dp) <= fst (default_cu dc dp (cu_t_max l)).
Proof.
  intros NE B H. destruct (cu_t_max_spec l B) as [_ K]. destruct (K NE) as [Hin _]. specialize (H _ Hin).
  unfold default_cu. simpl. rewrite rsub_eq, radd_eq. lra.
Qed.

(* ------------------------------------------------------------------ the temperature grid is never empty *)
Lemma bounds_shifted s : Bounds s -> tmins s < tmaxs s.
Proof. intros [H K]. destruct (cold s); destruct K as [_ [_ [K1 K2]]]; lra. Qed.
Theorem raw_grid_two_points shifted ss : ss <> [] -> (forall s, In s ss -> Bounds s) ->
  exists a b, In a (raw_grid shifted ss) /\ In b (raw_grid shifted ss) /\ a < b.
Proof.
  intros NE B. destruct ss as [|s r]; [congruence|]. specialize (B s (or_introl eq_refl)).
  unfold raw_grid. simpl. destruct shifted.
  - exists (tmins s), (tmaxs s). repeat split; [left; reflexivity|right; left; reflexivity|apply bounds_shifted; exact B].
  - exists (tmin s), (tmax s). repeat split; [left; reflexivity|right; left; reflexivity|destruct B as [H _]; exact H].
Qed.
(* streams built by the real constructor satisfy the hypothesis *)
Corollary raw_grid_of_constructed shifted args : args <> [] ->
  let ss := map (fun '(a, b, c, d, e, f) => mk_stream a b c d e f) args in
  exists a b, In a (raw_grid shifted ss) /\ In b (raw_grid shifted ss) /\ a < b.
Proof.
  intros NE ss. apply raw_grid_two_points.
  - unfold ss. destruct args; [congruence|discriminate].
  - intros s Hs. unfold ss in Hs. apply in_map_iff in Hs. destruct Hs as [[[[[[a b] c] d] e] f] [E _]]. subst s.
    destruct (mk_stream_inv a b c d e f) as [_ [H _]]. exact H.
Qed.

(* a grid whose neighbours are all further apart than tolv has no small gap (the guard delta_vals(T).min() >= tol holds) *)
Fixpoint gaps_above (tolv : Q) (g : list Q) : Prop :=
  match g with
  | a :: ((b :: _) as r) => tolv < a - b /\ gaps_above tolv r
  | _ => True
  end.
Theorem no_small_gap tolv g : gaps_above tolv g -> small_gap_b tolv g = false.
Proof.
  induction g as [|a r IH]; [reflexivity|]. destruct r as [|b r']; [reflexivity|].
  intros [H K]. specialize (IH K).
  assert (E : qleb (a - b) tolv = false) by (apply qleb_false; exact H).
  change (small_gap_b tolv (a :: b :: r')) with ((qltb b a && qleb (a - b) tolv) || small_gap_b tolv (b :: r')).
  rewrite IH, E, andb_false_r. reflexivity.
Qed.

(* ------------------------------------------------------------------ meaning of the property predicate evaluated on the implementation's output *)
Lemma first_none_none l : forall k, first_none l k = None -> forall v, In v l -> v <> None.
Proof.
  induction l as [|a r IH]; intros k H v Hv; [contradiction|]. simpl in H. destruct a as [q|]; [|discriminate].
  destruct Hv as [Hv|Hv]; [subst; discriminate|eapply IH; eauto].
Qed.
Lemma first_outside_none lo hi l : forall k, first_outside lo hi l k = None -> forall t, In t l -> lo <= t <= hi.
Proof.
  induction l as [|a r IH]; intros k H t Ht; [contradiction|]. simpl in H.
  destruct (qleb lo a && qleb a hi) eqn:E; [|discriminate]. destruct Ht as [Ht|Ht]; [|eapply IH; eauto].
  subst. apply andb_prop in E. destruct E as [E1 E2]. apply qleb_true in E1. apply qleb_true in E2. split; assumption.
Qed.
Lemma count_s_notin x l : ~ In x l -> count_s x l = O.
Proof.
  induction l as [|y r IH]; intro H; [reflexivity|]. simpl. destruct (String.eqb x y) eqn:E.
  - apply String.eqb_eq in E. subst. exfalso. apply H. left; reflexivity.
  - rewrite IH; [reflexivity|]. intro K. apply H. right; exact K.
Qed.
Lemma same_multiset_spec a b : same_multiset a b = true -> forall x, count_s x a = count_s x b.
Proof.
  unfold same_multiset. intros H x. rewrite forallb_forall in H.
  destruct (in_dec string_dec x (a ++ b)) as [Hin|Hout].
  - apply Nat.eqb_eq. apply H. exact Hin.
  - rewrite !count_s_notin; [reflexivity| |]; intro K; apply Hout; apply in_or_app; [right|left]; exact K.
Qed.
(* what [0] from the judge means for one observed output *)
Theorem wf_output_b_sound x y : wf_output_b x y = true ->
  (forall v, In v (o_nums y) -> v <> None)
  /\ (forall n, count_s n (expected_di (i_direct_op x) (i_tree x)) = count_s n (o_di y))
  /\ (forall t, In t (o_temps y) -> fst (envelope x) <= t <= snd (envelope x))
  /\ optq_eq (o_nums y) (o_nums2 y) = true.
Proof.
  unfold wf_output_b, wf_output_code. intro H.
  destruct (first_none (o_nums y) 0) eqn:N; [simpl in H; discriminate|].
  destruct (same_multiset (expected_di (i_direct_op x) (i_tree x)) (o_di y)) eqn:M; [|simpl in H; discriminate].
  simpl negb in H. cbv iota in H. destruct (envelope x) as [lo hi] eqn:En.
  destruct (first_outside lo hi (o_temps y) 0) eqn:O; [simpl in H; discriminate|].
  destruct (optq_eq (o_nums y) (o_nums2 y)) eqn:R; [|simpl in H; discriminate].
  repeat split.
  - eapply first_none_none; eauto.
  - apply same_multiset_spec; exact M.
  - simpl. eapply (first_outside_none lo hi); eauto.
  - simpl. eapply (first_outside_none lo hi); eauto.
Qed.
