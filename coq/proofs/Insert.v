(* C08 -- facts about model/Insert.v, part 1: requests (filter, sort, de-duplication), the temperature column of the
   rebuilt table (strictly descending, gaps > tol, old rows kept, count).  Everything is proved for an arbitrary
   tolerance tolv >= 0 and instantiated at gen.Consts.tol in props/C08.v. *)
From OP Require Import gen.Consts model.Base model.Insert proofs.BaseFacts.
From Coq Require Import Lqa Lia.
Local Open Scope Q_scope.

Lemma roles_wellformed : roles_ok = true. Proof. vm_compute. reflexivity. Qed.

(* ------------------------------------------------------------------ span, last *)
Lemma span_app p xs : forall a b, span p xs = (a, b) -> xs = a ++ b.
Proof.
  induction xs as [|x r IH]; intros a b H; simpl in H.
  - inversion H. reflexivity.
  - destruct (p x).
    + destruct (span p r) as [a' b'] eqn:E. inversion H; subst. simpl. f_equal. apply IH. reflexivity.
    + inversion H. reflexivity.
Qed.
Lemma span_fst_all p xs : forall a b, span p xs = (a, b) -> Forall (fun x => p x = true) a.
Proof.
  induction xs as [|x r IH]; intros a b H; simpl in H.
  - inversion H. constructor.
  - destruct (p x) eqn:Px.
    + destruct (span p r) as [a' b'] eqn:E. inversion H; subst. constructor; [assumption|]. eapply IH. reflexivity.
    + inversion H. constructor.
Qed.
Lemma span_snd_head p xs : forall a b, span p xs = (a, b) -> match b with [] => True | y :: _ => p y = false end.
Proof.
  induction xs as [|x r IH]; intros a b H; simpl in H.
  - inversion H. exact I.
  - destruct (p x) eqn:Px.
    + destruct (span p r) as [a' b'] eqn:E. inversion H; subst. eapply IH. reflexivity.
    + inversion H; subst. exact Px.
Qed.
Lemma span_length p xs a b : span p xs = (a, b) -> (List.length a + List.length b = List.length xs)%nat.
Proof. intro H. apply span_app in H. subst. rewrite app_length. reflexivity. Qed.

Lemma last_cons_default (A : Type) (l : list A) : forall a p, last (a :: l) p = last l a.
Proof.
  induction l as [|b l IH]; intros a p; [reflexivity|].
  change (last (a :: b :: l) p) with (last (b :: l) p). rewrite !IH. reflexivity.
Qed.
Lemma last_In_or (A : Type) (l : list A) p : l = [] \/ In (last l p) l.
Proof.
  revert p. induction l as [|a l IH]; intro p; [left; reflexivity|right].
  rewrite last_cons_default. destruct (IH a) as [E|E]; [subst; left; reflexivity|right; exact E].
Qed.

Lemma Qabs_diff_le a b : b <= a -> Qabs (a - b) == a - b.
Proof. intro H. apply Qabs_pos. lra. Qed.
Lemma Qabs_diff_ge a b : a <= b -> Qabs (a - b) == b - a.
Proof. intro H. rewrite Qabs_neg by lra. ring. Qed.
Lemma Qabs_self a : Qabs (a - a) == 0.
Proof. rewrite Qabs_diff_le by lra. ring. Qed.

Section Tol.
Variable tolv : Q.
Hypothesis Htol : 0 <= tolv.

(* ------------------------------------------------------------------ separated descending chains *)
Fixpoint sep_from (a : Q) (l : list Q) : Prop :=
  match l with [] => True | b :: r => b + tolv < a /\ sep_from b r end.
Definition sepd (l : list Q) : Prop := match l with [] => True | a :: r => sep_from a r end.

Lemma sep_from_app l1 : forall p l2, sep_from p (l1 ++ l2) <-> sep_from p l1 /\ sep_from (last l1 p) l2.
Proof.
  induction l1 as [|a l1 IH]; intros p l2; simpl app.
  - simpl. tauto.
  - rewrite last_cons_default. simpl sep_from. rewrite IH. tauto.
Qed.
Lemma sep_from_lt l : forall p, sep_from p l -> Forall (fun x => x + tolv < p) l.
Proof.
  induction l as [|a l IH]; intros p H; constructor; destruct H as [H1 H2]; [exact H1|].
  apply IH in H2. eapply Forall_impl; [|exact H2]. simpl. intros x Hx. lra.
Qed.
Lemma sep_from_head l p q : sep_from p l -> p <= q -> sep_from q l.
Proof. destruct l; simpl; [tauto|]. intros [H1 H2] H. split; [lra|exact H2]. Qed.
Lemma sepd_sep_from a l : sepd (a :: l) <-> sep_from a l.
Proof. simpl. tauto. Qed.
Lemma sepd_app_l l1 l2 : sepd (l1 ++ l2) -> sepd l1.
Proof. destruct l1 as [|a l1]; simpl; [tauto|]. rewrite sep_from_app. tauto. Qed.

Lemma sep_from_b_true a l : sep_from_b tolv a l = true <-> sep_from a l.
Proof.
  revert a. induction l as [|b l IH]; intro a; simpl; [tauto|].
  rewrite andb_true_iff, qltb_true, IH. tauto.
Qed.
Lemma sepd_b_true l : sepd_b tolv l = true <-> sepd l.
Proof. destruct l; simpl; [tauto|apply sep_from_b_true]. Qed.

(* ------------------------------------------------------------------ far *)
Lemma far_true rows x : far tolv rows x = true <-> forall r, In r rows -> tolv < Qabs (rT r - x).
Proof.
  unfold far. rewrite forallb_forall. split; intros H r Hr; specialize (H r Hr); apply qltb_true; exact H.
Qed.
Lemma far_false rows x : far tolv rows x = false -> exists r, In r rows /\ Qabs (rT r - x) <= tolv.
Proof.
  unfold far. induction rows as [|r rows IH]; cbn [forallb]; [discriminate|].
  destruct (qltb tolv (Qabs (rT r - x))) eqn:E; cbn [andb].
  - intro H. destruct (IH H) as [r' [H1 H2]]. exists r'. split; [right; exact H1|exact H2].
  - intros _. exists r. split; [left; reflexivity|]. apply qltb_false. exact E.
Qed.

(* ------------------------------------------------------------------ sorting *)
Fixpoint ge_from (a : Q) (l : list Q) : Prop := match l with [] => True | b :: r => b <= a /\ ge_from b r end.
Definition sorted_ge (l : list Q) : Prop := match l with [] => True | a :: r => ge_from a r end.

Lemma ge_from_head l a b : ge_from a l -> a <= b -> ge_from b l.
Proof. destruct l; simpl; [tauto|]. intros [H1 H2] H. split; [lra|exact H2]. Qed.
Lemma ins_desc_In x l y : In y (ins_desc x l) <-> y = x \/ In y l.
Proof.
  induction l as [|a l IH]; simpl; [intuition|].
  destruct (qleb a x); simpl; [intuition|]. rewrite IH. intuition.
Qed.
Lemma ins_desc_ge_from x l : forall a, ge_from a l -> x <= a -> ge_from a (ins_desc x l).
Proof.
  induction l as [|b l IH]; intros a H Hx; simpl.
  - split; [exact Hx|exact I].
  - destruct H as [H1 H2]. destruct (qleb b x) eqn:E.
    + apply qleb_true in E. simpl. repeat split; assumption.
    + apply qleb_false in E. simpl. split; [exact H1|]. apply IH; [exact H2|lra].
Qed.
Lemma ins_desc_sorted x l : sorted_ge l -> sorted_ge (ins_desc x l).
Proof.
  destruct l as [|a l]; simpl; [tauto|]. intro H. destruct (qleb a x) eqn:E.
  - apply qleb_true in E. simpl. split; assumption.
  - apply qleb_false in E. simpl. apply ins_desc_ge_from; [exact H|lra].
Qed.
Lemma sort_desc_In l y : In y (sort_desc l) <-> In y l.
Proof. induction l as [|a l IH]; simpl; [tauto|]. rewrite ins_desc_In, IH. intuition. Qed.
Lemma sort_desc_sorted l : sorted_ge (sort_desc l).
Proof. induction l as [|a l IH]; simpl; [exact I|]. apply ins_desc_sorted. exact IH. Qed.

(* ------------------------------------------------------------------ de-duplication *)
Lemma dd_sep l : forall last, ge_from last l -> sep_from last (dd tolv last l).
Proof.
  induction l as [|v r IH]; intros last H; cbn [dd]; [exact I|]. cbn [ge_from] in H. destruct H as [H1 H2].
  destruct (qltb tolv (Qabs (last - v))) eqn:E.
  - apply qltb_true in E. rewrite Qabs_diff_le in E by exact H1. cbn [sep_from]. split; [lra|]. apply IH. exact H2.
  - apply IH. eapply ge_from_head; eassumption.
Qed.
Lemma dd_In l : forall last x, In x (dd tolv last l) -> In x l.
Proof.
  induction l as [|v r IH]; intros last x; cbn [dd In]; [tauto|].
  destruct (qltb tolv (Qabs (last - v))); cbn [In]; intro H.
  - destruct H as [H|H]; [left; exact H|right; eapply IH; exact H].
  - right. eapply IH. exact H.
Qed.
Lemma dd_cover l : forall last x, In x l -> exists k, In k (last :: dd tolv last l) /\ Qabs (k - x) <= tolv.
Proof.
  induction l as [|v r IH]; intros last x Hx; [destruct Hx|].
  cbn [dd]. destruct (qltb tolv (Qabs (last - v))) eqn:E.
  - destruct Hx as [Hx|Hx].
    + subst x. exists v. split; [right; left; reflexivity|]. rewrite Qabs_self. exact Htol.
    + destruct (IH v x Hx) as [k [H1 H2]]. exists k. split; [right; exact H1|exact H2].
  - apply qltb_false in E. destruct Hx as [Hx|Hx].
    + subst x. exists last. split; [left; reflexivity|exact E].
    + destruct (IH last x Hx) as [k [H1 H2]]. exists k. split; [exact H1|exact H2].
Qed.
Lemma dedupe_sepd l : sorted_ge l -> sepd (dedupe tolv l).
Proof. destruct l as [|a l]; simpl; [tauto|]. apply dd_sep. Qed.
Lemma dedupe_In l x : In x (dedupe tolv l) -> In x l.
Proof. destruct l as [|a l]; simpl; [tauto|]. intros [H|H]; [left; exact H|right; eapply dd_In; exact H]. Qed.
Lemma dedupe_cover l x : In x l -> exists k, In k (dedupe tolv l) /\ Qabs (k - x) <= tolv.
Proof.
  destruct l as [|a l]; [intros []|]. intros [H|H].
  - subst x. exists a. split; [left; reflexivity|]. rewrite Qabs_self. exact Htol.
  - simpl dedupe. apply dd_cover. exact H.
Qed.

(* ------------------------------------------------------------------ the plan *)
Lemma plan_sepd t reqs : sepd (plan tolv t reqs).
Proof. unfold plan. apply dedupe_sepd. apply sort_desc_sorted. Qed.
Lemma plan_In t reqs x : In x (plan tolv t reqs) -> In x reqs /\ far tolv t x = true.
Proof. unfold plan. intro H. apply dedupe_In in H. rewrite sort_desc_In, filter_In in H. exact H. Qed.
Lemma plan_cover t reqs x : In x reqs -> far tolv t x = true -> exists k, In k (plan tolv t reqs) /\ Qabs (k - x) <= tolv.
Proof.
  intros H1 H2. unfold plan. apply dedupe_cover. rewrite sort_desc_In, filter_In. split; assumption.
Qed.
Lemma plan_far t reqs : forall x, In x (plan tolv t reqs) -> forall r, In r t -> tolv < Qabs (rT r - x).
Proof. intros x Hx. apply plan_In in Hx. destruct Hx as [_ H]. apply far_true. exact H. Qed.

(* ------------------------------------------------------------------ the temperature column of the rebuilt table *)
Fixpoint walkT (ts : list Q) (xs : list Q) : list Q :=
  match ts with
  | [] => xs
  | t :: ts' => let (here, below) := span (fun x => qleb t x) xs in here ++ t :: walkT ts' below
  end.
Definition mergeT (ts xs : list Q) : list Q :=
  match ts with
  | [] => []
  | t0 :: ts' => let (tops, others) := span (fun x => qltb t0 x) xs in tops ++ t0 :: walkT ts' others
  end.

Lemma map_rT_edge n xs : map rT (map (edge_row n) xs) = xs.
Proof. rewrite map_map. simpl. apply map_id. Qed.
Lemma map_rT_mid u l xs : map rT (map (mid_row tolv u l) xs) = xs.
Proof. rewrite map_map. simpl. apply map_id. Qed.
Lemma walk_T rest : forall prev xs, map rT (walk tolv prev rest xs) = walkT (map rT rest) xs.
Proof.
  induction rest as [|r rs IH]; intros prev xs; simpl.
  - apply map_rT_edge.
  - destruct (span (fun x => qleb (rT r) x) xs) as [here below]. rewrite map_app, map_rT_mid. simpl. rewrite IH. reflexivity.
Qed.
Lemma rederive_T l : forall p, map rT (rederive p l) = map rT l.
Proof. induction l as [|r l IH]; intro p; simpl; [reflexivity|]. rewrite IH. reflexivity. Qed.
Lemma build_T t xs : map rT (build tolv t xs) = mergeT (map rT t) xs.
Proof.
  destruct t as [|r0 rs]; [reflexivity|]. unfold build, mergeT. cbn [map]. cbv beta iota.
  destruct (span (fun x => qltb (rT r0) x) xs) as [tops others]. destruct tops as [|t1 trest].
  - simpl. rewrite rederive_T, walk_T. f_equal.
    destruct rs as [|r1 rs']; [reflexivity|]. destruct (fst (span (fun x => qleb (rT r1) x) others)); reflexivity.
  - simpl. rewrite rederive_T, map_app, map_rT_edge. simpl. rewrite walk_T. reflexivity.
Qed.

Definition cross_far (ts xs : list Q) : Prop := forall x, In x xs -> forall t, In t ts -> tolv < Qabs (t - x).

Lemma walkT_sep ts : forall p xs, sep_from p ts -> sep_from p xs -> cross_far ts xs -> sep_from p (walkT ts xs).
Proof.
  induction ts as [|t ts IH]; intros p xs Hts Hxs Hf; simpl; [exact Hxs|].
  destruct (span (fun x => qleb t x) xs) as [here below] eqn:E.
  pose proof (span_app _ _ _ _ E) as Happ. pose proof (span_fst_all _ _ _ _ E) as Hall. pose proof (span_snd_head _ _ _ _ E) as Hhd.
  subst xs. apply sep_from_app in Hxs. destruct Hxs as [Hh Hb]. destruct Hts as [Ht1 Ht2].
  apply sep_from_app. split; [exact Hh|]. simpl. split.
  - destruct (last_In_or _ here p) as [E1|E1].
    + subst here. exact Ht1.
    + assert (Hge : t <= last here p). { rewrite Forall_forall in Hall. apply qleb_true. apply Hall. exact E1. }
      assert (Hfar := Hf (last here p) (in_or_app _ _ _ (or_introl E1)) t (or_introl eq_refl)).
      rewrite Qabs_diff_ge in Hfar by exact Hge. lra.
  - apply IH.
    + exact Ht2.
    + destruct below as [|b br]; [exact I|]. simpl in Hb |- *. destruct Hb as [Hb1 Hb2]. split; [|exact Hb2].
      apply qleb_false in Hhd.
      assert (Hinb : In b (here ++ b :: br)) by (apply in_or_app; right; left; reflexivity).
      assert (Hfar := Hf b Hinb t (or_introl eq_refl)).
      rewrite Qabs_diff_le in Hfar by lra. lra.
    + intros x Hx t' Ht'. apply Hf; [apply in_or_app; right; exact Hx|right; exact Ht'].
Qed.

Lemma mergeT_sep ts xs : sepd ts -> sepd xs -> cross_far ts xs -> sepd (mergeT ts xs).
Proof.
  destruct ts as [|t0 ts]; [intros; exact I|]. intros Hts Hxs Hf. unfold mergeT.
  destruct (span (fun x => qltb t0 x) xs) as [tops others] eqn:E.
  pose proof (span_app _ _ _ _ E) as Happ. pose proof (span_fst_all _ _ _ _ E) as Hall. pose proof (span_snd_head _ _ _ _ E) as Hhd.
  subst xs.
  assert (Hw : forall q, sep_from q others -> sep_from t0 (walkT ts others)).
  { intros q Hq. apply walkT_sep.
    - exact Hts.
    - destruct others as [|b br]; [exact I|]. simpl in Hq |- *. destruct Hq as [_ Hq]. split; [|exact Hq].
      apply qltb_false in Hhd.
      assert (Hinb : In b (tops ++ b :: br)) by (apply in_or_app; right; left; reflexivity).
      assert (Hfar := Hf b Hinb t0 (or_introl eq_refl)).
      rewrite Qabs_diff_le in Hfar by exact Hhd. lra.
    - intros x Hx t' Ht'. apply Hf; [apply in_or_app; right; exact Hx|right; exact Ht']. }
  destruct tops as [|a tr].
  - simpl app in *. simpl. destruct others as [|b br]; [apply (Hw 0); exact I|].
    apply (Hw (b + tolv + 1)). simpl. simpl in Hxs. split; [lra|exact Hxs].
  - simpl app in *. simpl in Hxs |- *. apply sep_from_app in Hxs. destruct Hxs as [Hh Hb].
    apply sep_from_app. split; [exact Hh|]. simpl. split; [|apply (Hw _ Hb)].
    assert (Hin : In (last tr a) (a :: tr)).
    { destruct (last_In_or _ tr a) as [E1|E1]; [subst tr; left; reflexivity|right; exact E1]. }
    rewrite Forall_forall in Hall. assert (Hgt := Hall _ Hin). apply qltb_true in Hgt.
    assert (Hfar := Hf (last tr a) (in_or_app _ _ _ (or_introl Hin)) t0 (or_introl eq_refl)).
    rewrite Qabs_diff_ge in Hfar by lra. lra.
Qed.

Lemma walkT_In z ts : forall xs, In z (walkT ts xs) <-> In z ts \/ In z xs.
Proof.
  induction ts as [|t ts IH]; intro xs; simpl; [tauto|].
  destruct (span (fun x => qleb t x) xs) as [here below] eqn:E. apply span_app in E. subst xs.
  rewrite !in_app_iff. simpl. rewrite IH. tauto.
Qed.
Lemma mergeT_In z ts xs : ts <> [] -> (In z (mergeT ts xs) <-> In z ts \/ In z xs).
Proof.
  destruct ts as [|t0 ts]; [congruence|]. intros _. unfold mergeT.
  destruct (span (fun x => qltb t0 x) xs) as [tops others] eqn:E. apply span_app in E. subst xs.
  rewrite !in_app_iff. simpl. rewrite walkT_In. tauto.
Qed.
Lemma walkT_nil ts : walkT ts [] = ts.
Proof. induction ts as [|t ts IH]; simpl; [reflexivity|]. rewrite IH. reflexivity. Qed.
Lemma walkT_length ts : forall xs, List.length (walkT ts xs) = (List.length ts + List.length xs)%nat.
Proof.
  induction ts as [|t ts IH]; intro xs; simpl; [reflexivity|].
  destruct (span (fun x => qleb t x) xs) as [here below] eqn:E. apply span_length in E.
  rewrite app_length. simpl. rewrite IH. lia.
Qed.
Lemma mergeT_length ts xs : ts <> [] -> List.length (mergeT ts xs) = (List.length ts + List.length xs)%nat.
Proof.
  destruct ts as [|t0 ts]; [congruence|]. intros _. unfold mergeT.
  destruct (span (fun x => qltb t0 x) xs) as [tops others] eqn:E. apply span_length in E.
  rewrite app_length. simpl. rewrite walkT_length. lia.
Qed.

(* ------------------------------------------------------------------ well-formed tables and the first theorems *)
Definition WF (t : table) : Prop := t <> [] /\ sepd (map rT t).

Lemma plan_cross_far t reqs : cross_far (map rT t) (plan tolv t reqs).
Proof.
  intros x Hx tt Ht. apply in_map_iff in Ht. destruct Ht as [r [E Hr]]. subst tt. eapply plan_far; eassumption.
Qed.

Lemma insert_T t reqs : t <> [] -> map rT (fst (insert_t tolv t reqs)) = mergeT (map rT t) (plan tolv t reqs).
Proof.
  intro Hne. unfold insert_t. destruct (plan tolv t reqs) as [|x xs] eqn:E.
  - simpl fst. destruct t as [|r0 rs]; [congruence|]. unfold mergeT. cbn [map span]. rewrite walkT_nil. reflexivity.
  - simpl fst. apply build_T.
Qed.
Lemma insert_count t reqs : snd (insert_t tolv t reqs) = List.length (plan tolv t reqs).
Proof. unfold insert_t. destruct (plan tolv t reqs); reflexivity. Qed.

Lemma insert_WF t reqs : WF t -> WF (fst (insert_t tolv t reqs)).
Proof.
  intros [Hne Hs]. split.
  - intro E. apply (f_equal (map rT)) in E. rewrite insert_T in E by exact Hne. apply (f_equal (@List.length Q)) in E.
    rewrite mergeT_length in E by (destruct t; [congruence|discriminate]). simpl in E. rewrite map_length in E.
    destruct t; [congruence|simpl in E; lia].
  - rewrite insert_T by exact Hne. apply mergeT_sep; [exact Hs|apply plan_sepd|apply plan_cross_far].
Qed.

Lemma insert_length t reqs : t <> [] ->
  List.length (fst (insert_t tolv t reqs)) = (List.length t + snd (insert_t tolv t reqs))%nat.
Proof.
  intro Hne. assert (Hm : map rT t <> []) by (destruct t; [congruence|discriminate]).
  rewrite <- (map_length rT (fst (insert_t tolv t reqs))). rewrite insert_T by exact Hne.
  rewrite mergeT_length by exact Hm. rewrite map_length, insert_count. reflexivity.
Qed.

(* every requested temperature ends up within tolv of a row, and so does every old temperature (exactly) *)
Lemma insert_T_In t reqs z : t <> [] ->
  (In z (map rT (fst (insert_t tolv t reqs))) <-> In z (map rT t) \/ In z (plan tolv t reqs)).
Proof. intro Hne. rewrite insert_T by exact Hne. apply mergeT_In. destruct t; [congruence|discriminate]. Qed.

Lemma insert_requests_present t reqs x : t <> [] -> In x reqs ->
  exists r, In r (fst (insert_t tolv t reqs)) /\ Qabs (rT r - x) <= tolv.
Proof.
  intros Hne Hx. destruct (far tolv t x) eqn:E.
  - destruct (plan_cover t reqs x Hx E) as [k [H1 H2]].
    assert (Hin : In k (map rT (fst (insert_t tolv t reqs)))) by (apply insert_T_In; [exact Hne|right; exact H1]).
    apply in_map_iff in Hin. destruct Hin as [r [Er Hr]]. exists r. subst k. split; assumption.
  - destruct (far_false _ _ E) as [r [H1 H2]].
    assert (Hin : In (rT r) (map rT (fst (insert_t tolv t reqs)))) by (apply insert_T_In; [exact Hne|left; apply in_map; exact H1]).
    apply in_map_iff in Hin. destruct Hin as [r' [Er Hr]]. exists r'. rewrite Er. split; assumption.
Qed.

(* re-inserting temperatures that are present (within tolv) does nothing *)
Lemma insert_present_noop t reqs :
  (forall x, In x reqs -> exists r, In r t /\ Qabs (rT r - x) <= tolv) -> insert_t tolv t reqs = (t, 0%nat).
Proof.
  intro H. unfold insert_t, plan.
  assert (E : filter (far tolv t) reqs = []).
  { induction reqs as [|x reqs IH]; [reflexivity|]. simpl.
    destruct (far tolv t x) eqn:F.
    - exfalso. destruct (H x (or_introl eq_refl)) as [r [H1 H2]]. rewrite far_true in F. specialize (F r H1). lra.
    - apply IH. intros y Hy. apply H. right. exact Hy. }
  rewrite E. reflexivity.
Qed.
Lemma insert_idempotent t reqs : t <> [] ->
  insert_t tolv (fst (insert_t tolv t reqs)) reqs = (fst (insert_t tolv t reqs), 0%nat).
Proof. intro Hne. apply insert_present_noop. intros x Hx. apply insert_requests_present; assumption. Qed.

End Tol.
